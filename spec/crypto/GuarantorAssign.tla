--------------------------- MODULE GuarantorAssign ---------------------------
(* MC model for the guarantor assignment (GP 11.19-11.20, ShuffleDefs.Assign):     *)
(* time advances slot by slot over three epochs; at each epoch start a new          *)
(* shuffle outcome is drawn (every canonical Fisher-Yates index sequence, so every  *)
(* permutation F can produce).  Properties: the assignment is a function of         *)
(* (shuffle outcome, slot); every core holds its share floor/ceil(V/C) (exactly V/C *)
(* when C divides V); within an epoch the assignment changes only at rotation       *)
(* boundaries, where every validator moves to the next core modulo C.               *)
EXTENDS ShuffleDefs
CONSTANTS V, C, E, R, Epochs
VARIABLES t, rr, asg

Num(x) == <<x>>
Canon == {q \in [1..V -> {Num(x) : x \in 0..(V - 1)}] : \A i \in 1..V : q[i][1] < V - i + 1}
Sh(q) == F(Base(V, C), q)
Init == t = 0 /\ rr \in Canon /\ asg = Assign(Sh(rr), 0, C, R)
Tick == /\ t + 1 < Epochs * E
        /\ t' = t + 1
        /\ IF (t + 1) % E = 0 THEN rr' \in Canon ELSE rr' = rr
        /\ asg' = Assign(Sh(rr'), (t + 1) % E, C, R)
Next == Tick
vars == <<t, rr, asg>>
Spec == Init /\ [][Next]_vars

Share(c) == Cardinality({i \in 1..V : asg[i] = c})
InvRange == Len(asg) = V /\ \A i \in 1..V : asg[i] \in 0..(C - 1)
InvShare == \A c \in 0..(C - 1) : /\ Share(c) \in {V \div C, (V + C - 1) \div C}
                                  /\ (V % C = 0 => Share(c) = V \div C)
\* members of one core under the base allocation stay together (rotation is a relabelling)
InvTogether == LET sh == Sh(rr) IN \A i, j \in 1..V : (sh[i] = sh[j]) <=> (asg[i] = asg[j])
RotateByOne == [][ (t' % E # 0) =>
                     IF (t' % E) % R = 0 THEN asg' = Rot(asg, 1, C) ELSE asg' = asg ]_vars
=============================================================================

----------------------------- MODULE MMR_Trace -----------------------------
(* V-step for C19.  Events (one MMR object / belt per Reset):                       *)
(*   Reset | New | Restore count | Super want got | Append count want_peaks          *)
(*   got_peaks want_super got_super old_changed                                      *)
(* want_* are the specification's terms evaluated with real Keccak by the driver;    *)
(* an absent peak is the empty byte string.                                          *)
EXTENDS Bytes, Json, TLC
CONSTANTS TraceFile, ResultFile, KnownDeviations
VARIABLES count, l
Trace == ndJsonDeserialize(TraceFile)
e == Trace[l]
Is(name) == l <= Len(Trace) /\ e.ev = name /\ l' = l + 1

Bit(n, i) == (n \div Pow2(i)) % 2
\* peak i present exactly when bit i of the item count is set; no trailing empty slot
BitsOk(ps, n) == /\ \A i \in 1..Len(ps) : (Len(ps[i]) = 32) <=> (Bit(n, i - 1) = 1)
                 /\ \A i \in 1..Len(ps) : Len(ps[i]) \in {0, 32}
                 /\ (Len(ps) > 0 => Len(ps[Len(ps)]) = 32)
                 /\ (n > 0 => Len(ps) > 0)

TReset   == Is("Reset") /\ count' = 0
TNew     == Is("New") /\ count' = 0
TRestore == Is("Restore") /\ count' = e.count
TSuper   == Is("Super") /\ e.got_super = e.want_super /\ UNCHANGED count
TAppend  == /\ Is("Append") /\ count' = count + 1 /\ e.count = count + 1
            /\ e.got_peaks = e.want_peaks
            /\ BitsOk(e.got_peaks, count + 1)
            /\ e.got_super = e.want_super /\ Len(e.got_super) = 32
            /\ e.old_changed = 0                      \* lists handed out earlier are untouched

TraceInit == l = 1 /\ count = 0
TraceNext == TReset \/ TNew \/ TRestore \/ TSuper \/ TAppend
TraceSpec == TraceInit /\ [][TraceNext]_<<count, l>>
Report == (l = Len(Trace) + 1) => JsonSerialize(ResultFile, [n |-> l - 1, devs |-> <<>>, bad |-> <<>>])
=============================================================================

------------------------------- MODULE MC_Trie -------------------------------
(* Design check for C15 on terms: over a family of keys with long shared prefixes  *)
(* and values around the 32-byte boundary, different entry sets give different     *)
(* root terms (so a root can only collide through the hash primitive), the empty   *)
(* trie is the zero hash, and the definition takes a SET (order cannot matter).    *)
EXTENDS Trie, TLC
VARIABLES d1, d2

\* 31-byte keys built from a 3-bit pattern at the top, then a a later difference in the second byte
Key(a, z) == <<a, z>> \o Zeros(29)
KeysF == {Key(0, 0), Key(0, 1), Key(128, 0), Key(64, 0)}
ValsF == {<<>>, Rep(1, 32), Rep(1, 33)}
Family == {[k |-> k, v |-> v] : k \in KeysF, v \in ValsF}

Sets == {s \in SUBSET Family : Cardinality(s) <= 3 /\ DistinctKeys(s)}

Init == d1 \in Sets /\ d2 \in Sets
Next == UNCHANGED <<d1, d2>>
Spec == Init /\ [][Next]_<<d1, d2>>

Injective == d1 # d2 => Root(d1) # Root(d2)
EmptyIsZero == Root({}) = ZeroHash
=============================================================================

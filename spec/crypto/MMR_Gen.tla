------------------------------ MODULE MMR_Gen ------------------------------
(* G-step for C19: behaviours of MMR.tla with the expected peak and super-peak     *)
(* TERMS attached to each step (the driver evaluates them with real Keccak).       *)
EXTENDS HashTerm, SequencesExt, Json, TLC
CONSTANTS OutFile, Tier
VARIABLE x
MaxCount == 0
peaks == <<>>
count == 0
leaves == <<>>
handed == <<>>
INSTANCE MMR

RECURSIVE Steps(_, _, _)
\* k appends starting from a list r that holds n items
Steps(r, n, k) == IF k = 0 THEN <<>>
                  ELSE LET r2 == A(r, LeafOf(n + 1))
                       IN <<[ev |-> "Append", count |-> n + 1, leaf |-> LeafOf(n + 1), want_peaks |-> r2, want_super |-> MR(r2)]>>
                          \o Steps(r2, n + 1, k - 1)
\* the same with the all-zero hash as the item at the positions zs (an item is any 32-byte value: a slot holding the
\* zero hash is occupied, not empty)
RECURSIVE StepsZ(_, _, _, _)
StepsZ(r, n, k, zs) == IF k = 0 THEN <<>>
                       ELSE LET lf == IF (n + 1) \in zs THEN ZeroHash ELSE LeafOf(n + 1)
                                r2 == A(r, lf)
                            IN <<[ev |-> "Append", count |-> n + 1, leaf |-> lf, want_peaks |-> r2, want_super |-> MR(r2)]>>
                               \o StepsZ(r2, n + 1, k - 1, zs)
FreshZ(k, zs) == <<[ev |-> "New"], [ev |-> "Super", want_super |-> MR(<<>>)]>> \o StepsZ(<<>>, 0, k, zs)
ZeroSets == {{1}, {2}, {1, 2}, {3}, {4}, {1, 3, 5, 7}, {5, 6}, 1..9}
Fresh(k) == <<[ev |-> "New"], [ev |-> "Super", want_super |-> MR(<<>>)]>> \o Steps(<<>>, 0, k)
Restored(n, k) == LET r == PeaksAfter(n)
                  IN <<[ev |-> "Restore", count |-> n, peaks |-> r], [ev |-> "Super", want_super |-> MR(r)]>> \o Steps(r, n, k)

QuickPoints == {1, 2, 3, 4, 5, 7, 8, 11, 12, 16, 31, 32, 33}
MorePoints == {63, 64, 65, 100, 127, 128, 129, 255, 256, 257}
Scripts == {Fresh(IF Tier = "thorough" THEN 300 ELSE 80)}
           \cup {FreshZ(9, zs) : zs \in ZeroSets}
           \cup {Restored(255, 3), Restored(256, 2)}        \* the ninth slot (index 8) in every tier
           \cup {Restored(n, 9) : n \in QuickPoints \cup (IF Tier = "thorough" THEN MorePoints ELSE {})}
Cases == {[api |-> a, script |-> s] : a \in {"mmr", "belt"}, s \in Scripts}
ASSUME ndJsonSerialize(OutFile, SetToSeq(Cases))
GenInit == x = 0
GenNext == FALSE /\ x' = x
=============================================================================

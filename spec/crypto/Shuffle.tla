------------------------------- MODULE Shuffle -------------------------------
(* MC model for the Fisher-Yates shuffle F.1 (ShuffleDefs): for every length        *)
(* l <= MaxL and every index sequence r in (0..l-1)^l the output is a permutation   *)
(* of the input, its head is the selected element, the canonical index sequences    *)
(* (r_i < l - i) reach all l! permutations, and the byte-wise modulus agrees with    *)
(* integer arithmetic.                                                              *)
EXTENDS ShuffleDefs
CONSTANT MaxL
VARIABLES l, r

Id(n) == [i \in 1..n |-> i]
Num(x) == <<x % 256, x \div 256>>                      \* two-byte little-endian
\* the index sequence is built element by element (so that TLC's workers share the enumeration);
\* the properties speak about complete sequences (Len(r) = l)
Init == l \in 0..MaxL /\ r = <<>>
Next == Len(r) < l /\ \E x \in 0..(l - 1) : r' = Append(r, Num(x)) /\ l' = l
Spec == Init /\ [][Next]_<<l, r>>
Done == Len(r) = l

RECURSIVE Fact(_)
Fact(n) == IF n <= 1 THEN 1 ELSE n * Fact(n - 1)
Canon(n) == {rr \in [1..n -> {Num(x) : x \in 0..(n - 1)}] : \A i \in 1..n : rr[i][1] < n - i + 1}

InvPerm  == Done => LET o == F(Id(l), r) IN Len(o) = l /\ {o[i] : i \in 1..l} = 1..l
InvHead  == Done /\ l > 0 => F(Id(l), r)[1] = ModLE(r[1], l) + 1
\* shuffling a sequence with repeated elements permutes positions: same multiset
InvDup   == Done => LET s == [i \in 1..l |-> (i - 1) \div 2] IN SameMultiset(F(s, r), s)
\* adding a multiple of the remaining length to an index changes nothing
InvModInvariant == Done => LET r2 == [i \in 1..l |-> LE(r[i][1] + 65536 * 3 * (l - i + 1) + 7 * (l - i + 1), 4)]
                   IN F(Id(l), r2) = F(Id(l), r)
InvAllPerms == (Done /\ \A i \in 1..l : r[i] = Num(0)) =>
                 Cardinality({F(Id(l), rr) : rr \in Canon(l)}) = Fact(l)

ASSUME \A x \in {0, 1, 255, 256, 65535, 65536, 16777215, 16777216, 2147483647}, m \in {1, 2, 3, 7, 8, 1023, 1100, 8388607} :
          ModLE(LE(x, 4), m) = x % m
ASSUME /\ ModLE(<<255, 255, 255, 255>>, 7) = 3
       /\ ModLE(<<255, 255, 255, 255>>, 1023) = 3
       /\ ModLE(<<255, 255, 255, 255>>, 1100) = 795
       /\ ModLE(<<0, 0, 0, 128>>, 1000) = 648          \* 2^31 = 2147483648
=============================================================================

----------------------------- MODULE Shuffle_Gen -----------------------------
(* G-step for C20 (inputs and oracle-table QUERIES only; expectations are computed  *)
(* by Shuffle_Trace).                                                               *)
(*  fy      s, r            FisherYatesShuffle on explicit 32-bit index sequences    *)
(*  nseq    h, l, queries   numericSequenceFromHash                                  *)
(*  shuffle h, s, queries   Shuffle                                                  *)
(*  rot     C, in, n        rotateCores                                              *)
(*  assign  V C E R, epochs [e, queries, slots]   permute / NewGuranatorAssignments  *)
(* `queries` = ShuffleDefs.HashQueries: the BLAKE2b inputs F.2 needs; the driver     *)
(* answers them with the real primitive.                                             *)
EXTENDS ShuffleDefs, SequencesExt, Json
CONSTANTS OutFile, Tier, Seed
VARIABLE x

Thorough == Tier = "thorough"
Ent(a, b) == [i \in 1..32 |-> (Seed * 131 + a * 31 + b * 7 + i * 13 + i * i * 3) % 256]
N32(v) == LE(v, 4)

\* ---- fy: every index sequence for small lengths; 32-bit boundary values; surplus indices
SmallL == IF Thorough THEN 5 ELSE 4
Vals(l) == [i \in 1..l |-> 10 * i + 1]
FySmall == {[kind |-> "fy", s |-> Vals(Len(q)), r |-> [i \in 1..Len(q) |-> N32(q[i])]] : q \in UNION {[1..n -> 0..(n - 1)] : n \in 0..SmallL}}
Big == << <<255, 255, 255, 255>>, <<0, 0, 0, 128>>, <<255, 255, 255, 127>>, <<1, 0, 0, 128>>, <<0, 0, 0, 0>>, <<254, 255, 255, 255>>, <<0, 0, 1, 0>>, <<255, 255, 0, 0>> >>
FyBig == {[kind |-> "fy",
           s |-> IF d = 0 THEN Vals(l) ELSE [i \in 1..l |-> (i - 1) \div 3],
           r |-> [i \in 1..(l + extra) |-> IF (i + k) % 3 = 0 THEN N32((l + 1) * ((i + k) % 5) + ((i * 7 + k) % (l + 2)))
                                           ELSE Big[((i + k) % 8) + 1]]]
          : l \in {1, 2, 3, 7, 8, 9, 33, 100} \cup (IF Thorough THEN {255, 256, 1023, 1100} ELSE {}), k \in 0..(IF Thorough THEN 7 ELSE 2), d \in {0, 1}, extra \in {0, 3}}

\* ---- nseq / shuffle
Lens == IF Thorough THEN 0..1100
        ELSE (0..26) \cup {31, 32, 33, 63, 64, 65, 127, 128, 129, 255, 256, 257, 341, 1023, 1100}
NseqLens == IF Thorough THEN (0..72) \cup {n \in 73..1100 : n % 64 \in {0, 1, 63}} \cup {1023, 1100} ELSE Lens
NseqCases == {[kind |-> "nseq", h |-> Ent(l, 1), l |-> l, queries |-> HashQueries(Ent(l, 1), l)] : l \in NseqLens}
             \cup {[kind |-> "nseq", h |-> hh, l |-> 20, queries |-> HashQueries(hh, 20)] : hh \in {Zeros(32), Rep(255, 32)}}
Input(l, d) == CASE d = 0 -> [i \in 1..l |-> i - 1]
                 [] d = 1 -> [i \in 1..l |-> (i - 1) \div 3]
                 [] d = 2 -> [i \in 1..l |-> 2147483647 - i]
ShufflePairs == {p \in Lens \X {0, 1, 2} : IF Thorough THEN p[2] = 0 ELSE (p[1] <= 1000 \/ p[2] # 2)}
ShuffleCases == {[kind |-> "shuffle", h |-> Ent(p[1], 2 + p[2]), s |-> Input(p[1], p[2]), queries |-> HashQueries(Ent(p[1], 2 + p[2]), p[1])]
                 : p \in ShufflePairs}
                \cup {[kind |-> "shuffle", h |-> Ent(l, 7 + d), s |-> Input(l, d), queries |-> HashQueries(Ent(l, 7 + d), l)]
                      : l \in {5, 6, 31, 32, 33} \cup (IF Thorough THEN {1023} ELSE {}), d \in {1, 2}}

\* ---- rot
RotCases == {[kind |-> "rot", C |-> c, in |-> [i \in 1..(2 * c + 1) |-> (i * 5) % c], n |-> n]
             : c \in {1, 2, 3, 341}, n \in {0, 1, 2, 340, 341, 342, 1000}}

\* ---- assign: windows of consecutive slots t = hi * 65536 + lo (4-byte little-endian), cut into epochs
T(hi, lo) == <<lo % 256, lo \div 256, hi % 256, hi \div 256>>
\* slots lo..lo+n-1 grouped by epoch (t div E is constant inside a group; groups are maximal)
RECURSIVE Groups(_, _, _, _, _)
Groups(hi, lo, n, E, acc) ==
  IF n = 0 THEN acc
  ELSE LET t == T(hi, lo)
           startsEpoch == ModLE(t, E) = 0
       IN IF acc = <<>> \/ startsEpoch
          THEN Groups(hi, lo + 1, n - 1, E, Append(acc, <<t>>))
          ELSE Groups(hi, lo + 1, n - 1, E, [acc EXCEPT ![Len(acc)] = Append(@, t)])
Keep(slots, E, R, sparse) ==
  IF ~sparse THEN slots
  ELSE SelectSeq(slots, LAMBDA t : LET m == ModLE(t, E) IN m % R \in {0, R - 1} \/ m >= E - 2 \/ m <= 1)
\* after the first epoch group the same slots are asked again under a DIFFERENT entropy and then once more under the
\* first one (an implementation must not key anything on the epoch or slot alone)
\* t - k on little-endian bytes (callers make sure t >= k)
RECURSIVE SubLE(_, _)
SubLE(b, k) == IF k = 0 \/ b = <<>> THEN b
               ELSE LET d == b[1] - (k % 256) IN
                    IF d >= 0 THEN <<d>> \o SubLE(Tail(b), k \div 256) ELSE <<d + 256>> \o SubLE(Tail(b), (k \div 256) + 1)
\* for every slot t the slot t - R of the previous rotation (what G* is computed for), <<>> when t < R
Stars(slots, R) == [i \in 1..Len(slots) |-> LET t == slots[i] IN
                      IF t[3] = 0 /\ t[4] = 0 /\ t[1] + 256 * t[2] < R THEN <<>> ELSE SubLE(t, R)]
AssignCase(V, C, E, R, hi, lo, n, sparse, tag) ==
  LET gs == Groups(hi, lo, n, E, <<>>)
      Grp(g) == LET e == Ent(V + hi, g + tag) IN [e |-> e, queries |-> HashQueries(e, V), slots |-> Keep(gs[g], E, R, sparse)]
      main == [g \in 1..Len(gs) |-> Grp(g)]
      first == main[1].slots
      e2 == Ent(V + hi, 50 + tag)
      alt == [e |-> e2, queries |-> HashQueries(e2, V), slots |-> SubSeq(first, 1, Min2(3, Len(first)))]
      back == [e |-> main[1].e, queries |-> main[1].queries, slots |-> SubSeq(first, 1, Min2(2, Len(first)))]
      eps == <<main[1], alt, back>> \o SubSeq(main, 2, Len(main))
  IN [kind |-> "assign", V |-> V, C |-> C, E |-> E, R |-> R, tag |-> tag,
      epochs |-> [g \in 1..Len(eps) |-> [e |-> eps[g].e, queries |-> eps[g].queries, slots |-> eps[g].slots, stars |-> Stars(eps[g].slots, R)]]]
AssignCases ==
  IF Thorough THEN
    {AssignCase(6, 2, 12, 4, hi, 0, 36 + 5, FALSE, 1) : hi \in {0, 32767, 32768, 65535}}
    \cup {AssignCase(1023, 341, 600, 10, 0, 100, 1800 + 3, FALSE, 2), AssignCase(1023, 341, 600, 10, 32768, 0, 1300, TRUE, 6)}
    \cup {AssignCase(12, 4, 10, 3, 0, 0, 35, FALSE, 3), AssignCase(7, 3, 5, 2, 1, 0, 20, FALSE, 4),
          AssignCase(1023, 341, 600, 10, 65535, 0, 1300, TRUE, 5)}
  ELSE
    {AssignCase(6, 2, 12, 4, hi, 0, 36 + 5, FALSE, 1) : hi \in {0, 32768}}
    \cup {AssignCase(1023, 341, 600, 10, 0, 560, 75, TRUE, 2), AssignCase(1023, 341, 600, 10, 65535, 300, 45, TRUE, 5),
          AssignCase(7, 3, 5, 2, 1, 0, 12, FALSE, 4)}

Cases == SetToSeq(FySmall) \o SetToSeq(FyBig) \o SetToSeq(NseqCases) \o SetToSeq(ShuffleCases) \o SetToSeq(RotCases) \o SetToSeq(AssignCases)
ASSUME ndJsonSerialize(OutFile, Cases)
GenInit == x = 0
GenNext == FALSE /\ x' = x
=============================================================================

--------------------------- MODULE MerkleTree_Gen ---------------------------
(* G-step for C18: cases with the expected TERMS of N, M_B, M, C, T, J_x, L_x.     *)
EXTENDS MerkleTree, Json, TLC
CONSTANTS OutFile, Tier
VARIABLE xx

\* element k (0-based) of pattern p: descriptor for the driver and term for the spec
Desc(p, k) == IF p = "mixed" /\ k % 5 = 0 THEN [kind |-> "nil", b |-> <<>>]
              ELSE IF p = "mixed" /\ k % 5 = 1 THEN [kind |-> "empty", b |-> <<>>]
              ELSE IF p = "mixed" /\ k % 3 = 0 THEN [kind |-> "blob", b |-> [j \in 1..32 |-> (k + j) % 256]]
              ELSE IF p = "mixed" /\ k % 3 = 1 THEN [kind |-> "blob", b |-> [j \in 1..40 |-> (k * 7 + j) % 256]]
              ELSE [kind |-> "blob", b |-> <<k % 256, k \div 256>>]
Els(p, n) == [k \in 1..n |-> Desc(p, k - 1)]
Terms(els) == [k \in 1..Len(els) |-> Lit(els[k].b)]

Lens == IF Tier = "thorough" THEN 0..70 ELSE {0, 1, 2, 3, 4, 5, 6, 7, 8, 9, 11, 16, 17, 31, 33, 64, 65, 70}
Pats == {"plain", "mixed"}
Hs == {"b2b", "kec"}

Roots == {[kind |-> "roots", n |-> n, pat |-> p, h |-> h, els |-> Els(p, n),
           want |-> [N |-> N(Terms(Els(p, n)), h), Mb |-> Mb(Terms(Els(p, n)), h), M |-> M(Terms(Els(p, n)), h)],
           wantC |-> C(Terms(Els(p, n)), h)] : n \in Lens, p \in Pats, h \in Hs}
TraceIdx(n) == IF Tier = "thorough" THEN 0..(n - 1) ELSE {j \in 0..(n - 1) : j < 3 \/ j > n - 3 \/ j = n \div 2 \/ j = (n + 1) \div 2}
Traces == {[kind |-> "trace", n |-> n, pat |-> p, h |-> "b2b", idx |-> i, els |-> Els(p, n),
            wantT |-> T(Terms(Els(p, n)), i, "b2b")] : p \in Pats, n \in Lens \ {0}, i \in 0..70} 
TracesF == {c \in Traces : c.idx \in TraceIdx(c.n)}
Xs == 0..6
Pages == {[kind |-> "page", n |-> n, pat |-> "mixed", h |-> "b2b", idx |-> i, x |-> x, els |-> Els("mixed", n),
           wantJ |-> Jx(x, Terms(Els("mixed", n)), i, "b2b"), wantL |-> Lx(x, Terms(Els("mixed", n)), i, "b2b"),
           want |-> [M |-> M(Terms(Els("mixed", n)), "b2b")]]
          : n \in Lens, x \in Xs, i \in 0..70}
PagesF == {c \in Pages : c.idx * Pow2(c.x) < Max2(1, c.n) /\ (Tier = "thorough" \/ c.idx < 2 \/ (c.idx + 1) * Pow2(c.x) >= c.n)}

\* (14.10) paged proofs: one page per 64 exported segments, ceil(n / 64) pages (none for no exports)
PageCounts == {[kind |-> "pagecount", n |-> n, pat |-> "plain", h |-> "b2b", idx |-> 0, x |-> 6, els |-> <<>>,
                wantPages |-> (n + 63) \div 64] : n \in {0, 1, 2, 63, 64, 65, 127, 128, 129, 192, 200}}

Cases == Roots \cup TracesF \cup PagesF \cup PageCounts
ASSUME ndJsonSerialize(OutFile, SetToSeq(Cases))
GenInit == xx = 0
GenNext == FALSE /\ xx' = xx
=============================================================================

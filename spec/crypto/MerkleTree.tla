----------------------------- MODULE MerkleTree -----------------------------
(* Gray Paper E.1: well-balanced (N, M_B) and constant-depth (C, M) binary Merkle  *)
(* functions, traces T and paged justifications J_x / L_x, on hash terms.  The     *)
(* hash function is a parameter of every operator ("b2b" or "kec").  Property C18. *)
EXTENDS HashTerm, SequencesExt

Hh(h, x) == IF h = "kec" THEN Kec(x) ELSE B2b(x)
Half(n) == (n + 1) \div 2                      \* ceil(n / 2): every split in E.1 is here

RECURSIVE N(_, _)
N(v, h) == IF Len(v) = 0 THEN ZeroHash
           ELSE IF Len(v) = 1 THEN v[1]
           ELSE Hh(h, Cat(<<Str("node"), N(SubSeq(v, 1, Half(Len(v))), h), N(SubSeq(v, Half(Len(v)) + 1, Len(v)), h)>>))

Mb(v, h) == IF Len(v) = 1 THEN Hh(h, v[1]) ELSE N(v, h)

\* T(v, i): i is 0-based; the siblings from the root down
RECURSIVE T(_, _, _)
T(v, i, h) == IF Len(v) <= 1 THEN <<>>
              ELSE LET m == Half(Len(v)) IN
                   IF i < m THEN <<N(SubSeq(v, m + 1, Len(v)), h)>> \o T(SubSeq(v, 1, m), i, h)
                   ELSE <<N(SubSeq(v, 1, m), h)>> \o T(SubSeq(v, m + 1, Len(v)), i - m, h)

LeafHash(x, h) == Hh(h, Cat(<<Str("leaf"), x>>))
RECURSIVE NextPow2(_, _)
NextPow2(n, p) == IF p >= n THEN p ELSE NextPow2(n, 2 * p)
C(v, h) == LET sz == NextPow2(Len(v), 1) IN [i \in 1..sz |-> IF i <= Len(v) THEN LeafHash(v[i], h) ELSE ZeroHash]
M(v, h) == N(C(v, h), h)

RECURSIVE CeilLog2(_, _)
CeilLog2(n, k) == IF Pow2(k) >= n THEN k ELSE CeilLog2(n, k + 1)
Jx(x, v, i, h) == LET depth == CeilLog2(Max2(1, Len(v)), 0)
                      keep == Max2(0, depth - x)
                      full == T(C(v, h), Pow2(x) * i, h)
                  IN SubSeq(full, 1, Min2(keep, Len(full)))
Lx(x, v, i, h) == LET lo == Pow2(x) * i
                      hi == Min2(lo + Pow2(x), Len(v))
                  IN [j \in 1..Max2(0, hi - lo) |-> LeafHash(v[lo + j], h)]

\* ---- reconstruction (what a verifier does); used for the design invariants ----
RECURSIVE Recon(_, _, _, _, _)
\* root of a tree of n elements from element i's value `leaf` and its trace `path`
Recon(n, i, path, leaf, h) ==
  IF n <= 1 THEN leaf
  ELSE LET m == Half(n) IN
       IF i < m THEN Hh(h, Cat(<<Str("node"), Recon(m, i, Tail(path), leaf, h), Head(path)>>))
       ELSE Hh(h, Cat(<<Str("node"), Head(path), Recon(n - m, i - m, Tail(path), leaf, h)>>))
TraceFolds(v, i, h) == Recon(Len(v), i, T(v, i, h), v[i + 1], h) = N(v, h)

\* page i of size 2^x: its 2^x padded leaves hash to a subtree root that, folded with J_x, gives M(v)
RECURSIVE ReconPage(_, _, _, _, _)
ReconPage(depth, idx, path, node, h) ==     \* idx = page index, path from the root down, depth = Len(path)
  IF depth = 0 THEN node
  ELSE LET bit == (idx \div Pow2(depth - 1)) % 2 IN
       IF bit = 0 THEN Hh(h, Cat(<<Str("node"), ReconPage(depth - 1, idx % Pow2(depth - 1), Tail(path), node, h), Head(path)>>))
       ELSE Hh(h, Cat(<<Str("node"), Head(path), ReconPage(depth - 1, idx % Pow2(depth - 1), Tail(path), node, h)>>))
PageFolds(x, v, i, h) ==
  LET c == C(v, h)
      sz == Min2(Pow2(x), Len(c))
      page == SubSeq(c, sz * i + 1, sz * i + sz)
      j == Jx(x, v, i, h)
  IN ReconPage(Len(j), i, j, N(page, h), h) = M(v, h)
=============================================================================

-------------------------------- MODULE MMR --------------------------------
(* Gray Paper E.2 (E.8-E.10): Merkle mountain range append A and super-peak M_R,   *)
(* on hash terms (Keccak-256).  Property C19.                                      *)
EXTENDS HashTerm, SequencesExt

None == [t |-> "none"]                          \* an empty peak slot

Merge(a, b) == Kec(Cat(<<a, b>>))

\* R(s, i, v): s except s[i] = v     (1-based)
Repl(s, i, v) == [j \in 1..Len(s) |-> IF j = i THEN v ELSE s[j]]

RECURSIVE P(_, _, _)
P(r, l, n) == IF n > Len(r) THEN Append(r, l)
              ELSE IF r[n] = None THEN Repl(r, n, l)
              ELSE P(Repl(r, n, None), Merge(r[n], l), n + 1)
A(r, l) == P(r, l, 1)

RECURSIVE MRh(_)
NonEmpty(b) == SelectSeq(b, LAMBDA p : p # None)
MRh(h) == IF Len(h) = 0 THEN ZeroHash
          ELSE IF Len(h) = 1 THEN h[1]
          ELSE Kec(Cat(<<Str("peak"), MRh(SubSeq(h, 1, Len(h) - 1)), h[Len(h)]>>))
MR(b) == MRh(NonEmpty(b))

\* ---- the append-only machine ----
CONSTANTS MaxCount
VARIABLES peaks, count, leaves, handed
vars == <<peaks, count, leaves, handed>>

LeafOf(i) == B2b(Lit(<<i % 256, i \div 256>>))      \* the i-th appended item (a 32-byte hash term)

RECURSIVE PeaksAfter(_)
PeaksAfter(n) == IF n = 0 THEN <<>> ELSE A(PeaksAfter(n - 1), LeafOf(n))

Init == \E n \in 0..MaxCount :                      \* fresh (n = 0) or restored from a state with n items
          peaks = PeaksAfter(n) /\ count = n /\ leaves = [i \in 1..n |-> LeafOf(i)] /\ handed = <<>>
AppendOne == /\ count < MaxCount
             /\ peaks' = A(peaks, LeafOf(count + 1))
             /\ count' = count + 1
             /\ leaves' = Append(leaves, LeafOf(count + 1))
             /\ handed' = Append(handed, peaks')
Next == AppendOne
Spec == Init /\ [][Next]_vars

\* ---- properties (statement of C19) ----
Bit(n, i) == (n \div Pow2(i)) % 2
\* peak i (0-based) is present exactly when bit i of the item count is set, and no trailing empty slots
BitInv == /\ \A i \in 1..Len(peaks) : (peaks[i] # None) <=> (Bit(count, i - 1) = 1)
          /\ (Len(peaks) > 0 => peaks[Len(peaks)] # None)
\* balanced Keccak merge of a power-of-two run of items
RECURSIVE Balanced(_)
Balanced(s) == IF Len(s) = 1 THEN s[1]
               ELSE Merge(Balanced(SubSeq(s, 1, Len(s) \div 2)), Balanced(SubSeq(s, Len(s) \div 2 + 1, Len(s))))
\* start (exclusive) of the run of peak i: items of all higher set bits come first
RunStart(i) == LET higher == {j \in (i + 1)..Len(peaks) : Bit(count, j - 1) = 1}
               IN IF higher = {} THEN 0 ELSE FoldSet(LAMBDA j, acc : acc + Pow2(j - 1), 0, higher)
MergeInv == \A i \in 1..Len(peaks) :
              peaks[i] # None => peaks[i] = Balanced(SubSeq(leaves, RunStart(i) + 1, RunStart(i) + Pow2(i - 1)))
\* lists handed out earlier never change
HandedStable == [][\A i \in 1..Len(handed) : handed'[i] = handed[i]]_vars
=============================================================================

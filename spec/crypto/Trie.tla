-------------------------------- MODULE Trie --------------------------------
(* Gray Paper Appendix D (D.3-D.6): the binary Patricia-Merkle trie root of a set   *)
(* of (31-byte key, value) entries, as a hash TERM.  Property C15.                  *)
EXTENDS HashTerm, FiniteSets

\* bit i (0 = most significant bit of the first byte) of key k
KeyBit(k, i) == (k[(i \div 8) + 1] \div Pow2(7 - (i % 8))) % 2

\* L(k, v): embedded leaf when |v| <= 32, hashed leaf otherwise (64 bytes before hashing)
Leaf(k, v) ==
  IF Len(v) <= 32
  THEN Lit(<<128 + Len(v)>> \o k \o v \o Zeros(32 - Len(v)))
  ELSE Cat(<<Lit(<<192>> \o k), B2b(Lit(v))>>)

\* B(l, r): left hash with its first bit cleared, then the right hash
Branch(l, r) == Cat(<<ClrTop(l), r>>)

RECURSIVE M(_, _)
\* d: set of records [k, v] with pairwise distinct keys; i: current bit depth
M(d, i) ==
  IF d = {} THEN ZeroHash
  ELSE IF Cardinality(d) = 1 THEN LET e == CHOOSE x \in d : TRUE IN B2b(Leaf(e.k, e.v))
  ELSE B2b(Branch(M({e \in d : KeyBit(e.k, i) = 0}, i + 1), M({e \in d : KeyBit(e.k, i) = 1}, i + 1)))

Root(d) == M(d, 0)

DistinctKeys(d) == \A a, b \in d : a.k = b.k => a = b
=============================================================================

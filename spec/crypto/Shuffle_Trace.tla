---------------------------- MODULE Shuffle_Trace ----------------------------
(* V-step for C20.  Records (harness/shuffle):                                      *)
(*   fy      s r got                 FisherYatesShuffle(s, r); r = 4-byte LE numbers *)
(*   nseq    h l tab got             numericSequenceFromHash(h, l); got = 4-byte LE  *)
(*   shuffle h s tab got             Shuffle(s, h)                                   *)
(*   rot     C in n got              rotateCores(in, n) with CoresCount = C          *)
(*   Params  V C E R                 protocol constants for the following records    *)
(*   Epoch   e tab                   epoch entropy; sets the shuffled base           *)
(*   Slot    t permute again nga pk off                                              *)
(*           permute / again = permute(e, t) before / after other calls;             *)
(*           tstar / star = slot t - R and permute(e, t - R) called right after, for G-star;  *)
(*           held_permute / held_star / held_nga = the returned slices re-read after   *)
(*           every call of the epoch group has been made;                             *)
(*           nga = NewGuranatorAssignments(e, t, validators).CoreAssignments;        *)
(*           pk[i] = 1 validator i returned unchanged, 0 zeroed, 2 anything else;    *)
(*           off = indices of validators whose key is in the offenders mark          *)
(* tab = oracle table <<BLAKE2b input, output>> obtained by the driver with the      *)
(* real primitive for ShuffleDefs.HashQueries; everything else (which input for      *)
(* which index, LE32 decoding, mod, the F recursion, base allocation, rotation) is   *)
(* recomputed here.  A table miss stops TLC with an Assert (infrastructure error).   *)
(* Every line is judged on its own against the last Params/Epoch lines; in addition  *)
(* consecutive slots of one epoch must differ by exactly one rotation step at        *)
(* rotation boundaries and not at all otherwise.  The permutation property of long   *)
(* outputs (> 64 elements) is evaluated only when the output differs from F (an       *)
(* output equal to F's is a permutation by the model-checked InvPerm / InvDup).       *)
EXTENDS ShuffleDefs, Json, SequencesExt
CONSTANTS TraceFile, ResultFile, KnownDeviations
VARIABLES l, devs, bad, par, sh, last

Trace == ndJsonDeserialize(TraceFile)
Why(c, s) == IF c THEN {s} ELSE {}

JudgeFy(e) ==
  IF e.panic = 1 THEN {"panic:FisherYatesShuffle"}
  ELSE LET want == F(e.s, e.r) IN
       Why(e.got # want, "fisher_yates_differs_from_F1")
       \cup Why((Len(e.s) <= 64 \/ e.got # want) /\ ~SameMultiset(e.got, e.s), "output_not_a_permutation")

JudgeNseq(e) ==
  IF e.panic = 1 THEN {"panic:numericSequenceFromHash"}
  ELSE Why(e.got # Q(e.h, e.l, e.tab), "numeric_sequence_differs_from_F2")

JudgeShuffle(e) ==
  IF e.panic = 1 THEN {"panic:Shuffle"}
  ELSE LET want == ShuffleH(e.s, e.h, e.tab) IN
       Why(e.got # want, "shuffle_differs_from_F3")
       \cup Why((Len(e.s) <= 64 \/ e.got # want) /\ ~SameMultiset(e.got, e.s), "output_not_a_permutation")

JudgeRot(e) ==
  IF e.panic = 1 THEN {"panic:rotateCores"}
  ELSE Why(e.got # Rot(e.in, e.n, e.C), "rotation_differs_from_R")

\* t + 1 on little-endian bytes (no wrap beyond the given width: then no successor)
RECURSIVE IncLE(_)
IncLE(b) == IF b = <<>> THEN <<>> ELSE IF Head(b) < 255 THEN <<Head(b) + 1>> \o Tail(b) ELSE <<0>> \o IncLE(Tail(b))

JudgeSlot(e) ==
  LET tE   == ModLE(e.t, par.E)
      want == Assign(sh, tE, par.C, par.R)
  IN IF e.panic = 1 THEN {"panic:assignment"}
     ELSE Why(e.permute # want, "permute_differs_from_P")
          \cup Why(e.nga # want, "NewGuranatorAssignments_differs_from_P")
          \cup Why(e.again # e.permute, "assignment_not_deterministic")
          \cup Why(Len(e.tstar) > 0 /\ e.star # Assign(sh, ModLE(e.tstar, par.E), par.C, par.R), "permute_for_the_previous_rotation_differs_from_P")
          \cup Why(e.held_permute # want \/ e.held_nga # want \/ (Len(e.tstar) > 0 /\ e.held_star # Assign(sh, ModLE(e.tstar, par.E), par.C, par.R)),
                   "assignment_changed_by_later_calls")
          \cup Why((par.V <= 64 \/ tE = 0) /\ \E c \in 0..(par.C - 1) : CountOf(e.permute, c) \notin {par.V \div par.C, (par.V + par.C - 1) \div par.C}, "core_share_wrong")
          \cup Why(Len(e.pk) # par.V \/ \E i \in 1..Min2(Len(e.pk), par.V) : e.pk[i] # (IF (i - 1) \in ToSet(e.off) THEN 0 ELSE 1), "offender_keys_not_replaced_per_Phi")
          \cup (IF last.ok /\ e.t = IncLE(last.t) /\ tE # 0 /\ Len(e.permute) = Len(last.got)
                THEN Why(e.permute # (IF tE % par.R = 0 THEN Rot(last.got, 1, par.C) ELSE last.got), "rotation_not_one_core_per_period")
                ELSE {})

Judge(e) == CASE e.ev = "fy"      -> JudgeFy(e)
              [] e.ev = "nseq"    -> JudgeNseq(e)
              [] e.ev = "shuffle" -> JudgeShuffle(e)
              [] e.ev = "rot"     -> JudgeRot(e)
              [] e.ev = "Slot"    -> JudgeSlot(e)
              [] e.ev \in {"Params", "Epoch"} -> {}
              [] OTHER            -> {"unknown_event"}

NoLast == [ok |-> FALSE, t |-> <<>>, got |-> <<>>]
Init == l = 1 /\ devs = {} /\ bad = {} /\ par = [V |-> 0, C |-> 1, E |-> 1, R |-> 1] /\ sh = <<>> /\ last = NoLast
Next == /\ l <= Len(Trace)
        /\ LET e == Trace[l] IN
           /\ par' = IF e.ev = "Params" THEN [V |-> e.V, C |-> e.C, E |-> e.E, R |-> e.R] ELSE par
           /\ sh' = IF e.ev = "Epoch" THEN ShuffleH(Base(par.V, par.C), e.e, e.tab) ELSE sh
           /\ last' = IF e.ev = "Slot" THEN [ok |-> e.panic = 0, t |-> e.t, got |-> e.permute]
                      ELSE IF e.ev \in {"Params", "Epoch"} THEN NoLast ELSE last
           /\ bad' = bad \cup {[l |-> l, why |-> y] : y \in Judge(e)}
        /\ devs' = devs
        /\ l' = l + 1
TraceSpec == Init /\ [][Next]_<<l, devs, bad, par, sh, last>>

Report == (l = Len(Trace) + 1) =>
  JsonSerialize(ResultFile, [n |-> l - 1, devs |-> SetToSeq(devs), bad |-> SetToSeq(bad)])
=============================================================================

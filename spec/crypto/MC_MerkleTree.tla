---------------------------- MODULE MC_MerkleTree ----------------------------
(* Design check for C18 on terms: for every length 0..MaxLen, every index and every  *)
(* page size, a trace folds back to the root, a paged justification plus its page    *)
(* rebuilds M(v), and changing one element changes both roots.                       *)
EXTENDS MerkleTree, TLC
CONSTANT MaxLen
VARIABLES n, i, x

El(k) == Lit(<<k>>)
V(len) == [k \in 1..len |-> El(k)]
VChanged(len, at) == [k \in 1..len |-> IF k = at THEN Lit(<<k, 255>>) ELSE El(k)]

Init == n \in 0..MaxLen /\ i \in 0..Max2(0, n - 1) /\ x \in 0..6
Next == UNCHANGED <<n, i, x>>
Spec == Init /\ [][Next]_<<n, i, x>>

InvTrace == n >= 1 => TraceFolds(V(n), i, "b2b")
InvPage == (n >= 1 /\ i * Pow2(x) < n) => PageFolds(x, V(n), i, "b2b")
InvSensitive == n >= 1 => /\ N(V(n), "b2b") # N(VChanged(n, i + 1), "b2b")
                          /\ M(V(n), "b2b") # M(VChanged(n, i + 1), "b2b")
                          /\ Mb(V(n), "kec") # Mb(VChanged(n, i + 1), "kec")
InvJLen == Len(Jx(x, V(n), 0, "b2b")) = Max2(0, CeilLog2(Max2(1, n), 0) - x)
=============================================================================

----------------------------- MODULE Trie_Trace -----------------------------
(* V-step for C15: record = {id, n, want:[32], got:[[32]..]} where want is the     *)
(* specification's root term evaluated with real BLAKE2b and got are the roots the *)
(* implementation returned for several permutations of the same entries.           *)
EXTENDS Bytes, Json, TLC, SequencesExt
CONSTANTS TraceFile, ResultFile, KnownDeviations
VARIABLES l, devs, bad
Trace == ndJsonDeserialize(TraceFile)

Ok(e) == /\ Len(e.want) = 32
         /\ \A i \in 1..Len(e.got) : e.got[i] = e.want

Init == l = 1 /\ devs = {} /\ bad = {}
Next == /\ l <= Len(Trace)
        /\ bad' = IF Ok(Trace[l]) THEN bad ELSE bad \cup {[l |-> l, why |-> "root_differs_from_spec"]}
        /\ devs' = devs
        /\ l' = l + 1
TraceSpec == Init /\ [][Next]_<<l, devs, bad>>
Report == (l = Len(Trace) + 1) =>
  JsonSerialize(ResultFile, [n |-> l - 1, devs |-> SetToSeq(devs), bad |-> SetToSeq(bad)])
=============================================================================

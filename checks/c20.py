"""C20 — shuffle and guarantor assignment.
MC: Shuffle.tla (F.1 is a permutation for every index sequence of length <= MaxL, canonical sequences reach all l!
    permutations, byte-wise modulus = integer modulus) and GuarantorAssign.tla (slot-by-slot model over three epochs:
    share per core, rotation by one core per period as an action property).
G: Shuffle_Gen (explicit index sequences incl. 32-bit boundary values; lengths with entropy; parameter sets with slot
   windows) together with the oracle-table queries (BLAKE2b inputs F.2 needs).
X: harness/shuffle answers the queries with real BLAKE2b and runs FisherYatesShuffle, numericSequenceFromHash, Shuffle,
   rotateCores, permute, NewGuranatorAssignments.
V: Shuffle_Trace recomputes Q_l, F and P from the table and judges every record."""
import concurrent.futures as cf
import json
import vf

FILES = {
    "internal/verifdrv/vfd/vfd.go": "vfd/vfd.go",
    "internal/verifdrv/vfd/term.go": "vfd/term.go",
    "internal/verifdrv/shuffle/shuffle_test.go": "shuffle/shuffle_test.go",
    "internal/utilities/shuffle/zz_verif_export.go": "shuffle/shuffle_export.go",
    "internal/extrinsic/zz_verif_export.go": "shuffle/extrinsic_export.go",
}


def run(ctx):
    ctx.assumptions += ["BLAKE2b-256 primitive trusted (oracle table filled by the driver with golang.org/x/crypto/blake2b for the inputs ShuffleDefs.HashQueries lists); "
                        "index selection, LE32 decoding, modulus, the F recursion, base allocation and rotation are recomputed in TLA+",
                        "FisherYatesShuffle is only called with at least as many indices as elements (Gray Paper precondition); mutation of the caller's input slice is logged, not judged",
                        "protocol constants V, C, E, R are set through the package variables of internal/types"]
    sets = [("tiny1", {"V": "6", "C": "2", "E": "12", "R": "4", "Epochs": "1"}), ("v4", {"V": "4", "C": "2", "E": "6", "R": "2", "Epochs": "3"})]
    if not ctx.quick:
        sets = [("tiny3", {"V": "6", "C": "2", "E": "12", "R": "4", "Epochs": "3"}), ("v5c2", {"V": "5", "C": "2", "E": "5", "R": "2", "Epochs": "3"}),
                ("v6c3", {"V": "6", "C": "3", "E": "6", "R": "2", "Epochs": "2"})]
    # the model-checking runs, the driver build and the generator are independent: run them side by side
    jobs = [lambda: vf.mc(ctx, "MC_Shuffle", vf.cfg_text(constants={"MaxL": "5" if ctx.quick else "6"},
                                                        invariants=["InvPerm", "InvHead", "InvDup", "InvModInvariant", "InvAllPerms"]),
                          workers=2 if ctx.quick else 6, timeout=1500, coverage=not ctx.quick)]
    for label, consts in sets:
        jobs.append(lambda label=label, consts=consts: vf.mc(
            ctx, "MC_GuarantorAssign", vf.cfg_text(constants=consts, invariants=["InvRange", "InvShare", "InvTogether"], properties=["RotateByOne"]),
            workers=2 if ctx.quick else 4, timeout=1500, label="GuarantorAssign-" + label, coverage=not ctx.quick))
    jobs.append(lambda: vf.build_driver(ctx, "shuffle", "./internal/verifdrv/shuffle", FILES))
    if not ctx.replay:
        jobs.append(lambda: vf.gen_cases(ctx, "Shuffle_Gen", {"Tier": '"%s"' % ctx.tier, "Seed": str(ctx.seed % 100000)}, timeout=1500, heap="8g"))
    with cf.ThreadPoolExecutor(max_workers=len(jobs)) as ex:
        futs = [ex.submit(j) for j in jobs]
        res = [f.result() for f in futs]
    binp = res[1 + len(sets)]
    if not ctx.quick:       # vacuity guard: the actions the properties speak about were taken
        for act in ("Next", "Tick"):
            if ctx.cov["actions"].get(act, 0) == 0:
                raise vf.Infra("model-checking coverage of action %s is 0" % act)
    if ctx.replay:
        cases = [ln for ln in vf.read_lines(ctx.replay) if '"kind"' in ln]
        if not cases:
            raise vf.Infra("replay file has no case lines")
        casep = ctx.tmp + "/cases.ndjson"
        open(casep, "w").write("\n".join(cases) + "\n")
    else:
        casep = res[-1]
    tracep = ctx.tmp + "/trace.ndjson"
    vf.run_driver(ctx, binp, "TestRun", env={"VF_CASES": casep, "VF_OUT": tracep, "VF_SEED": ctx.seed})
    lines = vf.read_lines(tracep)
    # shards: stateless records may be cut anywhere; assignment records only at Params lines
    shards, cur, weight = [], [], 0
    limit = 350000 if ctx.quick else 1500000
    for ln in lines:
        head = ln[:400]
        cut_ok = '"ev":"Slot"' not in ln and '"ev":"Epoch"' not in ln
        if cut_ok and weight > limit:
            shards.append(cur); cur, weight = [], 0
        cur.append(ln); weight += len(ln)
    if cur:
        shards.append(cur)
    ctx.cov["evaluations"] = len(lines)
    nt, samples = 0, []
    for ln in lines:
        r = json.loads(ln)
        if r["ev"] in ("fy", "shuffle") and len(r["s"]) >= 2 or r["ev"] == "nseq" and r["l"] >= 1 or r["ev"] == "Slot":
            nt += 1
        if r["ev"] in ("fy", "Slot") and len(samples) < 4 and len(ln) < 600:
            samples.append(r)
    ctx.cov["distinct_nontrivial"] = nt
    ctx.cov["rule"] = ("records = explicit Fisher-Yates calls (all index sequences of length <= 4/5, 32-bit boundary indices, surplus indices), "
                       "numeric sequences and shuffles per length (quick: 0..26 and boundary lengths to 1100; thorough: every length 0..1100) with their oracle tables, "
                       "rotateCores calls, and one Slot record per (parameter set, epoch entropy, slot); non-trivial = inputs of length >= 2 and all Slot records")
    ctx.cov["samples"] = samples
    vf.validate_trace(ctx, "Shuffle_Trace", shards, what="shuffle/assignment differs from the specification", timeout=1700, par=6 if ctx.quick else 12)
    if ctx.violations and not ctx.replay:
        cases = vf.read_lines(casep)
        for path in sorted({p for _, p in ctx.violations}):
            recs = [r for r in vf.read_lines(path) if "ev" in json.loads(r)]
            ids = sorted({json.loads(r).get("c", -1) for r in recs} - {-1})
            with open(path, "w") as f:
                for i in ids[:12]:
                    f.write(cases[i] + "\n")
                for r in recs[:20]:
                    f.write(r + "\n")

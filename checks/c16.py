"""C16 — root through the per-key leaf cache = root from scratch, over any history.
MC: StateCache (3 keys, 4 values, Cap 2): CacheSound, Bounded, RootAgrees.
G: StateCache_Gen: all (cache state, argument) pairs as two-step scripts.  T: seeded histories of 1..200
computations over <= 40 keys (same-length changes, embedded<->hashed flips, removal/re-insertion, capacity pressure).
X: harness/trie TestCache on a real ChainState.  V: StateCache_Trace."""
import json
import vf

FILES = {
    "internal/verifdrv/vfd/vfd.go": "vfd/vfd.go",
    "internal/verifdrv/vfd/term.go": "vfd/term.go",
    "internal/verifdrv/trie/trie_test.go": "trie/trie_test.go",
}


def history(rng, steps, nkeys):
    keys = []
    base = rng.bytes(31)
    while len(keys) < nkeys:
        k = list(base)
        if rng.n(3):
            bit = rng.n(248)
            k[bit // 8] ^= 1 << (7 - bit % 8)
            if rng.n(2):
                bit = 200 + rng.n(48)
                k[bit // 8] ^= 1 << (7 - bit % 8)
        else:
            k = rng.bytes(31)
        if k not in keys:
            keys.append(k)
    def val(old=None):
        r = rng.n(10)
        if old is not None and r < 3:                       # same length, different content
            v = list(old)
            if v:
                v[rng.n(len(v))] ^= 1 + rng.n(255)
            return v
        if old is not None and r < 5:                       # flip embedded <-> hashed
            return rng.bytes(rng.pick([33, 40, 64])) if len(old) <= 32 else rng.bytes(rng.pick([0, 1, 31, 32]))
        if old is not None and r < 6:                       # value extended by zero bytes / truncated
            return list(old) + [0] * rng.pick([1, 2]) if rng.n(2) else list(old)[:max(0, len(old) - 1)]
        return rng.bytes(rng.pick([0, 1, 3, 31, 32, 33, 64]))
    cur, past = {}, {}
    script = []
    for _ in range(steps):
        for _ in range(1 + rng.n(4)):
            ki = rng.n(nkeys)
            r = rng.n(10)
            if ki in cur and r < 2:
                past[ki] = cur.pop(ki)                      # removal
            elif ki not in cur and ki in past and r < 6:
                cur[ki] = past[ki]                          # re-insertion of the old value
            else:
                cur[ki] = val(cur.get(ki))
        if rng.n(25) == 0:
            script.append({"ev": "Clear"})
        script.append({"ev": "Compute", "entries": [{"k": keys[i], "v": cur[i]} for i in sorted(cur)]})
    return {"script": script}


def run(ctx):
    ctx.assumptions += ["the from-scratch root (MerklizationSerializedState) is the reference; it is tied to the Gray Paper definition by C15",
                        "the driver plays a caller that re-encodes a value of unchanged length into the buffer it handed to the previous computation (one backing array per key while the length stays the same), so a cache that retains caller slices is exposed",
                        "types.MaxKeyLevelCacheSize is lowered (2 for generated cases, 2..12 for histories) to put the cache under pressure"]
    vf.mc(ctx, "MC_StateCache", vf.cfg_text(constants={"Cap": "2"}, invariants=["CacheSound", "Bounded"], properties=["RootAgrees"],
                                            raw="CONSTANT Keys <- MCKeys\nCONSTANT Vals <- MCVals\nCONSTANT KeyLess <- IntLess"),
          workers=8, timeout=600, coverage=not ctx.quick)
    binp = vf.build_driver(ctx, "trie", "./internal/verifdrv/trie", FILES)
    runs = []   # (cap, casefile)
    if ctx.replay:
        scripts, cur = [], None
        for ln in vf.read_lines(ctx.replay):
            e = json.loads(ln)
            if e["ev"] == "Reset":
                cur = []; scripts.append(cur)
            elif cur is not None:
                cur.append({k: e[k] for k in ("ev", "entries") if k in e})
        p = ctx.tmp + "/replay-cases.ndjson"
        open(p, "w").write("\n".join(json.dumps({"script": s}) for s in scripts) + "\n")
        runs = [(c, p) for c in (2, 3, 5, 12)]
    else:
        g = vf.gen_cases(ctx, "StateCache_Gen", {"Tier": '"%s"' % ctx.tier, "Seed": str(ctx.seed % 1000)}, timeout=1500, heap="6g")
        runs.append((2, g))
        rng = vf.Rng(ctx.seed)
        for cap in (2, 3, 5, 12):
            p = ctx.tmp + "/hist-%d.ndjson" % cap
            with open(p, "w") as f:
                for _ in range(6 if ctx.quick else 150):
                    f.write(json.dumps(history(rng, 1 + rng.n(200), rng.pick([3, 8, 20, 40]))) + "\n")
            runs.append((cap, p))
    total, nscripts = 0, 0
    for i, (cap, casep) in enumerate(runs):
        tracep = ctx.tmp + "/trace-%d.ndjson" % i
        vf.run_driver(ctx, binp, "TestCache", env={"VF_CASES": casep, "VF_OUT": tracep, "VF_CAP": cap, "VF_SEED": ctx.seed, "JAM_FUZZ": "1"})
        lines = vf.read_lines(tracep)
        total += len(lines)
        nscripts += len(vf.read_lines(casep))
        target = max(4000, len(lines) // 12)
        shards, cur = [], []
        for ln in lines:
            if ln.startswith('{"ev":"Reset"') and len(cur) > target:
                shards.append(cur); cur = []
            cur.append(ln)
        if cur:
            shards.append(cur)
        if i == 0:
            ctx.cov["samples"] = [[json.loads(x) for x in lines[:4]]]
        vf.validate_trace(ctx, "StateCache_Trace", shards, constants={"Cap": str(cap)}, stateful=True,
                          what="cached state root differs from the from-scratch root (cap %d)" % cap)
    ctx.cov["evaluations"] = total
    ctx.cov["distinct_nontrivial"] = nscripts
    ctx.cov["rule"] = ("scripts = TLC-enumerated two-step (cache state, argument) cases over 3 keys x 6 values + seeded histories of 1..200 root computations; "
                       "evaluations = recorded events; distinct_nontrivial = scripts")

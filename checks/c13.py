"""C13 - decoding is strict and canonical.
MC: MC_Codec (strictness of the specified decoder on its own mutants; truncations, bad discriminators, non-minimal naturals,
    unsorted dictionaries are rejected).
G:  Codec_Gen derives, with the mutation operators of CodecMut, mutants of the encodings of the bounded generator values and of
    seeded values produced by the driver (truncate at / inside each field, discriminators 2/0x7f/0xff, length prefix +-1,
    non-minimal naturals, trailing byte, bit flips, dictionary order / duplicates, padding bits).
X:  harness/codec decodes each (DecodeWithConsumed / Message.ReadFrom / PeerInfo.UnmarshalBinary) and re-encodes what was accepted.
V:  Codec_Trace: accepted <=> Dec(Schema[type], input) accepts; consumed, value and re-encoding as specified."""
import json
import os
import sys
sys.path.insert(0, os.path.dirname(os.path.abspath(__file__)))
import vf
import codec_common as cc

CLASSES = ["valid", "trail", "trunc_at", "trunc_in", "disc", "len_pm", "len_set", "nonmin", "flip", "map_swap", "map_dup", "map_dup2", "frame_len", "frame_tag", "pad_bits"]


def run(ctx):
    ctx.assumptions += cc.ASSUMPTIONS
    ctx.assumptions.append("coverage-guided fuzzing of the decoders is replaced by the specification's structured mutation operators (DESIGN.md section 7)")
    mcjob = cc.Background(cc.mc_codec, ctx, cc.static_consts(), part="mutants")   # design check, runs next to the Go build
    binp = cc.build(ctx)
    k, reg = cc.consts(ctx, binp)
    names = cc.schema_types(ctx, k)
    if ctx.replay:
        lines = vf.read_lines(ctx.replay)
        casep = ctx.tmp + "/cases.ndjson"
        with open(casep, "w") as f:
            for ln in lines:
                r = json.loads(ln)
                f.write(json.dumps({"ty": r["ty"], "cls": r.get("cls", ""), "in": r["in"]}) + "\n")
    else:
        casep = cc.gen_cases(ctx, binp, k, names, CLASSES, tag="c13")
    tracep = ctx.tmp + "/trace.ndjson"
    lines = cc.run_dec(ctx, binp, casep, tracep)
    cc.account(ctx, lines, "mutants = spec-defined mutations of valid encodings (classes %s); non-trivial = distinct (type, input) pairs "
               "whose class is not 'valid'" % ", ".join(CLASSES), lambda r: r["cls"] != "valid")
    vf.validate_trace(ctx, "Codec_Trace", cc.shard_by_size(lines, 1200000 if ctx.quick else 2500000), constants=cc.trace_constants(k), timeout=1500, heap="3g",
                      par=6 if ctx.quick else 12, what="decoder is not strict / canonical")
    mcjob.join()

"""C28 — telemetry stream stays aligned with event IDs.
MC: Telemetry.tla, one action per critical section / atomic operation of tcp.go, writer.go,
    sequencer.go, dropranges.go; exhaustive TLC for small bounds (VIEW hides the wire history);
    liveness of Close in a separate fair configuration (thorough).
T:  harness/telemetry (in-package, tag verif, committed vtrace hooks) runs the real client over an
    in-memory connection under seeded load/faults and records hook events, wire bytes, call/return.
V:  Telemetry_Trace.tla — TraceSpec: each run is a behaviour of the model (hidden steps placed by TLC,
    never by wall clock) with all invariants true; RecvSpec: hook-free receiver oracle from wire bytes
    and returned IDs only."""
import concurrent.futures as cf
import json
import os
import re
import shutil
import vf

FILES = {"internal/telemetry/zz_verif_telemetry_test.go": "telemetry/zz_verif_telemetry_test.go"}
SAFETY = ["StreamWellFormed", "ReceiverAlignment", "FollowupSameConn", "EmitNeverWaits", "EmitNeverWaitsAfterClose",
          "AlignmentLostOnlyAfterFault", "NoRecordPanic", "QueueOrdered", "DropsOrdered"]


def mc_cfg(ne, nemits, buf, faults, fup, boom=(), invariants=SAFETY, spec="MCSpec", props=(), view=True, maxepoch=3):
    return vf.cfg_text(constants={"BufSize": buf, "MaxEpoch": maxepoch, "NEmitters": ne, "NEmits": nemits,
                                  "FupAt": "{%s}" % ",".join(map(str, fup)), "BoomAt": "{%s}" % ",".join(map(str, boom)),
                                  "MaxFaults": faults},
                       spec=spec, invariants=invariants, properties=props, view="MCView" if view else None)


def split_runs(lines):
    runs, cur = [], None
    for ln in lines:
        if ln.startswith('{"ev":"Run"'):
            cur = [ln]
            runs.append(cur)
        elif ln.startswith('{"ev":"Aborted"'):
            raise vf.Infra("driver aborted a run: " + ln)
        elif ln.startswith('{"ev":"Stopped"'):
            # the driver recorded emitters that never returned and stopped after that run (their goroutines
            # are still blocked inside the client); the recorded run itself is judged like any other
            cur = None
        elif cur is not None:
            cur.append(ln)
    return runs


def shard_runs(runs, nshards):
    """Greedy balance of whole runs over shards (runs are never cut)."""
    nshards = max(1, min(nshards, len(runs)))
    shards = [[] for _ in range(nshards)]
    sizes = [0] * nshards
    for r in sorted(runs, key=len, reverse=True):
        i = sizes.index(min(sizes))
        shards[i].append(r)
        sizes[i] += len(r)
    return [s for s in shards if s]


def tlc_trace(ctx, name, runs, spec, report, extra_inv=(), timeout=1500, heap="3g"):
    """Validate a list of runs with one TLC process.  Returns (result dict or None, TLCResult)."""
    wd = ctx.sub("val-" + name)
    vf.stage_specs(wd)
    tp = os.path.join(wd, "trace.ndjson")
    with open(tp, "w") as f:
        for r in runs:
            for ln in r:
                f.write(ln.rstrip("\n") + "\n")
    rp = os.path.join(wd, "result.json")
    cfg = vf.cfg_text(constants={"TraceFile": '"%s"' % tp, "ResultFile": '"%s"' % rp,
                                 "KnownDeviations": vf.tla_set(ctx.known_slugs())},
                      spec=spec, invariants=[report] + list(extra_inv))
    res = vf.tlc(ctx, wd, "Telemetry_Trace", cfg, workers=1, timeout=timeout, heap=heap)
    ctx.cov["states"] += res.distinct
    ctx.cov["transitions"] += res.generated
    out = None
    if os.path.exists(rp):
        out = json.load(open(rp))
        if isinstance(out, list):
            out = out[0]
    elif "Error:" in res.out and "Model checking completed" not in res.out:
        raise vf.Infra("TLC error in %s (%s):\n%s" % (spec, name, res.tail(40)))
    shutil.rmtree(wd, ignore_errors=True)
    return out, res


def high_water(ctx, name, run):
    """Re-run one rejected run with the progress invariant to find the first line no branch explains."""
    out, res = tlc_trace(ctx, name, [run], "TraceSpec", "Report", extra_inv=["Progress"])
    hw = [int(x) for x in re.findall(r'<<"HW", (\d+)>>', res.out)]
    return (max(hw) if hw else 1), out is not None


def summarize(run):
    s = {"points": len(run), "calls": 0, "accepted": 0, "queued": 0, "dropped": 0, "frames_bytes": 0,
         "dials": 0, "conns": 0, "write_fail": 0, "peer_close": 0, "bumps": 0, "gates": 0, "pops": 0}
    hdr = json.loads(run[0])
    for ln in run[1:]:
        e = json.loads(ln)
        ev = e["ev"]
        if ev == "Call":
            s["calls"] += 1
        elif ev == "Ret" and not e["inv"]:
            s["accepted"] += 1
        elif ev == "L":
            h = e["h"]
            if h.endswith(".q"):
                s["queued"] += 1
            elif h.endswith(".d"):
                s["dropped"] += 1
            elif h == "seq.bump":
                s["bumps"] += 1
            elif h == "w.pop":
                s["pops"] += 1
        elif ev == "Dial":
            s["dials"] += 1
            s["conns"] += 1 if e["ok"] else 0
        elif ev == "W":
            s["frames_bytes"] += len(e["b"])
            s["write_fail"] += 1 if e["err"] else 0
        elif ev == "ReadErr":
            s["peer_close"] += 1
        elif ev == "Gate":
            s["gates"] += 1
    s.update({"run": hdr["run"], "buf": hdr["buf"], "emitters": hdr["em"], "gomaxprocs": hdr["gmp"], "ep0": hdr["ep0"]})
    return s


def validate(ctx, runs, par, label):
    """TraceSpec + RecvSpec over all runs; records violations.  Returns number of bad runs."""
    shards = shard_runs(runs, par)
    shards2 = shard_runs(runs, max(1, par // 4))     # the receiver oracle is cheap: few, larger shards
    bad = 0

    def l1(i):
        return i, tlc_trace(ctx, "%s-l1-%d" % (label, i), shards[i], "TraceSpec", "Report")

    def l2(i):
        return i, tlc_trace(ctx, "%s-l2-%d" % (label, i), shards2[i], "RecvSpec", "RecvReport")

    with cf.ThreadPoolExecutor(max_workers=par) as ex:
        f1 = [ex.submit(l1, i) for i in range(len(shards))]
        f2 = [ex.submit(l2, i) for i in range(len(shards2))]
        r1 = [f.result() for f in f1]
        r2 = [f.result() for f in f2]
    # ---- receiver oracle (hook-free)
    for i, (out, res) in r2:
        flat = [ln for r in shards2[i] for ln in r]
        if out is None:
            raise vf.Infra("receiver oracle produced no result:\n" + res.tail(40))
        if out.get("n") != len(flat):
            raise vf.Infra("receiver oracle consumed %s of %d lines" % (out.get("n"), len(flat)))
        for b in out.get("bad", []):
            start = b["l"] - 1
            run = next(r for r in shards2[i] if r[0] == flat[start])
            ctx.violation("receiver oracle (wire bytes + returned IDs only): %s" % b["why"], run)
            bad += 1
    # ---- conformance to the model
    rejected = []
    for i, (out, res) in r1:
        n = sum(len(r) for r in shards[i])
        if out is not None and out.get("n") == n:
            ctx.cov["traces_validated_against_impl"] += len(shards[i])
            continue
        rejected.append(i)
    for i in rejected:
        if bad >= 6:      # enough located; keep the failure path bounded (the verdict is already 1)
            ctx.violation("Telemetry_Trace: a shard of recorded runs is rejected (runs not separated)", [ln for r in shards[i] for ln in r])
            bad += 1
            continue
        # find the rejected run(s) of the shard, then the first unexplained line of each
        def one(j):
            out, res = tlc_trace(ctx, "%s-l1-%d-%d" % (label, i, j), [shards[i][j]], "TraceSpec", "Report")
            return j, out is not None and out.get("n") == len(shards[i][j])
        with cf.ThreadPoolExecutor(max_workers=par) as ex:
            oks = list(ex.map(one, range(len(shards[i]))))
        failing = [j for j, ok in oks if not ok]
        ctx.cov["traces_validated_against_impl"] += len(shards[i]) - len(failing)
        if not failing:
            raise vf.Infra("shard %d rejected as a whole but every run of it accepted alone" % i)
        for n_diag, j in enumerate(failing):
            run = shards[i][j]
            if n_diag >= 2 or bad >= 6:      # keep the failure path bounded: the verdict is already 1
                ctx.violation("Telemetry_Trace: recorded run is not a behaviour of Telemetry (point not located)", run)
                bad += 1
                continue
            hw, ok = high_water(ctx, "%s-hw-%d-%d" % (label, i, j), run)
            if ok:
                raise vf.Infra("run rejected, then accepted on re-validation (nondeterministic TLC?)")
            line = run[hw - 1] if hw - 1 < len(run) else "(end)"
            ctx.violation("Telemetry_Trace: recorded run is not a behaviour of Telemetry (or breaks an invariant) at point %d: %s"
                          % (hw, line[:300]), run[:hw])
            bad += 1
    return bad


def corrupt_runs(runs):
    """Selftest: four corrupted copies of recorded runs, each of which must be rejected."""
    out = []
    # 1. a returned ID off by one (hooked judge and receiver oracle must both notice)
    for r in runs:
        idx = [i for i, ln in enumerate(r) if ln.startswith('{"ev":"Ret"') and '"inv":false' in ln]
        if idx:
            e = json.loads(r[idx[len(idx) // 2]])
            e["sq"] += 1
            e["id"][0] = (e["id"][0] + 1) % 256
            c = list(r)
            c[idx[len(idx) // 2]] = json.dumps(e, separators=(",", ":"))
            out.append(("returned ID off by one", c))
            break
    # 2. a Dropped count on the wire changed
    for r in runs:
        for i, ln in enumerate(r):
            if ln.startswith('{"ev":"W"'):
                e = json.loads(ln)
                if len(e["b"]) == 25 and e["b"][8] == 0 and not e["err"]:
                    e["b"][17] += 1
                    c = list(r)
                    c[i] = json.dumps(e, separators=(",", ":"))
                    out.append(("Dropped count changed on the wire", c))
                    break
        else:
            continue
        break
    # 3. an emit hook says queued where the code dropped (or the reverse)
    for r in runs:
        idx = [i for i, ln in enumerate(r) if '"h":"emit.d"' in ln]
        if idx:
            c = list(r)
            c[idx[0]] = c[idx[0]].replace('"h":"emit.d"', '"h":"emit.q"')
            out.append(("drop reported as queued", c))
            break
    # 4. an emitter stuck behind the gate
    for r in runs:
        idx = [i for i, ln in enumerate(r) if ln.startswith('{"ev":"Ungate"')]
        if idx:
            c = list(r)
            c[idx[0]] = c[idx[0]].replace('"stuck":0', '"stuck":1')
            out.append(("emitter did not return while the writer was blocked", c))
            break
    return out


def run(ctx):
    ctx.assumptions += [
        "the network is the harness's in-memory net.Conn/dialer (short writes, failed writes, peer close, failed dials, blocked Write)",
        "interleavings of the real client are sampled (seeded load, GOMAXPROCS 1/2/4/16), exhaustive only in the model",
        "hook events are ordered by the sequencer lock itself; everything else by one atomic stamp counter, operations without a stamp of their own are placed by TLC between their neighbours (no wall-clock merging)",
        "timestamps inside frames are not checked"]
    quick = ctx.quick
    par = 6 if quick else 12
    dev = bool(os.environ.get("C28_DEV"))        # development knob on a shared host: small footprint
    if dev:
        par = 4

    # ------------------------------------------------------------------ replay: re-judge a persisted run
    if ctx.replay:
        runs = split_runs(vf.read_lines(ctx.replay))
        if not runs:
            raise vf.Infra("replay file holds no run")
        validate(ctx, runs, 2, "replay")
        ctx.cov["evaluations"] = sum(len(r) for r in runs)
        ctx.cov["rule"] = "replay of persisted runs"
        return

    # ------------------------------------------------------------------ MC (in the background)
    mcs = []
    if quick:
        mcs.append(("2x2 buf1 faults1 fup", mc_cfg(2, 2, 1, 1, [12]), 4, False))
    else:
        mcs += [("2x2 buf1 faults2 fup", mc_cfg(2, 2, 1, 2, [12]), 3, True),
                ("2x2 buf1 faults0 ENABLED", mc_cfg(2, 2, 1, 0, [12], invariants=["EmitNeverWaitsENABLED"]), 1, False),
                ("2x2 buf2 faults1 boom maxepoch1", mc_cfg(2, 2, 2, 1, [22], boom=[11], maxepoch=1), 2, True),
                ("2x3 buf1 faults1 fup", mc_cfg(2, 3, 1, 1, [12, 23]), 3, True),
                ("2x3 buf2 faults1 fup", mc_cfg(2, 3, 2, 1, [13]), 3, True),
                ("3x2 buf1 faults1 fup", mc_cfg(3, 2, 1, 1, [12]), 5, True),
                ("3x2 buf2 faults0 fup", mc_cfg(3, 2, 2, 0, [32]), 2, True),
                ("liveness 2x1 buf1 faults1", mc_cfg(2, 1, 1, 1, [], invariants=[], spec="LiveSpec",
                                                    props=["CloseTerminates", "ClosedIsFinal"], view=False), 2, False)]
    if os.environ.get("C28_SKIP_MC"):      # development knob (seed sweeps); never set by the registered commands
        mcs = []
    pool = cf.ThreadPoolExecutor(max_workers=2 if dev else (3 if quick else 8))
    mcf = [pool.submit(vf.mc, ctx, "MC_Telemetry", cfg, workers=min(w, 2) if dev else w, timeout=7200 if dev else 2400,
                       heap="4g" if dev else "6g", coverage=cov, label="MC_Telemetry/" + lab)
           for lab, cfg, w, cov in mcs]

    # ------------------------------------------------------------------ X: the real client
    binp = vf.build_driver(ctx, "telemetry", "./internal/telemetry", FILES)
    nruns = 50 if quick else 1200
    batches = [("seeded", {"VF_RUNS": nruns, "VF_FIRST": 0})]
    if not quick:
        for g in (1, 4, 16):
            batches.append(("gomaxprocs%d" % g, {"VF_RUNS": 250, "VF_FIRST": 10000 * g, "VF_GOMAXPROCS": g}))
    runs = []
    stopped = False
    for lab, env in batches:
        outp = os.path.join(ctx.tmp, "trace-%s.ndjson" % lab)
        env = dict(env, VF_OUT=outp, VF_SEED=ctx.seed)
        if os.environ.get("C28_GOMAXPROCS"):   # development knob: force one GOMAXPROCS for every run
            env["VF_GOMAXPROCS"] = os.environ["C28_GOMAXPROCS"]
        vf.run_driver(ctx, binp, "TestVerifTelemetryRun", env=env, timeout=1500)
        lines = vf.read_lines(outp)
        stopped = stopped or any(ln.startswith('{"ev":"Stopped"') for ln in lines[-3:])
        runs += split_runs(lines)
    if len(runs) < nruns and not stopped:
        raise vf.Infra("driver produced %d of %d runs" % (len(runs), nruns))

    # ------------------------------------------------------------------ V
    bad = validate(ctx, runs, par, "t")

    # ------------------------------------------------------------------ selftest: the judges are live
    if getattr(ctx, "selftest", False) or not quick:
        for what, c in corrupt_runs(runs):
            sub = vf.Ctx(ctx.pid, ctx.tier, ctx.seed)
            sub.kf = ctx.kf
            try:
                n = validate(sub, [c], 2, "self")
                for _, p in sub.violations:
                    try:
                        os.remove(p)
                    except OSError:
                        pass
            finally:
                sub.cleanup()
            if n == 0:
                raise vf.Infra("selftest: corrupted run accepted (%s)" % what)
            vf.log("  selftest: rejected as expected: %s" % what)

    # ------------------------------------------------------------------ side condition: race detector (thorough)
    if not quick:
        try:
            rbin = vf.build_driver(ctx, "telemetry-race", "./internal/telemetry", FILES, race=True)
            r = vf.run_driver(ctx, rbin, "TestVerifTelemetryRun", env={"VF_OUT": os.path.join(ctx.tmp, "race.ndjson"), "VF_SEED": ctx.seed,
                                                                     "VF_RUNS": 150, "VF_FIRST": 500000}, timeout=1500, allow_fail=True)
            racy = "DATA RACE" in (r.stdout + r.stderr)
            ctx.cov["race_detector"] = "DATA RACE reported" if racy else "clean over 150 runs"
            if racy:
                vf.log("  WARNING: race detector reported a data race (side condition, not the verdict):\n" + (r.stdout + r.stderr)[-3000:])
            elif r.returncode != 0:
                ctx.cov["race_detector"] = "driver failed under -race (rc=%d)" % r.returncode
        except vf.Infra as ex:
            ctx.cov["race_detector"] = "not run: %s" % str(ex)[:200]

    # per-action coverage: TLC names the wrapper actions of MC_Telemetry by source line ("NF line 40 ...")
    src = open(os.path.join(vf.SPEC, "infra", "MC_Telemetry.tla")).read().splitlines()
    acts = {}
    for f in mcf:
        res = f.result()
        for m in re.finditer(r"<(?:NF|FA) line \d+, col \d+ to line \d+, col \d+ of module MC_Telemetry \((\d+) \d+ \d+ \d+\)>: (\d+):(\d+)", res.out):
            mm = re.match(r"A_(\w+) ==", src[int(m.group(1)) - 1])
            if mm:
                acts[mm.group(1)] = acts.get(mm.group(1), 0) + int(m.group(3))
    pool.shutdown()
    if acts:
        ctx.cov["actions"] = acts
    if not quick and mcs:
        need = ["EmitBody", "EmitLockedRejectB", "WriterFlush", "WriterWriteDropped", "WriterWriteEvent", "WriterDequeue",
                "WriterClosingDequeue", "WriterClosingPeek", "WriterSeeClose", "WriterPeerClosed", "WriterPanic",
                "BumpEpoch", "ResetAndDrain", "ConnDegrade", "WriterWriteFail", "WriteNodeInfoFail", "DialFail", "PeerClose", "CloseReturn"]
        missing = [a for a in need if acts.get(a, 0) == 0]
        if missing:
            raise vf.Infra("vacuity guard: model actions never taken in any MC run: %s" % missing)

    # ------------------------------------------------------------------ evidence
    sums = [summarize(r) for r in runs]
    ctx.cov["evaluations"] = sum(s["points"] for s in sums)
    ctx.cov["distinct_nontrivial"] = sum(1 for s in sums if s["queued"] > 0 and (s["dropped"] > 0 or s["write_fail"] + s["peer_close"] > 0 or s["conns"] > 1))
    ctx.cov["runs"] = len(runs)
    tot = {k: sum(s[k] for s in sums) for k in ("calls", "accepted", "queued", "dropped", "pops", "conns", "write_fail", "peer_close", "bumps", "gates")}
    ctx.cov["totals"] = tot
    ctx.cov["samples"] = sums[:4]
    ctx.cov["rule"] = ("evaluations = recorded points (hook events, wire writes, call/return, dials, closes) of all runs, each judged by TLC; "
                       "distinct_nontrivial = runs (distinct seeds => distinct schedules) with at least one queued event and at least one of: "
                       "a dropped event, a failed write / peer close, a reconnect; runs differ in emitters 1..8(+burst), buffer 1..8, GOMAXPROCS 1/2/4/16, fault plan")

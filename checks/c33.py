"""C33 — inner PVM machines during refinement (machine, peek, poke, pages, invoke, expunge).
MC: MC_HostRefine — every sequence of <= MaxCalls calls of a 40-call alphabet (1-2 machines, 5 inner programs,
    3-page inner window): identifier, isolation and failed-call properties of the SPECIFIED behaviour.
G:  HostRefine_Gen — behaviours (setup prefix + every <=2-call suffix of the MC alphabet), per-call argument
    partitions (page edges, 2^32 wrap / alias, 64-bit values), invoke program x counter x gas grids.
T:  seeded histories: random inner programs (checks/pvmgen.py, clean and edgy, valid and malformed blobs),
    random pages / poke / invoke (resumed) / peek / expunge sequences on 1-3 machines.
    + the same kind of script assembled into a real outer program and run end-to-end through Psi_M (ecalli dispatch).
X:  harness/refine — the real Omega functions on ONE RefineArgs and one outer memory per case; Psi_M for the programs.
V:  HostRefine_Trace — every recorded call judged against HostRefine!Apply (inner run = PVM!Run of C01)."""
import json, os, sys
sys.path.insert(0, os.path.dirname(os.path.abspath(__file__)))
import vf
import pvmgen

FILES = {
    "internal/verifdrv/vfd/vfd.go": "vfd/vfd.go",
    "PVM/zz_verif_refine_test.go": "refine/zz_verif_refine_test.go",
}
ZP = 4096
P16, P17, P18, P19, P20 = 16 * ZP, 17 * ZP, 18 * ZP, 19 * ZP, 20 * ZP
U64MAX = (1 << 64) - 1
le = pvmgen.le
INNER_OPS = [o for o in pvmgen.VALID if o != 101]      # sbrk: the inner machine's heap is not specified
INNER_POOL = INNER_OPS + [10] * 25 + [50] * 10 + [1] * 6 + [51] * 8      # more host calls, dynamic jumps (halt), fallthrough


def enc_nat(x):
    if x < 128:
        return [x]
    if x < 1 << 14:
        return [0x80 | (x >> 8), x & 255]
    raise ValueError("enc_nat")


def blob_of(prog):
    """A.2 encoding of a pvmgen program {code, mask, jt, z}"""
    out = enc_nat(len(prog["jt"])) + [prog["z"]] + enc_nat(len(prog["code"]))
    for e in prog["jt"]:
        out += le(e, prog["z"])
    out += list(prog["code"])
    k = [0] * ((len(prog["code"]) + 7) // 8)
    for i, b in enumerate(prog["mask"]):
        if b:
            k[i // 8] |= 1 << (i % 8)
    return out + k


def op(call, *w, **kw):
    ws = [le(x) for x in w] + [le(0)] * (6 - len(w))
    d = {"call": call, "w": ws}
    d.update(kw)
    return d


def rand_addr(rng, pages, span=True):
    pg = rng.pick(pages)
    off = rng.pick([0, 0, 1, 8, 100, 512, 4000, 4088, 4090, 4092, 4094, 4095])
    return pg * ZP + off


LAY_DIRECT = {"R": [16, 20], "W": [17, 19], "absent": [18], "e2e": False}
LAY_E2E = {"R": [16], "W": [48], "absent": [17, 49], "e2e": True}       # standard program: read-only segment page 16, read-write page 48


def history(rng, idx, lay=LAY_DIRECT):
    """one seeded history; the generator keeps a rough picture of what exists (assuming calls succeed) only to
    aim its arguments; no expected values are computed here"""
    RP, WP, AP, e2e = lay["R"], lay["W"], lay["absent"], lay["e2e"]
    outer = {"acc": [[pg, "R"] for pg in RP] + [[pg, "W"] for pg in WP], "data": []}
    seen = set()
    for pg in RP + WP:
        for _ in range(6):
            t = (pg, 3000 + rng.n(1096))
            if t not in seen:
                seen.add(t); outer["data"].append([t[0], t[1], 1 + rng.n(255)])
    ops = []
    live = {}                       # machine id -> {page: "R"/"W"} as the generator believes
    blob_off = [0]
    bufs = [WP[0] * ZP + 128, WP[-1] * ZP + 256, WP[0] * ZP + 4096 - 112, WP[-1] * ZP + 4096 - 112]
    rare = 40 if e2e else 12                   # end-to-end programs stop at the first outer panic: aim for few of them

    def some_id():
        k = rng.n(20)
        if live and k < 16:
            return rng.pick(sorted(live))
        if k < 19:
            return rng.pick([0, 1, 2, 3, len(live)])
        return rng.pick([U64MAX, 1 << 32, (1 << 32) + 1, 1 << 63])

    def new_machine():
        clean = rng.n(4) != 0
        prog, starts = pvmgen.random_program(rng, clean=clean, ops=INNER_POOL, n_instr=1 + rng.n(7))
        if len(prog["code"]) > 120 or len(prog["jt"]) > 100:
            return
        blob = blob_of(prog)
        kind = rng.n(14)
        if kind == 0:
            blob = blob[:-1]
        elif kind == 1:
            blob = blob + [rng.n(256)]
        elif kind == 2 and len(blob) > 3:
            blob[rng.n(3)] ^= 1 << rng.n(8)
        at = RP[0] * ZP + blob_off[0]
        if blob_off[0] + len(blob) > 2900:
            return
        blob_off[0] += len(blob) + rng.n(3)
        pc0 = rng.pick([0, 0, 0, 0, 0, rng.pick(starts) if starts else 0, 1, len(prog["code"]), (1 << 32) - 1])
        if rng.n(25) == 0:
            pc0 = rng.pick([1 << 32, (1 << 32) + 3, U64MAX])
        ops.append(op("machine", at, len(blob), pc0, set=[[at, blob]]))
        if kind > 2:
            n = 0
            while n in live:
                n += 1
            live[n] = {}

    def window(n):
        """the memory window the random programs aim at: 16 R, 17 W, 19 W, 20 R, filled through poke while writable"""
        for pg, final in ((16, 3), (17, 4), (19, 2 if rng.n(3) == 0 else 4), (20, 3)):
            ops.append(op("pages", n, pg, 1, 2))
            for _ in range(1 + rng.n(2)):
                z = rng.pick([1, 2, 4, 8, 8, 16])
                ops.append(op("poke", n, RP[0] * ZP + rng.pick([0, 1, 8, 100, 512, 4000]), pg * ZP + rng.pick([0, 1, 2, 3, 7, 8, 100, 4088, 4090, 4092, 4093, 4094, 4095]) % (ZP - z + 1), z))
            if final != 2:
                ops.append(op("pages", n, pg, 1, final))
            live[n][pg] = "R" if final == 3 else "W"

    new_machine()
    for n in list(live):
        if rng.n(5):
            window(n)
    for step in range(5 + rng.n(12)):
        r = rng.n(100)
        if r < 8 or not live:
            new_machine()
            if live and rng.n(2):
                n = max(live)
                if not live[n]:
                    window(n)
        elif r < 14 and live:
            # whole aligned pages poked in, then an outer store into the source page, then a look at the inner copy
            n = rng.pick(sorted(live))
            pg = rng.pick([16, 17, 19, 21])
            src = rng.pick(WP) * ZP
            ops.append(op("pages", n, pg, 1, 2))
            ops.append(op("poke", n, src, pg * ZP, 4096))
            off = 8 * rng.n(12)
            ops.append(op("peek", n, WP[-1] * ZP + 512, pg * ZP + off, 8, set=[[src + off, [1 + rng.n(255) for _ in range(8)]]]))
            live[n][pg] = "W"
        elif r < 20:
            n = some_id()
            p = rng.pick([16, 17, 18, 19, 20, 21])
            c = rng.pick([1, 1, 1, 2, 2, 3, 0])
            mode = rng.pick([0, 1, 2, 2, 3, 3, 4, 4, 5])
            if rng.n(12) == 0:
                p, c = rng.pick([[15, 1], [0, 2], [(1 << 20) - 1, 1], [(1 << 20) - 2, 1], [(1 << 20) - 2, 2], [16, U64MAX], [16, U64MAX - 15], [(1 << 32) + 16, 1]])
            ops.append(op("pages", n, p, c, mode))
        elif r < 30:
            n = some_id()
            z = rng.pick([0, 1, 2, 4, 8, 8, 16, 33])
            src = rand_addr(rng, (RP + WP) * (8 if e2e else 1) + [RP[-1], WP[0], WP[-1], AP[0]])
            pgs = [pg for pg, a in live.get(n, {}).items() if a == "W"] * 3 + [16, 17, 18, 19, 20, 21]
            ops.append(op("poke", n, src, rand_addr(rng, pgs), z))
        elif r < 50:
            n = some_id()
            z = rng.pick([0, 1, 2, 4, 8, 8, 16, 33])
            dst = rand_addr(rng, WP * (30 if e2e else 4) + [RP[0], AP[0]])
            pgs = list(live.get(n, {})) * 6 + [16, 17, 18, 19, 20, 21]
            ops.append(op("peek", n, dst, rand_addr(rng, pgs), z))
        elif r < 92:
            n = some_id()
            st = pvmgen.base_state(rng)
            if rng.n(3) == 0:
                pvmgen.fix_jump_regs(rng, None, st)
            gas = rng.pick([0, 1, 2, 3, 5, 8, 13, 30, 60, 200])
            buf = le(gas)
            for rg in st["regs"]:
                buf += rg
            at = rng.pick(bufs) if rng.n(rare) else rng.pick([RP[0] * ZP + 8, AP[0] * ZP, WP[0] * ZP + 4096 - 111, RP[-1] * ZP])
            o = op("invoke", n, at, set=[[at, buf]])
            ops.append(o)
            for _ in range(rng.n(3)):          # resume with what the previous run left in the buffer (fresh gas sometimes)
                o2 = op("invoke", n, at)
                if rng.n(2):
                    o2["set"] = [[at, le(rng.pick([1, 2, 5, 20]))]]
                ops.append(o2)
        else:
            n = some_id()
            ops.append(op("expunge", n))
            live.pop(n, None)
    if e2e:
        return e2e_case(idx, outer, ops)
    return {"id": "t%d" % idx, "tag": "hist", "outer": outer, "gas": rng.pick([10000] * 8 + [155, 55]), "ops": ops}


LOG_AT = 48 * ZP + 2048


def e2e_case(idx, outer, ops):
    """the same script as a real outer program: initial bytes and program blobs go into the segments of a standard
    program, the guest's later stores (invoke buffers) stay with the op and become store instructions"""
    ops = ops[:28]
    ro, rw = [0] * 3000, [0] * 4096
    for pg, off, b in outer["data"]:
        if pg == 16 and off < len(ro):
            ro[off] = b
        elif pg == 48 and not (2048 <= off < 2048 + 16 * 30):
            rw[off] = b
    for o in ops:
        keep = []
        for at, bs in o.get("set", []):
            if at // ZP == 16:
                ro[at % ZP:at % ZP + len(bs)] = bs          # program blobs: part of the read-only segment
            elif at // ZP == 48 and len(bs) % 8 == 0 and at % ZP + len(bs) <= 4096:
                keep.append([at, bs])
        o["set"] = keep
    return {"id": "e%d" % idx, "tag": "e2e", "e2e": True, "ro": ro[:3000], "rw": rw, "log": LOG_AT, "ops": ops}


def gen_tlc_cases(ctx):
    casep = vf.gen_cases(ctx, "HostRefine_Gen", {"Tier": '"%s"' % ctx.tier, "Seed": str(ctx.seed % 1000)}, timeout=1500, heap="6g")
    defs, cases = [], []
    for ln in vf.read_lines(casep):
        r = json.loads(ln)
        if "def" in r:
            defs.append(r)
            continue
        cases.append({"id": "g%d" % len(cases), "tag": r["tag"], "outer": "std", "gas": 10000, "ops": r["ops"]})
    return defs, cases


def norm_key(ln):
    r = json.loads(ln)
    return json.dumps([r["call"], r["pre"], r["post"], r.get("pre0"), r.get("set")], sort_keys=True)


RC = {0: "OK", U64MAX - 8: "HUH", U64MAX - 3: "WHO", U64MAX - 2: "OOB"}
INNER = {0: "halt", 1: "panic", 2: "fault", 3: "host", 4: "oog"}


def result_class(r):
    """coverage label only (never a verdict): how the call ended"""
    post = r["post"]
    if post["exit"] != "continue":
        return post["exit"]
    w7 = sum(b << (8 * i) for i, b in enumerate(post["regs"][7]))
    if r["call"] == "invoke":
        return "inner-" + INNER.get(w7, "WHO" if w7 == U64MAX - 3 else "other")
    if r["call"] in ("machine", "expunge"):
        return RC.get(w7, "value") if w7 else "value"
    return RC.get(w7, "other")


def replay_cases(path):
    """a replay file holds rejected records: re-run each call from its recorded pre-state is not possible through
    the public calls alone, so the recorded record's whole case is rebuilt from the `case` field kept with it"""
    cases = []
    seen = set()
    for ln in vf.read_lines(path):
        r = json.loads(ln)
        c = r.get("case")
        if c and c["id"] not in seen:
            seen.add(c["id"]); cases.append(c)
    return cases


def run(ctx):
    ctx.assumptions += [
        "Gray Paper 0.7.x Appendix B.8 as transcribed in spec/host/HostRefine.tla is the oracle (permissive clauses P-pages34, P-oogreg, P-fault, P-jumpreg, P-either, P-biggas in its header); the inner machine is spec/pvm/PVM.tla (the oracle of C01)",
        "the Omega functions are called directly on one RefineArgs and one outer memory per case (as Host.HostCall does after an ecalli), with an outer program whose bitmask differs from every inner program's",
        "granted pages requests cover at most 8 pages (the node allocates every granted page eagerly); inner programs avoid sbrk; invoke gas above 2^31-1 only with loop-free inner programs"]
    defs = []
    if ctx.replay:
        execute_and_judge(ctx, [], replay_cases(ctx.replay))
        return
    import concurrent.futures as cf
    with cf.ThreadPoolExecutor(1) as ex:
        fm = ex.submit(model_check, ctx)           # the model check runs beside the G -> X -> V pipeline
        try:
            defs, cases = build_cases(ctx)
            execute_and_judge(ctx, defs, cases)
        finally:
            fm.result()


def model_check(ctx):
    invs = ["TypeOK", "InnerWithinPages", "OuterReadOnlyKept"]
    props = ["IdsLowest", "OuterIsolation", "InnerIsolation", "FailedCallChangesNothing", "BlobFrozen"]
    return vf.mc(ctx, "MC_HostRefine",
                 vf.cfg_text(constants={"MaxCalls": "3" if ctx.quick else "4", "NMach": "2", "InnerGas": "6", "OuterGas": "1000"},
                             invariants=invs, properties=props),
                 workers=DEV_WORKERS or (5 if ctx.quick else 10), timeout=3000, heap="6g")


def build_cases(ctx):
    defs, cases = gen_tlc_cases(ctx)
    rng = vf.Rng(ctx.seed * 31 + 5)
    for i in range(25 if ctx.quick else 1200):
        cases.append(history(rng, i))
    rng = vf.Rng(ctx.seed * 77 + 3)
    for i in range(10 if ctx.quick else 400):       # the same kind of script run by a real outer program through Psi_M
        cases.append(history(rng, i, LAY_E2E))
    return defs, cases


DEV_WORKERS = int(os.environ.get("VF_DEV_WORKERS", "0"))      # development on a shared machine only
DEV_PAR = int(os.environ.get("VF_DEV_PAR", "0"))


def selftest(ctx, lines):
    """the binding is live: a record with one corrupted observed field must be rejected"""
    bad = None
    for ln in lines:
        r = json.loads(ln)
        if r.get("k") != "e2e" and r["call"] == "expunge" and r["post"]["exit"] == "continue" and r["pre"]["m"]:
            r["post"]["regs"][7][0] ^= 1          # the value expunge returned in omega7
            bad = json.dumps(r)
            break
    if bad is None:
        raise vf.Infra("selftest: no record to corrupt")
    sub = vf.Ctx(ctx.pid, ctx.tier, ctx.seed)
    save = vf.VERIF
    vf.VERIF = sub.tmp                            # the corrupted line's "replay" stays in scratch space
    try:
        n = vf.validate_trace(sub, "HostRefine_Trace", [bad], timeout=900, par=1)
    finally:
        vf.VERIF = save
        sub.cleanup()
    if n == 0:
        raise vf.Infra("selftest: corrupted record accepted")
    vf.log("  selftest: corrupted record rejected as expected")


def execute_and_judge(ctx, defs, cases):
    quick = ctx.quick
    binp = vf.build_driver(ctx, "refine", "./PVM", FILES)
    casep = ctx.tmp + "/cases.ndjson"
    pvmgen.dump(defs + cases, casep)
    tracep = ctx.tmp + "/trace.ndjson"
    vf.run_driver(ctx, binp, "TestRefine", env={"VF_CASES": casep, "VF_OUT": tracep}, timeout=1500)
    raw = vf.read_lines(tracep)
    byid = {c["id"]: c for c in cases}
    # identical (call, pre, post) records (shared setup prefixes) are judged once; the case is kept with the record for replay
    seen, lines = set(), []
    percall = {}
    for ln in raw:
        r = json.loads(ln)
        if r.get("k") == "e2e":
            k2 = "e2e:" + r["res"]["kind"]
            percall[k2] = percall.get(k2, 0) + 1
            percall["e2e-calls"] = percall.get("e2e-calls", 0) + len(r["res"]["out"]) // 16
            lines.append(ln)
            continue
        k = norm_key(ln)
        if k in seen:
            continue
        seen.add(k)
        percall[r["call"]] = percall.get(r["call"], 0) + 1
        k2 = r["call"] + ":" + result_class(r)
        percall[k2] = percall.get(k2, 0) + 1
        lines.append(ln)
    ctx.cov["evaluations"] = len(raw)
    ctx.cov["distinct_nontrivial"] = len(lines)
    ctx.cov["cases"] = len(cases)
    ctx.cov["actions"].update(percall)
    ctx.cov["rule"] = ("cases = TLC-generated scripts (behaviours: setup prefix + every <=2-call suffix of the MC alphabet; per-call argument "
                       "partitions in a prepared state; invoke program x counter x gas grids; quick: seeded samples) + seeded histories with random "
                       "inner programs + seeded scripts run end-to-end by an assembled outer program through Psi_M; evaluations = recorded host calls (+ one record per "
                       "end-to-end program); distinct_nontrivial = distinct (call, full state before, full state after) records + end-to-end programs, each judged by TLC")
    plain = [x for x in lines[:50] + lines[-400:] if json.loads(x).get("k") != "e2e"]
    ctx.cov["samples"] = [json.loads(x) for x in plain[:1] + plain[-1:]]
    for need in ("machine", "peek", "poke", "pages", "invoke", "expunge"):
        if not ctx.replay and percall.get(need, 0) == 0:
            raise vf.Infra("no %s call was recorded (vacuous run)" % need)
    vf.validate_trace(ctx, "HostRefine_Trace", lines, shard=200 if quick else 700, par=DEV_PAR or 14,
                      timeout=3000, heap="3g", what="inner-machine host call deviates from the Gray Paper")
    if getattr(ctx, "selftest", False) or (not ctx.quick and not ctx.replay):
        selftest(ctx, lines)
    # make every replay file self-contained: keep the whole case (script + initial outer memory) with each rejected record
    dmap = {d["def"]: d["outer"] for d in defs}
    for _what, path in ctx.violations:
        out = []
        for ln in vf.read_lines(path):
            r = json.loads(ln)
            c = byid.get(r.get("id"))
            if c and "case" not in r:
                c = dict(c)
                if isinstance(c.get("outer"), str):
                    c["outer"] = dmap[c["outer"]]
                r["case"] = c
            out.append(json.dumps(r))
        with open(path, "w") as f:
            f.write("\n".join(out) + "\n")

"""X09 - JAMNP-S "CE" request/response protocols (internal/networking/handler/ce): message codec and handler logic.
MC: MC_Codec over the CE message types of Schema.tla (CESchema): round trip, prefix-freeness, strictness on the spec's mutants.
T:  harness/ce builds seeded values of every CE message type, encodes them with the package's encoders and decodes them with the
    package's Decode functions or - where the only decoder is the stream handler - by running the handler on a mock stream.
G:  Codec_Gen derives mutants (C13 classes) and attacker-shaped lengths (C14 classes) of the CE messages; CE_Gen generates CE128
    block requests on three stores, CE144/CE145 two-message streams and frames with peer-chosen length headers.
V:  Codec_Trace (round trip; accept <=> strict Dec accepts, re-encoding = input; no panic; allocation bound) and CE_Trace
    (CE128 ascending/descending/maximum/unknown block; announcements stored exactly as received; short frames refused without
    allocating the announced length)."""
import json
import os
import sys
sys.path.insert(0, os.path.dirname(os.path.abspath(__file__)))
import vf
import codec_common as cc

FILES = {
    "internal/verifdrv/vfd/vfd.go": "vfd/vfd.go",
    "internal/networking/handler/ce/zz_verif_ce_test.go": "ce/zz_verif_ce_test.go",
}
CLASSES = ["valid", "trail", "trunc_at", "trunc_in", "disc", "len_pm", "len_set", "nonmin", "flip", "att_len", "att_len2", "pad_bits"]
# the handlers build mock bundles and run the erasure stand-in: a few MiB per call whatever the input
ALLOC_K = 24 << 20
ALLOC_C = 4096
FRAME_K = 24 << 20


def ce_types():
    import re
    src = open(os.path.join(vf.SPEC, "codec", "Schema.tla")).read()
    body = src[src.index("\nCESchema == ["):src.index("\nCETypeNames ==")]
    return sorted(set(re.findall(r"(\w+) \|->", body)))


def mc_ce(ctx, names):
    c = cc.static_consts()
    mut = [n for n in names if n != "CE135"]
    c.update({"Names": vf.tla_set(mut), "PairNames": vf.tla_set(mut), "FullNames": vf.tla_set(names), "K": "3" if ctx.quick else "6",
              "Universe": '"ce"'})
    cfg = vf.cfg_text(constants=c, spec="Spec", invariants=["InvRoundTrip", "InvPrefixFree", "InvStrict", "InvRejected", "InvPadBits", "InvValid"])
    return vf.mc(ctx, "MC_Codec", cfg, workers=4, timeout=1500, heap="4g")


def run(ctx):
    ctx.assumptions += ["the JAMNP-S text is not available offline: message layouts follow the package's own encoders and comments "
                        "(16-bit item counts in CE139/140, 2..3 guarantee signatures, 1..100 MiB preimage length, ...; listed in Schema.tla)",
                        "handlers run against a store filled by the driver (in-memory database, map-based block store); lookups are made to "
                        "succeed so that acceptance depends on the message format only; CE137-140 may refuse for store reasons (lax)",
                        "CE128 ascending requests may follow any child at a fork",
                        "allocation bound: %d + %d * len(input) bytes per handled message" % (ALLOC_K, ALLOC_C)]
    names = ce_types()
    mcjob = cc.Background(mc_ce, ctx, names)
    binp = vf.build_driver(ctx, "ce", "./internal/networking/handler/ce", FILES)
    k, reg = cc.consts(ctx, binp)
    missing = [n for n in names if n not in reg]
    if missing:
        raise vf.Infra("CE schema types without a driver entry: %s" % missing)
    # --- round trip
    rtp = ctx.tmp + "/rt.ndjson"
    vf.run_driver(ctx, binp, "TestRun", env={"VF_MODE": "rt", "VF_OUT": rtp, "VF_SEED": ctx.seed, "VF_N": 10 if ctx.quick else 150}, timeout=900)
    rt = vf.read_lines(rtp)
    # --- mutants and attacker lengths
    if ctx.replay:
        casep = ctx.tmp + "/cases.ndjson"
        with open(casep, "w") as f:
            for ln in vf.read_lines(ctx.replay):
                r = json.loads(ln)
                if "in" in r and "ty" in r and r.get("op") in ("dec", None):
                    f.write(json.dumps({"ty": r["ty"], "cls": r.get("cls", ""), "in": r["in"]}) + "\n")
    else:
        casep = cc.gen_cases(ctx, binp, k, names, CLASSES, tag="x09", kk=3 if ctx.quick else 8, big_limit=4000, med_limit=1200,
                             sample_n=1 if ctx.quick else 12, groups=4 if ctx.quick else 8)
    dec = cc.run_dec(ctx, binp, casep, ctx.tmp + "/dec.ndjson")
    # --- handler cases
    gp = vf.gen_cases(ctx, "CE_Gen", dict(k), timeout=600, heap="4g")
    cep = ctx.tmp + "/ce.ndjson"
    vf.run_driver(ctx, binp, "TestRun", env={"VF_MODE": "ce", "VF_CASES": gp, "VF_OUT": cep}, timeout=900)
    ce = [ln for ln in vf.read_lines(cep) if '"op":"begin"' not in ln[:40]]
    cc.account(ctx, dec, "codec part: seeded values of the %d CE message types (round trip) and spec-defined mutants / attacker-shaped lengths of "
               "their encodings; handler part: every (store, block, direction, maximum) CE128 request over three stores, CE144/145 streams with "
               "a byte added to / removed from either message, frames with length headers 0 .. 2^32-1; non-trivial = distinct mutated inputs"
               % len(names), lambda r: r.get("cls") != "valid")
    ctx.cov["evaluations"] = len(rt) + len(dec) + len(ce)
    ctx.cov["actions"].update({"roundtrip_values": len(rt), "handler_cases": len(ce),
                               "ce128_cases": sum(1 for x in ce if '"op":"ce128"' in x), "ce2_cases": sum(1 for x in ce if '"op":"ce2"' in x),
                               "frame_cases": sum(1 for x in ce if '"op":"frame"' in x)})
    ctx.cov["samples"] = [json.loads(x) for x in ce[:2]] + [json.loads(x) for x in dec[:1] if len(x) < 3000]
    vf.validate_trace(ctx, "Codec_Trace", cc.shard_by_size(rt + dec), constants=cc.trace_constants(k, True, ALLOC_K, ALLOC_C), timeout=1500,
                      heap="3g", par=6 if ctx.quick else 12, what="CE message codec")
    c2 = dict(k)
    c2["FrameK"] = str(FRAME_K)
    vf.validate_trace(ctx, "CE_Trace", cc.shard_by_size(ce), constants=c2, timeout=900, heap="3g", par=4, what="CE handler")
    mcjob.join()

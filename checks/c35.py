"""C35 — dispute records (Gray Paper section 10).
MC: Disputes (blocks of verdict summaries / culprits / faults + report placement): V=6, 3 reports, 4-5 keys, <=2 verdicts
    per block, 2-3 blocks; invariants InvDisjoint, InvSorted, InvJudgedOnce, action properties OffendersGrow, RecordsGrow,
    S3/S4 asserted on every applied block.
G:  Disputes_Gen enumerates the single-block input partition (counts 0..5, ages, prior records, culprit/fault thresholds,
    ordering, one defective signature at a time); seeded multi-block histories (repeated / conflicting verdicts, exhausted
    offender keys, mutations) are produced here.
X:  harness/disputes signs with real Ed25519 keys and calls extrinsic.Disputes() block after block.
V:  Disputes_Trace."""
import concurrent.futures as cf
import json
import os
import vf

os.environ.setdefault("JAVA_TOOL_OPTIONS", "-XX:ParallelGCThreads=2 -XX:CICompilerCount=2")

FILES = {
    "internal/verifdrv/vfd/vfd.go": "vfd/vfd.go",
    "internal/verifdrv/vfd/term.go": "vfd/term.go",
    "internal/verifdrv/disputes/disputes_test.go": "disputes/disputes_test.go",
}
KAPPA = [3, 1, 5, 7, 2, 9]
LAMBDA = [3, 1, 4, 6, 8, 9]
ALLOWED = sorted(set(KAPPA) | set(LAMBDA))
INVS = ["RecordsDisjoint", "RecordsSorted"]
WHAT = "dispute records deviate from the statement / Gray Paper section 10"
SIGK = ["ctx", "key", "target", "zero"]


class Collect:
    """ctx view for one validate_trace call: own scratch prefix, violations collected instead of filed."""
    def __init__(self, ctx, prefix):
        self._c, self._p = ctx, prefix
        self.found = []          # (what, lines)

    def sub(self, name):
        return self._c.sub(self._p + "-" + name)

    def violation(self, what, lines):
        self.found.append((what, list(lines)))
        return ""

    def __getattr__(self, k):
        return getattr(self._c, k)


def judge(ctx, tag, module, shards, **kw):
    """validate_trace + confirmation: a rejected trace prefix is judged a second time on its own before it is
    filed as a violation; if the second judgement accepts it, the first TLC process died (kill, OOM) -> Infra."""
    c1 = Collect(ctx, tag)
    vf.validate_trace(c1, module, shards, **kw)
    for what, lines in c1.found:
        c2 = Collect(ctx, tag + "-confirm%d" % (abs(hash(what)) % 100000))
        kw2 = dict(kw)
        kw2["par"] = 1
        vf.validate_trace(c2, module, [lines], **kw2)
        if not c2.found:
            raise vf.Infra("trace validation of %s was interrupted (a rejected prefix is accepted when judged again): %s" % (tag, what[:200]))
        ctx.violation(what, lines)
    return len(c1.found)


def votes(rng, p, total=5):
    idx = sorted(rng_sample(rng, list(range(6)), min(total, 6)))
    pos = set(rng_sample(rng, idx, min(p, len(idx))))
    return [{"v": i in pos, "i": i, "sig": "ok"} for i in idx]


def rng_sample(rng, xs, k):
    xs = list(xs)
    out = []
    for _ in range(k):
        out.append(xs.pop(rng.n(len(xs))))
    return out


def history(rng):
    g, b, w, o = set(), set(), set(), set()
    blocks = []
    tau = rng.pick([0, 2, 9, 12, 15, 20, 24 + rng.n(40), 24 + rng.n(40)])      # epochs 0 and 1 included (E = 12)
    for _ in range(rng.pick([2, 3, 4, 5, 6])):
        tau += 1 + rng.n(14)
        judged = g | b | w
        fresh = [r for r in range(1, 9) if r not in judged]
        nv = rng.pick([0, 1, 1, 1, 2, 2, 3])
        targets = []
        for _ in range(nv):
            if judged and rng.n(6) == 0:
                targets.append(rng.pick(sorted(judged)))          # repeated verdict on a judged report
            elif targets and rng.n(8) == 0:
                targets.append(targets[0])                        # conflicting verdict in one block
            elif fresh:
                targets.append(rng.pick(fresh))
        targets = sorted(targets) if rng.n(10) else targets
        free = [k for k in ALLOWED if k not in o]
        verdicts, culprits, faults = [], [], []
        ng, nb, nw = set(), set(), set()
        valid = len(set(targets)) == len(targets) and targets == sorted(targets) and not (set(targets) & judged)
        for t in targets:
            p = rng.pick([0, 0, 2, 2, 5, 5, 5, 1, 3, 4]) if rng.n(5) == 0 else rng.pick([0, 2, 5])
            age = rng.pick(["cur", "cur", "prev"])
            verdicts.append({"t": t, "age": age, "votes": votes(rng, p)})
            if p == 0:
                nb.add(t)
                ks = rng_sample(rng, free, min(len(free), rng.pick([2, 2, 2, 3])))
                free = [k for k in free if k not in ks]
                culprits += [{"t": t, "k": k, "sig": "ok"} for k in ks]
                valid = valid and len(ks) >= 2
                if free and rng.n(4) == 0:
                    k = free.pop(rng.n(len(free)))
                    faults.append({"t": t, "v": True, "k": k, "sig": "ok"})
            elif p == 5:
                ng.add(t)
                if free:
                    k = free.pop(rng.n(len(free)))
                    faults.append({"t": t, "v": False, "k": k, "sig": "ok"})
                else:
                    valid = False
            elif p == 2:
                nw.add(t)
            else:
                valid = False
        culprits.sort(key=lambda c: c["k"])
        faults.sort(key=lambda f: f["k"])
        # one mutation now and then
        m = rng.n(16)
        if m == 0 and culprits:
            culprits.pop(rng.n(len(culprits))); valid = False if nb else valid
        elif m == 1 and len(culprits) > 1:
            culprits.reverse(); valid = False
        elif m == 2 and culprits:
            culprits[rng.n(len(culprits))]["sig"] = rng.pick(SIGK); valid = False
        elif m == 3 and faults:
            faults[rng.n(len(faults))]["sig"] = rng.pick(SIGK); valid = False
        elif m == 4 and verdicts:
            v = rng.pick(verdicts); v["votes"][rng.n(len(v["votes"]))]["sig"] = rng.pick(SIGK); valid = False
        elif m == 5 and verdicts:
            rng.pick(verdicts)["age"] = rng.pick(["old", "next"]); valid = False
        elif m == 6 and o and culprits:
            culprits[0]["k"] = rng.pick(sorted(o)); culprits.sort(key=lambda c: c["k"]); valid = False
        elif m == 7 and faults:
            faults[0]["v"] = not faults[0]["v"]; faults[0]["sig"] = "ok"; valid = False
        elif m == 8 and culprits:
            culprits[0]["k"] = 10; culprits.sort(key=lambda c: c["k"]); valid = False
        elif m == 9 and verdicts:
            # one validator judges twice: the judgement at position j+1 repeats the one at j (any position, incl. the last pair)
            vv = rng.pick(verdicts)["votes"]
            j = rng.n(len(vv) - 1)
            vv[j + 1]["i"], vv[j + 1]["v"] = vv[j]["i"], vv[j]["v"]
            valid = False
        pend = rng_sample(rng, list(range(1, 9)), 2)
        rho = [pend[0] if rng.n(4) else 0, pend[1] if rng.n(4) else 0]
        if targets and rng.n(2):
            rho[rng.n(2)] = rng.pick(targets)
        if rho[0] == rho[1]:
            rho[1] = 0
        blocks.append({"tau": tau, "rho": rho, "verdicts": verdicts, "culprits": culprits, "faults": faults})
        if valid:      # shadow bookkeeping only steers later inputs; TLC is the judge
            g |= ng; b |= nb; w |= nw
            o |= {c["k"] for c in culprits} | {f["k"] for f in faults}
    return {"kappa": KAPPA, "lambda": LAMBDA, "psi": {"g": [], "b": [], "w": [], "o": []}, "blocks": blocks}


def cases_from_replay(path):
    cases, cur = [], None
    for ln in vf.read_lines(path):
        e = json.loads(ln)
        if e["ev"] == "Reset":
            cur = {"kappa": e["kappa"], "lambda": e["lambda"], "psi": e["psi"], "blocks": []}
            cases.append(cur)
        elif cur is not None:
            cur["blocks"].append({k: e[k] for k in ("tau", "rho", "verdicts", "culprits", "faults")})
    return cases


def shard_lines(lines, target):
    shards, cur = [], []
    for ln in lines:
        if len(cur) >= target and '"ev":"Reset"' in ln:
            shards.append(cur); cur = []
        cur.append(ln)
    if cur:
        shards.append(cur)
    return shards


def mc_one(ctx, label, consts, workers):
    cfg = vf.cfg_text(constants=consts, invariants=["InvDisjoint", "InvSorted", "InvJudgedOnce"], properties=["OffendersGrow", "RecordsGrow"])
    cover = (not ctx.quick) and label == "b2k5"           # vacuity guard on one configuration
    res = vf.mc(ctx, "MC_Disputes", cfg, workers=workers, timeout=3000, heap="4g", label="MC_Disputes/" + label, coverage=cover)
    if cover:
        import re
        acts = {}
        for m in re.finditer(r"<(\w+) line [^>]*>: (\d+):(\d+)", res.out):
            acts[m.group(1)] = acts.get(m.group(1), 0) + int(m.group(3))
        ctx.cov["actions"].update(acts)
        for a in ("Block", "Place"):
            if not acts.get(a):
                raise vf.Infra("vacuous model check: action %s never taken (%s)" % (a, acts))


def run(ctx):
    ctx.assumptions += [
        "Ed25519 primitive trusted (crypto/ed25519 signs, the repository verifies with ed25519consensus); the signed payloads are the Gray Paper's: jam_valid / jam_invalid / jam_guarantee ++ report hash",
        "report and key identities are ranks in bytewise order of the real 32-byte values, so 'sorted' is judged on the records as exported",
        "a block may be refused only if the strict reading of section 10 (reconstructed from memory, see DisputesFn.tla) refuses it; it must be refused when the statement forces it (count outside {0, V/3, 2V/3+1}, report already judged or judged twice); in between either outcome is accepted",
        "posterior records become the prior records of the next block the way ChainState.StateCommit moves them",
    ]
    q = ctx.quick
    binf = None
    with cf.ThreadPoolExecutor(6) as ex:
        build_f = ex.submit(vf.build_driver, ctx, "disputes", "./internal/verifdrv/disputes", FILES)
        if ctx.replay:
            casep = ctx.tmp + "/replay-cases.ndjson"
            with open(casep, "w") as f:
                for c in cases_from_replay(ctx.replay):
                    f.write(json.dumps(c) + "\n")
            mcf = []
        else:
            base = {"V": "6", "Reports": "{1,2,3}", "Keys": "{1,2,3,4}", "Cores": "2", "MaxVerdicts": "2", "MaxBlocks": "2", "CulpritSizes": "{2}"}
            mcs = [("b2k4r2", dict(base, Reports="{1,2}"), 2)] if q else [("b2k5", dict(base, Keys="{1,2,3,4,5}", CulpritSizes="{2,3}"), 3), ("b3k4", dict(base, MaxBlocks="3"), 4)]
            mcf = [ex.submit(mc_one, ctx, label, c, w) for label, c, w in mcs]
            gen_f = ex.submit(vf.gen_cases, ctx, "Disputes_Gen", {}, "cases-gen.ndjson", 600)
            rng = vf.Rng(ctx.seed)
            casep = ctx.tmp + "/cases.ndjson"
            with open(casep, "w") as f:
                f.write(open(gen_f.result()).read())
                for _ in range(1500 if q else 40000):
                    f.write(json.dumps(history(rng)) + "\n")
        binp = build_f.result()
        tp = ctx.tmp + "/trace.ndjson"
        vf.run_driver(ctx, binp, "TestVerifDisputes", env={"VF_CASES": casep, "VF_OUT": tp, "VF_SEED": ctx.seed}, timeout=1500)
        lines = vf.read_lines(tp)
        blocks = [ln for ln in lines if '"ev":"Block"' in ln]
        acc = sum(1 for ln in blocks if '"ok":true' in ln)
        ctx.cov["evaluations"] = len(blocks)
        ctx.cov["accepted_blocks"] = acc
        ctx.cov["refused_blocks"] = len(blocks) - acc
        ctx.cov["histories"] = sum(1 for ln in lines if '"ev":"Reset"' in ln)
        errs = {}
        for ln in blocks:
            j = ln.find('"err":"')
            k = ln[j + 7:ln.find('"', j + 7)]
            errs[k or "accepted"] = errs.get(k or "accepted", 0) + 1
        ctx.cov["outcomes"] = errs
        ctx.cov["distinct_nontrivial"] = vf.distinct_count([ln for ln in blocks if '"verdicts":[{' in ln],
                                                           key=lambda e: [e["verdicts"], e["culprits"], e["faults"], e["rho"]])
        ctx.cov["rule"] = ("evaluations = blocks run through extrinsic.Disputes() with real Ed25519 signatures; distinct_nontrivial = "
                           "distinct (verdicts, culprits, faults, pending reports) inputs with at least one verdict; cases = TLC-enumerated "
                           "single-block partition (Disputes_Gen) + seeded histories of 2-6 blocks over 8 reports and 10 keys")
        ctx.cov["samples"] = [json.loads(x) for x in lines[:3]]
        judge(ctx, "all", "Disputes_Trace", shard_lines(lines, 30000 if q else 45000), stateful=True, invariants=INVS,
              par=3 if q else 8, heap="3g", timeout=3000, what=WHAT)
        for f in mcf:
            f.result()

"""C32 — work digest (GP 14.8) and work-package specification fields (GP 14.16).
MC: WorkDigest.tla (guarantor refining items one by one: digest fields, declared export counts, specification).
G: WorkDigest_Gen (items with 0..16 imports / 0..16 extrinsics incl. lengths 0 and > 2^16, export counts, every
   outcome; bundle lengths x export-segment sequences) with hash terms for H(payload) and M(exports).
   Extension: whole report computations (Xi) with scripted refinement outcomes per item.
X: harness/workdigest calls work_package.C, work_package.A and WorkReportCompute with a scripted PVMExecutor
   (erasure stand-in linked; erasure root ignored).
V: WorkDigest_Trace compares field by field."""
import concurrent.futures as cf
import json
import vf

FILES = {
    "internal/verifdrv/vfd/vfd.go": "vfd/vfd.go",
    "internal/verifdrv/vfd/term.go": "vfd/term.go",
    "internal/verifdrv/workdigest/workdigest_test.go": "workdigest/workdigest_test.go",
}


def run(ctx):
    ctx.assumptions += ["Gray Paper 14.8 / 14.16 as transcribed in spec/stf/WorkDigestDefs.tla (e of the refine load is the item's declared export count w_e)",
                        "BLAKE2b-256 trusted (hash terms evaluated by the generic evaluator); the erasure root is not judged (pkg/erasure_coding is a stand-in, C30 not applicable)",
                        "bundles are non-empty (the stand-in encoder rejects empty input)",
                        "in report computations the result of a failed item is only required to be an error (order of the 14.11 tests not settled by the statement)"]
    consts = {"MaxItems": "2", "Lens": "{65537}", "MaxE": "1", "MaxExt": "1"} if ctx.quick else \
             {"MaxItems": "2", "Lens": "{0, 65537}", "MaxE": "1", "MaxExt": "2"}
    jobs = [lambda: vf.mc(ctx, "MC_WorkDigest", vf.cfg_text(constants=consts, invariants=["InvDigests", "InvSegments", "InvSpec", "InvRootSensitive"]),
                          workers=3 if ctx.quick else 6, timeout=1500, coverage=not ctx.quick),
            lambda: vf.build_driver(ctx, "workdigest", "./internal/verifdrv/workdigest", FILES)]
    if not ctx.replay:
        jobs.append(lambda: vf.gen_cases(ctx, "WorkDigest_Gen", {"Tier": '"%s"' % ctx.tier, "Seed": str(ctx.seed % 100000)}, timeout=1500, heap="6g"))
    with cf.ThreadPoolExecutor(max_workers=len(jobs)) as ex:
        futs = [ex.submit(j) for j in jobs]
        res = [f.result() for f in futs]
    binp = res[1]
    if not ctx.quick:       # vacuity guard
        for act in ("Refine", "Finish"):
            if ctx.cov["actions"].get(act, 0) == 0:
                raise vf.Infra("model-checking coverage of action %s is 0" % act)
    if ctx.replay:
        cases = [ln for ln in vf.read_lines(ctx.replay) if '"kind"' in ln]
        if not cases:
            raise vf.Infra("replay file has no case lines")
        casep = ctx.tmp + "/cases.ndjson"
        open(casep, "w").write("\n".join(cases) + "\n")
    else:
        casep = res[2]
    tracep = ctx.tmp + "/trace.ndjson"
    vf.run_driver(ctx, binp, "TestRun", env={"VF_CASES": casep, "VF_OUT": tracep, "VF_SEED": ctx.seed})
    lines = vf.read_lines(tracep)
    ctx.cov["evaluations"] = len(lines)
    nt, samples = 0, []
    for ln in lines:
        r = json.loads(ln)
        if r["ev"] == "C" and (r["item"]["ni"] or r["item"]["ext"]) or r["ev"] == "A" and r["nseg"] > 0 or r["ev"] == "Xi":
            nt += 1
        if len(samples) < 3 and r["ev"] == "C" and r["item"]["ext"]:
            samples.append(r)
    ctx.cov["distinct_nontrivial"] = nt
    ctx.cov["rule"] = ("records = C(item, outcome, gas) for items with 0..16 imports x 0..16 extrinsics (lengths 0..2^24+3), ten export counts, nine outcomes, "
                       "six gas values, A(hash, bundle, segments) for bundle lengths 1..300001 x export-segment sequences, and WorkReportCompute over packages of "
                       "1..4/8 items with scripted outcomes (ok; failed handing back none / fewer / exactly / more than the declared segments; wrong count; outputs exceeding W_R alone or together), every third item repeats each extrinsic spec; "
                       "non-trivial = items with at least one import or extrinsic, specifications with at least one export, all report computations")
    ctx.cov["samples"] = samples
    vf.validate_trace(ctx, "WorkDigest_Trace", lines, shard=150 if ctx.quick else 400, what="work digest / package specification differs from the specification",
                      timeout=1500, par=6 if ctx.quick else 12)
    if ctx.violations and not ctx.replay:
        cases = vf.read_lines(casep)
        for path in sorted({p for _, p in ctx.violations}):
            recs = [r for r in vf.read_lines(path) if "ev" in json.loads(r)]
            ids = sorted({json.loads(r).get("c", -1) for r in recs} - {-1})
            with open(path, "w") as f:
                for i in ids[:30]:
                    f.write(cases[i] + "\n")
                for r in recs[:30]:
                    f.write(r + "\n")

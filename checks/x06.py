"""X06 - functional correctness of the accumulation pipeline (Gray Paper 12.16-12.27), beyond C22's determinism.
MC: MC_AccOuter - design properties of the specified pipeline over a scenario family: token conservation, privileges change
    only through the manager or the current holder, report count within bounds and monotone in the gas limit.
G:  AccOuter_Gen enumerates scenarios (9 op-group flags x gas limits cutting the report list at every position / the block
    limit) over bless / assign / designate / new / provide / eject / yield / checkpoint / panic / out-of-gas programs.
X:  harness/accrounds (accouter_test.go + the C22 assembler): real PVM programs, OuterAccumulation(GasLimit) twice on fresh
    identical prior states, DeferredTransfers() for block-limit scenarios; the whole posterior is recorded.
V:  AccOuter_Trace: the specification computes the expected posterior (balances, recorded items, provided preimages, new /
    removed services, chi', phi'/iota' tags, theta', statistics, a_a, n, xi') from the scenario and the observed gas list,
    which must be admissible (0 for absent / code-less services, the whole budget when out of gas, 1..budget otherwise)."""
import json
import os
import vf

os.environ.setdefault("JAVA_TOOL_OPTIONS", "-XX:ParallelGCThreads=2 -XX:CICompilerCount=2")

FILES = {
    "internal/verifdrv/vfd/vfd.go": "vfd/vfd.go",
    "internal/verifdrv/vfd/term.go": "vfd/term.go",
    "internal/accumulation/zz_verif_accrounds_test.go": "accrounds/accrounds_test.go",
    "internal/accumulation/zz_verif_accouter_test.go": "accrounds/accouter_test.go",
}
WHAT = "accumulation posterior differs from the Gray Paper pipeline"
INFRA_WHY = ("generator_block_gas",)


def select(ctx, casep):
    cases = [json.loads(x) for x in vf.read_lines(casep)]
    cases.sort(key=lambda c: json.dumps(c, sort_keys=True))
    rng = vf.Rng(ctx.seed)
    stf = [c for c in cases if c["stf"]]
    cut = [c for c in cases if not c["stf"]]
    n_stf, n_cut = (25, 45) if ctx.quick else (10**6, 10**6)      # thorough: every enumerated scenario
    pick = [c for c in stf if len(c["reports"][0]) == 1]          # the over-budget families, always
    pick += [c for c in cut if c.get("race")]                     # eject of a service that accumulates in the same round
    pick += [c for c in cut if len(c["reports"]) == 2]            # the tight-limit family (transfer gas added to the limit)
    allon = [c for c in stf if all(c["flags"].values())]
    pick += allon
    for pool, k in ((stf, n_stf), (cut, n_cut)):
        pool = [c for c in pool if c not in pick]
        for _ in range(min(k, len(pool))):
            pick.append(pool.pop(rng.n(len(pool))))
    for i, c in enumerate(pick):
        c["n"] = i + 1
    return pick, len(cases)


def run(ctx):
    ctx.assumptions += [
        "gas used by a program is not modelled (C04): the observed gas list is an input to the specification, constrained to be "
        "0 for absent / code-less services, the full budget for a service that runs out of gas, 1..budget otherwise",
        "abstract programs: each op is one host call assembled into real PVM code; balances are ample (no CASH / FULL-by-balance); "
        "a service's own bless comes last in its program (entitlement against running vs. initial context not demanded)",
        "permissive: a recorder may be shown operands before or after transfers; index of a non-registrar new service is opaque "
        "(>= 2^16, fresh, distinct)",
        "tiny chain spec: C = 2, G_T = 20 000 000, G_A = 10 000 000",
    ]
    q = ctx.quick
    vf.mc(ctx, "MC_AccOuter", vf.cfg_text(constants={"Deep": "FALSE" if q else "TRUE"}, invariants=["InvAll"]), workers=2 if q else 8,
          timeout=1700, heap="4g")
    binp = vf.build_driver(ctx, "accouter", "./internal/accumulation", FILES)
    if ctx.replay:
        lines = [json.dumps({k: v for k, v in json.loads(x).items() if k != "_want"}) for x in vf.read_lines(ctx.replay)]
    else:
        allp = vf.gen_cases(ctx, "AccOuter_Gen", {"Tier": '"%s"' % ctx.tier}, timeout=900, heap="3g")
        cases, total = select(ctx, allp)
        casep = os.path.join(ctx.tmp, "cases.ndjson")
        with open(casep, "w") as f:
            for c in cases:
                f.write(json.dumps(c) + "\n")
        tracep = os.path.join(ctx.tmp, "trace.ndjson")
        vf.run_driver(ctx, binp, "TestAccOuter", env={"VF_CASES": casep, "VF_OUT": tracep}, timeout=1500)
        lines = vf.read_lines(tracep)
        ctx.cov["actions"]["scenarios_enumerated"] = total
    recs = [json.loads(x) for x in lines]
    ctx.cov["evaluations"] = sum(2 + len(r["stf"]) for r in recs)
    ctx.cov["distinct_nontrivial"] = vf.distinct_count([json.dumps([r["sc"]["flags"], r["sc"]["g"], r["sc"]["stf"]]) for r in recs if any(r["sc"]["flags"].values())])
    ctx.cov["rule"] = ("one evaluation = one complete OuterAccumulation / DeferredTransfers run on a fresh prior state with its whole posterior "
                       "compared with the specification's; non-trivial = distinct (flags, gas limit) scenarios with at least one op group on")
    ns = sorted(set(r["outer"].get("n", -1) for r in recs))
    ctx.cov["actions"].update({
        "scenarios": len(recs), "stf_scenarios": sum(1 for r in recs if r["stf"]), "report_counts_seen": ns,
        "rounds_max": max([len(r["outer"].get("u", [])) for r in recs] or [0]),
        "new_services_seen": sum(len(r["outer"].get("news", [])) for r in recs),
        "removed_services_seen": sum(len(r["outer"].get("gone", [])) for r in recs),
        "provided_seen": sum(len(a["prov"]) for r in recs for a in r["outer"].get("acc", [])),
        "privilege_changes_seen": sum(1 for r in recs if r["outer"].get("priv", {}).get("m") != 10 or r["outer"].get("priv", {}).get("v") != 13),
    })
    ctx.cov["samples"] = [{"n": r["n"], "g": r["sc"]["g"], "flags": [k for k, v in r["sc"]["flags"].items() if v], "reports": r["outer"].get("n"),
                           "u": r["outer"].get("u"), "ug": r["outer"].get("ug"), "priv": r["outer"].get("priv")} for r in recs[:3]]
    vf.validate_trace(ctx, "AccOuter_Trace", lines, shard=60, timeout=1500, heap="3g", par=3 if q else 10, what=WHAT)
    infra = [w for w, _ in ctx.violations if any(x in w for x in INFRA_WHY)]
    if infra:
        raise vf.Infra("harness problem, not a verdict: %s" % infra[:2])

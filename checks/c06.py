"""C06 — standard program initialisation layout (Gray Paper A.7, Y(p, a)).
MC: MC_StdInit (layout design invariants over the size classes; strict blob grammar on all small blobs).
G: StdInit_Gen enumerates blobs as lazy segment lists (size-class product, zero-shaped data, malformed classes, big sizes).
X: harness/stdinit (in-package PVM): DecodeSerializedValues + SingleInitializer, projection of Memory.Pages / registers.
V: StdInit_Trace judges every record against StdInit (page set, access, contents, registers, code, rejection)."""
import json
import vf

FILES = {
    "internal/verifdrv/vfd/vfd.go": "vfd/vfd.go",
    "internal/verifdrv/vfd/term.go": "vfd/term.go",
    "PVM/zz_verif_stdinit_test.go": "stdinit/zz_verif_stdinit_test.go",
}
INV = ["InvLayout", "InvFits", "InvShape", "InvRoundTrip", "InvPrefixFree", "InvPrefixParse", "InvLazy"]


def select(ctx, lines):
    """quick: the generator already thinned the size product (Pick, seeded); keep a seeded 60 of the zero-shaped cases."""
    if not ctx.quick:
        return lines
    shaped = sorted(l for l in lines if '"tag":"shaped"' in l)
    other = sorted(l for l in lines if '"tag":"shaped"' not in l)
    rng = vf.Rng(ctx.seed)
    spick = set()
    while len(spick) < min(60, len(shaped)):
        spick.add(rng.n(len(shaped)))
    return other + [shaped[i] for i in sorted(spick)]


def run(ctx):
    ctx.assumptions += ["oracle = Gray Paper A.7 as transcribed in spec/pvm/StdInit.tla (DESIGN.md Appendix C); a blob with trailing bytes is malformed",
                        "page contents: pattern data (never zero) is compared through non-zero counts, sparse byte lists (<= 80 non-zero or <= 80 zero bytes: exact), "
                        "first/last non-zero byte and 10 fixed sample offsets per page",
                        "the 2^32 layout condition cannot fail for 3-byte lengths and a 2-byte z (MC: MaxLayoutFits); the rejection branch for it is not reachable through a blob"]
    vf.mc(ctx, "MC_StdInit", vf.cfg_text(constants={"Tier": '"%s"' % ctx.tier}, invariants=INV), workers=4, timeout=900,
          coverage=not ctx.quick)
    binp = vf.build_driver(ctx, "stdinit", "./PVM", FILES)
    if ctx.replay:
        cases = []
        for ln in vf.read_lines(ctx.replay):
            r = json.loads(ln)
            cases.append(json.dumps({k: r[k] for k in ("tag", "blob", "arg")}))
    else:
        casep0 = vf.gen_cases(ctx, "StdInit_Gen", {"Tier": '"%s"' % ctx.tier, "Seed": str(ctx.seed % 1000)}, timeout=600)
        cases = select(ctx, vf.read_lines(casep0))
    casep = ctx.tmp + "/cases.ndjson"
    with open(casep, "w") as f:
        f.write("\n".join(cases) + "\n")
    tracep = ctx.tmp + "/trace.ndjson"
    vf.run_driver(ctx, binp, "TestVerifStdInit", env={"VF_CASES": casep, "VF_OUT": tracep}, timeout=900)
    lines = vf.read_lines(tracep)
    if len(lines) != len(cases):
        raise vf.Infra("driver produced %d records for %d cases" % (len(lines), len(cases)))
    ctx.cov["evaluations"] = len(lines)
    tags = {}
    acc = 0
    for ln in lines:
        r = json.loads(ln)
        tags[r["tag"]] = tags.get(r["tag"], 0) + 1
        acc += 1 if r["res"]["ok"] else 0
    ctx.cov["actions"].update({"case_" + k: v for k, v in tags.items()})
    ctx.cov["actions"]["accepted_by_code"] = acc
    ctx.cov["distinct_nontrivial"] = vf.distinct_count(
        [l for l in lines], key=lambda r: [r["blob"], r["arg"]])
    ctx.cov["rule"] = ("cases = TLC-enumerated blobs: product of |o|,|w| in {0,1,4095,4096,4097,65535,65536,65537} x z in {0,1,15,16,17} x s in {0,1,4095,4096,65536} "
                       "x |a| in {0,1,4095,4096,4097} (quick: a seed-chosen fifteenth, about 530), zero-shaped data, truncation at every field boundary +-1, trailing bytes, "
                       "declared lengths +-1 / maximal, extra argument sizes, (thorough) 2^24-1 / z=65535 / |a|=Z_I; distinct = distinct (blob, argument) descriptors")

    def slim(r):
        return {"tag": r["tag"], "blob": [[s["k"], s["n"]] for s in r["blob"]], "arg_len": sum(s["n"] for s in r["arg"]),
                "ok": r["res"]["ok"], "pages": [[p["n"], p["cnt"], p["acc"], p["nnz"]] for p in r["res"]["pages"][:6]]}
    ctx.cov["samples"] = [slim(json.loads(x)) for x in (lines[:2] + lines[-2:])]
    # big records (thousands of page entries) go to their own shards
    big = [l for l in lines if len(l) > 200000]
    small = [l for l in lines if len(l) <= 200000]
    per = 100 if ctx.quick else 250
    shards = [small[i:i + per] for i in range(0, len(small), per)] + [[b] for b in big]
    vf.validate_trace(ctx, "StdInit_Trace", shards, timeout=1500, heap="3g", par=8 if ctx.quick else 12,
                      what="SingleInitializer deviates from the Gray Paper memory map")

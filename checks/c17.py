"""C17 - state export / import round trip.
MC: MC_StateKV - every well-formed state over 2 services (<=2 storage, <=2 preimages, <=4 lookup items with matching /
    wrong-length / other-service / orphan targets) under an injective toy hash: Export/Import round-trips, the
    classification recovers exactly the non-invertible part as raw, the two-phase list import is order independent.
G:  StateKV_Gen enumerates the SHAPES of states (0..8 services; storage / preimage / lookup relations); a seeded
    selection of them is built by the driver around full random 16-component states (reflection generator).
X:  harness/statekv (package merklization): StateEncoder, StateKeyValsToState on several orderings, StateEncoder of the
    parsed state, MerklizationState / MerklizationSerializedState; BLAKE2b oracle table for the key hashes.
G2: StateKV_Root (spec/crypto/Trie.tla) turns a number of snapshots into root TERMS, evaluated with real BLAKE2b.
V:  StateKV_Trace: snapshot = D.2 serialisation of the abstract state; per ordering raw = the specification's raw set,
    parsed services = the specification's, re-export + raw = snapshot (sets, no duplicates), equal roots."""
import json
import os
import vf

os.environ.setdefault("JAVA_TOOL_OPTIONS", "-XX:ParallelGCThreads=2 -XX:CICompilerCount=2")

FILES = {
    "internal/verifdrv/vfd/vfd.go": "vfd/vfd.go",
    "internal/verifdrv/vfd/term.go": "vfd/term.go",
    "internal/utilities/merklization/zz_verif_statekv_test.go": "statekv/statekv_test.go",
}
WHAT = "state export/import round trip fails"
INFRA_WHY = ("oracle_miss", "generated_state_not_wellformed")


def select_cases(ctx, casep):
    shapes = [json.loads(x) for x in vf.read_lines(casep)]
    shapes.sort(key=lambda c: json.dumps(c, sort_keys=True))
    rng = vf.Rng(ctx.seed)
    core = [c for c in shapes if c["core"]]
    rest = [c for c in shapes if not c["core"]]
    multi = [c for c in shapes if len(c["svcs"]) >= 2]
    n_core, n_rest = (40, 60) if ctx.quick else (400, 600)
    pick = []
    # always: the empty states, every multi-service size once, then seeded samples
    pick += [c for c in shapes if not c["svcs"]]
    for n in range(2, 9):
        cand = [c for c in multi if len(c["svcs"]) == n]
        pick.append(rng.pick(cand))
    for pool, k in ((core, n_core), (rest, n_rest)):
        pool = list(pool)
        for _ in range(min(k, len(pool))):
            pick.append(pool.pop(rng.n(len(pool))))
    seen, out = set(), []
    for c in pick:
        key = json.dumps(c, sort_keys=True)
        if key not in seen:
            seen.add(key)
            out.append(c)
    n_snap = 16 if ctx.quick else 160
    for i, c in enumerate(out):
        c["n"] = i + 1
        c["snap"] = i < 10 or (i % max(1, len(out) // n_snap) == 0)
    return out, len(shapes)


def shard_by_size(lines, max_bytes=4000000, max_lines=400):
    shards, cur, size = [], [], 0
    for ln in lines:
        if cur and (size + len(ln) > max_bytes or len(cur) >= max_lines):
            shards.append(cur)
            cur, size = [], 0
        cur.append(ln)
        size += len(ln)
    if cur:
        shards.append(cur)
    return shards


def run(ctx):
    ctx.assumptions += [
        "BLAKE2b-256 is trusted (oracle table filled with golang.org/x/crypto by a fixed query schema; a miss is exit 2)",
        "the 16 non-service components are opaque to the specification (their codecs are C11); the log carries E4(len)++BLAKE2b(value) "
        "tokens for them, the Go side round-trips the real encodings of reflection-generated random values (tiny chain spec)",
        "well-formed state: preimages keyed by their hash, every service has an info entry, <=127 time slots per lookup item, "
        "service info version = types.ServiceInfoVersion (0)",
        "an entry 'cannot be attributed' exactly when spec/node/StateKV.tla Classify calls it raw: storage items and lookup items "
        "without a parsed preimage of that hash and length in the same service",
    ]
    q = ctx.quick
    vf.mc(ctx, "MC_StateKV", vf.cfg_text(constants={"Lim2": "0" if q else "4", "MaxPerm": "4" if q else "6"}, invariants=["InvAll"]),
          workers=2 if q else 8, timeout=1700, heap="3g" if q else "6g", coverage=False)
    binp = vf.build_driver(ctx, "statekv", "./internal/utilities/merklization", FILES)
    if ctx.replay:
        lines = vf.read_lines(ctx.replay)
        lines = [json.dumps({k: v for k, v in json.loads(x).items() if k != "_want"}) for x in lines]
    else:
        shapep = vf.gen_cases(ctx, "StateKV_Gen", {"Tier": '"%s"' % ctx.tier}, timeout=600, heap="2g")
        cases, nshapes = select_cases(ctx, shapep)
        casep = os.path.join(ctx.tmp, "cases.ndjson")
        with open(casep, "w") as f:
            for c in cases:
                f.write(json.dumps(c) + "\n")
        tracep, snapp = os.path.join(ctx.tmp, "trace.ndjson"), os.path.join(ctx.tmp, "snap.ndjson")
        vf.run_driver(ctx, binp, "TestStateKV", env={"VF_CASES": casep, "VF_OUT": tracep, "VF_SNAP": snapp, "VF_SEED": ctx.seed,
                                                     "VF_SHUFFLES": 2 if q else 4}, timeout=1200)
        lines = vf.read_lines(tracep)
        # G2: root terms of the snapshots, evaluated by the generic term evaluator
        snaps = vf.read_lines(snapp)
        want = {}
        if snaps:
            import concurrent.futures as cf
            nparts = 2 if q else 8
            parts = [snaps[i::nparts] for i in range(nparts)]
            parts = [p for p in parts if p]

            def term_part(i):
                p = os.path.join(ctx.tmp, "snap-%d.ndjson" % i)
                open(p, "w").write("\n".join(parts[i]) + "\n")
                return vf.gen_cases(ctx, "StateKV_Root", {"InFile": '"%s"' % p}, outfile="terms-%d.ndjson" % i, timeout=1500, heap="3g", tag=str(i))
            with cf.ThreadPoolExecutor(2 if q else 6) as ex:
                outs = list(ex.map(term_part, range(len(parts))))
            termp = os.path.join(ctx.tmp, "terms.ndjson")
            with open(termp, "w") as f:
                for p in outs:
                    f.write(open(p).read())
            rootp = os.path.join(ctx.tmp, "roots.ndjson")
            vf.run_driver(ctx, binp, "TestRootTerms", env={"VF_CASES": termp, "VF_OUT": rootp})
            for x in vf.read_lines(rootp):
                r = json.loads(x)
                want[r["id"]] = r["want"]
        merged = []
        for x in lines:
            r = json.loads(x)
            r["want_root"] = want.get(r["n"], [])
            merged.append(json.dumps(r))
        lines = merged
        ctx.cov["actions"].update({"shapes_enumerated": nshapes, "root_terms": len(want)})
    recs = [json.loads(x) for x in lines]
    ctx.cov["evaluations"] = sum(1 + len(r["runs"]) for r in recs)
    nt = set()
    for r in recs:
        if any(a["pre"] or a["look"] or a["storage"] for a in r["abs"]["svc"]):
            nt.add(json.dumps(r["abs"], sort_keys=True))
    ctx.cov["distinct_nontrivial"] = len(nt)
    ctx.cov["rule"] = ("one evaluation = one export or one import+re-export of a generated full state; non-trivial = distinct generated states "
                       "with at least one storage / preimage / lookup entry (every state carries 16 random components)")
    ctx.cov["actions"].update({
        "states": len(recs), "orderings": sum(len(r["runs"]) for r in recs),
        "services_max": max([len(r["abs"]["svc"]) for r in recs] or [0]),
        "raw_entries": sum(len(r["runs"][0]["raw"]) for r in recs if r["runs"]),
        "lookups_parsed": sum(len(a["look"]) for r in recs if r["runs"] for a in r["runs"][0]["svc"]),
        "lookups_generated": sum(len(a["look"]) for r in recs for a in r["abs"]["svc"]),
        "preimages_parsed": sum(len(a["pre"]) for r in recs if r["runs"] for a in r["runs"][0]["svc"]),
        "snapshot_bytes_max": max([r.get("bytes", 0) for r in recs] or [0]),
    })
    ctx.cov["samples"] = [{"n": r["n"], "shape": r.get("shape"), "bytes": r.get("bytes"), "kvs": len(r["exp"]["kvs"]),
                           "raw": len(r["runs"][0]["raw"]) if r["runs"] else None, "root0": r["root0"]} for r in recs[3:6]]
    vf.validate_trace(ctx, "StateKV_Trace", shard_by_size(lines), timeout=1700, heap="3g", par=3 if q else 12, what=WHAT)
    infra = [w for w, _ in ctx.violations if any(x in w for x in INFRA_WHY)]
    if infra:
        raise vf.Infra("harness problem, not a verdict: %s" % infra[:2])

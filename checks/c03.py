"""C03 — untrusted program bytes never crash the node (exploration level).
G: ProgramBlob_Gen enumerates blobs from the grammar of standard-program and inner (deblob) blobs: length-field classes,
   truncations, bitmask faults, code ending inside an instruction, jump/branch/table targets around |c| and 2^32-1,
   gas-exhaustion loops, sbrk; this script adds seeded bit flips of the valid blobs.
X: harness/blob (in-package PVM): SingleInitializer, Psi_M, DeBlobProgramCode, the interpreter, refine host calls
   machine + invoke, under recover(), a CPU-time watchdog (30 s; 120 s when re-run alone), a heap watchdog and TotalAlloc accounting; the driver is restarted
   after a case that hangs, blows the heap or kills the process (such a case is re-run alone to confirm).
V: ProgramBlob_Trace: no Go panic / hang / death; malformed => panic (HUH), well-formed => a defined PVM outcome;
   gas used within [0, limit]; alloc <= K + c * declared."""
import hashlib
import json
import os
import vf

FILES = {
    "internal/verifdrv/vfd/vfd.go": "vfd/vfd.go",
    "internal/verifdrv/vfd/term.go": "vfd/term.go",
    "PVM/zz_verif_blob_test.go": "blob/zz_verif_blob_test.go",
}
CASE_KEYS = ("tag", "kind", "blob", "al", "gas", "pc", "want")


def flips(ctx, base, n):
    """seeded bit flips (1-3 bits) of valid / structurally interesting blobs"""
    rng = vf.Rng(ctx.seed * 7919 + 11)
    out = []
    for _ in range(n):
        c = dict(rng.pick(base))
        b = list(c["blob"])
        if not b:
            continue
        for _ in range(1 + rng.n(3)):
            i = rng.n(len(b))
            b[i] ^= 1 << rng.n(8)
        c["blob"], c["tag"], c["want"] = b, "flip", -1
        c["gas"] = rng.pick([1, 50, 10000])
        out.append(c)
    return out


def shape_fill(c, **kw):
    r = {"id": -1, "allocK": 0, "hang": False, "mem": False, "died": "", "heapK": 0}
    r.update({k: c[k] for k in CASE_KEYS})
    if c["kind"] == "std":
        r["init"] = {"ok": False, "panic": ""}
        r["psi"] = {"kind": "none", "used": 0, "outlen": 0, "panic": ""}
    else:
        r["deblob"] = {"ok": False, "panic": ""}
        r["run"] = {"ran": False, "kind": "none", "used": 0, "panic": ""}
        r["machine"] = {"exit": "none", "w7": [], "panic": ""}
        r["invoke"] = {"ran": False, "exit": "none", "w7": [], "gasleft": 0, "panic": ""}
        r["aux"] = {"ran": False, "pages": "none", "poke": "none", "peek": "none", "expunge": "none", "same": False, "codes": [], "panic": ""}
    r.update(kw)
    return r


def run_cases(ctx, binp, cases, name, confirm=True):
    """run the driver over `cases`, restarting after abnormal cases; returns trace lines (one per case)"""
    casep = os.path.join(ctx.tmp, name + "-cases.ndjson")
    tracep = os.path.join(ctx.tmp, name + "-trace.ndjson")
    with open(casep, "w") as f:
        f.write("\n".join(json.dumps(c) for c in cases) + "\n")
    open(tracep, "w").close()
    skip, restarts, careful = 0, 0, False
    abnormal = []
    while skip < len(cases):
        r = vf.run_driver(ctx, binp, "TestVerifBlob", env={"VF_CASES": casep, "VF_OUT": tracep, "VF_SKIP": skip, "VF_WATCHDOG_S": 30 if confirm else 120,
                                                           "VF_FLUSH_EVERY": 1 if careful else 64},
                          timeout=2400, allow_fail=True)
        lines = vf.read_lines(tracep)
        if r.returncode == 0:
            if len(lines) != len(cases):
                raise vf.Infra("driver produced %d records for %d cases" % (len(lines), len(cases)))
            break
        if r.returncode == 3 and len(lines) > skip:          # hang / heap record written by the driver itself
            abnormal.append(len(lines) - 1)
            skip = len(lines)
        elif not careful:                                    # the process died: records are buffered, so re-run from the
            careful = True                                   # last one on disk, flushing after every case, to find the culprit
            skip = len(lines)
        else:                                                # died in careful mode: the culprit is case len(lines)
            idx = len(lines)
            if idx >= len(cases):
                raise vf.Infra("driver failed after the last case rc=%d:\n%s" % (r.returncode, (r.stdout + r.stderr)[-3000:]))
            tail = (r.stdout + r.stderr)
            k = tail.find("fatal error")
            msg = (tail[k:k + 160] if k >= 0 else tail[-160:]).replace("\n", " | ")
            with open(tracep, "a") as f:
                f.write(json.dumps(shape_fill(cases[idx], id=idx, died=msg or "died rc=%d" % r.returncode)) + "\n")
            abnormal.append(idx)
            skip = idx + 1
            careful = False
        restarts += 1
        if restarts > 40:
            if abnormal:
                vf.log("  note: %d abnormal cases in this slice; the remaining %d cases are not run" % (len(abnormal), len(cases) - skip))
                break
            raise vf.Infra("driver restarted more than 40 times")
    lines = vf.read_lines(tracep)
    if confirm:
        confirmed = 0
        for idx in abnormal:                                 # DESIGN 4.1: only if the persisted case does it again
            if confirmed >= 2:                               # two confirmed are a verdict already; do not spend 40 s on each further one
                break
            again = run_cases(ctx, binp, [cases[idx]], "%s-confirm%d" % (name, idx), confirm=False)
            ra, ro = json.loads(again[0]), json.loads(lines[idx])
            if not (ra["hang"] or ra["mem"] or ra["died"]):
                vf.log("  note: case %d was abnormal (%s) in the batch but normal alone; using the solitary run" % (
                    idx, "hang" if ro["hang"] else "mem" if ro["mem"] else "died"))
                ra["id"] = idx
                lines[idx] = json.dumps(ra)
            else:
                confirmed += 1
    return lines


def nontrivial(c):
    b = c["blob"]
    if c["kind"] == "std":
        return len(b) >= 11
    if not b:
        return False
    lead = 0
    while lead < 8 and b[0] & (0x80 >> lead):
        lead += 1
    return len(b) >= 1 + lead


def run(ctx):
    ctx.level = "exploration"
    ctx.assumptions += ["exploration level: structured enumeration from the blob grammar plus seeded bit flips; no coverage-guided fuzzing",
                        "well-formed blobs may end in any defined PVM outcome (which one is C01's property); malformed ones must panic / HUH",
                        "allocation bound K = 4 MiB, c = 256 per declared KiB (blob, argument, and the regions a parsable standard header asks for); "
                        "TotalAlloc is measured over all entry points run for the case",
                        "host calls are absent (nil table -> WHAT) in Psi_M runs; gas <= 10^4; watchdog = 30 s of process CPU time per case (120 s when the case is re-run alone); 3 GiB heap watchdog"]
    binp = vf.build_driver(ctx, "blob", "./PVM", FILES)
    if ctx.replay:
        cases = [{k: json.loads(ln).get(k, -1) for k in CASE_KEYS} for ln in vf.read_lines(ctx.replay)]
    else:
        casep0 = vf.gen_cases(ctx, "ProgramBlob_Gen", {"Tier": '"%s"' % ctx.tier}, timeout=900)
        gen = [json.loads(ln) for ln in vf.read_lines(casep0)]
        gen.sort(key=lambda c: json.dumps(c, sort_keys=True))
        base = [c for c in gen if c["tag"] in ("valid", "cutinstr", "target", "mask")]
        cases = gen + flips(ctx, base, 1800 if ctx.quick else 120000)
        if "sbrk_eager_alloc" not in ctx.known_slugs():
            pass   # nothing to steer: the generator holds a single large-sbrk case
    if ctx.quick:   # the standard-wrapper twins of the cut-instruction programs: every third one
        keep, k = [], 0
        for c in cases:
            if c["tag"] == "cutinstr" and c["kind"] == "std":
                k += 1
                if k % 3:
                    continue
            keep.append(c)
        cases = keep
    if ctx.quick:   # the largest declared sizes once, not per argument length
        cases = [c for c in cases if not (c["kind"] == "std" and c["al"] >= 4096 and len(c["blob"]) >= 8
                                          and c["blob"][6] + 256 * c["blob"][7] >= 4096)]
    # several driver processes, each with its own slice (interleaved so that the heavy cases spread out)
    nproc = 2 if ctx.quick else 6
    parts = [cases[k::nproc] for k in range(nproc)]
    import concurrent.futures as cf
    with cf.ThreadPoolExecutor(nproc) as ex:
        outs = list(ex.map(lambda kp: run_cases(ctx, binp, kp[1], "blob%d" % kp[0]), enumerate(parts)))
    cases = [c for p in parts for c in p]
    lines = [ln for o in outs for ln in o]
    ctx.cov["evaluations"] = len(lines)
    seen = set()
    tags = {}
    for c in cases:
        tags[c["tag"] + "_" + c["kind"]] = tags.get(c["tag"] + "_" + c["kind"], 0) + 1
        if nontrivial(c):
            seen.add(hashlib.sha1(bytes(c["blob"]) + c["kind"].encode()).hexdigest())
    ctx.cov["distinct_nontrivial"] = len(seen)
    ctx.cov["actions"].update({"case_" + k: v for k, v in tags.items()})
    outcomes = {}
    for ln in lines:
        r = json.loads(ln)
        k = ("psi_" + r["psi"]["kind"]) if r["kind"] == "std" else ("deblob_" + ("ok" if r["deblob"]["ok"] else "panic") + "_run_" + r["run"]["kind"] + "_invoke_" + (
            "".join(str(x) for x in r["invoke"]["w7"][:1]) if r["invoke"]["ran"] else "none"))
        outcomes[k] = outcomes.get(k, 0) + 1
    ctx.cov["actions"].update({"outcome_" + k: v for k, v in outcomes.items()})
    ctx.cov["rule"] = ("evaluations = blobs executed (each through every entry point of its kind); distinct_nontrivial = distinct blobs by digest that get past "
                       "the first length field (standard: the 11-byte header is present; inner: the first natural is complete)")

    def slim(r):
        r = dict(r)
        r["blob"] = r["blob"][:24]
        return r
    ctx.cov["samples"] = [slim(json.loads(x)) for x in (lines[:2] + lines[-2:])]
    vf.validate_trace(ctx, "ProgramBlob_Trace", lines, shard=700 if ctx.quick else 8000, timeout=1800, heap="3g",
                      par=8 if ctx.quick else 12, what="program blob handling outside the defined outcomes")

"""C07 — host-call register, memory and error discipline (+ the host-call half of C04: every call charges exactly 10,
transfer additionally its gas-limit argument on success, insufficient gas => out-of-gas with nothing changed).
MC: MC_HostFrame — every outcome the functional definitions (HostAccumulate) allow obeys the frame (HostFrame), for every
    argument class of the partition, every gas class and four context variants.
G:  HostCall_Gen groups "frame" (per table and call: one-factor-at-a-time over the argument partition + seeded combinations,
    x memory-edge pointers, lengths 0/1/page-crossing/2^32/2^64-1, service ids existing / absent / existing + 2^32, gas classes,
    context variants) and "disp" (unknown identifiers of every class and the defined ones through Host.HostCall).
X:  harness/hostcall (AccumulateOmegas / RefineOmegas / IsAuthorizedOmegas entries on a fresh OmegaInput, or the real dispatch).
V:  HostCall_Trace mode c07: the frame for every call, the exact outcome for the 22 calls HostAccumulate defines (all but the six inner-machine calls)."""
import concurrent.futures as cf
import json
import os
import sys
sys.path.insert(0, os.path.dirname(os.path.abspath(__file__)))
import vf
import hostcall_common as hc


def run(ctx):
    ctx.assumptions += ["the build under test is the tiny configuration (C = 2, V = 6, D = 32), the default of every test binary",
                        "host calls are entered with a gas counter >= -2^62 (the interpreter never hands over less than -1)",
                        "service contexts: the accumulating service's account exists, recorded footprints are coherent, no raw storage key-values (fuzzer pool) are pending",
                        "exact outcomes are demanded for every general, accumulate and refine call except the six inner-machine calls (machine, peek, poke, pages, invoke, expunge: "
                        "exact in C33, judged by the frame here); fetch's codec-encoded values (E(p), E(p_x), accumulate inputs, constants) come from the repository's codec (C11)",
                        "BLAKE2b (provide) and the FNV digests of guest ranges / queues / keys are computed by the driver as primitives; the three solicited hashes of the provide contexts are an oracle table checked against hashlib",
                        "the two instruction charges of the dispatch program (ecalli, trap: 1 each) are C04's per-instruction clause"]
    quick = ctx.quick
    with cf.ThreadPoolExecutor(8) as ex:
        fb = ex.submit(hc.build, ctx)
        c = dict(hc.BUILD)
        c.update({"NRand": "0" if quick else "12", "Seed": str(ctx.seed % 499)})
        raw = "CONSTRAINT QuickJobs" if quick else ""
        fmc = ex.submit(vf.mc, ctx, "MC_HostFrame", vf.cfg_text(constants=c, invariants=["FrameHolds"], raw=raw),
                        workers=3 if quick else 8, timeout=2400, heap="4g")
        if ctx.replay:
            casefiles = [p for p in hc.replay_cases(ctx)[:1] if p]
        else:
            ff = hc.gen_parts(ex, ctx, "frame", 16 if quick else 600, 1, 1 if quick else 5)
            fd = ex.submit(hc.gen, ctx, "disp", 2 if quick else 4, 1, ctx.seed)
            casefiles = [f.result() for f in ff] + [fd.result()]
        binp = fb.result()
        lines = hc.run_cases(ctx, binp, casefiles) if casefiles else []
        fmc.result()
    if not lines:
        raise vf.Infra("nothing to judge")
    def nontrivial(e):
        return e["ev"] == "Call" and e["post"]["exit"] == "cont" and (e["post"]["ctx"] != e["pre"]["ctx"] or e["post"]["diff"] or e["post"]["regs"][7] != e["pre"]["regs"][7])
    hc.summarize(ctx, lines, nontrivial,
                 "one evaluation = one host call on the real Omega function with full before/after state; non-trivial = the call continued and changed register 7, guest memory or the context "
                 "(the rest are panics, out-of-gas exits and unchanged answers, which the frame judges as well)")
    hc.judge(ctx, lines, "c07", "host call breaks the frame / differs from the specified outcome", 400 if quick else 2500, 6 if quick else 14)
    if getattr(ctx, "selftest", False) or not quick:
        def corrupt(e):
            if e["ev"] == "Call" and e["post"]["exit"] == "cont" and hc.val(e["id"]) == 3:
                e["post"]["regs"][9][0] ^= 1          # a register outside the frame of read
                return True
            return False
        hc.selftest(ctx, lines, "c07", corrupt, "register 9 changed by read")

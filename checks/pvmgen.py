"""Seeded generators of PVM cases (T-direction input for C01/C02/C04/C05).  Pure input construction:
no expected values are computed here — the oracle is spec/pvm/PVM.tla, evaluated by TLC."""
import json

FMT = {}
for o in (0, 1): FMT[o] = "none"
FMT[10] = "imm"; FMT[20] = "regext"
for o in range(30, 34): FMT[o] = "imm2"
FMT[40] = "off"
for o in range(50, 63): FMT[o] = "regimm"
for o in range(70, 74): FMT[o] = "regimm2"
for o in range(80, 91): FMT[o] = "regimmoff"
for o in range(100, 112): FMT[o] = "reg2"
for o in range(120, 162): FMT[o] = "reg2imm"
for o in range(170, 176): FMT[o] = "reg2off"
FMT[180] = "reg2imm2"
for o in range(190, 231): FMT[o] = "reg3"
VALID = sorted(FMT)
TERM = {0, 1, 40, 50, 180} | set(range(80, 91)) | set(range(170, 176))
NOJUMPIND = [o for o in sorted(FMT) if o not in (50, 180)]
LOADSTORE = set(range(30, 34)) | set(range(52, 63)) | set(range(70, 74)) | set(range(120, 131))

U64 = 1 << 64


def le(x, n=8):
    x %= (1 << (8 * n))
    return [(x >> (8 * i)) & 255 for i in range(n)]


BOUNDARY = [0, 1, 2, 0x7f, 0x80, 0xff, 0x100, 0x7fff, 0x8000, 0xffff, 0x10000, (1 << 31) - 1, 1 << 31, (1 << 31) + 1,
            (1 << 32) - 1, 1 << 32, (1 << 32) + 1, (1 << 63) - 1, 1 << 63, (1 << 63) + 1, U64 - 1, U64 - 2,
            U64 - (1 << 31), U64 - (1 << 32), 0xFFFF0000, 63, 64, 65, 31, 32, 33]

# memory window: page 16 R, 17 W, 18 absent, 19 W, 20 R ; addresses of interest around their edges
PAGES = [[16, "R"], [17, "W"], [19, "W"], [20, "R"]]
def addr_pool():
    out = []
    for pg in (15, 16, 17, 18, 19, 20, 21):
        base = pg * 4096
        for d in (-8, -4, -2, -1, 0, 1, 2, 4, 7, 8, 100, 4088, 4092, 4094, 4095):
            out.append(base + d)
    out += [0, 1, 0xffff, 0x10000, 0xfffe, 0xfffc]
    return out
ADDRS = addr_pool()


def rand_u64(rng):
    k = rng.n(10)
    if k < 4:
        return rng.pick(BOUNDARY)
    if k < 6:
        return rng.pick(ADDRS) % U64
    if k < 7:
        return rng.n(256)
    return rng.u64()


def imm_bytes(rng, n, kind="any"):
    """n little-endian immediate bytes; kind 'addr' biases to the memory window."""
    if n == 0:
        return []
    if kind == "addr" and n >= 3:
        return le(rng.pick(ADDRS), 4)[:n] if n == 4 else le(rng.pick(ADDRS), 3)
    k = rng.n(6)
    if k == 0:
        return [rng.pick([0, 1, 0x7f, 0x80, 0xff]) for _ in range(n)]
    if k == 1:
        return le(rng.pick([0, 1, 2, 31, 32, 33, 63, 64, 65]), n)
    return [rng.n(256) for _ in range(n)]


class Asm:
    """Assembles instructions into code+mask; records instruction starts."""
    def __init__(self):
        self.code, self.mask, self.starts = [], [], []

    def emit(self, op, operands, pad=0):
        self.starts.append(len(self.code))
        self.code += [op] + list(operands) + [0] * pad
        self.mask += [1] + [0] * (len(operands) + pad)

    def here(self):
        return len(self.code)


def operands_for(rng, op, here, targets, mem_bias=True, full=True, forward=False):
    """Operand bytes for opcode op at position `here`.  full=True: the natural encoding (declared lengths
    match the bytes present); full=False: random skip / length selectors (including selectors larger than
    the bytes present, >4, and 0)."""
    f = FMT.get(op, "none")
    r = lambda: rng.n(16)
    def off_bytes(n):
        if n == 0:
            return []
        k = rng.n(4)
        if targets and k != 0:
            t = rng.pick(targets)
        else:
            t = here + rng.pick([-300, -1, 0, 1, 2, 3, 5, 300, 70000])
        if forward and t <= here:
            t = here + 1 + (here - t)          # loop-free programs: only forward targets
        d = t - here
        return le(d, n)
    addr = "addr" if (op in LOADSTORE and mem_bias) else "any"
    if f == "none":
        return [] if full else [rng.n(256) for _ in range(rng.n(3))]
    if f == "imm":
        n = rng.pick([0, 1, 2, 3, 4]) if full else rng.n(8)
        return imm_bytes(rng, n) if full else [rng.n(256) for _ in range(n)]
    if f == "regext":
        return [r() | (rng.n(16) << 4)] + [rng.n(256) if rng.n(3) else rng.pick([0, 0xff, 0x80]) for _ in range(8 if full else rng.n(11))]
    if f == "imm2":
        lx = rng.pick([0, 1, 2, 3, 4]) if full else rng.n(8)
        ly = rng.pick([0, 1, 2, 3, 4]) if full else rng.n(6)
        sel = lx | (rng.n(32) << 3) if full else rng.n(256)
        nx = min(4, sel % 8)
        return [sel] + imm_bytes(rng, nx if full else lx, addr) + imm_bytes(rng, ly)
    if f == "off":
        n = rng.pick([1, 2, 3, 4]) if full else rng.n(7)
        return off_bytes(min(n, 4)) + ([rng.n(256)] * (n - 4) if n > 4 else [])
    if f == "regimm":
        n = rng.pick([0, 1, 2, 3, 4]) if full else rng.n(8)
        return [r() | (rng.n(16) << 4)] + (imm_bytes(rng, n, addr) if n <= 4 else [rng.n(256) for _ in range(n)])
    if f in ("regimm2", "regimmoff"):
        lx = rng.pick([0, 1, 2, 3, 4]) if full else rng.n(8)
        ly = rng.pick([0, 1, 2, 3, 4]) if full else rng.n(6)
        hi = lx | (rng.n(2) << 3) if full else rng.n(16)
        nx = min(4, hi % 8)
        body = imm_bytes(rng, nx if full else min(lx, 6))
        if f == "regimmoff":
            # offset is relative to the instruction start
            tail = off_bytes(min(ly, 4)) + [rng.n(256)] * max(0, ly - 4)
        else:
            tail = imm_bytes(rng, min(ly, 4))
        return [r() | (hi << 4)] + body + tail
    if f == "reg2":
        return [rng.n(256)] + ([] if full else [rng.n(256) for _ in range(rng.n(3))])
    if f == "reg2imm":
        n = rng.pick([0, 1, 2, 3, 4]) if full else rng.n(8)
        k = "addr" if op in LOADSTORE and rng.n(2) else "any"
        return [rng.n(256)] + (imm_bytes(rng, n, k) if n <= 4 else [rng.n(256) for _ in range(n)])
    if f == "reg2off":
        n = rng.pick([1, 2, 3, 4]) if full else rng.n(7)
        return [rng.n(256)] + off_bytes(min(n, 4)) + [rng.n(256)] * max(0, n - 4)
    if f == "reg2imm2":
        lx = rng.pick([0, 1, 2, 3, 4]) if full else rng.n(8)
        ly = rng.pick([0, 1, 2, 3, 4]) if full else rng.n(6)
        sel = lx | (rng.n(32) << 3) if full else rng.n(256)
        nx = min(4, sel % 8)
        return [rng.n(256), sel] + imm_bytes(rng, nx if full else min(lx, 6)) + imm_bytes(rng, min(ly, 4))
    if f == "reg3":
        return [rng.n(256), rng.pick([rng.n(13), rng.n(256)])] + ([] if full else [rng.n(256) for _ in range(rng.n(3))])
    return []


def base_state(rng, gas=None, heap=True):
    regs = [le(rand_u64(rng)) for _ in range(13)]
    # a few registers point into the memory window so that indirect accesses hit mapped pages
    for _ in range(rng.n(5)):
        regs[rng.n(13)] = le(rng.pick(ADDRS))
    data = []
    for pg, _a in PAGES:
        for _ in range(rng.n(6)):
            data.append([pg, rng.pick([0, 1, 2, 3, 7, 8, 100, 4088, 4090, 4092, 4093, 4094, 4095]), 1 + rng.n(255)])
    # de-duplicate (page, off)
    seen, d2 = set(), []
    for t in data:
        if (t[0], t[1]) not in seen:
            seen.add((t[0], t[1])); d2.append(t)
    hp = 18 * 4096 if heap else 22 * 4096          # heap pointer at the end of page 17 (W); page 18 absent
    hl = rng.pick([18 * 4096, 18 * 4096 + 1, 19 * 4096, 19 * 4096 + 5, 30 * 4096, 18 * 4096 + 4096 * 3])
    return {"regs": regs, "acc": [list(x) for x in PAGES], "data": d2, "hp": le(hp), "hl": le(hl),
            "gas": gas if gas is not None else rng.pick([0, 1, 2, 3, 5, 8, 13, 30, 60]), "pc": 0}


def random_program(rng, clean=True, n_instr=None, ops=None, forward=False):
    """clean: every basic block ends in a terminator inside the code, only valid opcodes at instruction
    starts, natural operand encodings, and the code ends with `trap` followed by padding so that no operand
    read reaches past the end of the code."""
    a = Asm()
    n = n_instr or (1 + rng.n(10))
    plan = []
    pool = ops or VALID
    for _ in range(n):
        if not clean and rng.n(12) == 0:
            op = rng.pick([2, 5, 9, 11, 19, 21, 34, 39, 41, 63, 69, 74, 91, 99, 112, 119, 162, 169, 176, 181, 189, 231, 255])
        else:
            op = rng.pick(pool)
        plan.append(op)
    # first pass with dummy targets to learn the instruction starts, second pass with real targets
    targets = []
    for rnd in range(2):
        st = rng.s
        a = Asm()
        for op in plan:
            here = a.here()
            ops_b = operands_for(rng, op, here, targets, full=clean or rng.n(3) != 0, forward=forward)
            pad = 0 if clean or rng.n(4) else rng.n(4)
            a.emit(op, ops_b, pad)
        if rnd == 0:
            targets = list(a.starts)
            rng.s = st
    if clean:
        a.emit(0, [], 12)
    elif rng.n(2):
        a.emit(rng.pick([0, 1, 0, 50]), [], rng.n(3))
    jt = []
    for _ in range(rng.n(4)):
        jt.append(rng.pick(a.starts) if rng.n(5) else rng.n(len(a.code) + 3))
    mask = list(a.mask)
    if not clean and rng.n(5) == 0 and len(mask) > 2:
        i = 1 + rng.n(len(mask) - 1)
        mask[i] ^= 1
    return {"code": a.code, "mask": mask, "jt": jt, "z": rng.pick([1, 2, 2, 3, 4]) if jt else rng.pick([0, 1, 2])}, a.starts


def fix_jump_regs(rng, prog, st):
    """make some registers useful for jump_ind: 2*(k+1) jump-table addresses and the halt address"""
    for _ in range(2):
        k = rng.n(8)
        st["regs"][rng.n(13)] = le(rng.pick([0xFFFF0000, 2 * (k + 1), 2 * (k + 1) + 1, 0]))


def gen_random_cases(rng, n, clean_ratio=3):
    cases = []
    for i in range(n):
        clean = rng.n(clean_ratio + 1) != 0
        prog, starts = random_program(rng, clean=clean)
        st = base_state(rng)
        if rng.n(3) == 0:
            fix_jump_regs(rng, prog, st)
        st["prog"] = prog
        st["id"] = "r%d" % i
        st["tag"] = "clean" if clean else "edgy"
        st["fx"] = [le(rand_u64(rng)) for _ in range(3)]
        k = rng.n(12)
        if k < 2 and starts:
            st["pc"] = rng.pick(starts)
        elif k == 2:
            # any position, also inside an instruction's operands (counts as trap) or just past the end of the code
            st["pc"] = rng.n(len(prog["code"]) + 3)
        cases.append(st)
    return cases


def dump(cases, path):
    with open(path, "w") as f:
        for c in cases:
            f.write(json.dumps(c) + "\n")

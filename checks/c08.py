"""C08 — token conservation during accumulation.
MC: MC_Tokens — every behaviour of <= MaxSteps calls over an 18-letter alphabet (transfers around the caller's free balance,
    creations around what it can afford, ejections, upgrade, checkpoint; 4 services), every permitted outcome: Conservation
    (exact integer sum of balances + deferred amounts never above the start), Exactness (stored balances = exact integers: no
    wrap), Covered (caller never below its threshold), CashNoChange / AbortNoChange (action properties).
G:  HostCall_Gen "tokmc" (words over the model's alphabet from the model's initial contexts, small and near-2^64 balances)
    "tokens" (behaviours of the specification with amounts / code lengths drawn around the caller's free balance, its
    balance, 2^32, 2^63 and 2^64 in the state reached so far) and "tokthr" (a caller whose recorded footprint and gratis offset come
    from the threshold boundary grid of C09 - sums of 2^64 and more included - with balance = threshold + 1000: transfers and
    creations of free-1 / free / free+1).
X:  harness/hostcall runs every behaviour on the real AccumulateOmegas functions over one HostCallArgs.
V:  HostCall_Trace mode c08 on every step: exact sums, CASH / abort change no balance, exact outcome of new / transfer / eject /
    upgrade / checkpoint.  Plus Invocations_Gen (Only = "c08"): eight accumulate programs (transfers, checkpoints; halt / trap /
    out-of-gas) run through the real Psi_A and judged by Invocations_Trace: the returned partial state and deferred transfers are
    the context B.13 selects, and their exact sum does not exceed the start."""
import concurrent.futures as cf
import os
import sys
sys.path.insert(0, os.path.dirname(os.path.abspath(__file__)))
import vf
import hostcall_common as hc


def run(ctx):
    ctx.assumptions += ["the credit of incoming transfers in Psi_A (a plain 64-bit addition before the program starts) is outside the host-call driver and not judged here",
                        "contexts are consistent (coherent footprints, caller present); ejectable services carry E_32(caller) as code hash",
                        "new: the created account's gratis offset is the argument f or 0 (clause P-gratis); behaviours use f = 0"]
    quick = ctx.quick
    with cf.ThreadPoolExecutor(8) as ex:
        fb = ex.submit(hc.build, ctx)
        c = dict(hc.BUILD)
        c.update({"MaxSteps": "2" if quick else "3", "Inits": "{1}" if quick else "{1, 2}"})
        fmc = ex.submit(vf.mc, ctx, "MC_Tokens", vf.cfg_text(constants=c, invariants=["Conservation", "Exactness", "Covered"],
                                                             properties=["CashNoChange", "AbortNoChange"], view="View"),
                        workers=3 if quick else 10, timeout=3000, heap="6g")
        if ctx.replay:
            casefiles = [p for p in hc.replay_cases(ctx)[:1] if p]
        else:
            f1 = [ex.submit(hc.gen, ctx, "tokmc", 0, 2, ctx.seed)] if quick else hc.gen_parts(ex, ctx, "tokmc", 2400, 5, 4)
            f2 = hc.gen_parts(ex, ctx, "tokens", 16 if quick else 800, 12 if quick else 20, 1 if quick else 6)
            f3 = [ex.submit(hc.gen, ctx, "tokthr", 6 if quick else 0, 1, ctx.seed)]
            g = dict(hc.BUILD)
            g.update({"Seed": "1", "NRand": "0", "Only": '"c08"'})
            finv = ex.submit(vf.gen_cases, ctx, "Invocations_Gen", g, timeout=2400, heap="4g")
            casefiles = [f.result() for f in f1 + f2 + f3]
            invcases = finv.result()
        binp = fb.result()
        lines = hc.run_cases(ctx, binp, casefiles) if casefiles else []
        invlines = []
        if not ctx.replay:
            invtrace = os.path.join(ctx.tmp, "inv-trace.ndjson")
            vf.run_driver(ctx, binp, "TestInvocations", env={"VF_CASES": invcases, "VF_OUT": invtrace}, timeout=900)
            invlines = vf.read_lines(invtrace)
        fmc.result()
    if not lines:
        raise vf.Infra("nothing to judge")
    def nontrivial(e):
        return e["post"]["exit"] == "cont" and [s["bal"] for s in e["post"]["ctx"]["svcs"]] != [s["bal"] for s in e["pre"]["ctx"]["svcs"]]
    hc.summarize(ctx, lines, nontrivial, "one evaluation = one step of a behaviour (real host call, full before/after context); non-trivial = a balance moved")
    hc.judge(ctx, lines, "c08", "tokens not conserved / balance wrapped / wrong movement", 320 if quick else 2500, 4 if quick else 14)
    # the same property at the level of the invocation: Psi_A / C on assembled programs (transfers, checkpoints, regular and
    # exceptional ends): returned balances + returned deferred transfers never exceed the start, and equal the view B.13 selects
    if invlines:
        ctx.cov["evaluations"] += len(invlines)
        ctx.cov["distinct_nontrivial"] += len(invlines)
        vf.validate_trace(ctx, "Invocations_Trace", invlines, constants=dict(hc.BUILD), shard=40, what="accumulation result breaks conservation / B.13", timeout=900, par=2)
    if getattr(ctx, "selftest", False) or not quick:
        def corrupt(e):
            if e["post"]["exit"] == "cont" and hc.val(e["id"]) == 20 and hc.val(e["post"]["regs"][7]) == 0:
                e["post"]["ctx"]["svcs"][0]["bal"][0] ^= 1
                return True
            return False
        hc.selftest(ctx, lines, "c08", corrupt, "sender balance off by one after a transfer")

"""C15 — state root = Gray Paper Appendix D trie root.
MC: injectivity of the root TERM over a key family with shared prefixes (MC_Trie).
G: seeded entry sets (0..200 entries, long shared bit prefixes, values 0..64) -> TLC computes the root as a hash term.
X: harness/trie evaluates the term with real BLAKE2b and runs MerklizationSerializedState on 6 permutations.
V: Trie_Trace requires every implementation root to equal the specification root."""
import json
import vf

FILES = {
    "internal/verifdrv/vfd/vfd.go": "vfd/vfd.go",
    "internal/verifdrv/vfd/term.go": "vfd/term.go",
    "internal/verifdrv/trie/trie_test.go": "trie/trie_test.go",
}
VLENS = [0, 1, 2, 31, 32, 33, 34, 63, 64, 5, 16]


def entry_set(rng, n):
    keys = set()
    base = rng.bytes(31)
    style = rng.n(4)
    while len(keys) < n:
        if style == 0 or not keys:            # unrelated random keys
            k = rng.bytes(31)
        elif style == 1:                      # flip one late bit of an existing key: long shared prefix
            k = list(rng.pick(sorted(keys)))
            bit = rng.pick([rng.n(248), 200 + rng.n(48), 240 + rng.n(8), rng.n(16)])
            k[bit // 8] ^= 1 << (7 - bit % 8)
        elif style == 2:                      # same first bytes, random tail
            cut = rng.pick([1, 2, 8, 29, 30])
            k = list(base[:cut]) + rng.bytes(31 - cut)
        else:                                 # dense low keys: 0,1,2,... in the last byte(s)
            i = len(keys)
            k = [0] * 29 + [i // 256, i % 256]
        keys.add(tuple(k))
    out = []
    for k in sorted(keys):
        ln = rng.pick(VLENS) if rng.n(4) else rng.n(65)
        out.append({"k": list(k), "v": rng.bytes(ln)})
    # hand them over in a seeded order (the definition takes a set)
    for i in range(len(out) - 1, 0, -1):
        j = rng.n(i + 1)
        out[i], out[j] = out[j], out[i]
    return {"entries": out}


def run(ctx):
    ctx.assumptions += ["hash primitive (BLAKE2b-256) is trusted; the trie structure comes from spec/crypto/Trie.tla only",
                        "root(full state) = root(serialisation) is the C17 driver's business (MerklizationState calls StateEncoder then this function)"]
    vf.mc(ctx, "MC_Trie", vf.cfg_text(invariants=["Injective"]), workers=8, timeout=600)
    binp = vf.build_driver(ctx, "trie", "./internal/verifdrv/trie", FILES)
    inp = ctx.tmp + "/in.ndjson"
    if ctx.replay:
        with open(inp, "w") as f:
            for ln in vf.read_lines(ctx.replay):
                f.write(json.dumps({"entries": json.loads(ln)["entries"]}) + "\n")
    else:
        rng = vf.Rng(ctx.seed)
        sizes = [0, 1, 2, 2, 3, 3, 4, 5, 7, 8, 9, 16, 17, 33, 64, 100, 200]
        n = 160 if ctx.quick else 6000
        with open(inp, "w") as f:
            for i in range(n):
                sz = sizes[i % len(sizes)] if i < 4 * len(sizes) else rng.pick(sizes + [rng.n(201)])
                f.write(json.dumps(entry_set(rng, sz)) + "\n")
    # G: TLC computes the terms, in parallel chunks
    lines = vf.read_lines(inp)
    import concurrent.futures as cf
    chunk = max(20, len(lines) // 12 + 1)
    parts = [lines[i:i + chunk] for i in range(0, len(lines), chunk)]
    def term_part(i):
        p = ctx.tmp + "/in-%d.ndjson" % i
        open(p, "w").write("\n".join(parts[i]) + "\n")
        return vf.gen_cases(ctx, "Trie_Term", {"InFile": '"%s"' % p}, outfile="cases-%d.ndjson" % i, timeout=1700, heap="3g", tag=str(i))
    with cf.ThreadPoolExecutor(6) as ex:
        outs = list(ex.map(term_part, range(len(parts))))
    casep = ctx.tmp + "/cases.ndjson"
    with open(casep, "w") as f:
        for p in outs:
            f.write(open(p).read())
    tracep = ctx.tmp + "/trace.ndjson"
    vf.run_driver(ctx, binp, "TestTrie", env={"VF_CASES": casep, "VF_OUT": tracep, "VF_SEED": ctx.seed})
    tl = vf.read_lines(tracep)
    merged = tl
    ctx.cov["evaluations"] = len(tl) * 6
    ctx.cov["distinct_nontrivial"] = vf.distinct_count([m for m in merged if json.loads(m)["n"] >= 2], key=lambda r: r["entries"])
    ctx.cov["rule"] = ("entry sets seeded (sizes 0..200; key styles: random / one late bit flipped / shared byte prefix / dense); TLC turns each into the "
                       "Gray Paper root term; 6 orderings per set are run; non-trivial = distinct sets with >= 2 entries (at least one branch node)")
    ctx.cov["samples"] = [{"n": json.loads(m)["n"], "want": json.loads(m)["want"], "got0": json.loads(m)["got"][0]} for m in merged[:3]]
    vf.validate_trace(ctx, "Trie_Trace", merged, shard=2000, what="state root differs from the Gray Paper trie root")

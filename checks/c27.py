"""C27 — database providers implement one ordered key-value semantics.
MC: KVStore over three 5-key universes (full reachable space, action properties).
G: KVStore_Gen state-directed transition scripts.  T: seeded 200-op histories over 20 keys.
X: harness/kv on memory / Pebble (mem VFS) / Redis (miniredis).  V: KVStore_Trace."""
import json
import vf

FILES = {
    "internal/verifdrv/vfd/vfd.go": "vfd/vfd.go",
    "internal/verifdrv/kv/kv_test.go": "kv/kv_test.go",
}
ALPHA = [97, 98, 42, 63, 91, 92, 0, 255]


def history(rng, nops, nkeys):
    keys = [[]]
    while len(keys) < nkeys:
        k = [rng.pick(ALPHA) for _ in range(1 + rng.n(3))]
        if k not in keys:
            keys.append(k)
    # make prefix chains likely
    for i in range(nkeys // 3):
        base = rng.pick(keys)
        k = base + [rng.pick(ALPHA)]
        if k not in keys and len(k) <= 4:
            keys[rng.n(len(keys) - 1) + 1] = k
    def val():
        return rng.bytes(rng.pick([0, 0, 1, 2, 5]))
    def pfx():
        k = rng.pick(keys)
        return k[:rng.n(len(k) + 1)]
    script, open_b = [], set()
    for _ in range(nops):
        r = rng.n(100)
        if r < 18:
            script.append({"ev": "Put", "k": rng.pick(keys), "v": val()})
        elif r < 26:
            script.append({"ev": "Delete", "k": rng.pick(keys)})
        elif r < 34:
            b = rng.pick([1, 2])
            if b not in open_b:
                open_b.add(b); script.append({"ev": "BNew", "b": b})
        elif r < 52 and open_b:
            b = rng.pick(sorted(open_b))
            if rng.n(3):
                script.append({"ev": "BPut", "b": b, "k": rng.pick(keys), "v": val()})
            else:
                script.append({"ev": "BDel", "b": b, "k": rng.pick(keys)})
        elif r < 60 and open_b:
            b = rng.pick(sorted(open_b)); open_b.discard(b)
            script.append({"ev": rng.pick(["Commit", "Commit", "Discard"]), "b": b})
        elif r < 72:
            script.append({"ev": "Get", "k": rng.pick(keys)})
        elif r < 78:
            script.append({"ev": "Has", "k": rng.pick(keys)})
        elif r < 92:
            p = pfx(); s = rng.pick([[], [], pfx(), [rng.pick(ALPHA)]])
            script.append({"ev": "Iter", "p": p, "s": s})
        else:
            script.append({"ev": "Iter", "p": [], "s": []})
    script.append({"ev": "Iter", "p": [], "s": []})
    return {"script": script}


def run(ctx):
    ctx.assumptions += ["Pebble runs on its in-memory VFS and Redis is the in-process miniredis server, as in the repository's own provider tests",
                        "iterator Key()/Value() slices are copied before the next call to Next(), as the interface documents"]
    unis = ["prefix", "glob", "edge"]
    def mc_one(u):
        cfg = vf.cfg_text(constants={"Batches": "{1}", "MaxOps": "2"}, invariants=["TypeOK", "IterSound"],
                          properties=["BatchInvisible", "CommitAtomic"],
                          raw="CONSTANT Keys <- K_%s\nCONSTANT Vals <- V2" % u)
        vf.mc(ctx, "MC_KVStore", cfg, workers=5, timeout=900, label="MC_KVStore/" + u, coverage=not ctx.quick)
    def gen_one(u):
        return vf.gen_cases(ctx, "KVStore_Gen", {"Universe": '"%s"' % u, "Tier": '"%s"' % ctx.tier, "Seed": str(ctx.seed % 1000)},
                            outfile="cases-%s.ndjson" % u, timeout=1500, heap="8g",
                            raw="CONSTANT Keys <- KeysU\nCONSTANT Vals <- V2\nCONSTANT Batches <- BatchesG\nCONSTANT MaxOps <- MaxOpsG", tag="-" + u)
    import concurrent.futures as cf
    genf = {}
    if not ctx.replay:
        with cf.ThreadPoolExecutor(6) as ex:
            mcf = [ex.submit(mc_one, u) for u in unis]
            genf = {u: ex.submit(gen_one, u) for u in unis}
            for f in mcf:
                f.result()
            genf = {u: f.result() for u, f in genf.items()}
    binp = vf.build_driver(ctx, "kv", "./internal/verifdrv/kv", FILES)
    casep = ctx.tmp + "/cases.ndjson"
    if ctx.replay:
        # a replay file holds the rejected trace prefix of one provider: rebuild the scripts from it
        scripts, cur = [], None
        for ln in vf.read_lines(ctx.replay):
            e = json.loads(ln)
            if e["ev"] == "Reset":
                cur = []; scripts.append(cur)
            elif cur is not None and e["ev"] != "GoPanic":
                cur.append({k: e[k] for k in ("ev", "k", "v", "b", "p", "s") if k in e and not (e["ev"] == "Get" and k == "v")})
        with open(casep, "w") as f:
            for s in scripts:
                f.write(json.dumps({"script": s}) + "\n")
    else:
        with open(casep, "w") as f:
            for u in unis:
                p = genf[u]
                f.write(open(p).read())
            rng = vf.Rng(ctx.seed)
            for _ in range(40 if ctx.quick else 1500):
                f.write(json.dumps(history(rng, 200, 20)) + "\n")
    ncases = len(vf.read_lines(casep))
    vf.run_driver(ctx, binp, "TestRun", env={"VF_CASES": casep, "VF_OUT": ctx.tmp + "/trace"}, timeout=3000)
    total = 0
    per = {}
    for prov in ("memory", "pebble", "redis"):
        per[prov] = vf.read_lines(ctx.tmp + "/trace-%s.ndjson" % prov)
        total += len(per[prov])
    target = max(8000, total // 13)      # few large shards: JVM/JIT warm-up dominates small ones
    for prov, lines in per.items():
        shards, cur = [], []
        for ln in lines:
            if ln.startswith('{"ev":"Reset"') and len(cur) > target:
                shards.append(cur); cur = []
            cur.append(ln)
        if cur:
            shards.append(cur)
        if prov == "memory":
            ctx.cov["samples"] = [[json.loads(x) for x in lines[:8]]]
        vf.validate_trace(ctx, "KVStore_Trace", shards, stateful=True, what="%s provider deviates from KVStore" % prov, timeout=1500, heap="6g")
    ctx.cov["evaluations"] = total
    ctx.cov["distinct_nontrivial"] = ncases
    ctx.cov["scripts"] = ncases
    ctx.cov["rule"] = ("scripts = TLC-enumerated (state, action) transition cases over three 5-key universes + seeded 200-op histories over 20 keys; "
                       "each is run on memory, Pebble and Redis; evaluations = recorded events; distinct_nontrivial = distinct scripts")

"""X03 — header / sealing / entropy part of the block transition (Gray Paper 5.x, 6.15-6.24, 6.27, 6.28); growth of the
Safrole specification beyond C23.
MC: Sealing.tla over block histories of three epochs (E=4, Y=3, V=3): every step is the valid header for the state or that
    header with exactly one of 23 defects (seal output / entropy / attempt / key / message / mode / zero, wrong fallback
    author, entropy-source context / key / message / zero, author index = V / 65535, epoch mark missing / unexpected /
    wrong entropies / validators swapped, tickets mark missing / unexpected / not outside-in, offenders mark, extrinsic
    hash, parent state root), with or without tickets: OneDefect (valid accepted, every defect refused), Refused (nothing
    changes), EntropyChain (6.22, 6.23), EntropyLag, SealBinding (6.15, 6.16), VrfBinding (6.17), AccOK.
G:  Sealing_Gen: (A) five prior states x seven slots x {valid header, each applicable defect} as alternatives on one prior
    state; (H) seeded histories that fill the accumulator so that ticket-sealed epochs occur, one defect in a third of
    the blocks; E=4 and tiny (E=12, V=6) parameters.
X:  harness/sealing: full minimal state whose Safrole part comes from the case, blocks sealed with the VRF stand-in (chosen
    outputs), imported through stf.RunSTF() the way FuzzServiceStub.ImportBlock does; verdict and posterior recorded.
V:  Sealing_Trace: accepted <=> all clauses hold; exact eta' (eta'_0 through a BLAKE2b oracle entry), gamma'_s, gamma'_a,
    key rotation on acceptance."""
import concurrent.futures as cf
import json
import os
import vf

os.environ.setdefault("JAVA_TOOL_OPTIONS", "-XX:ParallelGCThreads=2 -XX:CICompilerCount=2")

FILES = {
    "internal/verifdrv/vfd/vfd.go": "vfd/vfd.go",
    "internal/verifdrv/vfd/term.go": "vfd/term.go",
    "internal/verifdrv/sealing/sealing_test.go": "sealing/sealing_test.go",
}
INVS = ["EntropyLag", "AccOK"]
PROPS = ["OneDefect", "Refused", "EntropyChain", "SealBinding", "VrfBinding"]
BASE = {"E": "4", "Y": "3", "N": "2", "V": "3", "K": "2", "MaxTau": "11", "Jumps": "{1, 2, 4}", "YVs": "{1}", "UseDefects": "TRUE"}
WHAT = "header / sealing / entropy clause deviates from Gray Paper 5.x, 6.15-6.28"
DEFECTS = ["s_out", "s_eta", "s_att", "s_key", "s_msg", "s_mode", "s_zero", "f_author", "v_ctx", "v_key", "v_msg", "v_zero", "a_V", "a_big",
           "em_flip", "em_e0", "em_e1", "em_swap", "tm_flip", "tm_sorted", "om", "xh", "sr"]


def mc_one(ctx, label, consts, workers, cover=False):
    cfg = vf.cfg_text(constants=consts, invariants=INVS, properties=PROPS, view="View")
    res = vf.mc(ctx, "MC_Sealing", cfg, workers=workers, timeout=3000, heap="4g", label="MC_Sealing/" + label, coverage=cover)
    if cover and not (res.coverage.get("Block") or res.coverage.get("Next") or res.distinct > 100):
        raise vf.Infra("vacuous model check: no step taken (%s)" % res.coverage)


def probe(ctx):
    """vacuity guard: a ticket-sealed accepted block must be reachable in the model (the probe invariant must FAIL)"""
    cfg = vf.cfg_text(constants=dict(BASE, UseDefects="FALSE"), invariants=["NeverTicketSealedBlock"], view="View")
    res = vf.mc(ctx, "MC_Sealing", cfg, workers=2, timeout=1500, heap="2g", label="MC_Sealing/probe", expect_ok=False)
    if "NeverTicketSealedBlock" not in res.inv_violated:
        raise vf.Infra("vacuous model: no accepted ticket-sealed block is reachable:\n" + res.tail(30))


def shard_lines(lines, evs, target):
    shards, cur = [], []
    for ln, ev in zip(lines, evs):
        if len(cur) >= target and ev == "Reset":
            shards.append(cur); cur = []
        cur.append(ln)
    if cur:
        shards.append(cur)
    return shards


def run(ctx):
    ctx.assumptions += [
        "the VRF stand-in: a signature verifies iff it was made by that key for that context, message and output, and outputs are chosen by the generator; so each seal / entropy-source clause is decided by equality of (key, context string, entropy, attempt, message, output) with what the Gray Paper prescribes",
        "BLAKE2b is not evaluated in TLA+: eta'_0 = H(eta_0 ++ Y(H_v)) and the fallback keys H(eta'_2 ++ E_4(i)) come from oracle entries recorded by the driver with the real primitive; inputs, octet selection, mod V and key lookup are recomputed in Sealing_Trace",
        "in a fallback-sealed slot the driver works out the rightful author with its own restatement of (6.26), as a block author would; the specification recomputes it from the oracle table",
        "the extrinsic hash and parent state root of the valid header are computed with the repository's own CreateExtrinsicHash / StateEncoder / merklization (their correctness: C15, C17, C18); the unsigned header encoding E_U(H) is the repository's (C11)",
        "blocks are imported through stf.RunSTF() on a minimal well-formed state (empty services, pools, history) as FuzzServiceStub.ImportBlock does; the rollback of the node after a refusal and the parent-hash match are C26's; H_p = zero hash (treated as genesis by RunSTF), the wall-clock bound on H_t and offenders are not generated",
        "the ticket extrinsic keeps C23's permissive clauses; an epoch mark with fewer than V validators cannot be encoded (codec, C13)",
    ]
    if ctx.replay:
        raise vf.Infra("X03 replays are regenerated from the specification: run the tier again with the same VERIF_SEED (cases are deterministic)")
    q = ctx.quick
    with cf.ThreadPoolExecutor(5) as ex:
        build_f = ex.submit(vf.build_driver, ctx, "sealing", "./internal/verifdrv/sealing", FILES)
        gen_f = ex.submit(vf.gen_cases, ctx, "Sealing_Gen", {"Tier": '"%s"' % ctx.tier, "Seed": str(ctx.seed % 1000)}, timeout=2400, heap="8g")
        if q:
            mcf = [ex.submit(mc_one, ctx, "e3", dict(BASE), 3)]
        else:
            mcf = [ex.submit(mc_one, ctx, "e4", dict(BASE, MaxTau="19", Jumps="{1, 2, 4, 5}"), 5),
                   ex.submit(mc_one, ctx, "yv2", dict(BASE, MaxTau="10", YVs="{1, 2}"), 5),
                   ex.submit(probe, ctx)]
        casep = gen_f.result()
        binp = build_f.result()
        tp = ctx.tmp + "/trace.ndjson"
        vf.run_driver(ctx, binp, "TestVerifSealing", env={"VF_CASES": casep, "VF_OUT": tp, "VF_SEED": ctx.seed}, timeout=2400)
        lines = vf.read_lines(tp)
        recs = [json.loads(ln) for ln in lines]
        evs = [e["ev"] for e in recs]
        out = {"accepted": 0, "accepted_ticket_sealed": 0, "accepted_fallback_sealed": 0, "accepted_epoch_change": 0, "accepted_tickets_mark": 0, "refused": 0}
        per_defect = {}
        errs = {}
        for e in recs:
            if e["ev"] != "Block":
                continue
            d = e.get("d", "none")
            pd = per_defect.setdefault(d, {"accepted": 0, "refused": 0})
            if e["ok"]:
                out["accepted"] += 1
                pd["accepted"] += 1
                out["accepted_ticket_sealed" if e["post"]["gs"]["t"] else "accepted_fallback_sealed"] += 1
                if e["emh"]["has"]:
                    out["accepted_epoch_change"] += 1
                if e["tmh"]["has"]:
                    out["accepted_tickets_mark"] += 1
            else:
                out["refused"] += 1
                pd["refused"] += 1
                errs[e["err"][:48]] = errs.get(e["err"][:48], 0) + 1
        blocks = [ln for ln, ev in zip(lines, evs) if ev in ("Block", "GoPanic")]
        ctx.cov["evaluations"] = len(blocks)
        ctx.cov["histories"] = evs.count("Reset")
        ctx.cov["outcomes"] = out
        ctx.cov["per_defect"] = per_defect
        ctx.cov["refusal_messages"] = errs
        ctx.cov["distinct_nontrivial"] = vf.distinct_count(blocks, key=lambda e: [e.get("slot"), e.get("author"), e.get("seal"), e.get("vs"), e.get("emh"), e.get("tmh"), e.get("om"), e.get("xh"), e.get("sr"), e.get("n")])
        ctx.cov["rule"] = ("evaluations = blocks imported through stf.RunSTF(); distinct_nontrivial = distinct (slot, author, seal facts, entropy-source facts, marks, "
                           "hash flags, tickets) block inputs; cases = valid header / single-defect alternatives on five prior states x seven slots + seeded histories "
                           "with ticket-sealed epochs, E=4 and E=12")
        ctx.cov["samples"] = [recs[0]] + [json.loads(x) for x in blocks[len(blocks) // 2:len(blocks) // 2 + 1]]
        for need in ("accepted_ticket_sealed", "accepted_fallback_sealed", "accepted_epoch_change", "accepted_tickets_mark", "refused"):
            if not out[need]:
                raise vf.Infra("generator starved: no block with outcome %s (%s)" % (need, out))
        missing = [d for d in DEFECTS if d not in per_defect]
        if missing:
            raise vf.Infra("generator starved: defects never generated: %s" % missing)
        target = max(800, len(lines) // (4 if q else 14))
        vf.validate_trace(ctx, "Sealing_Trace", shard_lines(lines, evs, target), par=3 if q else 14, heap="3g", timeout=2400, what=WHAT)
        miss = [v for v in ctx.violations if "[oracle_table_missing]" in v[0]]
        if miss:
            ctx.violations = [v for v in ctx.violations if v not in miss]
            for _, pth in miss:
                if os.path.exists(pth):
                    os.remove(pth)
            if not ctx.violations:
                raise vf.Infra("oracle entry missing for a record that needs it: " + miss[0][0][:300])
        for f in mcf:
            f.result()

"""C21 — accumulation queue selection and ordering (Gray Paper 12.1-12.12, 12.31-12.33).
MC: AccQueue (Arrive/Block state machine over AccQueueFn): every dependency graph on <=3 reports from seeded
    initial states, 4 reports under hash symmetry, every prerequisite/lookup division on <=2 reports, multi-block
    histories across slot gaps with E=3; invariants InvQueueClean, TypeOK and the action property BlockChoice.
G:  AccQueue_Gen enumerates the same graph families (+ two-block histories) as driver inputs; seeded random larger
    graphs / longer histories / raw queues for QueueEditingFunction and AccumulationPriorityQueue are added here.
X:  harness/accqueue (in package internal/accumulation) runs the real functions on the singleton chain state.
V:  AccQueue_Trace recomputes W!, W_Q, W*, xi', theta' for every block from the recorded inputs and evaluates the
    statement's invariants on the states the code went through."""
import concurrent.futures as cf
import hashlib
import json
import os
import vf

# many short-lived JVMs run side by side: keep each one's GC / JIT thread pools small
os.environ.setdefault("JAVA_TOOL_OPTIONS", "-XX:ParallelGCThreads=2 -XX:CICompilerCount=2")

FILES = {
    "internal/verifdrv/vfd/vfd.go": "vfd/vfd.go",
    "internal/verifdrv/vfd/term.go": "vfd/term.go",
    "internal/accumulation/zz_verif_accqueue_test.go": "accqueue/accqueue_test.go",
}
SIZES = {"g3": 884736, "g2": 74504, "g2s": 374114, "g4": 160000, "h2": 1232450}
INVS = ["KeptQueueClean", "ChoiceOK"]
WHAT = "accumulation queue deviates from Gray Paper 12.4-12.12 / 12.31-12.33"


class Collect:
    """ctx view for one validate_trace call: own scratch prefix, violations collected instead of filed."""
    def __init__(self, ctx, prefix):
        self._c, self._p = ctx, prefix
        self.found = []          # (what, lines)

    def sub(self, name):
        return self._c.sub(self._p + "-" + name)

    def violation(self, what, lines):
        self.found.append((what, list(lines)))
        return ""

    def __getattr__(self, k):
        return getattr(self._c, k)


def judge(ctx, tag, module, shards, **kw):
    """validate_trace + confirmation: a rejected trace prefix is judged a second time on its own before it is
    filed as a violation; if the second judgement accepts it, the first TLC process died (kill, OOM) -> Infra."""
    c1 = Collect(ctx, tag)
    vf.validate_trace(c1, module, shards, **kw)
    for what, lines in c1.found:
        c2 = Collect(ctx, tag + "-confirm%d" % (abs(hash(what)) % 100000))
        kw2 = dict(kw)
        kw2["par"] = 1
        vf.validate_trace(c2, module, [lines], **kw2)
        if not c2.found:
            raise vf.Infra("trace validation of %s was interrupted (a rejected prefix is accepted when judged again): %s" % (tag, what[:200]))
        ctx.violation(what, lines)
    return len(c1.found)


# ---------------------------------------------------------------- MC configurations
def mc_cfgs(ctx):
    base = {"E": "3", "Gaps": "{1,2}", "MaxAvail": "2", "MaxBlocks": "1", "HS": "{h1,h2,h3}", "XS": "{ha,hu}",
            "hacc": "ha", "MaxDeps": "5", "Split": "FALSE", "InitKind": '"seeded"'}
    q = ctx.quick
    out = []
    # all graphs on <=2 (quick) / <=3 (thorough) reports, deps any subset of {h1,h2,h3,acc,unknown}, 14 seeded states
    out.append(("graphs", dict(base, MaxAvail="2" if q else "3", Gaps="{1,2}" if q else "{1}", XS="{ha}" if q else "{ha,hu}",
                               InitKind='"seeded0"'), False, 2 if q else 6))
    if not q:
        out.append(("graphs2", dict(base, MaxAvail="2", Gaps="{1,2}", InitKind='"seeded"'), False, 2))
    if q:
        # quick keeps two small runs; the split / 4-report / longer-history configurations are thorough-only
        out.append(("hist2", dict(base, HS="{h1,h2}", XS="{}", MaxDeps="1", MaxBlocks="2", InitKind='"empty"', Gaps="{1,2,3,4}"), True, 1))
        return out
    # every prerequisite / lookup / both division, <=2 reports
    out.append(("split", dict(base, HS="{h1,h2}", XS="{ha}", MaxDeps="2" if q else "3", Split="TRUE",
                              InitKind='"seeded1"'), False, 1 if q else 2))
    # 4 reports under symmetry of the hashes, <=1 (quick) / <=2 (thorough) dependencies each
    out.append(("graphs4sym", dict(base, HS="{h1,h2,h3,h4}", XS="{hu}", MaxDeps="1" if q else "2", MaxAvail="4" if not q else "3",
                                   InitKind='"empty"', Gaps="{1}"), True, 1 if q else 3))
    # multi-block histories across slot gaps {1,2,E-1,E,E+1} = {1,2,3,4} for E = 3
    out.append(("hist2", dict(base, HS="{h1,h2}" if q else "{h1,h2,h3}", XS="{}", MaxDeps="1", MaxBlocks="2", InitKind='"empty"',
                              Gaps="{1,2,3,4}"), True, 1 if q else 2))
    if not q:
        out.append(("hist3", dict(base, HS="{h1,h2}", XS="{}", MaxDeps="1", MaxBlocks="3", InitKind='"empty"', Gaps="{1,2,3,4}"), True, 2))
        out.append(("hist3one", dict(base, XS="{}", MaxDeps="2", MaxAvail="1", MaxBlocks="4", InitKind='"empty"', Gaps="{1,2,3,4}"), True, 2))
    return out


def mc_one(ctx, label, consts, sym, workers):
    raw = "CONSTANT Reports <- ReportsSplitOK\nCONSTANT Inits <- InitsMC\n"
    cfg = vf.cfg_text(constants=consts, invariants=["TypeOK", "InvQueueClean"], properties=["BlockChoice"], raw=raw,
                      symmetry="Sym" if sym else None)
    cover = (not ctx.quick) and label == "hist2"          # vacuity guard on one small configuration
    res = vf.mc(ctx, "MC_AccQueue", cfg, workers=workers, timeout=5400, heap="6g", label="MC_AccQueue/" + label,
                coverage=cover)
    if cover:
        import re
        acts = {}
        for m in re.finditer(r"<(\w+) line [^>]*>: (\d+):(\d+)", res.out):
            acts[m.group(1)] = acts.get(m.group(1), 0) + int(m.group(3))
        ctx.cov["actions"].update(acts)
        for a in ("Arrive", "Block"):
            if not acts.get(a):
                raise vf.Infra("vacuous model check: action %s never taken (%s)" % (a, acts))


# ---------------------------------------------------------------- seeded random inputs (T-direction)
def rnd_report(rng, rid, names, maxdeps):
    k = rng.pick([0, 0, 1, 1, 1, 2, 2, 3, maxdeps])
    deps = [rng.pick(names) for _ in range(k)]
    pre, look = [], []
    for d in deps:
        kind = rng.n(3)
        if kind != 1:
            pre.append(d)
        if kind != 0:
            look.append(d)
    if pre and rng.n(8) == 0:
        pre.append(pre[0])            # the same prerequisite listed twice
    return {"id": rid, "h": rng.pick(names), "pre": pre, "look": look}


def rnd_history(rng):
    E = rng.pick([12, 12, 12, 3, 5])
    names = ["h%d" % i for i in range(1, rng.pick([3, 4, 6, 8, 12]) + 1)]
    nblocks = rng.pick([3, 4, 5, 6, 8])
    tau = rng.n(40)
    slot = tau
    blocks, rid = [], 1
    api = "stf" if rng.n(4) == 0 else "fn"
    for _ in range(nblocks):
        slot += rng.pick([1, 1, 1, 2, 2, E - 1, E, E + 1, 3, 2 * E + 1])
        W = []
        for _ in range(rng.pick([0, 1, 2, 3, 4, 6, 9, 12])):
            W.append(rnd_report(rng, rid, names, 5))
            rid += 1
        blocks.append({"slot": slot, "W": W, "n": rng.pick([99, 99, 99, 99, 0, 1, 2, 3, 5])})
    return {"E": E, "tau": tau, "xi": [[] for _ in range(E)], "th": [[] for _ in range(E)], "api": api, "blocks": blocks}


def rnd_queue(rng):
    names = ["h%d" % i for i in range(1, rng.pick([2, 3, 4, 6]) + 1)]
    r = []
    for i in range(rng.pick([0, 1, 2, 3, 4, 5, 7, 10])):
        rep = rnd_report(rng, i + 1, names, 4)
        d = sorted(set(rep["pre"] + rep["look"]))
        if rng.n(3) == 0:
            d = d[:rng.n(len(d) + 1)]
        rep["d"] = d
        r.append(rep)
    if rng.n(2):
        return {"fn": "pq", "r": r}
    return {"fn": "edit", "r": r, "x": [n for n in names if rng.n(3) == 0]}


# ---------------------------------------------------------------- pipeline pieces
def cases_from_replay(path):
    cases, cur = [], None
    for ln in vf.read_lines(path):
        e = json.loads(ln)
        if e["ev"] == "Reset":
            cur = {"E": e["E"], "tau": e["tau"], "xi": e["xi"], "th": e["th"], "api": "fn", "blocks": []}
            cases.append(cur)
        elif e["ev"] in ("Block", "GoPanic") and cur is not None and "slot" in e:
            cur["api"] = e.get("api", cur["api"])
            cur["blocks"].append({"slot": e["slot"], "W": e["W"], "n": e.get("n", 99)})
        elif e["ev"] == "Edit":
            cases.append({"fn": "edit", "r": e["r"], "x": e["x"]})
        elif e["ev"] == "PQ" or (e["ev"] == "GoPanic" and "r" in e):
            cases.append({"fn": "pq", "r": e["r"]})
    return cases


def shard_lines(lines, target):
    shards, cur = [], []
    for ln in lines:
        if len(cur) >= target and not ln.startswith('{"W"'):      # never split inside a history
            shards.append(cur)
            cur = []
        cur.append(ln)
    if cur:
        shards.append(cur)
    return shards


def stats(lines, seen, counts):
    for ln in lines:
        if '"ev":"GoPanic"' in ln:
            counts["panics"] += 1
        elif ln.startswith('{"W":'):
            counts["blocks"] += 1
            j = ln.find(',"api"')
            w = ln[5:j]
            if '"pre":["' in w or '"look":["' in w:
                seen.add(hashlib.blake2b(w.encode(), digest_size=8).digest())
        elif ln.startswith('{"E"'):
            counts["histories"] += 1
        else:
            counts["fn"] += 1


def run(ctx):
    ctx.assumptions += [
        "oracle = Gray Paper 12.4-12.12, 12.31-12.33 as transcribed in spec/stf/AccQueueFn.tla (the formulas quoted in accumulation.go)",
        "n (how many members of W* are accumulated) is an input: the driver passes it to updateXi; the 'stf' variant lets DeferredTransfers decide it for result-free reports (n = |W*|)",
        "xi entries and dependency collections are compared as sets; the order and identity of reports in W!, W_Q, W* and every theta slot are compared exactly",
        "posterior state is moved to the prior state the way ChainState.StateCommit does (same slices, fresh posterior)",
    ]
    q = ctx.quick
    P = 6 if q else 10
    seen, counts = set(), {"blocks": 0, "histories": 0, "fn": 0, "panics": 0}
    samples = []

    if ctx.replay:
        binp = vf.build_driver(ctx, "accqueue", "./internal/accumulation", FILES)
        casep = ctx.tmp + "/replay-cases.ndjson"
        with open(casep, "w") as f:
            for c in cases_from_replay(ctx.replay):
                f.write(json.dumps(c) + "\n")
        tp = ctx.tmp + "/replay-trace.ndjson"
        vf.run_driver(ctx, binp, "TestVerifAccQueue", env={"VF_CASES": casep, "VF_OUT": tp})
        lines = vf.read_lines(tp)
        stats(lines, seen, counts)
        ctx.cov["evaluations"] = counts["blocks"] + counts["fn"]
        judge(ctx, "replay", "AccQueue_Trace", [lines], stateful=True, invariants=INVS, what=WHAT)
        return

    # job list: (family, lo, hi, stride)
    s = ctx.seed
    jobs = []

    def add(fam, stride, nshards):
        size = SIZES[fam]
        per = -(-size // nshards)
        for k in range(nshards):
            lo = k * per + 1
            hi = min(size, (k + 1) * per)
            # first index of this shard that is congruent to the seeded offset
            off = (s * 7919) % stride
            first = lo + ((off - lo) % stride)
            jobs.append((fam, first, hi, stride))
    if q:
        jobs.append(("mix", 1, 1, 1))        # one TLC run: seeded 1-in-N sample of every family (strides in AccQueue_Gen)
    else:
        add("g3", 1, 12)
        add("g2", 1, 1)
        add("g2s", 2, 2)
        add("g4", 1, 2)
        add("h2", 11, 1)

    rng = vf.Rng(ctx.seed)
    rnd_cases = [rnd_history(rng) for _ in range(600 if q else 25000)] + [rnd_queue(rng) for _ in range(1500 if q else 60000)]
    rndp = ctx.tmp + "/cases-rnd.ndjson"
    with open(rndp, "w") as f:
        for c in rnd_cases:
            f.write(json.dumps(c) + "\n")

    target = 60000 if q else 110000

    def pipeline(binp_f, idx, job):
        if job == "rnd":
            casep, tag = rndp, "rnd"
        else:
            fam, lo, hi, stride = job
            tag = "%s-%d" % (fam, idx)
            casep = vf.gen_cases(ctx, "AccQueue_Gen", {"Family": '"%s"' % fam, "Lo": lo, "Hi": hi, "Stride": stride, "Seed": s % 1000},
                                 outfile="cases-%s.ndjson" % tag, timeout=1500, heap="4g", tag="-" + tag)
        binp = binp_f.result()
        tp = ctx.tmp + "/trace-%s.ndjson" % tag
        vf.run_driver(ctx, binp, "TestVerifAccQueue", env={"VF_CASES": casep, "VF_OUT": tp}, timeout=1500)
        lines = vf.read_lines(tp)
        if not lines:
            raise vf.Infra("driver wrote no trace for " + tag)
        stats(lines, seen, counts)
        if len(samples) < 4:
            samples.append([json.loads(x) for x in lines[:2]])
        if q:
            return lines             # quick: all traces are judged together in a few large shards (JVM warm-up dominates)
        judge(ctx, tag, "AccQueue_Trace", shard_lines(lines, target), stateful=True, invariants=INVS, par=1,
              heap="5g", timeout=3000, what=WHAT)
        return []

    with cf.ThreadPoolExecutor(P + 6) as ex:
        build_f = ex.submit(vf.build_driver, ctx, "accqueue", "./internal/accumulation", FILES)
        mcf = [ex.submit(mc_one, ctx, label, consts, sym, w) for (label, consts, sym, w) in mc_cfgs(ctx)]
        with cf.ThreadPoolExecutor(P) as px:
            pf = [px.submit(pipeline, build_f, i, job) for i, job in enumerate(["rnd"] + jobs)]
            merged = []
            for f in pf:
                merged += f.result()
        if merged:
            judge(ctx, "all", "AccQueue_Trace", shard_lines(merged, max(15000, len(merged) // 2 + 1)), stateful=True,
                  invariants=INVS, par=3, heap="3g", timeout=900, what=WHAT)
        for f in mcf:
            f.result()

    ctx.cov["evaluations"] = counts["blocks"] + counts["fn"]
    ctx.cov["distinct_nontrivial"] = len(seen)
    ctx.cov["histories"] = counts["histories"]
    ctx.cov["function_calls"] = counts["fn"]
    ctx.cov["samples"] = samples
    ctx.cov["rule"] = ("evaluations = Block events (one real run of W!, W_Q, W*, updateXi, updateVartheta) + direct calls of "
                       "QueueEditingFunction / AccumulationPriorityQueue; distinct_nontrivial = distinct available-report lists "
                       "(hashes, prerequisite and lookup lists, order) that contain at least one dependency; families: TLC-enumerated "
                       "g3/g2/g2s/g4/h2 of AccQueue_Gen (quick: seeded 1-in-N sample; thorough: all of g3, g2, g4 and 1-in-2 of g2s, 1-in-11 of h2) "
                       "+ seeded random histories (up to 12 reports per block, 3-8 blocks, E in {3,5,12}) and raw queues")
    if counts["panics"]:
        vf.log("  note: %d GoPanic events recorded (each is rejected by the trace spec)" % counts["panics"])

"""C22 - accumulation is deterministic.
MC: MC_AccRounds (spec/stf/AccRounds.tla): Gray-Paper layer (a function) against an implementation-shaped layer in which
    worker completion order, the order a Go map hands out the services of a round, and the instability of sort.Slice above
    StableUpTo elements are explicit choices.  Mode "repaired" (ascending merge + stable sort = the code after the fix):
    AllOutcomesEqual holds for every choice.  Mode "asis" (the code before the fix): TLC reports which outputs are
    order-dependent (expected counterexamples, recorded as a model finding, never a verdict).
G:  AccRounds_Gen enumerates scenarios (3 senders, up to 25 transfers each to one recorder, relay, checkpoint+panic, ...).
X:  harness/accrounds assembles real PVM accumulate programs (transfer / fetch / write / checkpoint / trap), and runs
    DeferredTransfers(), ParallelizedAccumulation() and OuterAccumulation() 60 (quick) / 300 (thorough) times per scenario on
    identical prior states with GOMAXPROCS in {1,2,16} x MaxWorkers in {1,2,32}; identical observations are grouped.
    SingleServiceAccumulation() is also run for every receiver on the first round's transfers in seeded arbitrary orders.
V:  AccRounds_Trace: one group per entry point, equal to the Gray-Paper layer's unique result."""
import json
import os
import vf

os.environ.setdefault("JAVA_TOOL_OPTIONS", "-XX:ParallelGCThreads=2 -XX:CICompilerCount=2")

FILES = {
    "internal/verifdrv/vfd/vfd.go": "vfd/vfd.go",
    "internal/verifdrv/vfd/term.go": "vfd/term.go",
    "internal/accumulation/zz_verif_accrounds_test.go": "accrounds/accrounds_test.go",
    "internal/accumulation/zz_verif_accouter_test.go": "accrounds/accouter_test.go",
}
WHAT = "accumulation result depends on the schedule / differs from the Gray Paper order"


def mc_mode(ctx, mode, maxn, invs, workers, label, expect_ok):
    cfg = vf.cfg_text(constants={"Mode": '"%s"' % mode, "StableUpTo": "2", "MaxN": str(maxn)}, invariants=invs,
                      raw="CONSTANT Scenarios <- ScenariosMC\n")
    return vf.mc(ctx, "MC_AccRounds", cfg, workers=workers, timeout=1700, heap="4g", expect_ok=expect_ok, label=label,
                 coverage=(not ctx.quick and mode == "repaired"))


def select(ctx, casep):
    cases = [json.loads(x) for x in vf.read_lines(casep)]
    cases.sort(key=lambda c: json.dumps(c, sort_keys=True))
    rng = vf.Rng(ctx.seed)
    large = [c for c in cases if c["large"] and c["fan"] and c["over12"]]      # >= 12 services with non-scalar-value indices per round
    twice = [c for c in cases if c["twice"] and c["over12"] and not (c["large"] and c["fan"])]   # one service, two outputs in a block
    over = [c for c in cases if c["over12"] and not c["twice"] and not (c["large"] and c["fan"])]
    under = [c for c in cases if not c["over12"]]
    long = [c for c in cases if c["over63"] and not c["fan"]]     # 64..100 transfers to one receiver (long-list sort paths)
    quota = ((long, 3), (large, 3), (twice, 4), (over, 2), (under, 2)) if ctx.quick else ((long, 30), (large, 30), (twice, 50), (over, 35), (under, 25))
    pick = []
    for pool, k in quota:
        pool = list(pool)
        for _ in range(min(k, len(pool))):
            pick.append(pool.pop(rng.n(len(pool))))
    for i, c in enumerate(pick):
        c["n"] = i + 1
    return pick, len(cases)


def run(ctx):
    ctx.assumptions += [
        "the Go scheduler is not controlled: schedules are sampled (GOMAXPROCS x MaxWorkers x repetitions); Go randomises map "
        "iteration on every range, so map-order dependence shows up within a few repetitions; the exhaustive part is the model",
        "Gray Paper 12.16-12.20 order: services of a round ascending, a service's incoming transfers by sender then emission order, "
        "then its operands; halt keeps the regular context, panic the checkpointed one (B.13)",
        "scenario programs are assembled by the driver from the abstract ops; gas per transfer and balances are ample "
        "(no FULL / CASH / out-of-gas branches in these scenarios)",
    ]
    q = ctx.quick
    # design: the repaired shape has one outcome; the as-is shape shows which outputs depend on the order
    mc_mode(ctx, "repaired", 1 if q else 2, ["AllOutcomesEqual", "InvUSet", "InvRounds"], 2 if q else 6, "MC_AccRounds/repaired", True)
    dependent = []
    # one run per component that the model predicts to be order-dependent (TLC stops at the first violated invariant),
    # one run for the components predicted to be order-independent
    for invs in ([["InvStore"]] if q else [["InvStore"], ["InvT"], ["InvU"], ["InvSpent", "InvUSet", "InvRounds", "InvB"]]):
        res = mc_mode(ctx, "asis", 2, invs, 2 if q else 4, "MC_AccRounds/asis-" + "+".join(invs), False)
        if res.inv_violated:
            dependent += res.inv_violated
        elif not res.ok:
            raise vf.Infra("as-is model run did not complete:\n" + res.tail(40))
    ctx.cov["actions"]["model_order_dependent_outputs_asis"] = dependent
    if "InvStore" not in dependent:
        raise vf.Infra("the as-is model no longer predicts the order dependence of the recorded order (vacuous model?)")
    binp = vf.build_driver(ctx, "accrounds", "./internal/accumulation", FILES)
    if ctx.replay:
        lines = [json.dumps({k: v for k, v in json.loads(x).items() if k != "_want"}) for x in vf.read_lines(ctx.replay)]
    else:
        allp = vf.gen_cases(ctx, "AccRounds_Gen", {"Tier": '"%s"' % ctx.tier}, timeout=600, heap="2g")
        cases, total = select(ctx, allp)
        casep = os.path.join(ctx.tmp, "cases.ndjson")
        with open(casep, "w") as f:
            for c in cases:
                f.write(json.dumps(c) + "\n")
        tracep = os.path.join(ctx.tmp, "trace.ndjson")
        vf.run_driver(ctx, binp, "TestAccRounds", env={"VF_CASES": casep, "VF_OUT": tracep, "VF_RUNS": 60 if q else 300, "VF_SEED": ctx.seed}, timeout=1500)
        lines = vf.read_lines(tracep)
        ctx.cov["actions"]["scenarios_enumerated"] = total
    recs = [json.loads(x) for x in lines]
    ctx.cov["evaluations"] = sum(3 * r["runs"] + sum(sum(g["count"] for g in x["groups"]) for x in r.get("single", [])) for r in recs)
    ctx.cov["distinct_nontrivial"] = sum(1 for r in recs if r["sc"].get("over12"))
    ctx.cov["rule"] = ("one evaluation = one complete run of DeferredTransfers / ParallelizedAccumulation / OuterAccumulation on a fresh identical "
                       "prior state; non-trivial = scenarios in which one receiver gets more than 12 transfers (from up to 4 senders)")
    ctx.cov["actions"].update({
        "scenarios": len(recs), "runs_per_entry_point": recs[0]["runs"] if recs else 0,
        "max_transfers_to_one_receiver": max([max([len(a["store"]) for a in r["stf"][0]["obs"].get("acc", [])] or [0]) for r in recs] or [0]),
        "groups_max": max([max(len(r["stf"]), len(r["par"]), len(r["outer"])) for r in recs] or [0]),
    })
    ctx.cov["samples"] = [{"n": r["n"], "stf_groups": [g["count"] for g in r["stf"]], "par_u": r["par"][0]["obs"].get("u"),
                           "recorded": [[x["from"], x["tag"]] for a in r["stf"][0]["obs"].get("acc", []) for x in a["store"]][:16]} for r in recs[:3]]
    vf.validate_trace(ctx, "AccRounds_Trace", lines, shard=40, timeout=1500, heap="3g", par=3 if q else 10, what=WHAT)
    if ctx.replay:
        return
    # race family (one service removes another that accumulates in the same round; a service reads another one's balance):
    # the round's result must be the specification's function of its inputs (spec/stf/AccOuterFn.tla) for every pool size
    racep = vf.gen_cases(ctx, "AccOuter_Gen", {"Tier": '"race"'}, timeout=600, heap="2g", tag="-race")
    rcases = sorted((json.loads(x) for x in vf.read_lines(racep)), key=lambda c: json.dumps(c, sort_keys=True))
    for i, c in enumerate(rcases):
        c["n"] = i + 1
    rcasep, rtracep = os.path.join(ctx.tmp, "race-cases.ndjson"), os.path.join(ctx.tmp, "race-trace.ndjson")
    with open(rcasep, "w") as f:
        for c in rcases:
            f.write(json.dumps(c) + "\n")
    vf.run_driver(ctx, binp, "TestAccOuter", env={"VF_CASES": rcasep, "VF_OUT": rtracep, "VF_RUNS": 48 if q else 240}, timeout=1500)
    rlines = vf.read_lines(rtracep)
    ctx.cov["actions"]["race_scenarios"] = len(rlines)
    ctx.cov["evaluations"] += sum(json.loads(x)["runs"] for x in rlines)
    vf.validate_trace(ctx, "AccOuter_Trace", rlines, shard=60, timeout=1500, heap="3g", par=3 if q else 10,
                      what="a round's result is not the specification's function of its inputs (schedule / pool size leaks)")

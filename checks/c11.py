"""C11 - codec round trip for protocol types; encoding is deterministic.
MC: MC_Codec (constructors and every schema type on bounded value generators: round trip, layout agreement, prefix-freeness,
    strictness on the spec's own mutants).
T:  harness/codec generates seeded values of every schema type by reflection, encodes each with a fresh encoder, with pooled
    encoders used from 8 goroutines at once and from copies whose maps were rebuilt in other insertion orders, decodes with
    DecodeWithConsumed / Message.ReadFrom / PeerInfo.UnmarshalBinary.
V:  Codec_Trace: every byte string = Enc(Schema[type], v), consumed = length, decoded = v."""
import json
import os
import sys
sys.path.insert(0, os.path.dirname(os.path.abspath(__file__)))
import vf
import codec_common as cc


def run(ctx):
    ctx.assumptions += cc.ASSUMPTIONS
    mcjob = cc.Background(cc.mc_codec, ctx, cc.static_consts(), part="pairs")   # design check, runs next to the Go build
    binp = cc.build(ctx)
    k, reg = cc.consts(ctx, binp)
    names = cc.schema_types(ctx, k)
    missing = [n for n in names if n not in reg]
    if missing:
        raise vf.Infra("schema types without a Go registry entry: %s" % missing)
    if ctx.replay:
        # a persisted rt record is replayed from its byte side: every recorded encoding is decoded and re-encoded by the
        # current tree and judged like a C13 'valid' case (value, consumed count and re-encoding must be the specified ones)
        casep = ctx.tmp + "/cases.ndjson"
        with open(casep, "w") as f:
            for ln in vf.read_lines(ctx.replay):
                r = json.loads(ln)
                for b in r.get("encs", []) or ([r["in"]] if "in" in r else []):
                    f.write(json.dumps({"ty": r["ty"], "cls": "valid", "in": b}) + "\n")
        lines = cc.run_dec(ctx, binp, casep, ctx.tmp + "/trace.ndjson")
        ctx.cov["evaluations"] = len(lines)
        ctx.cov["rule"] = "replay of recorded encodings"
        vf.validate_trace(ctx, "Codec_Trace", cc.shard_by_size(lines), constants=cc.trace_constants(k), what="replayed encoding does not round-trip")
        mcjob.join()
        return
    else:
        tracep = ctx.tmp + "/trace.ndjson"
        env = {"VF_MODE": "rt", "VF_OUT": tracep, "VF_SEED": ctx.seed, "VF_TYPES": ",".join(names),
               "VF_N": 8 if ctx.quick else 300, "VF_BYTES_PER_TYPE": 12000 if ctx.quick else 400000}
        vf.run_driver(ctx, binp, "TestRun", env=env, timeout=1200)
        lines = vf.read_lines(tracep)
    ctx.cov["evaluations"] = len(lines)
    per_type = {}
    nontrivial = set()
    for ln in lines:
        r = json.loads(ln)
        per_type[r["ty"]] = per_type.get(r["ty"], 0) + 1
        if r["encs"] and len(r["encs"][0]) > 1:
            nontrivial.add(json.dumps([r["ty"], r["encs"][0]]))
    ctx.cov["distinct_nontrivial"] = len(nontrivial)
    ctx.cov["rule"] = ("values = seeded reflection-generated values of every schema type (%d types), each encoded 8 times (fresh / reused after a refused encoding / pooled x 8 goroutines with "
                       "refused encodings in between / maps rebuilt); non-trivial = distinct (type, encoding) pairs with an encoding longer than one byte" % len(per_type))
    ctx.cov["actions"].update({"types_exercised": len(per_type), "schema_types": len(names),
                               "refused_encodings_interleaved": json.loads(lines[-1]).get("refused_between", 0) if lines else 0})
    ctx.cov["samples"] = [{kk: (vv if kk != "v" and kk != "dec" else "...") for kk, vv in json.loads(x).items()} for x in lines[:3] if len(x) < 4000]
    bad = vf.validate_trace(ctx, "Codec_Trace", cc.shard_by_size(lines, 1200000 if ctx.quick else 2500000), constants=cc.trace_constants(k), timeout=1500, heap="3g",
                            par=6 if ctx.quick else 12, what="codec round trip / determinism fails")
    mcjob.join()
    skipped = [w for w, _ in ctx.violations if "generated_value_not_wellformed" in w]
    if skipped:
        raise vf.Infra("the driver generated values the schema calls ill-formed: %s" % skipped[:2])

"""C34 — activity statistics accounting (Gray Paper 13.3-13.16).
MC: Statistics.tla over block histories across an epoch boundary (V=3, C=2, E=4, R=2; validator sets rotating through
    overlapping key sets): EpochSums (the current records are the sums over the blocks of the current epoch) and the action
    properties Delta (exact per-block gains, everybody else untouched), Credit (reporting guarantors), Rollover (current ->
    previous, reset) and CoreSvc (core / service records are sums over the block alone).
G:  Statistics_Gen: (A) systematic single-block partition under the tiny parameters: author x guarantee shape and rotation x
    slot (same epoch / first rotation of the next epoch / later / epoch skipped) with assurances, preimages, newly
    available reports and accumulation statistics varied alongside; (H) seeded block histories over several epochs under
    V=3, tiny (V=6, C=2) and full (V=1023, C=341) parameters.
X:  harness/statistics: loads each block on the singleton as the test-vector runner does (plus posterior lambda/eta,
    available reports and accumulation statistics, which the vectors leave empty) and calls
    statistics.UpdateValidatorActivityStatistics (= stf.UpdateStatistics).
V:  Statistics_Trace judges every record."""
import concurrent.futures as cf
import json
import os
import vf

os.environ.setdefault("JAVA_TOOL_OPTIONS", "-XX:ParallelGCThreads=2 -XX:CICompilerCount=2")

FILES = {
    "internal/verifdrv/vfd/vfd.go": "vfd/vfd.go",
    "internal/verifdrv/vfd/term.go": "vfd/term.go",
    "internal/verifdrv/statistics/statistics_test.go": "statistics/statistics_test.go",
}
INVS = ["EpochSums"]
PROPS = ["Delta", "Credit", "Rollover", "CoreSvc"]
BASE = {"V": "3", "C": "2", "E": "4", "R": "2", "MaxBlocks": "2", "Jumps": "{1, 4}", "Tickets": "{2}", "MaxG": "1", "MaxA": "1", "Authors": "{0, 1, 2}"}
WHAT = "activity statistics deviate from the statement / Gray Paper 13.3-13.16"


def mc_one(ctx, label, consts, pre, avac, workers, cover=False):
    cfg = vf.cfg_text(constants=consts, invariants=INVS, properties=PROPS, view="View",
                      raw="CONSTANT PreOpts <- %s\nCONSTANT AvAc <- %s" % (pre, avac))
    res = vf.mc(ctx, "MC_Statistics", cfg, workers=workers, timeout=3000, heap="4g", label="MC_Statistics/" + label, coverage=cover)
    # vacuity guard: the next-state action must have produced states (TLC names it Next or Block depending on its shape)
    if cover and not (res.coverage.get("Block") or res.coverage.get("Next") or res.distinct > 100):
        raise vf.Infra("vacuous model check: no step taken (%s)" % res.coverage)


def shard_lines(lines, evs, target):
    shards, cur = [], []
    for ln, ev in zip(lines, evs):
        if len(cur) >= target and ev == "Reset":
            shards.append(cur); cur = []
        cur.append(ln)
    if cur:
        shards.append(cur)
    return shards


def run(ctx):
    ctx.assumptions += [
        "validator keys are small integers standing for Ed25519 keys; kappa' and lambda' overlap at shifted positions",
        "blocks are well-formed as the earlier STF steps guarantee: author / signer / assurer indices below V, one guarantee per core, one assurance per validator, one accumulation entry per service, no offenders, tau' >= R; counters stay below 2^31 and gas sums below 2^64",
        "reporters (GP 11.26): keys of the credential's validator indices under kappa' when the guarantee's slot is in the block's rotation, otherwise under kappa' or lambda' according to the epoch of tau' - R (11.22); the core assignment does not enter the statistics",
        "permissive clause: a core's bundle size is accepted as the package length once per report or once per digest (GP 13.9 writes it inside the sum over digests)",
        "in-place modification of the prior records is not judged here (only C26 makes it observable)",
    ]
    if ctx.replay:
        raise vf.Infra("C34 replays are regenerated from the specification: run the tier again with the same VERIF_SEED (cases are deterministic)")
    q = ctx.quick
    with cf.ThreadPoolExecutor(5) as ex:
        build_f = ex.submit(vf.build_driver, ctx, "statistics", "./internal/verifdrv/statistics", FILES)
        gen_f = ex.submit(vf.gen_cases, ctx, "Statistics_Gen", {"Tier": '"%s"' % ctx.tier, "Seed": str(ctx.seed % 1000)}, timeout=2400, heap="8g")
        if q:
            mcf = [ex.submit(mc_one, ctx, "b2", dict(BASE, Authors="{0, 2}"), "Pre2", "AvAc1", 3)]
        else:
            mcf = [ex.submit(mc_one, ctx, "b2-assurers", dict(BASE, MaxA="2"), "Pre3", "AvAc2", 5, True),
                   ex.submit(mc_one, ctx, "b2-guarantees", dict(BASE, Tickets="{0, 2}", MaxG="2"), "Pre2", "AvAc1", 5),
                   ex.submit(mc_one, ctx, "b3-v2", dict(BASE, V="2", Authors="{0, 1}", MaxBlocks="3", Tickets="{1}"), "Pre2", "AvAc1", 4)]
        casep = gen_f.result()
        binp = build_f.result()
        tp = ctx.tmp + "/trace.ndjson"
        vf.run_driver(ctx, binp, "TestVerifStatistics", env={"VF_CASES": casep, "VF_OUT": tp, "VF_SEED": ctx.seed}, timeout=2400)
        lines = vf.read_lines(tp)
        recs = [json.loads(ln) for ln in lines]
        evs = [e["ev"] for e in recs]
        seen = set()
        cnt = {"epoch_change": 0, "guarantee_prev_rotation": 0, "guarantees": 0, "assurances": 0, "preimages": 0, "available": 0, "accumulated": 0}
        tau, E, R = 0, 1, 1
        kinds = {}
        for e in recs:
            if e["ev"] == "Reset":
                tau, E, R = e["tau"], e["P"]["E"], e["P"]["R"]
                continue
            if e["ev"] != "Block":
                continue
            if e["slot"] // E != tau // E:
                cnt["epoch_change"] += 1
            if any(g["slot"] // R != e["slot"] // R for g in e["gs"]):
                cnt["guarantee_prev_rotation"] += 1
            for g in e["gs"]:
                for dg in g["res"]:
                    if dg["e"] and dg["i"] and dg["x"] and dg["z"]:
                        kinds[dg.get("r", "ok")] = kinds.get(dg.get("r", "ok"), 0) + 1
            for k, f in (("guarantees", "gs"), ("assurances", "as"), ("preimages", "pre"), ("available", "avail"), ("accumulated", "acc")):
                if e[f]:
                    cnt[k] += 1
            if e["gs"] or e["as"] or e["pre"] or e["avail"] or e["acc"]:
                seen.add(json.dumps([e[k] for k in ("slot", "author", "nt", "pre", "gs", "as", "avail", "acc", "kappa")], sort_keys=True))
            if e["adv"] == 1:
                tau = e["slot"]
        blocks = [ln for ln, ev in zip(lines, evs) if ev in ("Block", "GoPanic")]
        ctx.cov["evaluations"] = len(blocks)
        ctx.cov["histories"] = evs.count("Reset")
        ctx.cov["blocks_with"] = cnt
        ctx.cov["distinct_nontrivial"] = len(seen)
        ctx.cov["rule"] = ("evaluations = blocks run through UpdateValidatorActivityStatistics; distinct_nontrivial = distinct block inputs with at least "
                           "one guarantee, assurance, preimage, newly available report or accumulation entry; cases = systematic single-block "
                           "partition (tiny parameters) + seeded histories under V=3 / V=6 / V=1023")
        ctx.cov["samples"] = [recs[0]] + [json.loads(x) for x in blocks[len(blocks) // 2:len(blocks) // 2 + 1]]
        ctx.cov["digest_result_kinds_with_nonzero_load"] = kinds
        for k in ("ok", "out-of-gas", "panic", "bad-exports", "output-oversize", "bad-code", "code-oversize"):
            if not kinds.get(k):
                raise vf.Infra("generator starved: no incoming digest with result %s and a non-zero refine load (%s)" % (k, kinds))
        for need in ("epoch_change", "guarantee_prev_rotation", "guarantees", "assurances", "preimages", "available", "accumulated"):
            if not cnt[need]:
                raise vf.Infra("generator starved: no block with %s (%s)" % (need, cnt))
        target = max(500, len(lines) // (4 if q else 14))
        vf.validate_trace(ctx, "Statistics_Trace", shard_lines(lines, evs, target), par=3 if q else 14, heap="3g", timeout=2400, what=WHAT)
        for f in mcf:
            f.result()

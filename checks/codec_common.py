"""Shared by the codec family checks c11.py / c13.py / c14.py (spec/codec/Codec.tla, Schema.tla)."""
import json
import os
import subprocess
import vf

FILES = {
    "internal/verifdrv/vfd/vfd.go": "vfd/vfd.go",
    "internal/verifdrv/codec/codec_test.go": "codec/codec_test.go",
}

ASSUMPTIONS = [
    "wire formats are those of Gray Paper Appendix C as transcribed in spec/codec/Schema.tla (field order = the node's encoder); "
    "chain-spec sizes (V, C, E, ...) are read from the code under test (tiny by default)",
    "ImportSpec is exercised in its plain form (empty HashSegmentMap); State.Theta is not part of State.Encode and is left empty",
    "VRF / erasure stand-ins are linked but not exercised",
]

CORE = ["Header", "Block", "Extrinsic", "TicketsExtrinsic", "PreimagesExtrinsic", "GuaranteesExtrinsic", "AssurancesExtrinsic",
        "DisputesExtrinsic", "WorkReport", "WorkPackage", "WorkItem", "ServiceInfo", "StateKeyVals", "FuzzMessage", "FuzzPeerInfo",
        "FuzzSetState"]


def build(ctx):
    return vf.build_driver(ctx, "codec", "./internal/verifdrv/codec", FILES)


def consts(ctx, binp):
    """Chain-spec sizes as the code under test has them -> TLC constants; also the driver's type registry."""
    p = os.path.join(ctx.tmp, "consts.ndjson")
    vf.run_driver(ctx, binp, "TestRun", env={"VF_MODE": "consts", "VF_OUT": p})
    c = json.loads(vf.read_lines(p)[0])
    k = {x: str(c[x]) for x in ("V", "C", "E", "SM", "ABB", "Q", "O", "H", "L")}
    return k, c["types"]


def schema_types(ctx, k):
    """Type names of Schema.tla: the keys of the record `Schema == [ name |-> descriptor, ... ]` (the list lives in one place)."""
    import re
    src = open(os.path.join(vf.SPEC, "codec", "Schema.tla")).read()
    body = src[src.index("\nSchema == ["):src.index("\nTypeNames ==")]
    names = sorted(set(re.findall(r"(\w+) \|->", body)))
    if len(names) < 100:
        raise vf.Infra("could not read the type names from Schema.tla")
    return names


def shard_by_size(lines, max_bytes=2500000, max_lines=6000):
    shards, cur, size = [], [], 0
    for ln in lines:
        if cur and (size + len(ln) > max_bytes or len(cur) >= max_lines):
            shards.append(cur)
            cur, size = [], 0
        cur.append(ln)
        size += len(ln)
    if cur:
        shards.append(cur)
    return shards


def trace_constants(k, check_alloc=False, alloc_k=0, alloc_c=0, check_verdict=True):
    c = dict(k)
    c.update({"CheckAlloc": "TRUE" if check_alloc else "FALSE", "AllocK": str(alloc_k), "AllocC": str(alloc_c),
              "CheckVerdict": "TRUE" if check_verdict else "FALSE"})
    return c


def run_dec(ctx, binp, casep, tracep, timeout=900):
    """Run the driver in dec mode.  If the process dies inside a case (Go's fatal 'out of memory' cannot be
    recovered), record that case as crashed - this is behaviour of the code under test - and resume after it."""
    ncases = len(vf.read_lines(casep))
    out_lines = []
    start, deaths, stopped = 0, 0, False
    while start < ncases:
        part = tracep + ".part"
        if os.path.exists(part):
            os.remove(part)
        r = vf.run_driver(ctx, binp, "TestRun", env={"VF_MODE": "dec", "VF_CASES": casep, "VF_OUT": part, "VF_FROM": start},
                          timeout=timeout, allow_fail=True)
        lines = vf.read_lines(part) if os.path.exists(part) else []
        last_begin, done = None, set()
        for ln in lines:
            if ln.startswith('{"i":') and '"op":"begin"' in ln[:40]:
                last_begin = json.loads(ln)["i"]
            elif '"op":"stopped"' in ln[:200]:
                st = json.loads(ln)
                vf.log("  driver stopped after %d panics / gross over-allocations; %d cases not run" % (10, st["left"]))
                ctx.cov["actions"]["cases_not_run"] = st["left"]
                stopped = True
            else:
                out_lines.append(ln)
                try:
                    done.add(json.loads(ln)["i"])
                except Exception:
                    pass
        if r.returncode == 0 or stopped:
            break
        if last_begin is None or last_begin in done:
            raise vf.Infra("driver failed outside a case rc=%d:\n%s\n%s" % (r.returncode, r.stdout[-3000:], r.stderr[-3000:]))
        tail = (r.stdout + r.stderr)
        why = "fatal error" if "fatal error" in tail else "died rc=%d" % r.returncode
        m = [x for x in tail.splitlines() if "fatal error" in x or "out of memory" in x or "cannot allocate" in x]
        case = json.loads(vf.read_lines(casep)[last_begin])
        out_lines.append(json.dumps({"op": "dec", "i": last_begin, "ty": case["ty"], "cls": case.get("cls", ""), "in": case["in"],
                                     "crash": (why + ": " + "; ".join(m[:2]))[:300]}))
        deaths += 1
        if deaths > 4:
            vf.log("  driver died %d times; remaining cases not run" % deaths)
            break
        start = last_begin + 1
    with open(tracep, "w") as f:
        f.write("\n".join(out_lines) + "\n")
    return out_lines


MC_QUICK = ["Header", "WorkItem", "Storage", "FuzzMessage", "AvailAssurance", "WorkExecResult", "RefineLoad", "TicketsOrKeys", "Mmr",
            "Judgement", "LookupMetaMapEntry", "OperandOrDeferredTransfer", "AccumulatedServiceOutput", "MetaCode", "FuzzPeerInfo", "Ancestry"]
# types whose encodings are too large to enumerate mutants / pairs exhaustively in the model check (they are compositions of the others)
MC_HUGE = ["State", "ReadyQueue", "AuthQueues", "AuthQueue", "SafroleState", "ValidatorsData", "ExportSegment", "ExportSegmentMatrix",
           "WorkPackageBundle", "FuzzSetState", "Statistics", "AvailabilityAssignments"]


def mc_codec(ctx, k, part="both"):
    """Design check: round trip + layout agreement for every schema type, prefix-freeness and strictness on mutants.
    In the quick tier C11 explores the value pairs (prefix-freeness) and C13 the mutants (strictness); thorough does both."""
    names = schema_types(ctx, k)
    if ctx.quick:
        mut, pair, kk = (MC_QUICK if part != "pairs" else []), (MC_QUICK if part != "mutants" else []), 2
    else:
        mut = [n for n in names if n not in MC_HUGE]
        pair, kk = mut, 5
    c = dict(k)
    full = [n for n in names if n not in MC_HUGE] if ctx.quick else names
    c.update({"Names": vf.tla_set(mut), "PairNames": vf.tla_set(pair), "FullNames": vf.tla_set(full), "K": str(kk), "Universe": '"protocol"'})
    cfg = vf.cfg_text(constants=c, spec="Spec", invariants=["InvRoundTrip", "InvPrefixFree", "InvStrict", "InvRejected", "InvPadBits", "InvValid"])
    return vf.mc(ctx, "MC_Codec", cfg, workers=4 if ctx.quick else 8, timeout=1500, heap="4g" if ctx.quick else "8g", coverage=False)


class Background:
    """Run f(*a) in a thread (TLC model check next to the Go build); join() re-raises what it raised."""
    def __init__(self, f, *a, **kw):
        import threading
        self.exc, self.res = None, None

        def body():
            try:
                self.res = f(*a, **kw)
            except BaseException as e:      # noqa
                self.exc = e
        self.t = threading.Thread(target=body, daemon=True)
        self.t.start()

    def join(self):
        self.t.join()
        if self.exc is not None:
            raise self.exc
        return self.res


def static_consts():
    """Chain-spec sizes for the design model check (it does not depend on the code under test): the tiny defaults."""
    return {"V": "6", "C": "2", "E": "12", "SM": "5", "ABB": "1", "Q": "80", "O": "8", "H": "8", "L": "24"}


def gen_cases(ctx, binp, k, names, classes, tag, kk=None, big_limit=None, groups=None, sample_n=None, med_limit=None):
    """G-step: TLC derives the mutants (CodecMut) of the generator values and of seeded driver values of `names`."""
    import concurrent.futures as cf
    kk = kk or (2 if ctx.quick else 6)
    big_limit = big_limit or (400 if ctx.quick else 2500)
    med_limit = med_limit or (110 if ctx.quick else 900)
    sample_n = sample_n if sample_n is not None else (0 if ctx.quick else 16)
    groups = groups or (6 if ctx.quick else 12)
    valp = ""
    if sample_n > 0:
        valp = os.path.join(ctx.tmp, "values-%s.ndjson" % tag)
        vf.run_driver(ctx, binp, "TestRun", env={"VF_MODE": "rt", "VF_OUT": valp, "VF_SEED": ctx.seed, "VF_TYPES": ",".join(names),
                                                 "VF_N": sample_n, "VF_BYTES_PER_TYPE": 4 * med_limit}, timeout=600)
        # keep only what the generator needs (type, value, first encoding) and drop the huge ones
        keep = []
        for ln in vf.read_lines(valp):
            r = json.loads(ln)
            if r["encs"] and len(r["encs"][0]) <= med_limit:
                keep.append(json.dumps({"ty": r["ty"], "v": r["v"], "encs": r["encs"][:1]}))
        with open(valp, "w") as f:
            f.write("\n".join(keep) + "\n")
    parts = [names[i::groups] for i in range(groups)]
    parts = [p for p in parts if p]

    def one(ix):
        c = dict(k)
        c.update({"ValuesFile": '"%s"' % valp, "Names": vf.tla_set(parts[ix]), "Classes": vf.tla_set(classes), "K": str(kk),
                  "BigLimit": str(big_limit), "MedLimit": str(med_limit)})
        return vf.gen_cases(ctx, "Codec_Gen", c, timeout=1500, heap="4g", tag="-%s-%d" % (tag, ix))
    with cf.ThreadPoolExecutor(max_workers=6) as ex:
        outs = list(ex.map(one, range(len(parts))))
    casep = os.path.join(ctx.tmp, "cases-%s.ndjson" % tag)
    seen = set()
    with open(casep, "w") as f:
        for o in outs:
            for ln in vf.read_lines(o):
                if ln not in seen:
                    seen.add(ln)
                    f.write(ln + "\n")
    vf.log("  G Codec_Gen: %d cases for %d types" % (len(seen), len(names)))
    if not seen:
        raise vf.Infra("generator produced no cases")
    return casep


def account(ctx, lines, rule, nontrivial):
    ctx.cov["evaluations"] = len(lines)
    per_cls, per_ty, nt = {}, {}, set()
    for ln in lines:
        r = json.loads(ln)
        per_cls[r.get("cls", "")] = per_cls.get(r.get("cls", ""), 0) + 1
        per_ty[r["ty"]] = per_ty.get(r["ty"], 0) + 1
        if nontrivial(r):
            nt.add(json.dumps([r["ty"], r["in"]]))
    ctx.cov["distinct_nontrivial"] = len(nt)
    ctx.cov["rule"] = rule
    ctx.cov["actions"].update({"class_" + c: n for c, n in sorted(per_cls.items())})
    ctx.cov["actions"]["types_exercised"] = len(per_ty)
    small = [ln for ln in lines if len(ln) < 1500]
    ctx.cov["samples"] = [json.loads(x) for x in small[:2] + small[-2:]]

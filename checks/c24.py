"""C24 — authorizer pool transition (Gray Paper 8.2-8.3).
MC: Authorizer.tla (every pool over a small alphabet as a restored start; PoolBound, RemovalSound, StepShape).
G: Authorizer_Gen (all pools over three names x guarantee x queue entry, frame / near-collision / multi-guarantee /
   periodic-queue families).  T: seeded free-running 200-block histories produced by the driver.
X: harness/auth (STFAlpha2AlphaPrime, Authorization() on the singleton, RemoveLeftMostPairedValue).
V: Authorizer_Trace judges every record."""
import json
import vf

FILES = {
    "internal/verifdrv/vfd/vfd.go": "vfd/vfd.go",
    "internal/verifdrv/vfd/term.go": "vfd/term.go",
    "internal/verifdrv/auth/auth_test.go": "auth/auth_test.go",
}

MC1 = {"Q": "2", "Cores": "{0}", "Syms": '{"a","b","c"}', "GSyms": '{"a","b","c","d","z"}', "QSyms": '{"a","d"}', "MaxG": "2", "MaxSlot": "3"}
MC2 = {"O": "3", "Q": "2", "Cores": "{0,1}", "Syms": '{"a","b"}', "GSyms": '{"a","b","z"}', "QSyms": '{"a","d"}', "MaxG": "2", "MaxSlot": "2"}
MC2Q = dict(MC2, GSyms='{"a","b","z"}', MaxSlot="1", MaxG="1")


def run(ctx):
    ctx.assumptions += ["authorizer hashes are opaque 32-byte values: names (ASCII zero-padded, zero hash, near-colliding, random) stand for them",
                        "queues have exactly Q = 80 entries (Authorization() refuses others); O = 8, Q = 80 as in the Gray Paper",
                        "in-place modification of the PRIOR pools is recorded (cov.prior_mutated) but is not a C24 violation (DESIGN 7: C26)"]
    import concurrent.futures as cf
    with cf.ThreadPoolExecutor(3) as ex:
        c1 = dict(MC1, O="8")
        f1 = None if ctx.quick else ex.submit(vf.mc, ctx, "MC_Authorizer", vf.cfg_text(constants=c1, invariants=["PoolBound", "RemovalSound"], properties=["StepShape"], view="View"),
                                              workers=8, timeout=1500, label="MC_Authorizer/1core", coverage=False)
        f2 = ex.submit(vf.mc, ctx, "MC_Authorizer", vf.cfg_text(constants=MC2Q if ctx.quick else MC2, invariants=["PoolBound", "RemovalSound"], properties=["StepShape"], view="View"),
                       workers=2 if ctx.quick else 4, timeout=1500, label="MC_Authorizer/2core")
        fg = None if ctx.replay else ex.submit(vf.gen_cases, ctx, "Authorizer_Gen", {"Tier": '"%s"' % ctx.tier, "Seed": str(ctx.seed % 1000)}, timeout=1500, heap="6g")
        binp = vf.build_driver(ctx, "auth", "./internal/verifdrv/auth", FILES)
        if f1:
            f1.result()
        f2.result()
        casep = fg.result() if fg else None
    if ctx.replay:
        # a replay file holds rejected trace records: rebuild their inputs (histories are replayed block by block)
        casep = ctx.tmp + "/cases.ndjson"
        with open(casep, "w") as f:
            for ln in vf.read_lines(ctx.replay):
                e = json.loads(ln)
                keep = ("ev", "pool", "h") if e["ev"] == "Remove" else ("ev", "cores", "nilempty", "slot", "prior", "gs", "q")
                f.write(json.dumps({k: e[k] for k in keep}) + "\n")
    else:
        rng = vf.Rng(ctx.seed)
        with open(casep, "a") as f:
            for i in range(6 if ctx.quick else 120):
                f.write(json.dumps({"ev": "Hist", "seed": rng.n(1 << 30), "n": 200, "cores": rng.pick([2, 2, 2, 1, 3, 5])}) + "\n")
    tracep = ctx.tmp + "/trace.ndjson"
    vf.run_driver(ctx, binp, "TestRun", env={"VF_CASES": casep, "VF_OUT": tracep}, timeout=1500)
    lines = vf.read_lines(tracep)
    blocks = [l for l in lines if l.startswith('{"cores"') or '"ev":"Block"' in l]
    ctx.cov["evaluations"] = sum(l.count('"got"') for l in lines)
    nontriv = 0
    mut = 0
    for l in lines:
        mut += l.count('"mut":1')
        if '"ev":"Block"' in l and '"gs":[]' not in l:
            nontriv += 1
    ctx.cov["distinct_nontrivial"] = nontriv
    ctx.cov["prior_mutated"] = mut
    ctx.cov["rule"] = ("cases = TLC-enumerated (pool, guarantee, queue entry, slot) records + seeded 200-block histories on 1..5 cores, each run through "
                       "STFAlpha2AlphaPrime and Authorization(); evaluations = recorded results; non-trivial = block records with at least one guarantee")
    ctx.cov["samples"] = [json.loads(x) for x in lines[:2] + lines[-1:]]
    if mut:
        vf.log("  info: %d results modified the prior pools in place (reported under C26, not a C24 violation)" % mut)
    vf.validate_trace(ctx, "Authorizer_Trace", lines, shard=5000, what="pool transition deviates from Authorizer", timeout=1500, par=6 if ctx.quick else 14)

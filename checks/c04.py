"""C04 — gas metering and reported gas usage.
MC: MC_PVMGas (every program over a 7-instruction alphabet x every gas limit: a run with limit g is the
    g-step prefix of the ample run; out-of-gas exactly when the limit cannot pay; gas never negative).
G/T: C01's cases, each run again from the same start with every gas value 0..14 (sweep) ; V judges every
    run against PVM.tla (exit, resume point, remaining gas, registers, memory: only paid-for steps).
Invocation level: Psi_M on standard programs with limits N-1, N, N+1, 2^31, 2^63-1, 2^63, 2^64-1 and random
    large values: used gas in 0..limit, outcome as the specification's for that limit.
The transfer host call's extra gas is exercised by the host-call checks (C07/C08 drivers)."""
import importlib.util, json, os, sys
sys.path.insert(0, os.path.dirname(os.path.abspath(__file__)))
import vf
import pvmgen
spec = importlib.util.spec_from_file_location("c01mod", os.path.join(os.path.dirname(os.path.abspath(__file__)), "c01.py"))
c01 = importlib.util.module_from_spec(spec); spec.loader.exec_module(c01)

BIG = [2**31, 2**32, 2**63 - 1, 2**63, 2**63 + 1, 2**64 - 1]


def run(ctx):
    ctx.assumptions += ["spec/pvm/PVM.tla charges one unit per executed instruction (also for trap and for the implicit trap past the code) and 10 per unknown host call",
                        "invocation-level cases use standard programs with empty data sections; no host function installed (every ecalli is an unknown call)"]
    q = ctx.quick
    vf.mc(ctx, "MC_PVMGas", vf.cfg_text(constants={"MaxLen": "3" if q else "4", "MaxGas": "6" if q else "8"},
                                        invariants=["InvGasPrefix", "InvGasNonNegative"]), workers=8, timeout=3000, heap="8g")
    rng = vf.Rng(ctx.seed + 4)
    if ctx.replay:
        recs = [json.loads(l) for l in vf.read_lines(ctx.replay)]
        cases = c01.replay_cases(ctx.replay) if any("pre" in r for r in recs) else []
        inv = [{"id": r.get("id"), "prog": r["prog"], "limits": [r["limit"]]} for r in recs if r.get("k") == "invoke"]
    else:
        cases = pvmgen.gen_random_cases(rng, 70 if q else 1500)
        part, total = c01.partition_cases(ctx, c01.pick_ops(ctx, 4) if q else c01.pick_ops(ctx, 40), 150 if q else 4000, tag="c04")
        cases += part
        for c in cases:
            c["gases"] = list(range(0, 15)) if not c["id"].startswith("p") else [0, 1, 2, 3, 4]
        # host-call charge boundary: k fallthroughs, an ecalli with an identifier that is unknown to the driver's host
        # environment (charged 10, answered WHAT), then load_imm and trap, with every gas value 0..k+14
        for k in (0, 1, 2):
            for imm in ([44, 1], [0, 0, 1], [255], [255, 255, 255, 127]):      # 300, 65536, 2^64-1, 2^31-1
                code = [1] * k + [10] + imm + [51, 3, 9] + [0]
                mask = [1] * k + [1] + [0] * len(imm) + [1, 0, 0] + [1]
                st = pvmgen.base_state(rng, gas=k + 20)
                st.update({"prog": {"code": code, "mask": mask, "jt": [], "z": 0}, "id": "e%d_%d" % (k, len(imm)), "tag": "ecalli-charge",
                           "fx": [], "gases": list(range(0, k + 15))})
                cases.append(st)
        inv = []
        for i in range(90 if q else 3000):
            prog, _ = pvmgen.random_program(rng, clean=rng.n(4) != 0, ops=pvmgen.NOJUMPIND, forward=True)   # loop-free: large limits must terminate
            n_guess = len(prog["code"])
            lims = ([0, 1, 3, 8, n_guess, 400, 401] if q else [0, 1, 2, 3, 5, 8, 13, 21, 34, n_guess, 60, 399, 400, 401]) + BIG + [rng.u64(), rng.u64() | (1 << 63)]
            inv.append({"id": "i%d" % i, "prog": prog, "limits": [pvmgen.le(x) for x in lims]})
    binp = vf.build_driver(ctx, "pvm", "./PVM", c01.FILES)
    lines = []
    if cases:
        casep = ctx.tmp + "/cases.ndjson"; pvmgen.dump(cases, casep)
        tracep = ctx.tmp + "/trace.ndjson"
        vf.run_driver(ctx, binp, "TestRun", env={"VF_CASES": casep, "VF_OUT": tracep})
        # the sweep only concerns the first segment of each run
        lines += [l for l in vf.read_lines(tracep) if '"seg":0' in l or '"k":"deblob"' in l]
    if inv:
        casep = ctx.tmp + "/inv.ndjson"; pvmgen.dump(inv, casep)
        tracep = ctx.tmp + "/invtrace.ndjson"
        vf.run_driver(ctx, binp, "TestInvoke", env={"VF_CASES": casep, "VF_OUT": tracep}, timeout=300)
        lines += vf.read_lines(tracep)
    ctx.cov["evaluations"] = len(lines)
    ctx.cov["distinct_nontrivial"] = vf.distinct_count([l for l in lines if '"exit":"oog"' in l or '"res":"oog"' in l])
    ctx.cov["rule"] = ("gas sweep 0..14 over seeded random programs and a TLC-enumerated decode-partition sample (0..4), plus Psi_M invocations with "
                       "limits around the program's cost and around 2^31, 2^63, 2^64; non-trivial = distinct runs that ended out of gas")
    ctx.cov["samples"] = [json.loads(x) for x in lines[:1] + lines[-1:]]
    vf.validate_trace(ctx, "PVM_Trace", lines, constants={"Mode": '"both"'}, shard=300 if q else 1500, par=14, timeout=3000,
                      what="gas accounting deviates from the specification")

"""C23 — ticket accumulator and slot-sealer sequence (Gray Paper 6.2, 6.13, 6.23-6.35).
MC: Safrole.tla over block histories of three epochs (E=4, Y=3, N=2, V=3; identifiers 1..5/6; <= 2 tickets per block of
    every kind: valid, second attempt, over-attempted, unverifiable): AccSorted, AccBound, SealerShape and the action
    properties AccLowest, RejectRule, EvictHighest, SealerRule, under the repository's and the Gray Paper's reading of the
    permissive clauses (Strict).
G:  Safrole_Gen: (A) every accumulator over 6 identifiers x prior phase x (slot, extrinsic) alternatives applied to the
    same prior state, (H) seeded block histories over several epochs under E=4, tiny (E=12, V=6) and full (E=600, V=1023)
    parameters with one defect now and then, (Z, F) the two sequencers on their own.
X:  harness/safrole (in-package): loads the prior state on the singleton as the test-vector runner does, builds ticket
    envelopes with the VRF stand-in carrying the generated identifiers, calls OuterUsedSafrole (CreateNewTicketAccumulator,
    UpdateSlotKeySequence, OutsideInSequencer, FallbackKeySequence inside), records verdict and posterior state, and the
    BLAKE2b oracle table for the fallback keys.
V:  Safrole_Trace judges every record."""
import concurrent.futures as cf
import json
import os
import vf

os.environ.setdefault("JAVA_TOOL_OPTIONS", "-XX:ParallelGCThreads=2 -XX:CICompilerCount=2")

FILES = {
    "internal/verifdrv/vfd/vfd.go": "vfd/vfd.go",
    "internal/verifdrv/vfd/term.go": "vfd/term.go",
    "internal/safrole/zz_verif_safrole_test.go": "safrole/zz_verif_safrole_test.go",
}
INVS = ["AccSorted", "AccBound", "SealerShape"]
PROPS = ["AccLowest", "RejectRule", "EvictHighest", "SealerRule"]
BASE = {"E": "4", "Y": "3", "N": "2", "V": "3", "K": "2", "MaxId": "6", "MaxT": "2", "MaxTau": "11", "Strict": "FALSE"}
WHAT = "Safrole block deviates from the statement / Gray Paper 6.24-6.34"


def mc_one(ctx, label, consts, kinds, workers, cover=False):
    cfg = vf.cfg_text(constants=consts, invariants=INVS, properties=PROPS, view="View", raw="CONSTANT TicketKinds <- %s" % kinds)
    res = vf.mc(ctx, "MC_Safrole", cfg, workers=workers, timeout=3000, heap="4g", label="MC_Safrole/" + label, coverage=cover)
    # vacuity guard: the next-state action must have produced states (TLC names it Next or Block depending on its shape)
    if cover and not (res.coverage.get("Block") or res.coverage.get("Next") or res.distinct > 100):
        raise vf.Infra("vacuous model check: no step taken (%s)" % res.coverage)


def shard_lines(lines, evs, target):
    """cut only where a record does not depend on the tracked state (Reset, Z, F)"""
    shards, cur = [], []
    for ln, ev in zip(lines, evs):
        if len(cur) >= target and ev in ("Reset", "Z", "F"):
            shards.append(cur); cur = []
        cur.append(ln)
    if cur:
        shards.append(cur)
    return shards


def run(ctx):
    ctx.assumptions += [
        "ticket identifiers are ranks in the bytewise order of a fixed universe of 32-byte values (zero hash, all-ones, values differing in the first / last octet only, SHA-256 outputs); the VRF stand-in makes a ring signature carry a chosen identifier and verify only under the context X_T ++ eta'_2 ++ attempt and ring it was made for",
        "BLAKE2b is not evaluated in TLA+: the driver records H(eta'_2 ++ E_4(i)) for i < E with the real primitive (oracle table); input, octet selection, little-endian value, mod V and key lookup are recomputed in Safrole_Trace",
        "permissive clauses (either verdict accepted; an accepted block must have the specified posterior): more than K tickets in a block; tickets that do not make it into the new accumulator (GP 6.35); at an epoch change, an identifier that was in the old accumulator",
        "an unverifiable ticket proof must be refused (GP 6.29): such a ticket has no identifier, so the statement's posterior is undefined for a block carrying it",
        "blocks are loaded the way jamtests/safrole Dump() does (prior tau/eta/gamma/kappa/lambda/iota, posterior tau, eta'_0 and offenders) and run through safrole.OuterUsedSafrole (= stf.UpdateSafrole); the process-wide ring-verifier cache of internal/blockchain (keyed by epoch number only) is evicted before every block",
        "in-place modification of the prior state is not judged here (only C26 makes it observable)",
    ]
    if ctx.replay:
        raise vf.Infra("C23 replays are regenerated from the specification: run the tier again with the same VERIF_SEED (cases are deterministic)")
    q = ctx.quick
    with cf.ThreadPoolExecutor(5) as ex:
        build_f = ex.submit(vf.build_driver, ctx, "safrole", "./internal/safrole", FILES)
        gen_f = ex.submit(vf.gen_cases, ctx, "Safrole_Gen", {"Tier": '"%s"' % ctx.tier, "Seed": str(ctx.seed % 1000)}, timeout=2400, heap="8g")
        if q:
            mcf = [ex.submit(mc_one, ctx, "id5", dict(BASE, MaxId="5"), "KindsSmall", 3)]
        else:
            mcf = [ex.submit(mc_one, ctx, "full4", dict(BASE, MaxId="4"), "KindsFull", 5, True),
                   ex.submit(mc_one, ctx, "gp-reading4", dict(BASE, MaxId="4", Strict="TRUE"), "KindsFull", 3),
                   ex.submit(mc_one, ctx, "small6", dict(BASE), "KindsSmall", 3),
                   ex.submit(mc_one, ctx, "t3", dict(BASE, MaxT="3", MaxId="5"), "KindsSmall", 4)]
        casep = gen_f.result()
        binp = build_f.result()
        tp = ctx.tmp + "/trace.ndjson"
        vf.run_driver(ctx, binp, "TestVerifSafrole", env={"VF_CASES": casep, "VF_OUT": tp, "VF_SEED": ctx.seed}, timeout=2400)
        lines = vf.read_lines(tp)
        evs = [json.loads(ln)["ev"] for ln in lines]
        blocks = [ln for ln, ev in zip(lines, evs) if ev in ("Block", "GoPanic")]
        seqs = [ln for ln, ev in zip(lines, evs) if ev in ("Z", "F")]
        outcomes = {}
        nontriv = 0
        hist = -1
        keyset = set()
        for ln in lines:
            e = json.loads(ln)
            if e["ev"] == "Reset":
                hist += 1
            if e["ev"] != "Block":
                continue
            k = "accepted" if e["ok"] else "refused_%d" % e["err"]
            outcomes[k] = outcomes.get(k, 0) + 1
            if e["ok"]:
                for name, hit in (("sealer_from_tickets", e["tab"] and e["post"]["gs"]["t"]), ("sealer_fallback", e["tab"] and e["post"]["gs"]["k"]),
                                  ("tickets_mark", e["tm"]["has"]), ("epoch_change", e["em"]["has"]),
                                  ("accumulator_full", len(e["post"]["ga"]) == len(e["post"]["gs"]["t"]) + len(e["post"]["gs"]["k"]))):
                    if hit:
                        outcomes[name] = outcomes.get(name, 0) + 1
            if e["n"] or e["tab"]:
                key = json.dumps([hist if e["adv"] else -hist, e["slot"], e["n"], e["off"]])
                if key not in keyset:
                    keyset.add(key); nontriv += 1
        ctx.cov["evaluations"] = len(blocks) + len(seqs)
        ctx.cov["blocks"] = len(blocks)
        ctx.cov["histories"] = hist + 1
        ctx.cov["outcomes"] = outcomes
        ctx.cov["distinct_nontrivial"] = nontriv
        ctx.cov["rule"] = ("evaluations = blocks run through OuterUsedSafrole + OutsideInSequencer / FallbackKeySequence calls; distinct_nontrivial = "
                           "distinct (history, slot, extrinsic, offenders) block inputs that carry a ticket or change the epoch; cases = TLC-enumerated "
                           "(accumulator, phase) x (slot, extrinsic) alternatives under E=4 + seeded histories under E=4 / E=12 / E=600")
        ctx.cov["samples"] = [json.loads(x) for x in (lines[:2] + blocks[len(blocks) // 2:len(blocks) // 2 + 1])]
        for need in ("accepted", "sealer_from_tickets", "sealer_fallback", "tickets_mark", "accumulator_full"):
            if not outcomes.get(need):
                raise vf.Infra("generator starved: no block with outcome %s (%s)" % (need, outcomes))
        target = max(1500, len(lines) // (5 if q else 14))
        vf.validate_trace(ctx, "Safrole_Trace", shard_lines(lines, evs, target), par=3 if q else 14, heap="3g", timeout=2400, what=WHAT)
        # a record that could not be judged for want of an oracle table is an infrastructure problem, not a verdict
        missing = [v for v in ctx.violations if "[oracle_table_missing]" in v[0]]
        if missing:
            ctx.violations = [v for v in ctx.violations if v not in missing]
            for _, pth in missing:
                if os.path.exists(pth):
                    os.remove(pth)
            if not ctx.violations:
                raise vf.Infra("oracle table missing for a record that needs the fallback keys: " + missing[0][0][:300])
        for f in mcf:
            f.result()

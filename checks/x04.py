"""X04 — the guarantor's work-package pipeline around C32 (Gray Paper 14.x), growth beyond the listed properties.
MC: WorkPackage.tla (guarantors processing packages against the node's bounded package-hash -> segment-root dictionary:
    resolution, report lookup dictionary, FIFO eviction; ASSUMEs pin the validity verdicts and the byte-wise gas sums).
G: WorkPackage_Gen (validity boundaries incl. 64-bit gas wrap-around; extrinsic data vs specs; paged proofs for 0..200
   segments; whole packages with dictionary / erasure map / scripted fetcher, authorizer and refinement).
X: harness/workpackage (WorkPackage.Validate, ExtractExtrinsics, PagedProofs, WorkPackageController.Process as initial and
   as second guarantor, prepareInputs through an overlay shim).
V: WorkPackage_Trace."""
import concurrent.futures as cf
import json
import vf

FILES = {
    "internal/verifdrv/vfd/vfd.go": "vfd/vfd.go",
    "internal/verifdrv/vfd/term.go": "vfd/term.go",
    "internal/verifdrv/workpackage/workpackage_test.go": "workpackage/workpackage_test.go",
    "internal/work_package/zz_verif_export.go": "workpackage/workpackage_export.go",
}
INVS = ["InvCap", "InvLookup", "InvFetchRoots", "InvDictKeys", "InvFifo"]


def run(ctx):
    ctx.assumptions += ["Gray Paper 14.2-14.14 as transcribed in spec/stf/WorkPackageDefs.tla; permissive: W_B between 13791360 and 13794305, gas sums equal to the limit, "
                        "three bundle framings; the package encoding E(p) is taken from the trace (codec: C11) and its hash from a one-level oracle table",
                        "BLAKE2b-256 trusted; erasure coding is a stand-in (erasure root not judged); fetcher, authorizer and refinement are scripted",
                        "the node dictionary is seeded through SetHashSegmentMapWithLimit on a fresh in-memory chain state per pass"]
    consts = {"NPkgs": "3", "Cap": "2", "MaxImp": "1" if ctx.quick else "2"}
    jobs = [lambda: vf.mc(ctx, "MC_WorkPackage", vf.cfg_text(constants=consts, invariants=INVS), workers=3 if ctx.quick else 6, timeout=1500, coverage=not ctx.quick),
            lambda: vf.build_driver(ctx, "workpackage", "./internal/verifdrv/workpackage", FILES)]
    if not ctx.replay:
        jobs.append(lambda: vf.gen_cases(ctx, "WorkPackage_Gen", {"Tier": '"%s"' % ctx.tier, "Seed": str(ctx.seed % 100000)}, timeout=1500, heap="6g"))
    with cf.ThreadPoolExecutor(max_workers=len(jobs)) as ex:
        futs = [ex.submit(j) for j in jobs]
        res = [f.result() for f in futs]
    binp = res[1]
    if not ctx.quick:
        for act in ("Guarantee", "Reject"):
            if ctx.cov["actions"].get(act, 0) == 0:
                raise vf.Infra("model-checking coverage of action %s is 0" % act)
    if ctx.replay:
        cases = [ln for ln in vf.read_lines(ctx.replay) if "kind" in json.loads(ln)]
        if not cases:
            raise vf.Infra("replay file has no case lines")
        casep = ctx.tmp + "/cases.ndjson"
        open(casep, "w").write("\n".join(cases) + "\n")
    else:
        casep = res[2]
    tracep = ctx.tmp + "/trace.ndjson"
    vf.run_driver(ctx, binp, "TestRun", env={"VF_CASES": casep, "VF_OUT": tracep, "VF_SEED": ctx.seed})
    lines = vf.read_lines(tracep)
    ctx.cov["evaluations"] = len(lines)
    kinds = {}
    for ln in lines:
        ev = json.loads(ln)["ev"]
        kinds[ev] = kinds.get(ev, 0) + 1
    ctx.cov["distinct_nontrivial"] = len(lines)
    ctx.cov["rule"] = ("records per kind %s: validity boundary packages, extrinsic-data cases, paged-proof cases, whole-package runs "
                       "(three passes each: prepareInputs, Process as initial guarantor, Process as second guarantor); every record is non-trivial" % json.dumps(kinds, sort_keys=True))
    ctx.cov["samples"] = [{k: v for k, v in json.loads(l).items() if k in ("ev", "mode", "auth", "cfg", "ok", "n", "flaw", "k")} for l in lines[:1] + lines[-2:]]
    # shards by weight
    shards, cur, weight = [], [], 0
    for ln in lines:
        if weight > (250000 if ctx.quick else 600000):
            shards.append(cur); cur, weight = [], 0
        cur.append(ln); weight += len(ln)
    if cur:
        shards.append(cur)
    vf.validate_trace(ctx, "WorkPackage_Trace", shards, what="work-package pipeline differs from the specification", timeout=1500, par=6 if ctx.quick else 12)
    if ctx.violations and not ctx.replay:
        cases = vf.read_lines(casep)
        for path in sorted({p for _, p in ctx.violations}):
            recs = [r for r in vf.read_lines(path) if "ev" in json.loads(r)]
            ids = sorted({json.loads(r).get("c", -1) for r in recs} - {-1})
            with open(path, "w") as f:
                for i in ids[:12]:
                    f.write(cases[i] + "\n")
                for r in recs[:12]:
                    f.write(r + "\n")

"""C29 — validator grid neighbours and preferred initiator.
MC: Grid.tla (two formulations of the in-epoch relation coincide; symmetric, irreflexive, full row+column degree;
    cross-epoch position relation symmetric/irreflexive; P(a,b)=P(b,a) in {a,b} on a key class).
G: Grid_Gen (width boundaries, key-pair classes, validator-set triples with probe indices) + seeded random cases.
X: harness/grid (ComputeWidth, IsNeighborInEpoch, NeighborIndicesInEpoch, AllNeighborValidators,
   ValidatorManager.IsNeighbor/GetNeighbors, PreferredInitiator in both argument orders).
V: Grid_Trace judges every record against GridDefs."""
import concurrent.futures as cf
import json
import vf

FILES = {
    "internal/verifdrv/vfd/vfd.go": "vfd/vfd.go",
    "internal/verifdrv/vfd/term.go": "vfd/term.go",
    "internal/verifdrv/grid/grid_test.go": "grid/grid_test.go",
}

INVS = ["InvWidth", "InvIrrefl", "InvSym", "InvInSet", "InvExact", "InvDegree", "InvPSym", "InvPMember", "InvPosSym", "InvPosIrrefl"]


def seeded_cases(ctx):
    rng = vf.Rng(ctx.seed)
    out = []
    # key pairs: random; differing only in the last byte's top bit; sharing a long prefix; equal
    n = 1000 if ctx.quick else 12000
    for i in range(n):
        a = rng.bytes(32)
        m = rng.n(6)
        if m == 0:
            b = rng.bytes(32)
        elif m == 1:
            b = list(a); b[31] ^= 0x80
        elif m == 2:
            b = list(a); p = rng.n(32); b[p] = rng.n(256)
        elif m == 3:
            b = list(a); p = rng.n(32); b[p] = rng.n(256); b[31] ^= 0x80
        elif m == 4:
            b = list(a); p = rng.n(32)
            for j in range(p, 32):
                b[j] = rng.n(256)
        else:
            b = list(a)
        if rng.n(4) == 0:
            a[31] = rng.pick([0, 126, 127, 128, 129, 255]); 
        if rng.n(4) == 0:
            b[31] = rng.pick([0, 126, 127, 128, 129, 255])
        out.append({"kind": "pi", "a": a, "b": b})
    # validator-set triples with shuffled ids, overlapping membership across epochs, sampled probes
    def shuffled(xs):
        xs = list(xs)
        for i in range(len(xs) - 1, 0, -1):
            j = rng.n(i + 1)
            xs[i], xs[j] = xs[j], xs[i]
        return xs
    sizes = [rng.n(41) for _ in range(20 if ctx.quick else 150)]
    sizes += [rng.pick([6, 1023, 1100, 100 + rng.n(1001)]) for _ in range(6 if ctx.quick else 24)]
    for V in sizes:
        pool = 2 * V + 3
        cur = shuffled(range(pool))[:V]

        def other():
            m = rng.n(5)
            if m == 0:
                return list(cur)
            if m == 1:          # same members, other order
                return shuffled(cur)
            if m == 2:          # partly replaced, partly moved
                o = list(cur)
                for _ in range(rng.n(V + 1)):
                    if V:
                        o[rng.n(V)] = rng.n(pool)
                return o
            if m == 3:          # different length
                return shuffled(range(pool))[:rng.n(V + 3)]
            return [rng.n(pool) for _ in range(V)]   # duplicates allowed
        if V and rng.n(6) == 0:                       # duplicate (zeroed) keys in the current set
            for _ in range(1 + rng.n(3)):
                cur[rng.n(V)] = cur[rng.n(V)]
        pr, nx = other(), other()
        idxs = list(range(-1, V + 1)) if V <= 40 else sorted({rng.n(V) for _ in range(12 if ctx.quick else 100)} | {-1, V})
        probes = []
        for a in idxs:
            kq = []
            if 0 <= a < V:
                if V <= 40:
                    kq = list(range(pool + 1))
                else:       # the same-index keys of the other epochs, some members of the current set, random ids
                    kq = sorted(set(pr[a:a + 1] + nx[a:a + 1] + [cur[rng.n(V)] for _ in range(60)] + [rng.n(pool + 1) for _ in range(60)]))
            probes.append({"a": a, "kq": kq})
        out.append({"kind": "set", "tag": "seeded", "cur": cur, "prev": pr, "next": nx, "u": pool + 1,
                    "matrix": 1 if V <= 40 else 0, "probes": probes})
    return out


def run(ctx):
    ctx.assumptions += ["JAMNP-S grid structure and preferred-initiator formula as transcribed in spec/infra/GridDefs.tla (the formula is also quoted in manager.go)",
                        "keys are compared as byte strings; a validator's own key is not judged as its own neighbour; returned lists are compared as sets",
                        "validator values are a function of an abstract key id (driver-side bijection id <-> real 32-byte keys, seeded)"]
    # model checking, driver build and case generation are independent: run them side by side
    jobs = [lambda: vf.mc(ctx, "MC_Grid", vf.cfg_text(constants={"MaxV": "30" if ctx.quick else "72", "MaxE": "4" if ctx.quick else "6",
                                                                 "KeyBytes": "{0, 127, 128, 255}" if ctx.quick else "{0, 1, 127, 128, 255}", "KeyLen": "3"},
                                                      invariants=INVS), workers=3 if ctx.quick else 4, timeout=900, coverage=not ctx.quick),
            lambda: vf.build_driver(ctx, "grid", "./internal/verifdrv/grid", FILES)]
    if not ctx.replay:
        jobs.append(lambda: vf.gen_cases(ctx, "Grid_Gen", {"Tier": '"%s"' % ctx.tier}, timeout=900))
    with cf.ThreadPoolExecutor(max_workers=len(jobs)) as ex:
        futs = [ex.submit(j) for j in jobs]
        res = [f.result() for f in futs]
    binp = res[1]
    if not ctx.quick:       # vacuity guard: the three walks of the model were taken
        for act in ("NextV", "NextKey", "Rotate"):
            if ctx.cov["actions"].get(act, 0) == 0:
                raise vf.Infra("model-checking coverage of action %s is 0" % act)
    if ctx.replay:
        cases = []
        for ln in vf.read_lines(ctx.replay):
            r = json.loads(ln)
            if "kind" in r:
                cases.append(ln)
        if not cases:
            raise vf.Infra("replay file has no case lines")
        casep = ctx.tmp + "/cases.ndjson"
        open(casep, "w").write("\n".join(cases) + "\n")
    else:
        casep = res[2]
        with open(casep, "a") as f:
            for c in seeded_cases(ctx):
                f.write(json.dumps(c) + "\n")
    tracep = ctx.tmp + "/trace.ndjson"
    vf.run_driver(ctx, binp, "TestRun", env={"VF_CASES": casep, "VF_OUT": tracep, "VF_SEED": ctx.seed})
    lines = vf.read_lines(tracep)
    # shards are cut at Set records (probe lines are judged against the last Set)
    shards, cur, weight = [], [], 0
    limit = 600000 if ctx.quick else 900000
    for ln in lines:
        if '"ev":"Set"' in ln:
            if weight > limit:
                shards.append(cur); cur, weight = [], 0
        cur.append(ln); weight += len(ln)
    if cur:
        shards.append(cur)
    ctx.cov["evaluations"] = len(lines)
    nt = 0
    for ln in lines:
        if '"ev":"probe"' in ln:
            r = json.loads(ln)
            nt += 1 if (r["idx"] or r["all"]) else 0
        elif '"ev":"pi"' in ln:
            nt += 1
    ctx.cov["distinct_nontrivial"] = nt
    ctx.cov["rule"] = ("records = width queries, key pairs (both argument orders), pair matrices (V<=SmallV: all a,b in -1..V) and per-index probes "
                       "(IsNeighborInEpoch row, NeighborIndicesInEpoch, AllNeighborValidators, GetNeighbors, IsNeighbor for every key id); "
                       "non-trivial = key pairs + probes with a non-empty neighbour set")
    ctx.cov["samples"] = [json.loads(l) for l in lines[:2]] + [{k: v for k, v in json.loads(l).items() if k not in ("key", "isn", "kq")} for l in lines if '"ev":"probe"' in l][:2]
    vf.validate_trace(ctx, "Grid_Trace", shards, what="grid/initiator function differs from the specification", timeout=1500, par=6 if ctx.quick else 12)
    # make the persisted replays self-contained: prepend the generated cases the rejected records came from
    if ctx.violations and not ctx.replay:
        cases = vf.read_lines(casep)
        for path in sorted({p for _, p in ctx.violations}):
            recs = [r for r in vf.read_lines(path) if "ev" in json.loads(r)]
            ids = sorted({json.loads(r).get("c", -1) for r in recs} - {-1})
            with open(path, "w") as f:
                for i in ids[:20]:
                    f.write(cases[i] + "\n")
                for r in recs:
                    f.write(r + "\n")

"""X08 — auditing (Gray Paper section 17) as implemented in internal/auditing; growth beyond the listed properties.
MC: Auditing.tla (one block's audit over tranches: tranche-0 picks within Q, no join without no-shows, threshold monotone,
    audited-without-supermajority implies no negative judgment and all auditors positive; ASSUMEs relate the two tranche-0 readings).
G: Auditing_Gen (audit requirement Q, tranche 0 with VRF / BLAKE2b oracle queries, later tranches with per-report VRF queries,
   announcement and judgment message terms with run-time references, audited predicates, message-bus merges, report comparison).
X: harness/auditing (CollectAuditReportCandidates, ComputeInitialAuditAssignment, ComputeAnForValidator, BuildAnnouncement,
   BuildJudgements, IsWorkReportAudited / IsBlockAudited, Sync*FromBus, workReportsEqual, GetJudgement failure paths).
V: Auditing_Trace."""
import concurrent.futures as cf
import json
import vf

FILES = {
    "internal/verifdrv/vfd/vfd.go": "vfd/vfd.go",
    "internal/verifdrv/vfd/term.go": "vfd/term.go",
    "internal/verifdrv/auditing/auditing_test.go": "auditing/auditing_test.go",
    "internal/auditing/zz_verif_export.go": "auditing/auditing_export.go",
}
INVS = ["InvTranche0", "InvAuditedSound", "InvNegativeBlocks", "InvBlock"]


def run(ctx):
    ctx.assumptions += ["Gray Paper section 17 as transcribed in spec/stf/AuditingDefs.tla; permissive: order / prefix of x_n in the announcement, width of n in the s_n context, "
                        "U(w) when a supermajority of positive judgments coexists with a negative one",
                        "the Bandersnatch VRF is the /verif stand-in (outputs obtained through safrole.CreateVRFHandler for the six tiny validators); BLAKE2b and Ed25519 are real; "
                        "E(w) and the header encoding are the codec's (referenced at run time)",
                        "re-execution inside GetJudgement (real PVM) is not exercised: only its failure paths and the report comparison"]
    consts = {"V": "3", "C": "2", "TopK": "1", "Bias": "1", "ByteSamples": "{0, 100, 255}"} if ctx.quick else \
             {"V": "4", "C": "2", "TopK": "1", "Bias": "2", "ByteSamples": "{0, 100, 200, 255}"}
    slugs = vf.tla_set(ctx.known_slugs())
    jobs = [lambda: vf.mc(ctx, "MC_Auditing", vf.cfg_text(constants=consts, invariants=INVS, properties=["InvNoJoinWithoutNoShow"]),
                          workers=3 if ctx.quick else 6, timeout=1500, coverage=not ctx.quick),
            lambda: vf.build_driver(ctx, "auditing", "./internal/verifdrv/auditing", FILES)]
    if not ctx.replay:
        jobs.append(lambda: vf.gen_cases(ctx, "Auditing_Gen", {"Tier": '"%s"' % ctx.tier, "Seed": str(ctx.seed % 100000), "KnownDeviations": slugs}, timeout=1500))
    with cf.ThreadPoolExecutor(max_workers=len(jobs)) as ex:
        futs = [ex.submit(j) for j in jobs]
        res = [f.result() for f in futs]
    binp = res[1]
    if not ctx.quick:
        for act in ("Judge", "NextTranche"):
            if ctx.cov["actions"].get(act, 0) == 0:
                raise vf.Infra("model-checking coverage of action %s is 0" % act)
    if ctx.replay:
        cases = [ln for ln in vf.read_lines(ctx.replay) if "kind" in json.loads(ln)]
        if not cases:
            raise vf.Infra("replay file has no case lines")
        casep = ctx.tmp + "/cases.ndjson"
        open(casep, "w").write("\n".join(cases) + "\n")
    else:
        casep = res[2]
    tracep = ctx.tmp + "/trace.ndjson"
    vf.run_driver(ctx, binp, "TestRun", env={"VF_CASES": casep, "VF_OUT": tracep, "VF_SEED": ctx.seed})
    lines = vf.read_lines(tracep)
    ctx.cov["evaluations"] = len(lines)
    kinds = {}
    for ln in lines:
        ev = json.loads(ln)["ev"]
        kinds[ev] = kinds.get(ev, 0) + 1
    ctx.cov["distinct_nontrivial"] = sum(v for k, v in kinds.items() if k in ("a0", "an", "announce", "judge", "audited"))
    ctx.cov["rule"] = ("records per kind %s; non-trivial = tranche-0 / tranche-n selections, announcement and judgment signatures, audited predicates" % json.dumps(kinds, sort_keys=True))
    ctx.cov["samples"] = [{k: v for k, v in json.loads(l).items() if k not in ("tab", "r")} for l in lines if '"ev":"an"' in l][:2]
    shards, cur, weight = [], [], 0
    for ln in lines:
        if weight > (150000 if ctx.quick else 400000):
            shards.append(cur); cur, weight = [], 0
        cur.append(ln); weight += len(ln)
    if cur:
        shards.append(cur)
    vf.validate_trace(ctx, "Auditing_Trace", shards, what="auditing differs from the specification", timeout=1500, par=6 if ctx.quick else 12)
    if ctx.violations and not ctx.replay:
        cases = vf.read_lines(casep)
        for path in sorted({p for _, p in ctx.violations}):
            recs = [r for r in vf.read_lines(path) if "ev" in json.loads(r)]
            ids = sorted({json.loads(r).get("c", -1) for r in recs} - {-1})
            with open(path, "w") as f:
                for i in ids[:20]:
                    f.write(cases[i] + "\n")
                for r in recs[:20]:
                    f.write(r + "\n")

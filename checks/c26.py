"""C26 — block import is atomic and repeatable.

MC : NodeImport (spec/node): the node of internal/fuzz ImportBlock (db, block list, working
     prior/posterior, restore on parent mismatch) over every world of <= N blocks with <= 2
     intrinsically invalid ones, every ImportBlock sequence and every restart; invariant
     RejectIsIdentity / TwoFreshNodesAgree = every answer is a function of (accepted imports,
     request).  The rollback-to-head design must hold; the two designs without / with a too
     shallow rollback must be refuted by TLC (non-vacuity of the invariant).
G  : NodeImport_Gen enumerates (world, call sequence) scenarios of that model; this file picks
     the concrete block recipe per failure class (seeded).
X  : harness/nodeimport (in-package internal/fuzz) builds real, correctly sealed blocks on a
     synthetic genesis (VRF stand-in) and runs FuzzServiceStub.SetState/ImportBlock/GetState:
     run A, runs B1.. each without the first call its predecessor rejected, run C = A again.
V  : NodeImport_Trace: the recorded answers must be a function of (accepted imports, request)."""
import concurrent.futures as cf
import json
import os
import vf

FILES = {
    "internal/verifdrv/vfd/vfd.go": "vfd/vfd.go",
    "internal/fuzz/zz_verif_nodeimport_test.go": "nodeimport/zz_verif_nodeimport_test.go",
}
# concrete recipes per failure class of the model (harness/nodeimport mkBlock)
S1 = ["badroot", "badxthash", "badtmark", "badoffmark"]
S2 = ["baddispute", "badslot", "badslot0", "badticket", "badtproof", "badtorder", "badseal", "badentropy",
      "badauthor", "badepoch", "badxtorder", "badpreimage", "badassur", "badassuridx", "badreport", "badreportord",
      "badassursig", "badreportsig", "badsealverdict", "badreportassur"]
OK = ["ok", "okticket", "okpreimage", "okpreimage", "okreport", "okreport", "okassur", "okverdict"]
TAU0 = [0, 3, 9, 10, 11]
LIGHT = bool(os.environ.get("VF_LIGHT"))    # development on a busy machine: little parallelism


def concretise(case, rng, k):
    ck = []
    long_ = case["n"] > 4
    for i, c in enumerate(case["kind"]):
        pool = OK if c == "ok" else (S1 if c == "s1" else S2)
        if long_:
            # the long history: no tickets (a dozen of them fill the accumulator and demand a tickets mark,
            # which the builder does not make) and no bad-slot recipes (siblings would be one and the same block)
            pool = [r for r in pool if r not in ("okticket", "badslot", "badslot0")]
        pick = pool[(k + i * 7 + rng.n(len(pool))) % len(pool)]
        p = case["parent"][i]
        if c == "ok" and (i + 1) in case["parent"] and (k + i) % 2 == 0:
            # a valid block that gets children: in every second scenario it changes service storage, so
            # that the branches of a fork (and a head vs. the parent of a rejected fork block) differ in it
            pick = "okpreimage"
        if p > 0 and ck[p - 1] == "okreport" and rng.n(2) == 0:
            # the child of a block with a guarantee: make the report available (accumulation), judge it,
            # or reject a block that has already begun to do so
            pick = rng.pick(["okassur", "okassur", "okverdict"]) if c == "ok" else (rng.pick(["badsealverdict", "badreportassur"]) if c == "s2" else pick)
        ck.append(pick)
    out = {"id": k, "n": case["n"], "parent": case["parent"], "ckind": ck, "seq": case["seq"],
           "expect": case["expect"], "tau0": rng.pick(TAU0), "anc": case["anc"], "gap": 0, "gapat": 0}
    if not long_ and rng.n(4) == 0:
        out["gap"], out["gapat"] = rng.pick([12, 12, 24]), 1 + rng.n(case["n"])
    return out


def mc_cfg(n, ops, runs, mode):
    return vf.cfg_text(constants={"N": n, "MaxInvalid": 2, "MaxOps": ops, "MaxRuns": runs, "Mode": '"%s"' % mode},
                       invariants=["TypeOK", "RejectIsIdentity", "TwoFreshNodesAgree", "DbSound"])


def model_check(ctx):
    W = 2 if (ctx.quick or LIGHT) else 4
    if ctx.quick:
        holds = [(3, 4, 2, "head-N3")]
        refute = [("norollback", 3, 4)]
    else:
        holds = [(3, 7, 3, "head-N3"), (4, 4, 2, "head-N4")]
        refute = [("norollback", 3, 5), ("rollback_parent", 3, 5), ("rollback_state", 3, 5)]

    def hold(h):
        n, ops, runs, label = h
        vf.mc(ctx, "MC_NodeImport", mc_cfg(n, ops, runs, "rollback_head"), workers=W, timeout=2400, heap="6g", label="MC_NodeImport/" + label)

    # the invariant is not vacuous: TLC must refute the designs that do not roll back (far enough)
    def refuted(m):
        mode, n, ops = m
        r = vf.mc(ctx, "MC_NodeImport", mc_cfg(n, ops, 2, mode), workers=2, timeout=900, heap="3g", expect_ok=False, label="MC_NodeImport/refute-" + mode)
        if "RejectIsIdentity" not in r.inv_violated:
            raise vf.Infra("model selftest: TLC did not refute design '%s' (invariant vacuous?):\n%s" % (mode, r.tail(30)))
        return r
    with cf.ThreadPoolExecutor(1 if LIGHT else 3) as ex:
        fh = [ex.submit(hold, h) for h in holds]
        fr = [ex.submit(refuted, m) for m in refute]
        for f in fh:
            f.result()
        for f in fr:
            r = f.result()
            # states of refuted designs are not evidence for the property
            ctx.cov["states"] -= r.distinct
            ctx.cov["transitions"] -= r.generated
    for e in ctx.cov["mc_runs"]:
        if "refute-" in e["label"]:
            e["refuted"] = True


def generate(ctx):
    """Returns list of abstract scenarios (dicts) from NodeImport_Gen."""
    base = {"MaxInvalid": 2, "MaxOps": 0, "MaxRuns": 1, "Mode": '"rollback_head"', "Seed": ctx.seed % 997}
    # (N, MaxLen, Keep, Core, LongN, LongK)
    plans = ([(2, 4, 12, "FALSE", 13, 14), (3, 4, 160, "TRUE", 0, 0)] if ctx.quick
             else [(2, 5, 2, "TRUE", 13, 14), (3, 5, 12, "TRUE", 20, 9), (4, 5, 200, "TRUE", 0, 0)])

    def one(plan):
        n, maxlen, keep, core, longn, longk = plan
        c = dict(base, N=n, MaxLen=maxlen, Keep=keep, Core=core, LongN=longn, LongK=longk)
        p = vf.gen_cases(ctx, "NodeImport_Gen", c, outfile="cases-%d.ndjson" % n, timeout=1500, heap="8g", tag="-%d" % n)
        return [json.loads(x) for x in vf.read_lines(p)]
    with cf.ThreadPoolExecutor(1 if LIGHT else len(plans)) as ex:
        return [c for part in ex.map(one, plans) for c in part]


def run_driver_parallel(ctx, binp, cases, par):
    chunks = [cases[i::par] for i in range(par)]
    chunks = [c for c in chunks if c]

    def one(i):
        cp, tp = "%s/cases-%d.ndjson" % (ctx.tmp, i), "%s/trace-%d.ndjson" % (ctx.tmp, i)
        with open(cp, "w") as f:
            for c in chunks[i]:
                f.write(json.dumps(c) + "\n")
        vf.run_driver(ctx, binp, "TestRun", env={"VF_CASES": cp, "VF_OUT": tp}, timeout=2400)
        return vf.read_lines(tp)
    with cf.ThreadPoolExecutor(len(chunks)) as ex:
        parts = list(ex.map(one, range(len(chunks))))
    return [ln for p in parts for ln in p]


def split_scenarios(lines):
    scen, cur = [], None
    for ln in lines:
        if ln.startswith('{"built"') or '"ev":"Scenario"' in ln:
            cur = []
            scen.append(cur)
        if cur is None:
            raise vf.Infra("trace does not start with a Scenario event")
        cur.append(ln)
    return scen


def corrupted(usable):
    """Two corruptions of a recorded scenario: run C's last accepted import reports another root;
    a GetState of a committed header after a rejection returns other key-values."""
    out = []
    for s in usable:
        ev = [json.loads(x) for x in s]
        acc_c = [i for i, e in enumerate(ev) if e["ev"] == "Import" and e["run"] == "C" and e["ok"]]
        if acc_c and len(out) == 0:
            t = [dict(e) for e in ev]
            t[acc_c[-1]]["root"] += 1000
            out.append(("state root of an accepted import differs on the second fresh node", [json.dumps(e) for e in t]))
        rej_a = [i for i, e in enumerate(ev) if e["ev"] == "Import" and e["run"] == "A" and not e["ok"] and e["gets"] and e["gets"][0]["found"]]
        if rej_a and len(out) == 1:
            t = json.loads(json.dumps(ev))
            t[rej_a[0]]["gets"][0]["kv"] += 1000
            out.append(("GetState(genesis) returns other key-values after a rejected import", [json.dumps(e) for e in t]))
        if len(out) == 2:
            break
    if len(out) < 2:
        raise vf.Infra("selftest: no scenario to corrupt")
    return out


def run(ctx):
    ctx.assumptions += [
        "the Bandersnatch VRF is the deterministic pure-Go stand-in (harness/standin/vrf): seals, entropy sources and ticket proofs are forged tags that the stand-in's verifier accepts, so sealing rules are exercised but no cryptography",
        "tiny constants (V=6, C=2, E=12); synthetic genesis with fallback-key sealing, two services (raw storage, solicited preimages, one with a real accumulate program), one authorizer; valid blocks are empty or carry tickets, solicited preimages, a guarantee (Ed25519 credentials of the assigned validators), assurances by all validators (a pending report becomes available and is accumulated: the program writes storage) or a wonky verdict; chains of <= 4 blocks, <= 2 intrinsically invalid, slots up to two epochs ahead",
        "in-memory repositories (JAM_FUZZ=1) as the fuzz target runs; every world is run with SetState given no ancestry and given a one-item ancestry list (ancestry bookkeeping on: fork blocks older than the newest committed block are refused)",
        "verdicts are not predicted: whether a block ought to be accepted is outside C26; the generator's expectation is used for coverage accounting only"]
    binp = None
    with cf.ThreadPoolExecutor(3) as ex:
        fb = ex.submit(vf.build_driver, ctx, "nodeimport", "./internal/fuzz", FILES)
        if ctx.replay:
            cases = []
            for ln in vf.read_lines(ctx.replay):
                e = json.loads(ln)
                if e.get("ev") == "Scenario":
                    cases.append({k: e[k] for k in ("id", "n", "parent", "ckind", "seq", "tau0", "anc", "gap", "gapat", "expect")})
            if not cases:
                raise vf.Infra("replay file holds no Scenario event")
        else:
            fm = ex.submit(model_check, ctx)
            fg = ex.submit(generate, ctx)
            abstract = fg.result()
            rng = vf.Rng(ctx.seed)
            cases = [concretise(c, rng, k + 1) for k, c in enumerate(abstract)]
            fm.result()
        binp = fb.result()
    lines = run_driver_parallel(ctx, binp, cases, 1 if (ctx.quick or ctx.replay) else (2 if LIGHT else 6))
    scen = split_scenarios(lines)
    if len(scen) != len(cases):
        raise vf.Infra("driver wrote %d scenarios for %d cases" % (len(scen), len(cases)))

    # ---- bookkeeping on what the driver did (no verdicts here)
    usable, unbuilt = [], []
    st = {"imports": 0, "accepted": 0, "rejected": 0, "retries": 0, "accepted_after_rejection": 0, "gets": 0,
          "unexpected_verdicts": 0, "scen_with_rejection": 0, "epoch_crossings": 0, "accumulations": 0}
    by_kind, unexpected = {}, []
    side = {"checked": 0, "mismatch": 0}
    panics = []
    for s in scen:
        head = json.loads(s[0])
        if not head["built"]:
            unbuilt.append("%s: %s" % (head["ckind"], head["why"]))
            continue
        usable.append(s)
        slots = [head["tau0"]] + head["slots"]
        st["epoch_crossings"] += sum(1 for x in range(1, head["n"] + 1) if slots[x] // 12 > slots[head["parent"][x - 1]] // 12)
        run_, seen_rej, any_rej, rej_blocks = None, False, False, set()
        for ln in s[1:]:
            e = json.loads(ln)
            if e["ev"] == "Fresh":
                if not e["ok"]:
                    raise vf.Infra("SetState failed in scenario %s" % head["id"])
                run_, seen_rej, rej_blocks = e["run"], False, set()
                st["gets"] += len(e["gets"])
            elif e["ev"] == "Import":
                st["gets"] += len(e["gets"])
                if e["ok"]:
                    # side condition (not a C26 verdict): the root ImportBlock returned is the reference
                    # Merkle root of what GetState returns for that block
                    for g in e["gets"]:
                        if g["b"] == e["x"]:
                            side["checked"] += 1
                            side["mismatch"] += (not g["found"]) or g["kvroot"] != e["root"]
                if e["panic"] and len(panics) < 5:
                    panics.append(ln[:300])
                if run_ == "A":
                    st["imports"] += 1
                    st["accepted" if e["ok"] else "rejected"] += 1
                    k = by_kind.setdefault(e["kind"], {"accepted": 0, "rejected": 0})
                    k["accepted" if e["ok"] else "rejected"] += 1
                    if e["x"] in rej_blocks:
                        st["retries"] += 1
                    px = head["parent"][e["x"] - 1]
                    if e["ok"] and e["kind"] == "okassur" and px > 0 and head["ckind"][px - 1] == "okreport":
                        st["accumulations"] += 1
                    if e["ok"] and seen_rej:
                        st["accepted_after_rejection"] += 1
                    if not e["ok"]:
                        seen_rej, any_rej = True, True
                        rej_blocks.add(e["x"])
                    # the model orders blocks by index; a slot gap breaks that order, which matters once the
                    # ancestry bookkeeping refuses "older" fork blocks: no expectation there
                    exp = head["expect"][e["i"] - 1] if (head.get("expect") and not (head["anc"] and head["gap"])) else e["ok"]
                    if exp != e["ok"]:
                        st["unexpected_verdicts"] += 1
                        if len(unexpected) < 10:
                            unexpected.append({"scenario": head["id"], "ckind": head["ckind"], "parent": head["parent"], "seq": head["seq"], "op": e["i"], "got_ok": e["ok"], "err": e["err"]})
        st["scen_with_rejection"] += any_rej
    if unbuilt and (len(unbuilt) * 10 > len(scen) or ctx.replay):
        raise vf.Infra("block builder could not build %d of %d scenarios, e.g. %s" % (len(unbuilt), len(scen), unbuilt[:3]))
    ctx.cov.update({"scenarios": len(usable), "scenarios_not_built": len(unbuilt), "not_built_samples": unbuilt[:5], "driver": st, "verdicts_by_recipe": by_kind,
                    "unexpected_verdict_samples": unexpected})
    ctx.cov["side_condition_getstate_root_equals_import_root"] = side
    if side["mismatch"]:
        vf.log("  WARNING (side condition, not the C26 verdict): GetState of a freshly imported block does not merklize to the root ImportBlock returned in %d of %d cases" % (side["mismatch"], side["checked"]))
    ctx.cov["evaluations"] = sum(len(s) - 1 for s in usable) + st["gets"]
    ctx.cov["distinct_nontrivial"] = st["scen_with_rejection"]
    ctx.cov["rule"] = ("evaluations = recorded SetState/ImportBlock/GetState answers over runs A, B, C of every scenario; "
                       "distinct_nontrivial = scenarios (world + call sequence + block recipes, all distinct) in which the real node rejected at least one import")
    ctx.cov["samples"] = [json.loads(s[0]) for s in usable[:3]]

    # ---- V: TLC judges
    target = 2500 if ctx.quick else 8000
    shards, cur = [], []
    for s in usable:
        if len(cur) + len(s) > target and cur:
            shards.append(cur)
            cur = []
        cur += s
    if cur:
        shards.append(cur)
    vf.validate_trace(ctx, "NodeImport_Trace", shards, stateful=True, par=3 if (ctx.quick or LIGHT) else 10, timeout=1500, heap="3g",
                      what="an answer of the node is not a function of (imports accepted so far, request): a rejected block left a trace, or two fresh nodes disagree")

    # ---- selftest: the judge is live (a corrupted answer must be rejected)
    if (getattr(ctx, "selftest", False) or not ctx.quick) and not ctx.violations and not ctx.replay:
        for what, lines in corrupted(usable):
            sub = vf.Ctx(ctx.pid, ctx.tier, ctx.seed)
            sub.kf = ctx.kf
            try:
                import contextlib
                import io
                with contextlib.redirect_stdout(io.StringIO()):
                    n = vf.validate_trace(sub, "NodeImport_Trace", [lines], stateful=True, par=1, timeout=600, heap="2g")
                for _, p in sub.violations:
                    try:
                        os.remove(p)
                    except OSError:
                        pass
            finally:
                sub.cleanup()
            if n == 0:
                raise vf.Infra("selftest: corrupted trace accepted (%s)" % what)
            vf.log("  selftest: rejected as expected: %s" % what)

    # ---- the binding must have been exercised (after V: a violation outranks these)
    if not ctx.violations and panics:
        # a Go panic that shows up alike with and without rejected blocks is a crash, not a C26 matter
        raise vf.Infra("ImportBlock panicked, consistently over all runs (not a C26 verdict): %s" % panics[:2])
    if not ctx.violations and not ctx.replay:
        if st["accepted"] == 0 or st["rejected"] == 0 or st["retries"] == 0 or st["accepted_after_rejection"] == 0:
            raise vf.Infra("binding not exercised: %s" % st)
        if st["unexpected_verdicts"] * 4 > st["imports"]:
            raise vf.Infra("the node's verdicts differ from the generator's intent in %d of %d imports (consistently with and without rejected blocks, so not a C26 matter) e.g. %s"
                           % (st["unexpected_verdicts"], st["imports"], unexpected[:2]))
        if not ctx.quick:
            missing = [k for k in S1 + S2 if by_kind.get(k, {}).get("rejected", 0) == 0]
            if missing or by_kind.get("okticket", {}).get("accepted", 0) == 0 or by_kind.get("okpreimage", {}).get("accepted", 0) == 0 or st["accumulations"] == 0 or st["epoch_crossings"] == 0:
                raise vf.Infra("vacuity guard: recipes never rejected %s / okticket accepted %s / epoch crossings %d"
                               % (missing, by_kind.get("okticket"), st["epoch_crossings"]))

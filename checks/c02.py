"""C02 — the block engine and the single-step engine are observationally equivalent.
Same cases as C01 (decode partition + random programs); the driver runs both engines from identical copies
of each start state, in lock-step across host-call boundaries; PVM_Trace (Mode c02) compares exit, argument,
normalised resume point, gas, registers, memory, access map and heap pointer of every segment."""
import importlib.util, json, os, sys
sys.path.insert(0, os.path.dirname(os.path.abspath(__file__)))
import vf
import pvmgen
spec = importlib.util.spec_from_file_location("c01mod", os.path.join(os.path.dirname(os.path.abspath(__file__)), "c01.py"))
c01 = importlib.util.module_from_spec(spec); spec.loader.exec_module(c01)


def run(ctx):
    ctx.assumptions += ["resume points are normalised to 'next instruction': the step engine reports the ecalli's own position and its caller (invoke) adds 1+skip",
                        "both engines get the same host environment (ids < 256: scripted effect; others: WHAT, 10 gas)"]
    if ctx.replay:
        cases = c01.replay_cases(ctx.replay)
    else:
        full = os.environ.get("VERIF_FULL") == "1"
        cases = c01.build_cases(ctx, 2500 if ctx.quick else (0 if full else 30000), 500 if ctx.quick else 4000, mc=not ctx.quick, alu_cap_quick=0)
    lines = c01.execute(ctx, cases)
    ctx.cov["evaluations"] = len(lines)
    segs = [json.loads(l) for l in lines if '"k":"seg"' in l]
    kinds = {}
    for r in segs:
        kinds[r["a"]["exit"]] = kinds.get(r["a"]["exit"], 0) + 1
    ctx.cov["segments_by_exit"] = kinds
    ctx.cov["distinct_nontrivial"] = c01.nontrivial(lines)
    ctx.cov["rule"] = ("same cases as C01; evaluations = segments compared; by-exit counts in segments_by_exit; non-trivial = distinct "
                       "(program, start pc, gas, registers) segments executing at least one instruction in both engines")
    ctx.cov["samples"] = [json.loads(x) for x in lines[:1] + lines[-1:]]
    vf.validate_trace(ctx, "PVM_Trace", lines, constants={"Mode": '"c02"'}, shard=400 if ctx.quick else 1500, par=14,
                      timeout=3000, what="the two PVM engines disagree")

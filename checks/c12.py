"""C12 — natural-number codec: one canonical bijection in all five implementations.
MC: NatCodec design properties on a bounded value set.  G: NatCodec_Gen enumerates strings/values.
X: harness/nat driver runs every implementation.  V: NatCodec_Trace judges each record."""
import json
import vf

FILES = {
    "internal/verifdrv/vfd/vfd.go": "vfd/vfd.go",
    "internal/verifdrv/nat/nat_test.go": "nat/nat_test.go",
    "internal/types/zz_verif_export.go": "shims/types_export.go",
    "internal/fuzz/zz_verif_export.go": "shims/fuzz_export.go",
}


def run(ctx):
    ctx.assumptions += ["Gray Paper C.6 transcribed in spec/codec/NatCodec.tla is the oracle",
                        "VRF/erasure stand-ins are linked but not exercised"]
    # MC: design properties on all values with <= 2 significant bytes and 2^k-1, 2^k, 2^k+1
    vf.mc(ctx, "MC_NatCodec", vf.cfg_text(spec="Spec", invariants=["InvRoundTrip", "InvMinimal", "InvStrict"],
                                          constants={"Tier": '"%s"' % ctx.tier}), workers=8, timeout=600)
    binp = vf.build_driver(ctx, "nat", "./internal/verifdrv/nat", FILES)
    if ctx.replay:
        lines = vf.read_lines(ctx.replay)
        cases = []
        for ln in lines:
            r = json.loads(ln)
            cases.append(json.dumps({k: r[k] for k in ("fn", "in", "val") if k in r}))
        casep = ctx.tmp + "/cases.ndjson"
        open(casep, "w").write("\n".join(cases) + "\n")
    else:
        casep = vf.gen_cases(ctx, "NatCodec_Gen", {"Tier": '"%s"' % ctx.tier})
        # seeded random strings and values (T-direction volume)
        rng = vf.Rng(ctx.seed)
        extra = []
        n = 3000 if ctx.quick else 60000
        for _ in range(n):
            k = rng.pick([1, 2, 3, 4, 5, 6, 7, 8, 9, 10])
            s = rng.bytes(k)
            if rng.n(3) == 0:
                s[0] = rng.pick([0x80, 0xBF, 0xC0, 0xDF, 0xE0, 0xEF, 0xF0, 0xF7, 0xF8, 0xFB, 0xFC, 0xFD, 0xFE, 0xFF])
            extra.append(json.dumps({"fn": "dec", "in": s}))
            v = rng.bytes(8)
            z = rng.n(9)
            for i in range(8 - z, 8):
                v[i] = 0
            extra.append(json.dumps({"fn": "enc", "val": v}))
        with open(casep, "a") as f:
            f.write("\n".join(extra) + "\n")
    tracep = ctx.tmp + "/trace.ndjson"
    vf.run_driver(ctx, binp, "TestRun", env={"VF_CASES": casep, "VF_OUT": tracep})
    lines = vf.read_lines(tracep)
    ctx.cov["evaluations"] = len(lines)
    ctx.cov["distinct_nontrivial"] = vf.distinct_count([l for l in lines if '"fn":"dec"' in l and len(json.loads(l)["in"]) > 1])
    ctx.cov["rule"] = ("cases = TLC-enumerated strings (all of length 1-2, representative 3..9) and values (2^k, 2^k+-1, <=2 bytes) "
                       "plus seeded random; non-trivial = distinct decode inputs longer than one byte")
    ctx.cov["samples"] = [json.loads(x) for x in lines[:2] + lines[-2:]]
    vf.validate_trace(ctx, "NatCodec_Trace", lines, shard=6000, what="implementation disagrees with NatCodec")

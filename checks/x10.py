"""X10 — the fuzz-protocol session as a protocol state machine (internal/fuzz server loop): growth beyond
the listed properties.

MC : FuzzSession (spec/node): a free client and the target exchanging frames; target states fresh / shaken /
     failed / closed; invariants OneResponse, NoExecBeforeHandshake, OnlyRequestsChangeNode, AncestryNegotiated,
     SilentAfterClose hold for the "spec" design, TLC must refute the "code" design (the server as found).
G  : FuzzSession_Gen enumerates client scripts over the frame alphabet; this file picks blocks / headers /
     mutation classes (seeded) and adds the feature-negotiation family.
X  : harness/fuzzsession runs the real FuzzServer.serve over net.Pipe with real SetState / ImportBlock payloads
     (C26 block builder) and records every frame both ways.
V  : FuzzSession_Trace."""
import concurrent.futures as cf
import json
import os
import vf

FILES = {
    "internal/verifdrv/vfd/vfd.go": "vfd/vfd.go",
    "internal/fuzz/zz_verif_nodeimport_test.go": "nodeimport/zz_verif_nodeimport_test.go",
    "internal/fuzz/zz_verif_fuzzsession_test.go": "fuzzsession/zz_verif_fuzzsession_test.go",
}
MUTS = ["trail", "trunc", "att_len", "frame_tag", "resp_type", "frame_len0", "frame_len1", "len_minus", "len_plus", "huge"]
OK = ["ok", "okpreimage", "okticket", "okreport", "okverdict"]
LIGHT = bool(os.environ.get("VF_LIGHT"))


def mc_cfg(frames, sessions, design, sfeat='{"ancestry", "forks"}'):
    return vf.cfg_text(constants={"MaxFrames": frames, "MaxSessions": sessions, "ServerFeatures": sfeat, "Design": '"%s"' % design},
                       invariants=["OneResponse", "NoExecBeforeHandshake", "OnlyRequestsChangeNode", "AncestryNegotiated", "SilentAfterClose"])


def model_check(ctx):
    W = 2 if (ctx.quick or LIGHT) else 4
    holds = [(4, 2, '{"ancestry", "forks"}', "spec-all"), (4, 2, '{"forks"}', "spec-forks")] if ctx.quick else \
            [(5, 3, '{"ancestry", "forks"}', "spec-all"), (5, 3, '{"forks"}', "spec-forks"), (5, 3, "{}", "spec-none")]

    def hold(h):
        vf.mc(ctx, "MC_FuzzSession", mc_cfg(h[0], h[1], "spec", h[2]), workers=W, timeout=1800, heap="4g", label="MC_FuzzSession/" + h[3])

    def refuted(sf):
        r = vf.mc(ctx, "MC_FuzzSession", mc_cfg(3, 1, "code", sf[0]), workers=2, timeout=600, heap="2g", expect_ok=False, label="MC_FuzzSession/refute-" + sf[1])
        if not (set(r.inv_violated) & {"NoExecBeforeHandshake", "AncestryNegotiated"}):
            raise vf.Infra("model selftest: TLC did not refute the as-found server design:\n" + r.tail(30))
        return r
    with cf.ThreadPoolExecutor(1 if LIGHT else 3) as ex:
        fh = [ex.submit(hold, h) for h in holds]
        fr = [ex.submit(refuted, ('{"ancestry", "forks"}', "code"))]
        for f in fh:
            f.result()
        for f in fr:
            r = f.result()
            ctx.cov["states"] -= r.distinct
            ctx.cov["transitions"] -= r.generated
    for e in ctx.cov["mc_runs"]:
        if "refute-" in e["label"]:
            e["refuted"] = True


def concretise(script, rng, k):
    """Symbols -> frames.  World: blocks 1 (child of genesis), 2 (child of 1), 3 (child of genesis: a fork)."""
    sessions, cur, nxt = [], [], 1
    # most connections of a raw script die at their first frame (only 4 of 11 symbols are PeerInfo): give
    # three in five of the connections that do not start with PeerInfo a handshake first
    full, start = [], True
    for sym in script:
        if start and sym[0] != "p" and sym != "n" and rng.n(5) < 3:
            full.append("p%d" % rng.n(4))
        full.append(sym)
        start = sym == "n"
    script = full
    for sym in script:
        if sym == "n":
            sessions.append(cur)
            cur = []
        elif sym[0] == "p":
            cur.append({"k": "peer", "feat": int(sym[1])})
        elif sym[0] == "s":
            cur.append({"k": "set", "anc": int(sym[1])})
            nxt = 1
        elif sym == "i":
            cur.append({"k": "import", "x": nxt, "probe": ""})
            nxt = nxt % 3 + 1
        elif sym == "g":
            cur.append({"k": "get", "x": rng.pick([0, 0, 1, 2, 3, 4])})
        elif sym == "b":
            cur.append({"k": "bad", "of": rng.pick(["peer", "set", "import", "get"]), "x": rng.pick([0, 1, 2]), "anc": 0, "feat": 3, "mut": MUTS[(k + len(cur)) % len(MUTS)]})
        elif sym == "e":
            cur.append({"k": "eof", "mid": rng.n(2)})
    sessions.append(cur)
    return {"n": 3, "parent": [0, 1, 0], "ckind": [rng.pick(OK) for _ in range(3)], "tau0": rng.pick([0, 3, 10]), "anc": 0, "gap": 0, "gapat": 0,
            "sfeat": rng.pick([0, 1, 2, 3, 3]), "sessions": sessions}


def negotiation_family():
    """Every pair (client features, target features) x SetState with / without ancestry: blocks 1 and 2 are siblings;
    2 is imported first, then the older 1 - refused exactly when the ancestry list is in use - on the same and on a
    new connection; malformed and refused requests in between must not disturb it."""
    out = []
    for cf_ in range(4):
        for sf in range(4):
            for anc in (0, 1):
                s1 = [{"k": "peer", "feat": cf_}, {"k": "set", "anc": anc}, {"k": "import", "x": 2, "probe": ""}, {"k": "get", "x": 2},
                      {"k": "import", "x": 1, "probe": "old"}, {"k": "get", "x": 2}, {"k": "get", "x": 1}]
                s2 = [{"k": "peer", "feat": cf_}, {"k": "set", "anc": anc}, {"k": "import", "x": 2, "probe": ""},
                      {"k": "bad", "of": "import", "x": 1, "anc": 0, "feat": 3, "mut": MUTS[(cf_ * 4 + sf) % len(MUTS)]}]
                s3 = [{"k": "set", "anc": 1 - anc}]
                s4 = [{"k": "peer", "feat": 3 - cf_}, {"k": "get", "x": 2}, {"k": "import", "x": 1, "probe": "old"}, {"k": "get", "x": 0}]
                out.append({"n": 2, "parent": [0, 0], "ckind": ["ok", "okpreimage"], "tau0": 0, "anc": 0, "gap": 0, "gapat": 0, "sfeat": sf, "sessions": [s1]})
                out.append({"n": 2, "parent": [0, 0], "ckind": ["okpreimage", "ok"], "tau0": 3, "anc": 0, "gap": 0, "gapat": 0, "sfeat": sf, "sessions": [s2, s3, s4]})
    return out


def run(ctx):
    ctx.assumptions += [
        "the connection is an in-memory net.Pipe and one connection is served at a time (the real server accepts several and serves them concurrently on the one global node: not covered)",
        "real SetState / ImportBlock payloads from the C26 block builder (VRF stand-in, tiny constants); the target's feature word is set through config.Config.Info.FuzzFeatures; feature bits: 1 = ancestry, 2 = forks",
        "malformed frames are the CodecMut classes trail, trunc, att_len, frame_tag, frame_len 0 / 1 / exact-1 / exact+1 / 2^31 applied to real frames, plus a response type sent by the client",
        "ImportBlock verdicts are not predicted, except for the negotiation probe (a valid fork block older than the newest committed block is refused iff the ancestry list is in use); ImportBlock before any SetState is unconstrained",
        "'no response' is observed as a closed pipe, or as silence for 0.3 s where the target legitimately waits for announced bytes"]
    with cf.ThreadPoolExecutor(3) as ex:
        fb = ex.submit(vf.build_driver, ctx, "fuzzsession", "./internal/fuzz", FILES)
        if ctx.replay:
            cases = []
            for ln in vf.read_lines(ctx.replay):
                e = json.loads(ln)
                if e.get("ev") == "Scenario":
                    cases.append({k: e[k] for k in ("id", "n", "parent", "ckind", "tau0", "gap", "gapat", "sfeat", "sessions")})
                    cases[-1]["anc"] = 0
            if not cases:
                raise vf.Infra("replay file holds no Scenario event")
        else:
            fm = ex.submit(model_check, ctx)
            keep = 600 if ctx.quick else 40
            p = vf.gen_cases(ctx, "FuzzSession_Gen", {"MaxLen": 5, "Seed": ctx.seed % 997, "Keep": keep}, timeout=1500, heap="6g")
            rng = vf.Rng(ctx.seed)
            cases = negotiation_family() + [concretise(json.loads(x)["script"], rng, k) for k, x in enumerate(vf.read_lines(p))]
            for i, c in enumerate(cases):
                c["id"] = i + 1
            fm.result()
        binp = fb.result()
    par = 1 if ctx.replay else (2 if (ctx.quick or LIGHT) else 6)
    chunks = [c for c in [cases[i::par] for i in range(par)] if c]

    def one(i):
        cp, tp = "%s/cases-%d.ndjson" % (ctx.tmp, i), "%s/trace-%d.ndjson" % (ctx.tmp, i)
        with open(cp, "w") as f:
            for c in chunks[i]:
                f.write(json.dumps(c) + "\n")
        vf.run_driver(ctx, binp, "TestFuzzSession", env={"VF_CASES": cp, "VF_OUT": tp}, timeout=2400)
        return vf.read_lines(tp)
    with cf.ThreadPoolExecutor(len(chunks)) as ex:
        lines = [ln for part in ex.map(one, range(len(chunks))) for ln in part]
    scen, cur = [], None
    for ln in lines:
        if '"ev":"Scenario"' in ln:
            cur = []
            scen.append(cur)
        cur.append(ln)
    usable, unbuilt = [], []
    st = {"connections": 0, "frames": 0, "responses": {}, "bad_frames": {}, "before_handshake": 0, "probes": 0, "probes_refused": 0, "after_close": 0}
    for s in scen:
        head = json.loads(s[0])
        if not head["built"]:
            unbuilt.append(head["why"])
            continue
        usable.append(s)
        shaken = closed = False
        for ln in s[1:]:
            e = json.loads(ln)
            if e["ev"] == "Connect":
                st["connections"] += 1
                shaken = closed = False
            elif e["ev"] == "Frame":
                st["frames"] += 1
                f, r = e["f"], e["resp"]
                st["responses"][r["k"]] = st["responses"].get(r["k"], 0) + 1
                if closed:
                    st["after_close"] += 1
                if f["k"] == "bad":
                    st["bad_frames"][f["mut"]] = st["bad_frames"].get(f["mut"], 0) + 1
                if not shaken and f["k"] in ("set", "import", "get"):
                    st["before_handshake"] += 1
                if f["k"] == "peer" and r["k"] == "peer":
                    shaken = True
                if f["k"] == "import" and f.get("probe") == "old" and r["k"] in ("root", "error"):
                    st["probes"] += 1
                    st["probes_refused"] += r["k"] == "error"
                if r["k"] in ("closed", "none"):
                    closed = True
    if unbuilt and len(unbuilt) * 10 > len(scen):
        raise vf.Infra("block builder could not build %d of %d scenarios, e.g. %s" % (len(unbuilt), len(scen), unbuilt[:3]))
    ctx.cov.update({"scenarios": len(usable), "scenarios_not_built": len(unbuilt), "not_built_samples": unbuilt[:3], "driver": st})
    ctx.cov["evaluations"] = st["frames"]
    ctx.cov["distinct_nontrivial"] = len(usable)
    ctx.cov["rule"] = "evaluations = client frames sent with the response (or closure / silence) recorded; distinct_nontrivial = client scripts (TLC-enumerated symbol sequences, concretised, + the 64 negotiation scripts)"
    ctx.cov["samples"] = [json.loads(s[0]) for s in usable[:2]]
    target = 3000 if ctx.quick else 8000
    shards, cur = [], []
    for s in usable:
        if len(cur) + len(s) > target and cur:
            shards.append(cur)
            cur = []
        cur += s
    if cur:
        shards.append(cur)
    vf.validate_trace(ctx, "FuzzSession_Trace", shards, stateful=True, par=3 if (ctx.quick or LIGHT) else 8, timeout=1500, heap="3g",
                      what="the conversation is not a behaviour of the session model")
    if not ctx.violations and not ctx.replay:
        if min(st["before_handshake"], st["probes_refused"], st["probes"] - st["probes_refused"], st["after_close"]) == 0 or len(st["bad_frames"]) < len(MUTS):
            raise vf.Infra("binding not exercised: %s" % st)

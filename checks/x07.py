"""X07 — persistence of blocks and states (internal/blockchain ChainState over internal/store over
internal/database): growth beyond the listed properties.

MC : ChainStore (spec/node): commit / restore / restart / reads over two repositories with pruning and
     injected write failures; invariants ReadYourCommit, NoPhantom, StateHasBlock, RestoreExact,
     HeadPersisted hold for the "spec" design; TLC must refute them for the "code" design (as found).
G  : ChainStore_Gen enumerates scripts of the model's actions; this file adds real block trees (the C26
     block builder), provider (memory / Pebble in-memory), mode (fuzz / two repositories) and the long
     scripts that cross the retention window.
X  : harness/chainstore (in-package internal/fuzz + overlay shim in internal/blockchain): a real
     ChainState over the chosen databases, wrapped so that the k-th Put of a commit can fail.
V  : ChainStore_Trace."""
import concurrent.futures as cf
import json
import os
import vf

FILES = {
    "internal/verifdrv/vfd/vfd.go": "vfd/vfd.go",
    "internal/fuzz/zz_verif_nodeimport_test.go": "nodeimport/zz_verif_nodeimport_test.go",
    "internal/fuzz/zz_verif_chainstore_test.go": "chainstore/zz_verif_chainstore_test.go",
    "internal/blockchain/zz_verif_export.go": "shims/blockchain_export.go",
}
OK = ["ok", "okticket", "okpreimage", "okreport", "okassur", "okverdict", "okpreimage"]
TREES3 = [[0, 0, 0], [0, 0, 1], [0, 0, 2], [0, 1, 0], [0, 1, 1], [0, 1, 2]]
COMBOS = [("memory", 1), ("memory", 0), ("pebble", 0), ("pebble", 1)]
RETAIN = 24
LIGHT = bool(os.environ.get("VF_LIGHT"))


def mc_cfg(fuzz, design, ops, fail, n=3, retain=2):
    return vf.cfg_text(constants={"N": n, "Retain": retain, "Fuzz": fuzz, "Design": '"%s"' % design, "MaxOps": ops, "MaxFail": fail},
                       invariants=["ReadYourCommit", "NoPhantom", "StateHasBlock", "RestoreExact", "HeadPersisted"])


def model_check(ctx):
    W = 2 if (ctx.quick or LIGHT) else 4
    ops = 5 if ctx.quick else 7
    holds = [("TRUE", ops, 1, "spec-fuzz"), ("FALSE", ops, 1, "spec-two-repos")]
    refute = [("TRUE", 0, "ReadYourCommit", "code-prune-recommit"), ("FALSE", 0, "ReadYourCommit", "code-restart"), ("TRUE", 1, "ReadYourCommit", "code-write-error")]

    def hold(h):
        vf.mc(ctx, "MC_ChainStore", mc_cfg(h[0], "spec", h[1], h[2]), workers=W, timeout=1800, heap="4g", label="MC_ChainStore/" + h[3])

    def refuted(r):
        res = vf.mc(ctx, "MC_ChainStore", mc_cfg(r[0], "code", 5, r[1]), workers=2, timeout=900, heap="3g", expect_ok=False, label="MC_ChainStore/refute-" + r[3])
        if r[2] not in res.inv_violated:
            raise vf.Infra("model selftest: TLC did not refute the as-found design (%s):\n%s" % (r[3], res.tail(30)))
        return res
    with cf.ThreadPoolExecutor(1 if LIGHT else 3) as ex:
        fh = [ex.submit(hold, h) for h in holds]
        fr = [ex.submit(refuted, r) for r in refute]
        for f in fh:
            f.result()
        for f in fr:
            r = f.result()
            ctx.cov["states"] -= r.distinct
            ctx.cov["transitions"] -= r.generated
    for e in ctx.cov["mc_runs"]:
        if "refute-" in e["label"]:
            e["refuted"] = True


def long_scripts(rng):
    """Scripts that cross the retention window (fuzz mode prunes beyond 24 commits); linear chains of n blocks."""
    out = []
    n = 27
    chain = [["commit", x, 0] for x in range(0, n + 1)]
    out.append((n, list(range(0, n)), chain + [["restore", 1], ["restore", n - 2], ["restart"]]))
    # siblings 1 and 2 (children of genesis) committed alternately: each is always among the latest commits
    alt = [["commit", 0, 0]] + [["commit", 1 + (i % 2), 0] for i in range(27)] + [["restore", 1], ["restore", 2], ["commit", 3, 0]]
    out.append((3, [0, 0, 1], alt))
    # a chain with block 1 committed again late: it must stay readable while it is inside the window
    k = 5 + rng.n(10)
    re = [["commit", x, 0] for x in range(0, 20)] + [["commit", 1, 0]] + [["commit", x, 0] for x in range(20, 26)] + [["restore", 1], ["restore", k]]
    out.append((25, list(range(0, 25)), re))
    return out


def make_cases(ctx, scripts):
    rng = vf.Rng(ctx.seed)
    cases = []
    for k, sc in enumerate(scripts):
        ops = [[o["op"], o["x"], o["f"]] if o["op"] == "commit" else ([o["op"], o["x"]] if o["op"] in ("restore", "add") else [o["op"]]) for o in sc["ops"]]
        prov, fuzz = COMBOS[(k + ctx.seed) % 4]
        cases.append({"id": len(cases) + 1, "n": 3, "parent": TREES3[(k // 4 + ctx.seed) % 6], "ckind": [rng.pick(OK) for _ in range(3)],
                      "tau0": rng.pick([0, 3, 10]), "gap": 0, "gapat": 0, "anc": 0, "provider": prov, "fuzz": fuzz, "ops": ops})
    for n, parent, ops in long_scripts(rng):
        for prov, fuzz in (COMBOS if not ctx.quick else COMBOS[:2]):
            cases.append({"id": len(cases) + 1, "n": n, "parent": parent, "ckind": [rng.pick(["ok", "okpreimage", "okverdict"]) for _ in range(n)],
                          "tau0": 0, "gap": 0, "gapat": 0, "anc": 0, "provider": prov, "fuzz": fuzz, "ops": ops})
    return cases


def run(ctx):
    ctx.assumptions += [
        "blocks and states are real ones from the C26 block builder (VRF stand-in, tiny constants); the persistence calls are made the way the tail of fuzz.ImportBlock / SetState makes them (AddBlock, install posterior, StateCommitWithPreComputedState + PruneOldData in fuzz mode, StateCommit for the genesis)",
        "providers: in-memory map and Pebble on its in-memory VFS (pebble.NewTestDatabase); Redis is covered at the key-value level by C27 only",
        "a restart is a new ChainState over the same persistent database object (no process exit, no file system)",
        "write failures are injected by a wrapping database.Database that fails the k-th Put issued during one commit; a script ends after such a commit",
        "blocks pruned by the fuzz-mode retention (older than the last 24 commits) may or may not be readable; by-slot lookups are not judged"]
    with cf.ThreadPoolExecutor(3) as ex:
        fb = ex.submit(vf.build_driver, ctx, "chainstore", "./internal/fuzz", FILES)
        if ctx.replay:
            cases = []
            for ln in vf.read_lines(ctx.replay):
                e = json.loads(ln)
                if e.get("ev") == "Scenario":
                    cases.append({k: e[k] for k in ("id", "n", "parent", "ckind", "tau0", "gap", "gapat", "provider", "fuzz", "ops")})
            if not cases:
                raise vf.Infra("replay file holds no Scenario event")
        else:
            fm = ex.submit(model_check, ctx)
            keep, keepf = (90, 130) if ctx.quick else (2, 1)
            p = vf.gen_cases(ctx, "ChainStore_Gen", {"N": 3, "MaxLen": 4, "Seed": ctx.seed % 997, "Keep": keep, "KeepF": keepf, "MaxWrite": 10}, timeout=1500, heap="6g")
            cases = make_cases(ctx, [json.loads(x) for x in vf.read_lines(p)])
            fm.result()
        binp = fb.result()
    par = 1 if (ctx.quick or ctx.replay) else (2 if LIGHT else 4)
    chunks = [c for c in [cases[i::par] for i in range(par)] if c]

    def one(i):
        cp, tp = "%s/cases-%d.ndjson" % (ctx.tmp, i), "%s/trace-%d.ndjson" % (ctx.tmp, i)
        with open(cp, "w") as f:
            for c in chunks[i]:
                f.write(json.dumps(c) + "\n")
        vf.run_driver(ctx, binp, "TestChainStore", env={"VF_CASES": cp, "VF_OUT": tp}, timeout=2400)
        return vf.read_lines(tp)
    with cf.ThreadPoolExecutor(len(chunks)) as ex:
        lines = [ln for part in ex.map(one, range(len(chunks))) for ln in part]
    scen, cur = [], None
    for ln in lines:
        if '"ev":"Scenario"' in ln:
            cur = []
            scen.append(cur)
        cur.append(ln)
    usable, unbuilt = [], []
    st = {"commits": 0, "commits_with_failed_write": 0, "restores": 0, "restores_ok": 0, "restarts": 0, "reads": 0, "recommits": 0, "panics": 0}
    combos = {}
    for s in scen:
        head = json.loads(s[0])
        if not head["built"]:
            unbuilt.append(head["why"])
            continue
        usable.append(s)
        combos["%s/%s" % (head["provider"], "fuzz" if head["fuzz"] else "two-repos")] = combos.get("%s/%s" % (head["provider"], "fuzz" if head["fuzz"] else "two-repos"), 0) + 1
        seen = set()
        for ln in s[1:]:
            e = json.loads(ln)
            st["reads"] += 3 * len(e["gets"])
            st["panics"] += 1 if e.get("panic") else 0
            if e["ev"] == "commit":
                st["commits"] += 1
                st["commits_with_failed_write"] += 1 if e["failed"] else 0
                st["recommits"] += 1 if e["x"] in seen else 0
                seen.add(e["x"])
            elif e["ev"] == "restore":
                st["restores"] += 1
                st["restores_ok"] += 1 if e["ok"] else 0
            elif e["ev"] == "restart":
                st["restarts"] += 1
                seen = set() if head["fuzz"] else seen
    if unbuilt and (len(unbuilt) * 10 > len(scen) or any(json.loads(s[0])["n"] > 3 and not json.loads(s[0])["built"] for s in scen)):
        raise vf.Infra("block builder could not build %d of %d scenarios, e.g. %s" % (len(unbuilt), len(scen), unbuilt[:3]))
    ctx.cov.update({"scenarios": len(usable), "scenarios_not_built": len(unbuilt), "not_built_samples": unbuilt[:5], "driver": st, "provider_mode": combos})
    ctx.cov["evaluations"] = st["reads"]
    ctx.cov["distinct_nontrivial"] = len(usable)
    ctx.cov["rule"] = ("evaluations = GetStateByBlockHash / GetStateRootByBlockHash / GetBlockByHash answers recorded after every operation (all blocks of the scenario + an unknown hash); "
                       "distinct_nontrivial = scripts (distinct by construction: TLC-enumerated action sequences x block tree x provider x mode, plus the retention-window scripts)")
    ctx.cov["samples"] = [json.loads(s[0]) for s in usable[:2]]
    target = 1500 if ctx.quick else 5000
    shards, cur = [], []
    for s in usable:
        if len(cur) + len(s) > target and cur:
            shards.append(cur)
            cur = []
        cur += s
    if cur:
        shards.append(cur)
    vf.validate_trace(ctx, "ChainStore_Trace", shards, constants={"Retain": RETAIN}, stateful=True, par=3 if (ctx.quick or LIGHT) else 8, timeout=1500, heap="3g",
                      what="the store answered something the persistence model does not allow")
    if not ctx.violations and not ctx.replay:
        if st["panics"]:
            raise vf.Infra("a persistence call panicked")
        if min(st["commits"], st["restores_ok"], st["restarts"], st["recommits"], st["commits_with_failed_write"]) == 0 or len(combos) < 4:
            raise vf.Infra("binding not exercised: %s %s" % (st, combos))

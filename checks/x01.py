"""X01 — availability assurances (Gray Paper section 11.2) — growth of the specification beyond the 35 listed properties.
MC: Assurances (V=6, C=2): every correctly ordered extrinsic of 6 validators x 4 bitfields (15 625) plus one-defect variants
    applied to every reachable pending-report state (report age 0..U-1 per core), with disputes removing pending reports and
    guarantees placing new ones; invariants InvAvailNotPending, InvAvailIffSuper, InvNoTimedOut, InvRefusedNoChange,
    InvOnlyRemoves, InvStays, TypeOK.
G:  Assurances_Gen enumerates the single-block partition (all count pairs, timeout boundary x threshold, engaged / judged
    cores, one and two defects, padding bits, guarantees onto free / engaged / just-freed cores); seeded multi-block
    histories are produced here.
X:  harness/assurances builds the extrinsic as wire bytes signed with real Ed25519 keys, decodes it with the repository's
    decoder and runs extrinsic.Disputes(), extrinsic.Assurance(), GuaranteeController.ValidateWorkReports() and
    TransitionWorkReport() on the singleton chain state, block after block.
V:  Assurances_Trace."""
import concurrent.futures as cf
import json
import os
import vf

os.environ.setdefault("JAVA_TOOL_OPTIONS", "-XX:ParallelGCThreads=2 -XX:CICompilerCount=2")

PID = "X01"
FILES = {
    "internal/verifdrv/vfd/vfd.go": "vfd/vfd.go",
    "internal/verifdrv/vfd/term.go": "vfd/term.go",
    "internal/verifdrv/assurances/assurances_test.go": "assurances/assurances_test.go",
}
INVS_MC = ["TypeOK", "InvAvailNotPending", "InvAvailIffSuper", "InvNoTimedOut", "InvRefusedNoChange", "InvOnlyRemoves", "InvStays"]
INVS_TRACE = ["TraceNoTimedOut"]
WHAT = "assurances / pending-report availability deviates from Gray Paper section 11.2"
SIGK = ["ctx", "key", "bits", "parent", "nohash", "zero"]
V, C, U = 6, 2, 5


class Collect:
    """ctx view for one validate_trace call: own scratch prefix, violations collected instead of filed."""
    def __init__(self, ctx, prefix):
        self._c, self._p = ctx, prefix
        self.found = []

    def sub(self, name):
        return self._c.sub(self._p + "-" + name)

    def violation(self, what, lines):
        self.found.append((what, list(lines)))
        return ""

    def __getattr__(self, k):
        return getattr(self._c, k)


def judge(ctx, tag, module, shards, **kw):
    """validate_trace + confirmation: a rejected trace prefix is judged a second time on its own before it is filed as
    a violation; if the second judgement accepts it, the first TLC process died (kill, OOM) -> Infra."""
    c1 = Collect(ctx, tag)
    vf.validate_trace(c1, module, shards, **kw)
    for what, lines in c1.found:
        c2 = Collect(ctx, tag + "-confirm%d" % (abs(hash(what)) % 100000))
        kw2 = dict(kw)
        kw2["par"] = 1
        vf.validate_trace(c2, module, [lines], **kw2)
        if not c2.found:
            raise vf.Infra("trace validation of %s was interrupted (a rejected prefix is accepted when judged again): %s" % (tag, what[:200]))
        ctx.violation(what, lines)
    return len(c1.found)


def sample(rng, xs, k):
    xs, out = list(xs), []
    for _ in range(min(k, len(xs))):
        out.append(xs.pop(rng.n(len(xs))))
    return out


def history(rng):
    """A seeded multi-block history.  The shadow bookkeeping below only steers the inputs towards interesting states
    (thresholds, timeouts, freed cores); it is not an oracle - Assurances_Trace judges every block."""
    tau = 60 + rng.n(200)
    nid = [0]

    def fresh():
        nid[0] += 1
        return nid[0]
    rho = []
    for c in range(C):
        rho.append([fresh(), tau - rng.n(U)] if rng.n(3) else [0, 0])
    case = {"tau": tau, "rho": [list(x) for x in rho], "blocks": []}
    for _ in range(rng.pick([2, 3, 4, 5, 6, 8])):
        slot = tau + rng.pick([1, 1, 1, 1, 2, 2, 3, 4, 5, 6, 9])
        pend = [c for c in range(C) if rho[c][0]]
        judge_ids = []
        if pend and rng.n(8) == 0:
            judge_ids = [rho[c][0] for c in sample(rng, pend, rng.pick([1, 1, 2]))]
        elif rng.n(40) == 0:
            judge_ids = [900 + rng.n(5)]                       # a report that is not pending
        live = [c for c in range(C) if rho[c][0] and rho[c][0] not in judge_ids]
        # assurance counts per core, biased to the threshold
        cnt = [rng.pick([0, 1, 3, 4, 4, 5, 5, 5, 6]) if c in live else 0 for c in range(C)]
        sets = [set(sample(rng, range(V), cnt[c])) for c in range(C)]
        valid = True
        m = rng.n(26)
        if m == 0:                                              # a bit on a core without (live) report
            dead = [c for c in range(C) if c not in live]
            if dead:
                sets[rng.pick(dead)].add(rng.n(V)); valid = False
        zero = rng.n(3) == 0
        as_ = []
        for v in range(V):
            f = sum(1 << c for c in range(C) if v in sets[c])
            if f or (zero and rng.n(2)):
                as_.append({"v": v, "f": f, "anchor": "ok", "sig": "ok"})
        if as_:
            i = rng.n(len(as_))
            if m == 1:
                as_[i]["sig"] = rng.pick(SIGK); valid = False
            elif m == 2:
                as_[i]["anchor"] = "bad"; valid = False
            elif m == 3 and len(as_) > 1:
                j = rng.n(len(as_) - 1); as_[j], as_[j + 1] = as_[j + 1], as_[j]; valid = False
            elif m == 4:
                as_.insert(i, dict(as_[i])); valid = False
            elif m == 5:
                as_[-1]["v"] = rng.pick([6, 7, 300, 65535]); valid = False
            elif m == 6:
                as_[i]["f"] |= rng.pick([4, 8, 128]); valid = False
        # what the shadow expects to be free afterwards
        free = []
        for c in range(C):
            gone = (not rho[c][0]) or rho[c][0] in judge_ids or 3 * len(sets[c]) > 2 * V or slot >= rho[c][1] + U
            if gone:
                free.append(c)
        place = []
        for c in range(C):
            if c in free and rng.n(5) < 3:
                place.append([c, fresh()])
            elif c not in free and rng.n(25) == 0:
                place.append([c, fresh()])                      # onto an engaged core
        engaged = any(p[0] not in free for p in place)
        case["blocks"].append({"slot": slot, "judge": judge_ids, "as": as_, "place": place})
        if valid and not engaged:
            for c in free:
                rho[c] = [0, 0]
            for c, r in place:
                rho[c] = [r, slot]
            tau = slot
    return case


FULL = {"V": 1023, "C": 341, "NB": 43}
EDGE_CORES = [0, 1, 7, 8, 9, 15, 16, 63, 64, 127, 128, 255, 256, 335, 336, 339, 340]


def history_full(rng):
    """The same walk in the full-size configuration (V = 1023, C = 341, 43 bitfield octets): thresholds 682 / 683 of 1023 and
    bit positions across octet boundaries.  Inputs only."""
    Vf, Cf, NB = FULL["V"], FULL["C"], FULL["NB"]
    tau = 1000 + rng.n(5000)
    nid = [0]

    def fresh():
        nid[0] += 1
        return nid[0]
    cores = sorted(set(sample(rng, EDGE_CORES, 5) + [rng.n(Cf) for _ in range(3)]))
    rho = {c: [fresh(), tau - rng.n(U)] for c in cores if rng.n(4)}
    case = {"tau": tau, "rho": {str(c): list(v) for c, v in rho.items()}, "blocks": []}
    for _ in range(rng.pick([2, 3, 3, 4])):
        slot = tau + rng.pick([1, 1, 1, 2, 3, 4, 5, 6])
        judge_ids = []
        if rho and rng.n(5) == 0:
            judge_ids = [rho[c][0] for c in sample(rng, sorted(rho), 1)]
        live = [c for c in sorted(rho) if rho[c][0] not in judge_ids]
        sets = {c: set(sample(rng, range(Vf), rng.pick([0, 341, 682, 682, 683, 683, 684, 1023]))) for c in live}
        valid = True
        m = rng.n(20)
        if m == 0:                                              # a bit on a core without (live) report, next to a live one
            c = (rng.pick(live) + rng.pick([1, -1, 8])) % Cf if live else rng.n(Cf)
            if c not in live:
                sets[c] = {rng.n(Vf)}; valid = False
        zero = rng.n(2) == 0
        as_ = []
        for v in range(Vf):
            f = [0] * NB
            for c, sv in sets.items():
                if v in sv:
                    f[c // 8] |= 1 << (c % 8)
            if zero or any(f):
                as_.append({"v": v, "f": f, "anchor": "ok", "sig": "ok"})
        if as_:
            i = rng.n(len(as_))
            if m == 1:
                as_[i]["sig"] = rng.pick(SIGK); valid = False
            elif m == 2:
                as_[i]["anchor"] = "bad"; valid = False
            elif m == 3 and len(as_) > 1:
                j = rng.n(len(as_) - 1); as_[j], as_[j + 1] = as_[j + 1], as_[j]; valid = False
            elif m == 4:
                as_[-1]["v"] = rng.pick([1023, 1024, 65535]); valid = False
            elif m == 5:
                as_[i]["f"][NB - 1] |= rng.pick([0x20, 0x40, 0x80]); valid = False
        free = [c for c in cores if c not in rho or rho[c][0] in judge_ids or 3 * len(sets.get(c, ())) > 2 * Vf or slot >= rho[c][1] + U]
        place = []
        for c in cores:
            if c in free and rng.n(2):
                place.append([c, fresh()])
            elif c not in free and rng.n(30) == 0:
                place.append([c, fresh()])
        engaged = any(p[0] not in free for p in place)
        case["blocks"].append({"slot": slot, "judge": judge_ids, "as": as_, "place": place})
        if valid and not engaged:
            for c in free:
                rho.pop(c, None)
            for c, r in place:
                rho[c] = [r, slot]
            tau = slot
    return case


def cases_from_replay(path):
    cases, cur = [], None
    for ln in vf.read_lines(path):
        e = json.loads(ln)
        if e["ev"] == "Reset":
            cur = {"tau": e["tau"], "rho": e["rho"], "blocks": []}
            cases.append(cur)
        elif cur is not None:
            cur["blocks"].append({k: e[k] for k in ("slot", "judge", "as", "place")})
    return cases


def shard_lines(lines, target):
    shards, cur = [], []
    for ln in lines:
        if len(cur) >= target and '"ev":"Reset"' in ln:
            shards.append(cur); cur = []
        cur.append(ln)
    if cur:
        shards.append(cur)
    return shards


def mc_one(ctx, label, consts, workers, cover=False, vacuity=False):
    if vacuity:
        # the refusal branch is reachable: the invariant "never refused" must FAIL in the model
        cfg = vf.cfg_text(constants=consts, invariants=["NeverRefused"])
        res = vf.mc(ctx, "MC_Assurances", cfg, workers=workers, timeout=1500, heap="3g", label="MC_Assurances/" + label, expect_ok=False)
        if "NeverRefused" not in res.inv_violated:
            raise vf.Infra("vacuous model: no refused block reachable (%s)" % res.tail(20))
        return
    cfg = vf.cfg_text(constants=consts, invariants=INVS_MC)
    res = vf.mc(ctx, "MC_Assurances", cfg, workers=workers, timeout=3000, heap="4g", label="MC_Assurances/" + label, coverage=cover)
    if cover:
        import re
        acts = {}
        for m in re.finditer(r"<(\w+) line [^>]*>: (\d+):(\d+)", res.out):
            acts[m.group(1)] = acts.get(m.group(1), 0) + int(m.group(3))
        ctx.cov["actions"].update(acts)
        for a in ("Block", "Settle", "Place"):
            if not acts.get(a):
                raise vf.Infra("vacuous model check: action %s never taken (%s)" % (a, acts))


def execute(ctx, binp, casep, mode):
    """X-step for one configuration ("tiny" V=6 C=2 / "full" V=1023 C=341): returns the trace lines and the Block lines."""
    tp = ctx.tmp + "/trace-%s.ndjson" % mode
    vf.run_driver(ctx, binp, "TestVerifAssurances", env={"VF_CASES": casep, "VF_OUT": tp, "VF_SEED": ctx.seed, "VF_MODE": mode}, timeout=1500)
    lines = vf.read_lines(tp)
    blocks = [ln for ln in lines if '"ev":"Block"' in ln]
    refused = [ln for ln in blocks if '"stage":"disputes"' in ln]
    if refused:
        raise vf.Infra("the driver's own disputes extrinsic was refused (generator / driver problem, %s): %s" % (mode, refused[0][-400:]))
    return lines, blocks


def tally(blocks):
    stages, errs, avail = {}, {}, 0
    for ln in blocks:
        e = json.loads(ln)
        stages[e["stage"]] = stages.get(e["stage"], 0) + 1
        errs[e["err"] or "accepted"] = errs.get(e["err"] or "accepted", 0) + 1
        avail += len(e["w"]) if e["stage"] in ("ok", "reports") else 0
    return stages, errs, avail


def run(ctx):
    ctx.assumptions += [
        "Ed25519 and Blake2b primitives trusted (crypto/ed25519 signs, x/crypto blake2b hashes, the repository verifies with ed25519consensus); the signed payload is the Gray Paper's: jam_available ++ H(parent ++ bitfield octets)",
        "prior and posterior validator sets are kept equal, so kappa versus kappa' in 11.13 is not discriminated (P1)",
        "which defect a refusal names is only required to be a defect present (P2); set padding bits may be refused anywhere or masked (P3)",
        "reports judged by the block's disputes get a wonky verdict through extrinsic.Disputes(); guarantees are represented by ValidateWorkReports + TransitionWorkReport only (11.29, 11.43), the other guarantee clauses are out of scope",
        "posterior rho becomes the prior rho of the next block the way ChainState.StateCommit moves it (same slice); after a refused block the prior rho is reloaded from a copy",
    ]
    q = ctx.quick
    kw = dict(stateful=True, invariants=INVS_TRACE, heap="3g", timeout=3000)
    with cf.ThreadPoolExecutor(6) as ex:
        build_f = ex.submit(vf.build_driver, ctx, "assurances", "./internal/verifdrv/assurances", FILES)
        if ctx.replay:
            first = json.loads(vf.read_lines(ctx.replay)[0])
            mode = "full" if first.get("C", C) == FULL["C"] else "tiny"
            casep = ctx.tmp + "/replay-cases.ndjson"
            with open(casep, "w") as f:
                for c in cases_from_replay(ctx.replay):
                    f.write(json.dumps(c) + "\n")
            lines, blocks = execute(ctx, build_f.result(), casep, mode)
            ctx.cov["evaluations"] = len(blocks)
            judge(ctx, "replay", "Assurances_Trace", shard_lines(lines, 12000), par=1, what=WHAT, **kw)
            return
        base = {"V": "6", "C": "2", "U": "3", "RepsPerCore": "1", "Deltas": "{1, 3}", "MaxJudged": "1"}
        if q:
            mcs = [("u2r1", dict(base, U="2", Deltas="{1, 2}"), 3, False, False)]
        else:
            mcs = [("u5r1", dict(base, U="5", Deltas="{1, 2, 4, 5, 6}", MaxJudged="2"), 4, True, False),
                   ("u3r2", dict(base, RepsPerCore="2", Deltas="{1, 2, 3}", MaxJudged="2"), 4, False, False),
                   ("vacuity", dict(base, U="2", Deltas="{1}", MaxJudged="0"), 1, False, True)]
        mcf = [ex.submit(mc_one, ctx, *m) for m in mcs]
        gen_f = ex.submit(vf.gen_cases, ctx, "Assurances_Gen", {}, "cases-gen.ndjson", 600)
        rng = vf.Rng(ctx.seed)
        casep = ctx.tmp + "/cases.ndjson"
        hist = [history(rng) for _ in range(2500 if q else 60000)]
        # the full-size configuration (V = 1023, C = 341): same driver, same judge
        rngf = vf.Rng(ctx.seed + 7919)
        casef = ctx.tmp + "/cases-full.ndjson"
        with open(casef, "w") as f:
            for _ in range(4 if q else 30):
                f.write(json.dumps(history_full(rngf)) + "\n")
        with open(casep, "w") as f:
            f.write(open(gen_f.result()).read())
            for h in hist:
                f.write(json.dumps(h) + "\n")
        binp = build_f.result()
        flines, fblocks = execute(ctx, binp, casef, "full")
        ff = ex.submit(judge, ctx, "full", "Assurances_Trace", shard_lines(flines, 7 if q else 14), par=2 if q else 6,
                       what=WHAT + " (full-size configuration)", **kw)
        lines, blocks = execute(ctx, binp, casep, "tiny")
        stages, errs, avail = tally(blocks)
        fstages, ferrs, favail = tally(fblocks)
        ctx.cov["evaluations"] = len(blocks) + len(fblocks)
        ctx.cov["histories"] = sum(1 for ln in lines + flines if '"ev":"Reset"' in ln)
        ctx.cov["stages"] = stages
        ctx.cov["outcomes"] = errs
        ctx.cov["reports_made_available"] = avail
        ctx.cov["full_size"] = {"blocks": len(fblocks), "stages": fstages, "outcomes": ferrs, "reports_made_available": favail}
        ctx.cov["distinct_nontrivial"] = vf.distinct_count([ln for ln in blocks if '"as":[{' in ln],
                                                           key=lambda e: [e["rho"], e["slot"] - e["tau"], e["judge"], e["as"], e["place"]])
        ctx.cov["rule"] = ("evaluations = blocks run through Disputes() + Assurance() (+ ValidateWorkReports / TransitionWorkReport) with real "
                           "Ed25519 signatures, tiny (V=6, C=2) and full-size (V=1023, C=341) configurations; distinct_nontrivial = distinct "
                           "(pending reports, slot distance, judged reports, assurances, guarantees) inputs of the tiny configuration with at "
                           "least one assurance; cases = TLC-enumerated single-block partition (Assurances_Gen) + seeded histories of 2-8 blocks")
        ctx.cov["samples"] = [json.loads(x) for x in lines[:3]]
        judge(ctx, "all", "Assurances_Trace", shard_lines(lines, 12000 if q else 30000), par=3 if q else 8, what=WHAT, **kw)
        ff.result()
        for f in mcf:
            f.result()

"""X05 - the invocation wrappers around the host calls: Psi_I (is-authorized), Psi_R (RefineInvoke), Psi_A's argument,
incoming-transfer credit and fetch view (growth beyond the listed properties).
MC: MC_Invocations - the result function of spec/host/Invocations.tla is well-formed on every case (result kinds, cost vs
    limit, every slot has acceptable values of the right length, exports in order, exact credit sum).
G:  Invocations_Gen - fixed cases covering every transcribed clause (code absent / unavailable at the lookup-anchor slot /
    oversize, argument echo for cores / item indices / service ids / timeslots with 1..3-byte natural encodings, every fetch
    selector in each context, indexed selectors, unknown host calls, gas, historical lookups, exports around the offset and the
    W_X limit, empty output, trap, out-of-gas incl. limits at cost-1 / cost / cost+1, undecodable program, incoming transfers up
    to 2^64) + seeded scripts.
X:  harness/hostcall TestInvocations assembles each script into a standard program, installs it as authorizer / service code
    and runs the real Psi_I / RefineInvoke / Psi_A.
V:  Invocations_Trace recomputes result kind, output (argument or slots), exports, gas used, credited balance."""
import concurrent.futures as cf
import json
import os
import sys
sys.path.insert(0, os.path.dirname(os.path.abspath(__file__)))
import vf
import hostcall_common as hc


def run(ctx):
    ctx.assumptions += ["tiny build constants; G_I = 50 000 000, W_A = 64 000, W_C = 4 000 000, W_X = 3072",
                        "E(p), E(p_x), the encoded accumulate inputs and BLAKE2b are taken from the repository's codec / hash (primitives; the driver gives its encoder an empty segment map: its import specifications name plain segment roots)",
                        "programs are assembled from scripts; their instruction / host-call counts are recomputed by the specification's cost table and compared",
                        "per-instruction cost 1 and the PVM itself are C01/C04; the collapse of the accumulation contexts is C10"]
    quick = ctx.quick
    K = dict(hc.BUILD)
    with cf.ThreadPoolExecutor(4) as ex:
        fb = ex.submit(hc.build, ctx)
        c = dict(K)
        c.update({"Seed": str(ctx.seed % 499), "NRand": "6" if quick else "120"})
        fmc = ex.submit(vf.mc, ctx, "MC_Invocations", vf.cfg_text(constants=c, invariants=["Kinds", "Bounded", "Slots", "Exports", "Credit", "Payable", "Collapse"]),
                        workers=2 if quick else 6, timeout=2400, heap="4g")
        if ctx.replay:
            casep = os.path.join(ctx.tmp, "replay-cases.ndjson")
            with open(casep, "w") as f:
                for ln in vf.read_lines(ctx.replay):
                    f.write(json.dumps(json.loads(ln)["case"]) + "\n")
        else:
            g = dict(K)
            g.update({"Seed": str(ctx.seed % 499), "NRand": "20" if quick else "600", "Only": '"all"'})
            casep = vf.gen_cases(ctx, "Invocations_Gen", g, timeout=2400, heap="4g")
        binp = fb.result()
        tracep = os.path.join(ctx.tmp, "inv-trace.ndjson")
        vf.run_driver(ctx, binp, "TestInvocations", env={"VF_CASES": casep, "VF_OUT": tracep}, timeout=1500)
        lines = vf.read_lines(tracep)
        fmc.result()
    kinds = {}
    for ln in lines:
        e = json.loads(ln)
        k = "%s:%s:%s" % (e["case"]["kind"], e["case"]["end"], e["res"])
        kinds[k] = kinds.get(k, 0) + 1
    ctx.cov["evaluations"] = len(lines)
    ctx.cov["distinct_nontrivial"] = sum(1 for ln in lines if '"script":[]' not in ln)
    ctx.cov["rule"] = "one evaluation = one run of Psi_I / RefineInvoke / Psi_A on an assembled program; non-trivial = the script makes at least one host call"
    ctx.cov["by_kind"] = kinds
    def slim(e):
        c = e["case"]
        return {"kind": c["kind"], "end": c["end"], "codecase": c["codecase"], "ops": [o["op"] for o in c["script"]], "res": e["res"], "used": hc.val(e["used"]),
                "out_len": len(e["out"]), "exports": len(e["exports"])}
    ctx.cov["samples"] = [slim(json.loads(x)) for x in (lines[:1] + lines[len(lines) // 2:len(lines) // 2 + 1] + lines[-1:])]
    before = len(ctx.violations)
    vf.validate_trace(ctx, "Invocations_Trace", lines, constants=K, shard=60 if quick else 120, what="invocation wrapper deviates from Invocations.tla",
                      timeout=2400, par=4 if quick else 12, heap="3g")
    for w, _ in ctx.violations[before:]:
        if "[driver:" in w:
            raise vf.Infra("driver / specification cost tables disagree: " + w[:300])
    if getattr(ctx, "selftest", False) or not quick:
        sub = vf.Ctx(ctx.pid, ctx.tier, ctx.seed)
        try:
            e = json.loads(lines[0])
            e["used"][0] ^= 1
            save = vf.VERIF
            vf.VERIF = sub.tmp
            try:
                n = vf.validate_trace(sub, "Invocations_Trace", [json.dumps(e)], constants=K, timeout=900, par=1)
            finally:
                vf.VERIF = save
            if n == 0:
                raise vf.Infra("selftest: corrupted record accepted")
            vf.log("  selftest: corrupted gas figure rejected as expected")
        finally:
            sub.cleanup()

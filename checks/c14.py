"""C14 - decoding untrusted bytes is safe (exploration level).
G:  Codec_Gen: for every schema type (the statement's blocks, headers, work packages, state key-values and fuzz frames first),
    every length / count prefix of the generator values' encodings is replaced by 0, remaining+1, 2^32-1, 2^63, 2^64-1 (one prefix,
    and two prefixes at once), fuzz frames get length 0, 1, exact-1, exact+1, 2^32-1, undefined types and short bodies, plus
    truncations and length +-1.
X:  harness/codec decodes each input under recover(), measuring runtime.MemStats.TotalAlloc around the call; a process death inside
    a case (Go's unrecoverable out-of-memory) is attributed to that case and the run resumes after it.
V:  Codec_Trace: no panic, no process death, alloc <= ALLOC_K + ALLOC_C * len(input).  (Whether the verdict is the specified one is
    property C13's business, not this statement's; DESIGN.md listed it here, the statement does not.)"""
import json
import os
import sys
sys.path.insert(0, os.path.dirname(os.path.abspath(__file__)))
import vf
import codec_common as cc

CLASSES = ["valid", "att_len", "att_len2", "frame_len", "frame_tag", "trunc_at", "trunc_in", "len_pm", "len_set", "flip", "nat_cut"]
# Gross bound (the statement asks for "a constant multiple of the input length"): decoding into Go structs expands a
# one-octet item to at most a few hundred bytes of headers (e.g. an empty report list entry), binary.Read adds per-field scratch.
ALLOC_K = 1 << 20
ALLOC_C = 4096
TOP = ["Block", "Header", "WorkPackage", "WorkReport", "StateKeyVals", "FuzzMessage", "FuzzPeerInfo", "FuzzSetState", "Extrinsic",
       "GuaranteesExtrinsic", "AssurancesExtrinsic", "DisputesExtrinsic", "PreimagesExtrinsic", "TicketsExtrinsic", "WorkPackageBundle",
       "ServiceAccount", "Storage", "LookupMetaMapEntry", "PreimagesMapEntry", "AlwaysAccumulateMap", "ServicesStatistics", "MetaCode"]


def run(ctx):
    ctx.level = "exploration"
    ctx.assumptions += cc.ASSUMPTIONS
    ctx.assumptions += ["exploration level: inputs are model-derived (every length prefix of bounded generator values takes attacker-chosen "
                        "values); no coverage-guided fuzzing",
                        "allocation bound checked: TotalAlloc delta <= %d + %d * len(input) bytes" % (ALLOC_K, ALLOC_C)]
    binp = cc.build(ctx)
    k, reg = cc.consts(ctx, binp)
    names = cc.schema_types(ctx, k)
    if ctx.quick:
        names = [n for n in names if n in TOP]
    if ctx.replay:
        lines = vf.read_lines(ctx.replay)
        casep = ctx.tmp + "/cases.ndjson"
        with open(casep, "w") as f:
            for ln in lines:
                r = json.loads(ln)
                f.write(json.dumps({"ty": r["ty"], "cls": r.get("cls", ""), "in": r["in"]}) + "\n")
    else:
        casep = cc.gen_cases(ctx, binp, k, names, CLASSES, tag="c14", kk=3 if ctx.quick else 10, big_limit=700 if ctx.quick else 4000, med_limit=200 if ctx.quick else 1200,
                                 sample_n=0 if ctx.quick else 12)
    tracep = ctx.tmp + "/trace.ndjson"
    lines = cc.run_dec(ctx, binp, casep, tracep)
    cc.account(ctx, lines, "inputs = encodings of generator values with length prefixes replaced by attacker-chosen values, frame length edits, "
               "truncations; non-trivial = distinct inputs in which at least one length prefix is inconsistent with the bytes that follow "
               "(classes att_len, att_len2, frame_len, len_pm, len_set, nat_cut, trunc_*)", lambda r: r["cls"] in ("att_len", "att_len2", "frame_len", "len_pm", "len_set", "nat_cut", "trunc_at", "trunc_in"))
    mx = 0
    for ln in lines:
        r = json.loads(ln)
        if "alloc" in r:
            a = sum(b << (8 * i) for i, b in enumerate(r["alloc"]))
            mx = max(mx, a)
    ctx.cov["actions"]["max_alloc_bytes"] = mx
    vf.validate_trace(ctx, "Codec_Trace", cc.shard_by_size(lines), constants=cc.trace_constants(k, True, ALLOC_K, ALLOC_C, check_verdict=False), timeout=1500,
                      heap="3g", par=6 if ctx.quick else 12, what="decoder unsafe on untrusted bytes")

"""C25 — recent-history transition (Gray Paper 7.5-7.8).
MC: RecentHistory.tla (block histories longer than H; HistBound, BeltBits, Shape, StepShape) with MMR / MerkleTree terms.
G: RecentHistory_Gen expands a TLC-enumerated family (history lengths 0..8 x restored belts x every order of the reported
   packages x output lists) and seeded random H+12-block histories with the terms of the accumulation-output root, the belt
   and the commitment.  X: harness/rhistory (function by function, and STFBetaH2BetaHDagger/STFBetaHDagger2BetaHPrime on
   the singleton).  V: RecentHistory_Trace (stateful)."""
import json
import vf

FILES = {
    "internal/verifdrv/vfd/vfd.go": "vfd/vfd.go",
    "internal/verifdrv/vfd/term.go": "vfd/term.go",
    "internal/recent_history/zz_verif_rhistory_test.go": "rhistory/rhistory_test.go",
}


def rnd_hash(rng, kind=None):
    k = rng.n(10) if kind is None else kind
    if k == 0:
        return [0] * 32
    if k == 1:                       # shares a 31-byte prefix with its neighbours
        return [7] * 31 + [rng.n(4)]
    if k == 2:
        return [rng.n(3)] + [0] * 31
    return rng.bytes(32)


def history(rng, nblocks):
    ln = rng.pick([0, 0, 1, 3, 7, 8, 8])
    hist = []
    for i in range(ln):
        ps = [{"hash": rnd_hash(rng, 5), "exports": rnd_hash(rng)} for _ in range(rng.pick([0, 1, 2]))]
        ps.sort(key=lambda p: bytes(p["hash"]))
        hist.append({"h": rnd_hash(rng, 5), "s": [0] * 32 if i == ln - 1 else rnd_hash(rng, 5), "b": rnd_hash(rng, 5), "p": ps})
    blocks = []
    for _ in range(nblocks):
        gs, seen = [], set()
        for _ in range(rng.pick([0, 0, 1, 2, 2, 3, 5])):
            h = rnd_hash(rng)
            if bytes(h) in seen:
                continue
            seen.add(bytes(h))
            gs.append({"hash": h, "exports": rnd_hash(rng)})
        svcs = sorted({rng.pick([rng.n(4), rng.n(300), rng.n(70000), (1 << 31) + rng.n(5), (1 << 32) - 1 - rng.n(3)]) for _ in range(rng.pick([0, 0, 1, 2, 3, 4, 6]))})
        outs = [{"s": [s & 255, (s >> 8) & 255, (s >> 16) & 255, (s >> 24) & 255], "h": rnd_hash(rng)} for s in svcs]
        blocks.append({"hh": rnd_hash(rng, 5), "proot": rnd_hash(rng, rng.pick([0, 5, 5, 5, 5])), "gs": gs, "outs": outs})
    return {"init": {"hist": hist, "belt_n": rng.pick([0, 0, 1, 2, 5, 6, 7, 12, 31])}, "blocks": blocks}


def run(ctx):
    ctx.assumptions += ["Keccak-256 / BLAKE2b-256 trusted; the structure of M_B, A and M_R comes from spec/crypto/MerkleTree.tla and MMR.tla",
                        "accumulation outputs are supplied in ascending service order and reported package hashes are distinct within a block",
                        "the header hash on the STF path is BLAKE2b(E(header)) computed by the driver with the repository's encoder (codec: C11)",
                        "in-place modification of the PRIOR history is recorded (cov.prior_mutated) but is not a C25 violation (DESIGN 7: C26)",
                        "sibling probes (same prior objects used again for another block, then for the first block again) carry the SAME parent state root, for which the tree's in-place dagger write is idempotent"]
    import concurrent.futures as cf
    inp = ctx.tmp + "/rnd.ndjson"
    if not ctx.replay:
        rng = vf.Rng(ctx.seed)
        with open(inp, "w") as f:
            for _ in range(8 if ctx.quick else 150):
                f.write(json.dumps(history(rng, 20)) + "\n")
    mcq = {"H": "2", "MaxBlocks": "4"}
    mct = {"H": "3", "MaxBlocks": "6"}
    with cf.ThreadPoolExecutor(3) as ex:
        f1 = ex.submit(vf.mc, ctx, "MC_RecentHistory", vf.cfg_text(constants=mcq if ctx.quick else mct, invariants=["HistBound", "BeltBits", "Shape"], properties=["StepShape"],
                                                                  raw="CONSTANT Roots <- R2\nCONSTANT Pkgs <- %s\nCONSTANT Outs <- Ou3" % ("Pk3" if ctx.quick else "Pk4")),
                       workers=2 if ctx.quick else 8, timeout=1500, heap="4g" if ctx.quick else "8g")
        fg = None if ctx.replay else ex.submit(vf.gen_cases, ctx, "RecentHistory_Gen", {"Tier": '"%s"' % ctx.tier, "Seed": str(ctx.seed % 1000), "InFile": '"%s"' % inp}, timeout=1500, heap="8g")
        binp = vf.build_driver(ctx, "rhistory", "./internal/recent_history", FILES)
        f1.result()
        casep = fg.result() if fg else None
    if ctx.replay:
        raise vf.Infra("C25 replays are regenerated from the specification: run the tier again with the same VERIF_SEED (cases are deterministic)")
    tracep = ctx.tmp + "/trace.ndjson"
    vf.run_driver(ctx, binp, "TestRun", env={"VF_CASES": casep, "VF_OUT": tracep}, timeout=1500)
    lines = vf.read_lines(tracep)
    target = max(400, len(lines) // (6 if ctx.quick else 14))
    shards, cur = [], []
    for ln in lines:
        if '"ev":"Reset"' in ln and len(cur) > target:
            shards.append(cur); cur = []
        cur.append(ln)
    if cur:
        shards.append(cur)
    blocks = [l for l in lines if '"ev":"Block"' in l]
    mut = sum(1 for l in blocks if '"prior_mut":1' in l)
    ctx.cov["evaluations"] = len(blocks)
    ctx.cov["distinct_nontrivial"] = sum(1 for l in blocks if '"gs":[]' not in l or '"outs":[]' not in l)
    ctx.cov["histories"] = sum(1 for l in lines if '"ev":"Reset"' in l)
    ctx.cov["prior_mutated"] = mut
    sib = [l for l in lines if '"ev":"Sibling"' in l]
    ctx.cov["sibling_transitions"] = len(sib)
    ctx.cov["sibling_from_full_window"] = sum(1 for l in sib if len(json.loads(l)["prior"]) == 8)
    ctx.cov["earlier_result_state_root_rewritten"] = sum(1 for l in lines if '"old_changed":0' not in l and '"old_changed"' in l)
    ctx.cov["rule"] = ("behaviours = TLC-enumerated two-block scripts (history length x belt x package order x outputs), a 20-block run from genesis and seeded "
                       "20-block histories, each on the function-level path, the singleton STF path and the test-vector STF variant; evaluations = block events; non-trivial = blocks with a guarantee or an output")
    ctx.cov["samples"] = [json.loads(x) for x in lines[:2]]
    if mut:
        vf.log("  info: %d block events modified the prior history in place (reported under C26, not a C25 violation)" % mut)
    vf.validate_trace(ctx, "RecentHistory_Trace", shards, stateful=True, what="recent history deviates from RecentHistory", timeout=1500, par=6 if ctx.quick else 14)

"""C05 — guest memory protection.
MC: MC_PVMMem (every load/store opcode x addresses around the edges of a window of read-only, writable,
    absent pages and the zone below 2^16; sbrk scripts around page boundaries and the heap limit).
G:  PVM_MemGen writes the same partition as driver cases; a seeded share of them gets page 19 present but
    inaccessible (as after an inner `pages` call).  T: seeded random programs biased to loads/stores and sbrk.
X:  harness/pvm.  V: PVM_Trace (Mode both: the block engine AND the single-step engine against the specification): exit kind,
    fault address range, registers and memory after every run."""
import importlib.util, json, os, sys
sys.path.insert(0, os.path.dirname(os.path.abspath(__file__)))
import vf
import pvmgen
spec = importlib.util.spec_from_file_location("c01mod", os.path.join(os.path.dirname(os.path.abspath(__file__)), "c01.py"))
c01 = importlib.util.module_from_spec(spec); spec.loader.exec_module(c01)

INVS = ["InvPermission", "InvLowPanics", "InvFailUnchanged", "InvStoreExact", "InvLoadExact", "InvHeapBound", "InvOldPages", "InvFreshPages"]
MEMOPS = sorted(pvmgen.LOADSTORE) + [101, 101, 101, 51, 149, 100]


def run(ctx):
    q = ctx.quick
    ctx.assumptions += ["pages below 2^16 are never mapped; 'inaccessible' covers both absent pages and present pages with access None",
                        "sbrk follows the convention documented in spec/pvm/PVM.tla (P-sbrk)"]
    vf.mc(ctx, "MC_PVMMem", vf.cfg_text(constants={"Tier": '"%s"' % ctx.tier}, invariants=INVS), workers=8, timeout=3000, heap="8g", coverage=not q)
    if ctx.replay:
        cases = c01.replay_cases(ctx.replay)
    else:
        casep = vf.gen_cases(ctx, "PVM_MemGen", {"Tier": '"%s"' % ctx.tier}, timeout=1500, heap="8g")
        cases = [json.loads(l) for l in vf.read_lines(casep)]
        rng = vf.Rng(ctx.seed + 5)
        cap = 0
        if cap and len(cases) > cap:
            cases = [c for c in cases if rng.n(len(cases)) < cap]
        for i, c in enumerate(cases):
            c["id"] = "%s%d" % (c["id"], i)
            if rng.n(4) == 0:      # page 19 present but inaccessible
                c["acc"] = [[p, ("N" if p == 19 else a)] for p, a in c["acc"]]
                c["tag"] += "+n19"
            c["fx"] = []
        # seeded random programs biased to memory instructions and sbrk
        for i in range(300 if q else 4000):
            prog, starts = pvmgen.random_program(rng, clean=rng.n(3) != 0, ops=MEMOPS)
            st = pvmgen.base_state(rng, gas=rng.pick([3, 8, 13, 30]))
            if rng.n(4) == 0:
                st["acc"] = [[p, ("N" if p == 19 else a)] for p, a in st["acc"]]
            st.update({"prog": prog, "id": "m%d" % i, "tag": "memrand", "fx": []})
            cases.append(st)
    lines = c01.execute(ctx, cases)
    ctx.cov["evaluations"] = len(lines)
    ctx.cov["distinct_nontrivial"] = vf.distinct_count([l for l in lines if '"k":"seg"' in l],
                                                       key=lambda r: [r["prog"]["code"], r["pre"]["regs"], r["pre"]["acc"], r["pre"]["hl"]])
    ctx.cov["rule"] = ("cases = TLC-enumerated (opcode, address) and sbrk scripts (whole partition in both tiers) + seeded random load/store/sbrk programs; "
                       "non-trivial = distinct (code, registers, access map, heap limit) runs")
    ctx.cov["samples"] = [json.loads(x) for x in lines[:1] + lines[-1:]]
    vf.validate_trace(ctx, "PVM_Trace", lines, constants={"Mode": '"both"'}, shard=220 if q else 1000, par=14, timeout=3000,
                      what="memory protection deviates from the specification")

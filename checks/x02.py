"""X02 — admission of work reports (guarantees extrinsic, Gray Paper 11.4): growth of the specification beyond
the 35 listed properties.
MC: MC_Reports — a chain of blocks over the admission function of Reports.tla (V=6, C=2, small R/E/U): an accepted
    extrinsic engages exactly its cores with the block's slot, never overwrites a pending report, reporters are
    assigned validators with live keys, no package is pending twice or pending and already through the pipeline.
G:  Reports_Gen builds, from the specification and an oracle table for the epoch entropies, one valid baseline
    extrinsic per scenario, every named defect alone on each guarantee, and the seeded combinations of 2-4
    defects drawn here (names only).
X:  harness/reports loads each case the way the repository's reports vector runner does, signs with real Ed25519
    keys and calls stf.UpdateReports().
V:  Reports_Trace: accepted <=> every clause holds (unsure clauses either way), exact rho' and reporters on
    acceptance, no change on refusal, prior rho / kappa' / lambda' never touched."""
import concurrent.futures as cf
import hashlib
import json
import os
import re
import vf

os.environ.setdefault("JAVA_TOOL_OPTIONS", "-XX:ParallelGCThreads=2 -XX:CICompilerCount=2")

FILES = {
    "internal/verifdrv/vfd/vfd.go": "vfd/vfd.go",
    "internal/verifdrv/vfd/term.go": "vfd/term.go",
    "internal/verifdrv/reports/reports_test.go": "reports/reports_test.go",
}
WHAT = "admission of work reports deviates from Gray Paper 11.4 (Reports.tla)"
NETA = 4
V = 6


def oracle_lines():
    """entropies eta_1..eta_NETA with the BLAKE2b-256 outputs ShuffleDefs.HashQueries needs (one block for V <= 8).
    Only the generator reads this (to know who is assigned where); the trace carries the driver's own table."""
    out = []
    for i in range(1, NETA + 1):
        eta = hashlib.sha256(b"x02-eta-%d" % i).digest()
        tab = []
        for k in range((V + 7) // 8):
            q = eta + k.to_bytes(4, "little")
            tab.append([list(q), list(hashlib.blake2b(q, digest_size=32).digest())])
        out.append(json.dumps({"eta": list(eta), "tab": tab}))
    return out


def gen_names():
    src = open(os.path.join(vf.SPEC, "stf", "Reports_Gen.tla")).read()
    m = re.search(r"Defects == \{(.*?)\}", src, re.S)
    names = re.findall(r'"(\w+)"', m.group(1))
    nsc = len(re.findall(r"\[tau \|->", src.split("Scenarios ==")[1].split("Defects ==")[0]))
    if len(names) < 50 or nsc < 4:
        raise vf.Infra("cannot read the defect / scenario lists of Reports_Gen.tla")
    return names, nsc


def combos(ctx, n):
    names, nsc = gen_names()
    rng = vf.Rng(ctx.seed)
    out = []
    for _ in range(n):
        k = rng.pick([2, 2, 2, 3, 3, 4])
        ds = [{"d": rng.pick(names), "g": rng.pick([1, 1, 2])} for _ in range(k)]
        out.append(json.dumps({"sc": 1 + rng.n(nsc), "ds": ds}))
    return out


def mc_jobs(ctx):
    base = {"V": "6", "C": "2", "R": "2", "E": "4", "U_": "3", "Pkgs": "{1,2}", "OffKeys": "{}", "Rich": "FALSE", "NSh": "2"}
    if ctx.quick:
        return [("t4", dict(base, MaxTau="4"), 3)]
    return [("t9", dict(base, MaxTau="9"), 5),
            ("rich-t4", dict(base, MaxTau="4", Rich="TRUE", NSh="3"), 4),
            ("p3-off-t5", dict(base, MaxTau="5", Pkgs="{1,2,3}", OffKeys="{2, 13}"), 4),
            ("r3e6u4-t7", dict(base, R="3", E="6", U_="4", MaxTau="7", NSh="3"), 3)]


def mc_one(ctx, label, consts, workers):
    cfg = vf.cfg_text(constants=consts, invariants=["InvPkgUnique", "InvShape", "InvNoStale"], properties=["NoOverwrite", "SlotsAdvance"])
    res = vf.mc(ctx, "MC_Reports", cfg, workers=workers, timeout=3000, heap="4g", label="MC_Reports/" + label, coverage=False)
    if res.distinct < 50:
        raise vf.Infra("vacuous model check %s: %d states" % (label, res.distinct))


def cases_from_replay(path):
    out = []
    for ln in vf.read_lines(path):
        e = json.loads(ln)
        if "st" in e and "ext" in e:
            st = dict(e["st"])
            hq = [p[0] for p in st.pop("tab", [])]
            out.append(json.dumps({"sc": e.get("sc", 0), "ds": e.get("ds", []), "st": st, "ext": e["ext"], "hq": e.get("hq", hq)}))
    if not out:
        raise vf.Infra("replay file has no case lines")
    return out


def run(ctx):
    ctx.assumptions += [
        "Ed25519 and BLAKE2b primitives trusted (crypto/ed25519 signs, the repository verifies with ed25519consensus; the shuffle's hash outputs come from an oracle table the driver fills with x/crypto/blake2b)",
        "the report hash that is signed is BLAKE2b of the repository's own encoding of the report (the codec is the subject of C11)",
        "hashes, keys and reports are identities (small integers <-> real 32-byte values); protocol constants are the tiny configuration (V=6 C=2 E=12 R=4 L=24 J=8 W_R=48KiB G_A=10^7 U=5)",
        "clauses that may go either way (see Reports.tla): a live but timed-out entry of rho-double-dagger, a lookup-anchor slot in the future, the package of a report that left rho in this very block, 0 or more than I work digests; 11.35 (lookup anchor in the ancestry) only when an ancestry is kept",
        "the state is loaded as the repository's reports vector runner loads it (posterior tau/kappa/lambda/eta/psi_o, rho-double-dagger and beta-dagger intermediate, the rest prior); the error code of a refusal is recorded, not judged",
    ]
    q = ctx.quick
    with cf.ThreadPoolExecutor(6 if q else 16) as ex:
        build_f = ex.submit(vf.build_driver, ctx, "reports", "./internal/verifdrv/reports", FILES)
        mcf = []
        if ctx.replay:
            case_lines = cases_from_replay(ctx.replay)
        else:
            mcf = [ex.submit(mc_one, ctx, label, c, w) for label, c, w in mc_jobs(ctx)]
            orp = ctx.tmp + "/oracle.ndjson"
            open(orp, "w").write("\n".join(oracle_lines()) + "\n")
            cb = combos(ctx, 700 if q else 40000)
            nchunk = 1 if q else 10                        # the generator is single-threaded: cut the combinations
            gens = []
            for i in range(nchunk):
                cop = ctx.tmp + "/combos-%d.ndjson" % i
                open(cop, "w").write("\n".join(cb[i::nchunk]) + "\n")
                gens.append(ex.submit(vf.gen_cases, ctx, "Reports_Gen", {"OracleFile": '"%s"' % orp, "ComboFile": '"%s"' % cop,
                                                                         "WithSingles": "TRUE" if i == 0 else "FALSE"},
                                      "cases-gen.ndjson", 2400, "3g", "", "-%d" % i))
            case_lines = sorted({ln for g in gens for ln in vf.read_lines(g.result())})   # TLC's set order is not an input of the verdict
        casep = ctx.tmp + "/cases.ndjson"
        open(casep, "w").write("\n".join(case_lines) + "\n")
        binp = build_f.result()
        tp = ctx.tmp + "/trace.ndjson"
        vf.run_driver(ctx, binp, "TestVerifReports", env={"VF_CASES": casep, "VF_OUT": tp, "VF_SEED": ctx.seed}, timeout=1500)
        lines = vf.read_lines(tp)
        if len(lines) != len(case_lines):
            raise vf.Infra("driver recorded %d of %d cases" % (len(lines), len(case_lines)))
        acc = sum(1 for ln in lines if '"ok":true' in ln)
        outcomes = {}
        for ln in lines:
            j = ln.find('"err":"')
            k = ln[j + 7:ln.find('"', j + 7)] if j >= 0 else "?"
            k = k[:40] or "accepted"
            outcomes[k] = outcomes.get(k, 0) + 1
        ctx.cov["evaluations"] = len(lines)
        ctx.cov["accepted_blocks"], ctx.cov["refused_blocks"] = acc, len(lines) - acc
        ctx.cov["outcomes"] = outcomes
        ctx.cov["distinct_nontrivial"] = vf.distinct_count([ln for ln in lines if '"ext":[{' in ln], key=lambda e: [e["st"], e["ext"]])
        ctx.cov["rule"] = ("evaluations = blocks run through stf.UpdateReports() with real Ed25519 signatures; distinct_nontrivial = distinct "
                           "(state, extrinsic) pairs with at least one guarantee; cases = per scenario the valid baseline, each named defect "
                           "alone on each guarantee (Reports_Gen) and seeded combinations of 2-4 defects")
        ctx.cov["samples"] = [{k: v for k, v in json.loads(x).items() if k in ("sc", "ds", "ok", "err", "rho_post", "reporters")} for x in lines[:4]]
        par = 4 if q else 12
        vf.validate_trace(ctx, "Reports_Trace", lines, shard=max(150, -(-len(lines) // par)), timeout=3000, heap="3g", par=par, what=WHAT)
        for f in mcf:
            f.result()

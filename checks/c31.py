"""C31 — historical lookup and preimage admission / integration.
MC: Preimages.tla machine (solicit / forget / blocks with preimage extrinsics): Inv96, SlotsSorted, LookupSound,
    BlockStores, AdmitOnly.
G: Preimages_Gen (all availability records of length 0..4 x query times around 0 / 2^8 / 2^16 / 2^31 / 2^32;
   extrinsics x admission states).  X: harness/preimage (HistoricalLookup, host call historical_lookup,
   ValidatePreimageExtrinsics, ProcessPreimageExtrinsics, Provide).  V: Preimages_Trace judges every record."""
import json
import vf

FILES = {
    "internal/verifdrv/vfd/vfd.go": "vfd/vfd.go",
    "internal/verifdrv/vfd/term.go": "vfd/term.go",
    "internal/verifdrv/preimage/preimage_test.go": "preimage/preimage_test.go",
}
MCS = [("1s2b", "S_one", "B_two", {"MaxT": "3", "D": "1", "MaxEps": "2"}, {"MaxT": "5", "D": "1", "MaxEps": "2"}),
       ("2s1b", "S_two", "B_one", {"MaxT": "3", "D": "1", "MaxEps": "2"}, {"MaxT": "5", "D": "1", "MaxEps": "2"}),
       ("empty", "S_one", "B_empty", None, {"MaxT": "4", "D": "2", "MaxEps": "2"})]


def run(ctx):
    ctx.assumptions += ["BLAKE2b-256 trusted (the driver keys the service state with x/crypto's BLAKE2b of each blob)",
                        "raw lookup key-values are placed under merklization.EncodeDelta4Key (the state-key construction itself is C15/C17)",
                        "service states obey Gray Paper 9.6 and 'an empty lookup entry has no stored preimage' (reachable states: checked in MC as Inv96)",
                        "host call: hash readable, output window writable, gas sufficient (the register/memory/error frame is C07)"]
    import concurrent.futures as cf

    def mc_one(lab, S, B, q, th):
        c = q if ctx.quick else th
        if c is None:
            return
        vf.mc(ctx, "MC_Preimages", vf.cfg_text(constants=c, invariants=["Inv96", "SlotsSorted", "LookupSound"], properties=["BlockStores", "AdmitOnly"],
                                              view="View", raw="CONSTANT Services <- %s\nCONSTANT Blobs <- %s" % (S, B)),
              workers=2 if ctx.quick else 5, timeout=1500, label="MC_Preimages/" + lab)
    with cf.ThreadPoolExecutor(4) as ex:
        fs = [ex.submit(mc_one, *a) for a in MCS]
        fg = None if ctx.replay else ex.submit(vf.gen_cases, ctx, "Preimages_Gen", {"Tier": '"%s"' % ctx.tier, "Seed": str(ctx.seed % 1000)}, timeout=1500, heap="6g")
        binp = vf.build_driver(ctx, "preimage", "./internal/verifdrv/preimage", FILES)
        for f in fs:
            f.result()
        casep = fg.result() if fg else None
    if ctx.replay:
        casep = ctx.tmp + "/cases.ndjson"
        with open(casep, "w") as f:
            for ln in vf.read_lines(ctx.replay):
                e = json.loads(ln)
                e.pop("res", None)
                f.write(json.dumps(e) + "\n")
    tracep = ctx.tmp + "/trace.ndjson"
    vf.run_driver(ctx, binp, "TestRun", env={"VF_CASES": casep, "VF_OUT": tracep}, timeout=1500)
    lines = vf.read_lines(tracep)
    kinds = {}
    for l in lines:
        k = l[l.index('"ev":"') + 6:].split('"')[0]
        kinds[k] = kinds.get(k, 0) + 1
    ctx.cov["evaluations"] = sum(l.count('"panic"') for l in lines)
    ctx.cov["by_kind"] = kinds
    ctx.cov["distinct_nontrivial"] = sum(1 for l in lines if '"ev":"Lookup"' in l and '"slots":[[' in l) + sum(1 for l in lines if '"ev":"Lookup"' not in l and '"eps":[]' not in l)
    ctx.cov["rule"] = ("cases = TLC-enumerated; evaluations = recorded results (Lookup records carry two: function and host call); "
                       "non-trivial = lookups with a non-empty availability record + admission/integration cases with a non-empty extrinsic")
    ctx.cov["samples"] = [json.loads(x) for x in lines[:1] + lines[len(lines) // 2:len(lines) // 2 + 1] + lines[-1:]]
    vf.validate_trace(ctx, "Preimages_Trace", lines, shard=2500 if ctx.quick else 4000, what="deviates from Preimages", timeout=1500, par=6 if ctx.quick else 14)

"""C09 — storage footprint and threshold accounting.
MC: MC_Footprint — every behaviour of <= MaxSteps calls over an 18-letter alphabet (writes of 3 keys + the empty key with
    value sizes 0/1/2/4/9/16, solicits / forgets of entries with 0..3 slots, a creation) from a caller with 60 tokens of
    headroom: Coherent (recorded items/octets = derived), Covered, Canonical, FullNoChange (action property).
G:  HostCall_Gen "thr" (the threshold over items {0,1,2, 2^32/10 -1/0/+1, 2^31, 2^32-1, 2^33/10..} x octets around 2^32, 2^63,
    2^64 - 101 - 10 items, 2^64 - 1 x gratis around the raw threshold; derived footprints of explicit accounts), "footmc"
    (words over the model's alphabet) and "foot" (behaviours of the specification with value sizes / preimage lengths around
    the caller's remaining headroom, including preimage lengths near 2^32).
X:  harness/hostcall: CalcThresholdBalance, GetServiceAccountDerivatives, and the behaviours on write / solicit / forget / new / info.
V:  HostCall_Trace mode c09: exact threshold, coherence after every step, FULL leaves the context unchanged, exact outcomes
    (info carries the reported threshold)."""
import concurrent.futures as cf
import json
import os
import sys
sys.path.insert(0, os.path.dirname(os.path.abspath(__file__)))
import vf
import hostcall_common as hc


def run(ctx):
    ctx.assumptions += ["a threshold whose exact value needs more than 64 bits is answered 2^64-1 (clause D-sat of ServiceAccount.tla)",
                        "behaviours start from coherent accounts; raw (fuzzer pool) storage key-values are not pending",
                        "solicit / forget with a length argument >= 2^32 are not judged (clause P-wide)"]
    quick = ctx.quick
    with cf.ThreadPoolExecutor(8) as ex:
        fb = ex.submit(hc.build, ctx)
        c = dict(hc.BUILD)
        c.update({"MaxSteps": "2" if quick else "3"})
        fmc = ex.submit(vf.mc, ctx, "MC_Footprint", vf.cfg_text(constants=c, invariants=["Coherent", "Covered", "Canonical"], properties=["FullNoChange"]),
                        workers=3 if quick else 10, timeout=3000, heap="6g")
        if ctx.replay:
            rc, rt = hc.replay_cases(ctx)
            casefiles, thrfile = ([rc] if rc else []), rt
        else:
            fthr = ex.submit(hc.gen, ctx, "thr", 1, 1, ctx.seed)
            f1 = [ex.submit(hc.gen, ctx, "footmc", 0, 2, ctx.seed)] if quick else hc.gen_parts(ex, ctx, "footmc", 2400, 5, 4)
            f2 = hc.gen_parts(ex, ctx, "foot", 24 if quick else 800, 12 if quick else 20, 1 if quick else 6)
            casefiles = [f.result() for f in f1 + f2]
            thrfile = fthr.result()
        binp = fb.result()
        lines = hc.run_cases(ctx, binp, casefiles) if casefiles else []
        tl = hc.run_cases(ctx, binp, [thrfile], test="TestThreshold", name="thr") if thrfile else []
        if not ctx.replay and quick:        # quick: a seeded third of the threshold grid (every case in the thorough tier)
            tl = [x for i, x in enumerate(tl) if (i + ctx.seed) % 3 == 0 or '"ev":"Derive"' in x]
        fmc.result()
    if not lines and not tl:
        raise vf.Infra("nothing to judge")
    def nontrivial(e):
        if e["ev"] != "Call":
            return True
        return e["post"]["exit"] == "cont" and e["post"]["ctx"] != e["pre"]["ctx"]
    hc.summarize(ctx, lines + tl, nontrivial, "evaluations = behaviour steps (real host calls) + threshold / derivation function calls; non-trivial = the step changed the account, or a function case")
    hc.judge(ctx, lines + tl, "c09", "footprint incoherent / FULL changed state / wrong threshold", 330 if quick else 2500, 4 if quick else 14)
    if getattr(ctx, "selftest", False) or not quick:
        def corrupt(e):
            if e["ev"] == "Thr":
                e["res"][0] ^= 1
                return True
            return False
        hc.selftest(ctx, tl, "c09", corrupt, "threshold off by one")

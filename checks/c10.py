"""C10 — accumulation checkpoint and rollback (I, C, Psi_A, checkpoint, ResultContext.DeepCopy).
MC: MC_AccumulateInv — every sequence of <= MaxCalls calls over {write x keys x {value, delete}, transfer, new,
    yield x 2, provide x 2, checkpoint} ended anywhere by halt-0/32/5, trap or out-of-gas: YFrozen, NoLeak,
    ResultIsSnapshot.
G:  AccumulateInv_Gen — the same behaviours as cases (all short sequences + seeded long ones), every ending incl.
    out-of-gas after exactly k calls with the smallest / largest limit.
X:  harness/accinv — each behaviour is assembled into a real accumulate program, installed as the service's code and
    run with Psi_A on a fresh state; so is every halting prefix (the snapshots).
V:  AccumulateInv_Trace — halting prefixes against the model (latest values), every ending against the snapshot the
    statement names (exact equality of the projected Psi_A_ReturnType)."""
import json, os, sys
sys.path.insert(0, os.path.dirname(os.path.abspath(__file__)))
import vf

FILES = {
    "internal/verifdrv/vfd/vfd.go": "vfd/vfd.go",
    "PVM/zz_verif_accinv_test.go": "accinv/zz_verif_accinv_test.go",
}
DEV_WORKERS = int(os.environ.get("VF_DEV_WORKERS", "0"))      # development on a shared machine only
DEV_PAR = int(os.environ.get("VF_DEV_PAR", "0"))


def model_check(ctx):
    return vf.mc(ctx, "MC_AccumulateInv",
                 vf.cfg_text(constants={"MaxCalls": "4" if ctx.quick else "5", "Tier": '"%s"' % ctx.tier},
                             invariants=["ResultIsSnapshot", "NoLeak", "YIsCheckpointed"], properties=["YFrozen"]),
                 workers=DEV_WORKERS or (4 if ctx.quick else 10), timeout=3000, heap="8g")


def gen_cases(ctx):
    casep = vf.gen_cases(ctx, "AccumulateInv_Gen", {"Tier": '"%s"' % ctx.tier, "Seed": str(ctx.seed % 1000)}, timeout=1500, heap="8g")
    cases = []
    for ln in vf.read_lines(casep):
        r = json.loads(ln)
        r["id"] = "g%d" % len(cases)
        cases.append(r)
    return cases


def replay_cases(path):
    return [{k: r[k] for k in ("id", "tag", "calls") if k in r} | {"ends": [{"kind": e["kind"], "k": e["k"], "d": e["d"]} for e in r["ends"]]}
            for r in map(json.loads, vf.read_lines(path))]


def selftest(ctx, lines):
    """the binding is live: a record in which one failing ending reports another state must be rejected"""
    bad = None
    for ln in lines:
        r = json.loads(ln)
        if len(r["states"]) >= 2:
            for e in r["ends"]:
                if e["kind"] == "trap":
                    e["res"]["s"] = (e["res"]["s"] + 1) % len(r["states"])
            bad = json.dumps(r)
            break
    if bad is None:
        raise vf.Infra("selftest: no record to corrupt")
    sub = vf.Ctx(ctx.pid, ctx.tier, ctx.seed)
    save = vf.VERIF
    vf.VERIF = sub.tmp                            # the corrupted line's "replay" stays in scratch space
    try:
        n = vf.validate_trace(sub, "AccumulateInv_Trace", [bad], timeout=900, par=1)
    finally:
        vf.VERIF = save
        sub.cleanup()
    if n == 0:
        raise vf.Infra("selftest: corrupted record accepted")
    vf.log("  selftest: corrupted record rejected as expected")


def execute_and_judge(ctx, cases):
    binp = vf.build_driver(ctx, "accinv", "./PVM", FILES)
    casep = ctx.tmp + "/cases.ndjson"
    with open(casep, "w") as f:
        for c in cases:
            f.write(json.dumps(c) + "\n")
    tracep = ctx.tmp + "/trace.ndjson"
    vf.run_driver(ctx, binp, "TestAccInv", env={"VF_CASES": casep, "VF_OUT": tracep}, timeout=2400)
    lines = vf.read_lines(tracep)
    runs, kinds, nontrivial = 0, {}, 0
    for ln in lines:
        r = json.loads(ln)
        runs += len(r["snaps"]) + len(r["ends"])
        for e in r["ends"]:
            kinds[e["kind"]] = kinds.get(e["kind"], 0) + 1
        # a behaviour is non-trivial when the rollback matters: some call after a checkpoint, or before any, changed the state
        if len(set(s["s"] for s in r["snaps"])) > 1:
            nontrivial += 1
    ctx.cov["evaluations"] = runs
    ctx.cov["distinct_nontrivial"] = nontrivial
    ctx.cov["behaviours"] = len(lines)
    ctx.cov["actions"].update({"end:" + k: v for k, v in kinds.items()})
    ctx.cov["rule"] = ("cases = TLC-enumerated call sequences (quick: all of length <= 3 over 11 calls + a seeded sample of length 5; thorough: all of "
                       "length <= 4 over 13 calls + a seeded sample of length 5) x every ending (halt-0/32/5, trap, spin, out-of-gas after k = 0..n calls at "
                       "the smallest and largest limit); evaluations = Psi_A executions (halting prefixes + endings); distinct_nontrivial = call "
                       "sequences whose halting prefixes return at least two different states")
    ctx.cov["samples"] = [{k: v for k, v in json.loads(x).items() if k != "states"} for x in lines[1:2] + lines[-1:]]
    if not ctx.replay:
        for need in ("halt0", "halt32", "halt5", "halt33", "halt200", "trap", "spin", "oog"):
            if kinds.get(need, 0) == 0:
                raise vf.Infra("no %s ending was executed (vacuous run)" % need)
    vf.validate_trace(ctx, "AccumulateInv_Trace", lines, shard=400 if ctx.quick else 2500, par=DEV_PAR or 14, timeout=3000, heap="4g",
                      what="accumulate invocation result is not the context the statement names")
    if getattr(ctx, "selftest", False) or (not ctx.quick and not ctx.replay):
        selftest(ctx, lines)


def run(ctx):
    ctx.assumptions += [
        "Gray Paper 0.7.x B.7-B.13 as transcribed in spec/host/AccumulateInv.tla is the oracle; 'captured at the checkpoint' is observed as what Psi_A returns when the same program halts right there",
        "host calls are used with arguments that succeed (their own correctness: C08/C09); gas model 1 per instruction + 10 per host call decides how many calls an out-of-gas run executed",
        "one service (42) with a raw storage key-value, a dictionary entry and solicited preimages, one transfer receiver (43), one incoming deferred transfer of 777"]
    if ctx.replay:
        execute_and_judge(ctx, replay_cases(ctx.replay))
        return
    import concurrent.futures as cf
    with cf.ThreadPoolExecutor(1) as ex:
        fm = ex.submit(model_check, ctx)           # the model check runs beside the G -> X -> V pipeline
        try:
            execute_and_judge(ctx, gen_cases(ctx))
        finally:
            fm.result()

"""C18 — binary Merkle commitments match Gray Paper E.1.
MC: MC_MerkleTree on terms (trace folds to the root, page + justification rebuild M, single-element sensitivity).
G: MerkleTree_Gen (expected terms of N, Mb, M, C, T, Jx, Lx).  X: harness/merkle.  V: MerkleTree_Trace."""
import json
import vf

FILES = {
    "internal/verifdrv/vfd/vfd.go": "vfd/vfd.go",
    "internal/verifdrv/vfd/term.go": "vfd/term.go",
    "internal/verifdrv/merkle/merkle_test.go": "merkle/merkle_test.go",
    "internal/networking/handler/ce/zz_verif_export.go": "shims/ce_export.go",
}


def run(ctx):
    ctx.assumptions += ["BLAKE2b-256 / Keccak-256 primitives trusted; tree structure comes from spec/crypto/MerkleTree.tla",
                        "a nil blob and an empty blob are the same (empty) element of the sequence"]
    vf.mc(ctx, "MC_MerkleTree", vf.cfg_text(constants={"MaxLen": "24" if ctx.quick else "70"},
                                            invariants=["InvTrace", "InvPage", "InvSensitive", "InvJLen"]), workers=8, timeout=1700)
    binp = vf.build_driver(ctx, "merkle", "./internal/verifdrv/merkle", FILES)
    if ctx.replay:
        raise vf.Infra("C18 cases are deterministic: run the tier again (replay files carry kind/n/idx/x/pattern of the failing cases)")
    casep = vf.gen_cases(ctx, "MerkleTree_Gen", {"Tier": '"%s"' % ctx.tier}, timeout=1700, heap="12g")
    tracep = ctx.tmp + "/trace.ndjson"
    vf.run_driver(ctx, binp, "TestRun", env={"VF_CASES": casep, "VF_OUT": tracep})
    lines = vf.read_lines(tracep)
    ctx.cov["evaluations"] = len(lines)
    ctx.cov["distinct_nontrivial"] = vf.distinct_count(lines, key=lambda r: [r["kind"], r["n"], r["pat"], r["h"], r["idx"], r["x"]])
    ctx.cov["rule"] = "cases = (length, element pattern incl. nil/empty, hash) for the roots, (length, index) for traces, (length, page size 2^x, page) for justifications; all lengths 0..70 and all indices in the thorough tier"
    ctx.cov["samples"] = [{k: v for k, v in json.loads(l).items() if k != "cmp"} for l in lines[:3]]
    vf.validate_trace(ctx, "MerkleTree_Trace", lines, shard=3000, what="Merkle function differs from Gray Paper E.1")

"""C19 — Merkle mountain range append and commitment.
MC: MMR.tla (fresh and restored starts, up to MaxCount appends): BitInv, MergeInv, HandedStable.
G: MMR_Gen behaviours with expected peak / super-peak terms.  X: harness/mmr (mmr.MMR and AppendAndCommitMmr).
V: MMR_Trace (terms evaluated with real Keccak must equal what the code returned; bit/presence relation; old lists unchanged)."""
import json
import vf

FILES = {
    "internal/verifdrv/vfd/vfd.go": "vfd/vfd.go",
    "internal/verifdrv/vfd/term.go": "vfd/term.go",
    "internal/verifdrv/mmr/mmr_test.go": "mmr/mmr_test.go",
}


def run(ctx):
    ctx.assumptions += ["Keccak-256 primitive trusted; structure of peaks and super-peak comes from spec/crypto/MMR.tla",
                        "the appended item is passed by pointer (types.MmrPeak) and ownership passes to the MMR: the driver does not touch it afterwards"]
    vf.mc(ctx, "MC_MMR", vf.cfg_text(constants={"MaxCount": "40" if ctx.quick else "72"}, invariants=["BitInv", "MergeInv"],
                                     properties=["HandedStable"]), workers=4, timeout=900, coverage=not ctx.quick)
    binp = vf.build_driver(ctx, "mmr", "./internal/verifdrv/mmr", FILES)
    if ctx.replay:
        raise vf.Infra("C19 replays are regenerated from the specification: run the tier again (cases are deterministic)")
    casep = vf.gen_cases(ctx, "MMR_Gen", {"Tier": '"%s"' % ctx.tier}, timeout=1500, heap="8g")
    tracep = ctx.tmp + "/trace.ndjson"
    vf.run_driver(ctx, binp, "TestRun", env={"VF_CASES": casep, "VF_OUT": tracep})
    lines = vf.read_lines(tracep)
    shards, cur = [], []
    for ln in lines:
        if ln.startswith('{"api"') or '"ev":"Reset"' in ln[:40]:
            if len(cur) > 150:
                shards.append(cur); cur = []
        cur.append(ln)
    if cur:
        shards.append(cur)
    ctx.cov["evaluations"] = len(lines)
    ctx.cov["distinct_nontrivial"] = sum(1 for l in lines if '"ev":"Append"' in l)
    ctx.cov["rule"] = "behaviours = fresh MMR with 80 (quick) / 300 (thorough) appends, fresh MMRs whose items at chosen positions are the all-zero hash, and restored peak lists (with empty slots, incl. 255 and 256 items) + appends, on both APIs; non-trivial = append events"
    ctx.cov["samples"] = [json.loads(l) for l in lines[:4]]
    vf.validate_trace(ctx, "MMR_Trace", shards, stateful=True, what="MMR deviates from the Gray Paper append/super-peak", timeout=1500)

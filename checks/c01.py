"""C01 — PVM execution matches the Gray Paper machine (spec/pvm/PVM.tla).
G/T: decode partition enumerated by TLC (PVM_Gen) + seeded random programs (checks/pvmgen.py).
X: harness/pvm (block engine through Host.HostCall with stub host functions).  V: PVM_Trace, Mode c01."""
import json, os, sys
sys.path.insert(0, os.path.dirname(os.path.abspath(__file__)))
import vf
import pvmgen

FILES = {
    "internal/verifdrv/vfd/vfd.go": "vfd/vfd.go",
    "PVM/zz_verif_pvm_test.go": "pvm/zz_verif_pvm_test.go",
}


def make_cases(ctx, n_random):
    rng = vf.Rng(ctx.seed)
    cases = pvmgen.gen_random_cases(rng, n_random)
    return cases


def run(ctx, mode="c01"):
    binp = vf.build_driver(ctx, "pvm", "./PVM", FILES)
    casep = ctx.tmp + "/cases.ndjson"
    if ctx.replay:
        lines = vf.read_lines(ctx.replay)
        cases = []
        for ln in lines:
            r = json.loads(ln)
            c = dict(r["pre"]) if "pre" in r else {}
            c.update({"prog": r["prog"], "id": r.get("id"), "tag": r.get("tag")})
            cases.append(c)
        pvmgen.dump(cases, casep)
    else:
        pvmgen.dump(make_cases(ctx, 400 if ctx.quick else 20000), casep)
    tracep = ctx.tmp + "/trace.ndjson"
    vf.run_driver(ctx, binp, "TestRun", env={"VF_CASES": casep, "VF_OUT": tracep})
    lines = vf.read_lines(tracep)
    ctx.cov["evaluations"] = len(lines)
    ctx.cov["samples"] = [json.loads(x) for x in lines[:2]]
    vf.validate_trace(ctx, "PVM_Trace", lines, constants={"Mode": '"%s"' % mode}, shard=150, par=8,
                      what="PVM deviates from the Gray Paper machine")

"""C01 — PVM execution matches the Gray Paper machine (spec/pvm/PVM.tla).
MC: MC_PVM (one Step of the specified machine over the decode partition, design invariants).
G:  PVM_Gen writes the decode partition (TLC-enumerated); seeded start states are attached here;
T:  seeded random programs (checks/pvmgen.py) with clean and edgy encodings, host-call segments.
X:  harness/pvm (block engine through Host.HostCall with stub host functions, step engine in lock-step).
V:  PVM_Trace, Mode c01: every segment's exit, resume point, gas, registers, memory, access map, heap."""
import json, os, sys
sys.path.insert(0, os.path.dirname(os.path.abspath(__file__)))
import vf
import pvmgen

FILES = {
    "internal/verifdrv/vfd/vfd.go": "vfd/vfd.go",
    "PVM/zz_verif_pvm_test.go": "pvm/zz_verif_pvm_test.go",
}
ALWAYS = [10, 20, 30, 40, 51, 73, 80, 100, 131, 170, 180, 200]   # one opcode of every operand format: always in the quick pick


def pick_ops(ctx, n):
    rng = vf.Rng(ctx.seed * 7919 + 13)
    ops = set(ALWAYS)
    while len(ops) < n:
        ops.add(rng.pick(pvmgen.VALID))
    ops.add(rng.pick([2, 9, 11, 19, 21, 34, 63, 74, 91, 112, 162, 176, 181, 189, 231, 255]))
    return sorted(ops)


def tla_int_set(xs):
    return "{" + ", ".join(str(x) for x in xs) + "}"


def partition_cases(ctx, ops, cap, tag="part"):
    """TLC enumerates the decode partition for `ops` (all opcodes in the thorough tier); a seeded start
    state is attached to each case; at most `cap` cases are kept (seeded sample, every opcode kept)."""
    consts = {"Tier": '"%s"' % ("thorough" if ops is None else "quick"), "OpsPick": tla_int_set(ops or [])}
    casep = vf.gen_cases(ctx, "PVM_Gen", consts, timeout=1500, heap="8g", tag=tag)
    rng = vf.Rng(ctx.seed + 101)
    raw = [json.loads(l) for l in vf.read_lines(casep)]
    total = len(raw)
    if cap and len(raw) > cap:
        keep = []
        for r in raw:
            if r["pc"] == 14 or rng.n(len(raw)) < cap:      # the (small) jump-target partition is always kept whole
                keep.append(r)
        raw = keep
    cases = []
    for i, r in enumerate(raw):
        st = pvmgen.base_state(rng, gas=rng.pick([1, 2, 2, 3]) if r["pc"] != 14 else 6)
        if r["pc"] == 14:
            st["regs"][5] = [0] * 8          # jump partition: r5 = 0 so that r5 + imm selects the jump-table entry
            st["regs"][4] = st["regs"][4]
        st.update({"prog": r["prog"], "pc": r["pc"], "id": "p%d" % i,
                   "tag": "part:%d:%d:%d:%d:%s" % (r["op"], r["b1"], r["b2"], r["l"], r["pos"]), "fx": [pvmgen.le(pvmgen.rand_u64(rng))]})
        if rng.n(3) == 0:
            pvmgen.fix_jump_regs(rng, r["prog"], st)
        cases.append(st)
    return cases, total


def alu_cases(ctx, cap):
    """TLC-enumerated arithmetic boundary partition (PVM_AluPart): every pair of boundary operand values for the
    ALU opcodes (quick: all 72 ALU opcodes on 7 core values; thorough: 23 values, sampled to 8000)."""
    rng = vf.Rng(ctx.seed * 31 + 7)
    consts = {"Tier": '"%s"' % ctx.tier, "OpsPick": "{}"}
    casep = vf.gen_cases(ctx, "PVM_AluGen", consts, timeout=1500, heap="8g", tag="alu")
    raw = [json.loads(l) for l in vf.read_lines(casep)]
    total = len(raw)
    if cap and len(raw) > cap:
        raw = [r for r in raw if rng.n(total) < cap]
    for i, r in enumerate(raw):
        r["id"] = "%s%d" % (r["id"], i)
        r["tag"] = "%s:%d" % (r["tag"], r["prog"]["code"][0])
        r["fx"] = []
    return raw, total


def build_cases(ctx, n_part, n_random, mc=True, alu_cap_quick=1100):
    quick = ctx.quick
    ops = pick_ops(ctx, 14) if quick else None
    mc_ops = pick_ops(ctx, 14)[::3] if quick else None
    if mc:
        invs = ["InvExitKind", "InvGas", "InvInvalidTraps", "InvNoSideEffectOnExit", "InvPanicHaltPc", "InvFaultPc",
                "InvContTarget", "InvWrites"]
        vf.mc(ctx, "MC_PVM", vf.cfg_text(constants={"Tier": '"%s"' % ("quick" if quick else "thorough"),
                                                    "OpsPick": tla_int_set(mc_ops or [])}, invariants=invs),
              workers=8 if quick else 14, timeout=3000, heap="8g")
    cases, total = partition_cases(ctx, ops, n_part)
    ctx.cov["partition_total"] = total
    alu, alu_total = alu_cases(ctx, alu_cap_quick if quick else (0 if os.environ.get("VERIF_FULL") == "1" else 8000))
    ctx.cov["alu_partition_total"] = alu_total
    cases += alu
    rng = vf.Rng(ctx.seed)
    cases += pvmgen.gen_random_cases(rng, n_random)
    # a seeded share of the memory partition (PVM_MemPart; whole in C05): final memory is part of C01's statement
    memp = vf.gen_cases(ctx, "PVM_MemGen", {"Tier": '"%s"' % ctx.tier}, timeout=1500, heap="8g", tag="mem")
    mem = [json.loads(l) for l in vf.read_lines(memp)]
    keep = 300 if quick else 1500
    mem = [c for c in mem if rng.n(len(mem)) < keep]
    for i, c in enumerate(mem):
        c["id"] = "mem%d" % i
        c["fx"] = []
    cases += mem
    return cases


def replay_cases(path):
    cases = []
    for ln in vf.read_lines(path):
        r = json.loads(ln)
        if "pre" not in r:
            c = {"prog": r["prog"], "id": r.get("id"), "tag": r.get("tag"), "pc": 0, "gas": 1,
                 "regs": [[0] * 8] * 13, "acc": [], "data": [], "hp": [0] * 8, "hl": [0] * 8}
        else:
            c = dict(r["pre"])
            c.update({"prog": r["prog"], "id": r.get("id"), "tag": r.get("tag")})
        cases.append(c)
    return cases


def execute(ctx, cases):
    binp = vf.build_driver(ctx, "pvm", "./PVM", FILES)
    casep = ctx.tmp + "/cases.ndjson"
    pvmgen.dump(cases, casep)
    tracep = ctx.tmp + "/trace.ndjson"
    vf.run_driver(ctx, binp, "TestRun", env={"VF_CASES": casep, "VF_OUT": tracep})
    return vf.read_lines(tracep)


def nontrivial(lines):
    """distinct (program, start pc, start gas) among segments that executed at least one instruction"""
    s = set()
    for ln in lines:
        r = json.loads(ln)
        if r.get("k") != "seg":
            continue
        if r["pre"]["gas"] >= 1:
            s.add(json.dumps([r["prog"]["code"], r["prog"]["mask"], r["pre"]["pc"], r["pre"]["gas"], r["pre"]["regs"]]))
    return len(s)


def run(ctx, mode="c01"):
    ctx.assumptions += ["Gray Paper 0.7.2 Appendix A as transcribed in spec/pvm/PVM.tla is the oracle (permissive clauses P-sbrk, P-jumpreg, P-fault listed in its header)",
                        "host environment of the driver: identifiers < 256 leave the machine (scripted effect: omega7, gas-10), others are unknown (WHAT)",
                        "pages below 2^16 are never mapped by the generators; gas values stay below 2^31 (large limits: C04)"]
    if ctx.replay:
        cases = replay_cases(ctx.replay)
    else:
        full = os.environ.get("VERIF_FULL") == "1"
        cases = build_cases(ctx, 3000 if ctx.quick else (0 if full else 25000), 500 if ctx.quick else 3000, alu_cap_quick=0)
    lines = execute(ctx, cases)
    ctx.cov["evaluations"] = len(lines)
    ctx.cov["distinct_nontrivial"] = nontrivial(lines)
    ctx.cov["rule"] = ("cases = TLC-enumerated decode partition (opcode x operand-format fields x skip x position; quick: one opcode per operand format + 3 seed-picked "
                       "opcodes sampled to 3000, thorough: all 151848 sampled to 25000, VERIF_FULL=1: all) with seeded start states + seeded random programs (clean and edgy "
                       "encodings, up to 6 host-call segments); non-trivial = distinct (program, start pc, gas, registers) segments that execute at least one instruction")
    ctx.cov["samples"] = [json.loads(x) for x in lines[:1] + lines[-1:]]
    vf.validate_trace(ctx, "PVM_Trace", lines, constants={"Mode": '"%s"' % mode}, shard=220 if ctx.quick else 900, par=14,
                      timeout=3000, what="PVM deviates from the Gray Paper machine" if mode == "c01" else "the two PVM engines disagree")

#!/usr/bin/env python3
"""Run the repository's pinned baseline (guard tag OFF) and compare with /root/.vp/BASELINE.json:
every stable_pass test must pass.  Exit 0 iff none is missing/failed."""
import json, os, subprocess, sys
sys.path.insert(0, os.path.join(os.path.dirname(os.path.abspath(__file__)), "..", "lib"))
import vf
base = json.load(open("/root/.vp/BASELINE.json"))
want = set(base["stable_pass"])
env = vf.go_env()
r = subprocess.run(["go", "test", "-json", "-vet=off", "-count=1", "-timeout", "25m", "./..."],
                   cwd=vf.REPO, env=env, capture_output=True, text=True)
passed = set()
for ln in r.stdout.splitlines():
    try:
        e = json.loads(ln)
    except Exception:
        continue
    if e.get("Action") == "pass" and e.get("Test"):
        passed.add("%s::%s" % (e["Package"], e["Test"]))
missing = sorted(want - passed)
print("baseline: %d/%d stable tests pass" % (len(want & passed), len(want)))
for m in missing[:50]:
    print("  NOT PASSING:", m)
sys.exit(1 if missing else 0)

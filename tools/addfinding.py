#!/usr/bin/env python3
"""addfinding.py <property> <fixed|open> <slug> <commit-or-'-'> <what...>  -> pending/<property>.findings.json"""
import json, os, sys
V = os.path.dirname(os.path.dirname(os.path.abspath(__file__)))
prop, status, slug, commit = sys.argv[1:5]
what = " ".join(sys.argv[5:])
p = os.path.join(V, "pending", prop + "-coord.findings.json")
j = json.load(open(p)) if os.path.exists(p) else []
j = [e for e in j if e["slug"] != slug]
e = {"property": prop, "status": status, "slug": slug, "what": what}
if commit != "-":
    e["commit"] = commit
j.append(e)
json.dump(j, open(p, "w"), indent=1)
print(len(j), "entries in", p)

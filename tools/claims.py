# executed by mkmanifest.py
claim("C12", MC, "TLA+ NatCodec spec: TLC model check of the design + TLC-enumerated strings/values replayed on all natural codecs + TLC trace validation",
      "TLC checks the specified codec (bijective, minimal, strict) on a bounded value set; TLC enumerates every 1-2 byte string, representative 3..9 byte strings, all 2^k/2^k+-1 values; the Go driver runs the six decoder entry points and four encoders of the live tree on each; TLC judges every recorded result against the spec.",
      "oracle = Gray Paper C.6 as transcribed in spec/codec/NatCodec.tla; strings longer than 2 bytes are covered by representatives and seeded random, not exhaustively (thorough adds all 3-byte strings with a multi-byte prefix)",
      "6/C12")

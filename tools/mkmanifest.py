#!/usr/bin/env python3
"""Regenerate /verif/MANIFEST.json from the table below (one entry per claimed property);
every property not claimed is listed under not_applicable with its reason."""
import json, os
V = os.path.dirname(os.path.dirname(os.path.abspath(__file__)))
props = [json.loads(l) for l in open(os.path.join(V, "properties.jsonl"))]

MC = "model_checking"
EX = "exploration"
# id -> (level, technique, level text, level note)
CLAIMED = {}
def claim(pid, level, technique, text, note, design):
    CLAIMED[pid] = dict(level=level, technique=technique, text=text, note=note, design=design)

NOT_YET = "check not built yet in this round (planned: DESIGN.md section 6); not claimed"
NA = {
 "C30": "the code under the property is a cgo wrapper around a Rust static library whose crate reed-solomon-simd is absent offline, so it cannot be built or run here; GF(2^16) arithmetic is numeric fidelity, outside what a TLA+ model decides (DESIGN.md 7)",
}

exec(open(os.path.join(V, "tools", "claims.py")).read())

checks = []
for p in props:
    pid = p["id"]
    if pid in CLAIMED:
        c = CLAIMED[pid]
        checks.append({
            "property_id": pid,
            "quick_cmd": "./check %s --tier quick" % pid,
            "thorough_cmd": "./check %s --tier thorough" % pid,
            "evidence_file": "/verif/evidence/%s.json" % pid,
            "replay_cmd_template": "./check %s --replay {path}" % pid,
            "engine": "tla-mbv",
            "level_claimed": {"category": c["level"], "text": c["text"], "design_ref": c["design"]},
            "level_note": c["note"],
            "technique": c["technique"],
        })
na = [{"property_id": p["id"], "reason": NA.get(p["id"], NOT_YET)} for p in props if p["id"] not in CLAIMED]
hooks_commits = [l.strip() for l in open(os.path.join(V, "tools", "hook_commits.txt")) if l.strip()] if os.path.exists(os.path.join(V, "tools", "hook_commits.txt")) else []
m = {
 "version": 1,
 "setup_cmd": "./setup.sh",
 "hooks": {"guard": "verif", "enable": "go test -c -tags verif -overlay <generated overlay.json> (drivers and shims are injected by overlay from /verif/harness; only internal/telemetry carries committed vtrace hooks)",
           "baseline_off_cmd": "python3 /verif/tools/baseline.py", "source_commits": hooks_commits, "add_only": True},
 "engines": [{"name": "tla-mbv", "path": "/verif/check", "serves_properties": sorted(CLAIMED),
              "kind_free_text": "explicit TLA+ specifications (spec/), TLC model checking of the design, TLC-generated cases replayed on Go drivers built from /repo's working tree by overlay, TLC trace validation of what the code did"}],
 "checks": checks,
 "not_applicable": na,
 "notes": "Exit 0 held / only listed known findings; 1 VIOLATION; 2 infrastructure error. known_findings.json lists open findings (named trace-spec deviations) and fixed defects.",
}
json.dump(m, open(os.path.join(V, "MANIFEST.json"), "w"), indent=1)
print("claimed:", sorted(CLAIMED), "not claimed:", len(na))

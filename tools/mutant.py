#!/usr/bin/env python3
"""Seeded-change bookkeeping.
  mutant.py confirm <name> <property> <mutdir> <demo-file> <dest-rel-path> <pkg>[,<pkg>..] [--needs "..."]
      In a scratch worktree of /repo HEAD: the package tests that pass without the patch still pass with
      it; the demo passes without the patch and fails with it.  On success stores /verif/seeded/<name>/.
  mutant.py detect <name> [tier]   apply seeded/<name>/patch.diff to /repo, run the property's check, undo.
"""
import json, os, re, shutil, subprocess, sys, tempfile
sys.path.insert(0, os.path.join(os.path.dirname(os.path.abspath(__file__)), "..", "lib"))
import vf

def sh(cmd, cwd=None, env=None, timeout=3000):
    return subprocess.run(cmd, cwd=cwd, env=env, capture_output=True, text=True, errors="replace", timeout=timeout)

def overlay_for(wt, d):
    m = {}
    for k, v in vf.overlay_map({}).items():
        m[k.replace(vf.REPO, wt, 1)] = v
    p = os.path.join(d, "ov.json")
    json.dump({"Replace": m}, open(p, "w"))
    return p

def gotest(wt, ov, pkgs, run=None):
    cmd = ["go", "test", "-json", "-vet=off", "-count=1", "-overlay", ov, "-timeout", "20m"]
    if run:
        cmd += ["-run", run]
    cmd += pkgs
    r = sh(cmd, cwd=wt, env=vf.go_env())
    passed, failed = set(), set()
    for ln in r.stdout.splitlines():
        try:
            e = json.loads(ln)
        except Exception:
            continue
        if e.get("Test"):
            if e.get("Action") == "pass":
                passed.add(e["Package"] + "::" + e["Test"])
            elif e.get("Action") == "fail":
                failed.add(e["Package"] + "::" + e["Test"])
    return passed, failed, r

def confirm(a):
    name, prop, mutdir, demo, dest, pkgs = a[:6]
    needs = a[a.index("--needs") + 1] if "--needs" in a else ""
    pkgs = ["./" + p.strip("./") for p in pkgs.split(",")]
    d = tempfile.mkdtemp(prefix="cm-")
    wt = os.path.join(d, "wt")
    try:
        assert sh(["git", "-C", vf.REPO, "worktree", "add", "--detach", wt, "HEAD"]).returncode == 0
        ov = overlay_for(wt, d)
        patch = os.path.join(mutdir, "patch.diff")
        chk = sh(["git", "-C", wt, "apply", "--check", patch])
        if chk.returncode != 0:
            # the patch was written against an older HEAD (before some fix: commits): 3-way merge it and
            # re-derive the diff against the current HEAD
            m3 = sh(["git", "-C", wt, "apply", "--3way", patch])
            if m3.returncode != 0 or "conflict" in (m3.stdout + m3.stderr).lower():
                print("PATCH DOES NOT APPLY (3-way failed):", chk.stderr, m3.stderr); return 1
            reb = sh(["git", "-C", wt, "diff", "HEAD"]).stdout
            patch = os.path.join(d, "patch.diff")
            open(patch, "w").write(reb)
            sh(["git", "-C", wt, "reset", "--hard", "-q", "HEAD"])
            print("patch rebased onto current HEAD by 3-way merge")
        base_pass, _, _ = gotest(wt, ov, pkgs)
        demo_names = re.findall(r"^func (Test\w+)\(", open(demo).read(), re.M)
        run = "^(" + "|".join(demo_names) + ")$"
        os.makedirs(os.path.dirname(os.path.join(wt, dest)), exist_ok=True)
        shutil.copy(demo, os.path.join(wt, dest))
        demo_pkg = ["./" + os.path.dirname(dest)]
        p0, f0, r0 = gotest(wt, ov, demo_pkg, run)
        os.remove(os.path.join(wt, dest))
        assert sh(["git", "-C", wt, "apply", patch]).returncode == 0
        mut_pass, mut_fail, rm = gotest(wt, ov, pkgs)
        shutil.copy(demo, os.path.join(wt, dest))
        p1, f1, r1 = gotest(wt, ov, demo_pkg, run)
        build_ok = sh(["go", "build", "-overlay", ov, "./..."], cwd=wt, env=vf.go_env()).returncode == 0
        lost = sorted(base_pass - mut_pass)
        ok_demo = bool(p0) and not f0 and bool(f1)
        print("%s: build_ok=%s existing tests passing before=%d after=%d lost=%s | demo without patch: pass=%d fail=%d | with patch: pass=%d fail=%d"
              % (name, build_ok, len(base_pass), len(mut_pass), lost, len(p0), len(f0), len(p1), len(f1)))
        if lost or not ok_demo or not build_ok:
            if not p0 and not f0:
                print(r0.stdout[-1500:], r0.stderr[-1500:])
            print("NOT CONFIRMED"); return 1
        out = os.path.join(vf.VERIF, "seeded", name)
        os.makedirs(out, exist_ok=True)
        shutil.copy(patch, os.path.join(out, "patch.diff"))
        shutil.copy(demo, os.path.join(out, os.path.basename(demo)))
        if os.path.exists(os.path.join(mutdir, "notes.md")):
            shutil.copy(os.path.join(mutdir, "notes.md"), os.path.join(out, "notes.md"))
        head = sh(["git", "-C", vf.REPO, "rev-parse", "--short", "HEAD"]).stdout.strip()
        meta = {"name": name, "property": prop, "needs_to_manifest": needs, "demo": os.path.basename(demo), "demo_dest": dest,
                "packages_checked": pkgs, "repo_head_when_confirmed": head,
                "confirmed": {"existing_tests_passing_before": len(base_pass), "after": len(mut_pass), "lost": lost,
                              "demo_without_patch": {"pass": len(p0), "fail": len(f0)}, "demo_with_patch": {"pass": len(p1), "fail": len(f1)},
                              "how": "tools/mutant.py confirm: scratch worktree of /repo HEAD, go test with the /verif stand-in overlay for the missing VRF/erasure packages"},
                "detected_by": {}}
        mp = os.path.join(out, "meta.json")
        if os.path.exists(mp):
            meta["detected_by"] = json.load(open(mp)).get("detected_by", {})
        json.dump(meta, open(mp, "w"), indent=1)
        print("CONFIRMED ->", out)
        return 0
    finally:
        sh(["git", "-C", vf.REPO, "worktree", "remove", "--force", wt])
        shutil.rmtree(d, ignore_errors=True)

def detect(a):
    name = a[0]
    tier = a[1] if len(a) > 1 else "quick"
    out = os.path.join(vf.VERIF, "seeded", name)
    meta = json.load(open(os.path.join(out, "meta.json")))
    prop = a[2] if len(a) > 2 else meta["property"]
    # run against a scratch worktree of /repo HEAD with the patch applied (VERIF_REPO), so /repo itself
    # stays untouched and several detections can run side by side
    d = tempfile.mkdtemp(prefix="det-")
    wt = os.path.join(d, "wt")
    try:
        assert sh(["git", "-C", vf.REPO, "worktree", "add", "--detach", wt, "HEAD"]).returncode == 0
        ap = sh(["git", "-C", wt, "apply", os.path.join(out, "patch.diff")])
        if ap.returncode != 0:
            print("patch does not apply:", ap.stderr); return 2
        env = dict(os.environ)
        env["VERIF_REPO"] = wt
        r = sh([os.path.join(vf.VERIF, "check"), prop, "--tier", tier], cwd=vf.VERIF, env=env, timeout=7200)
    finally:
        sh(["git", "-C", vf.REPO, "worktree", "remove", "--force", wt])
        shutil.rmtree(d, ignore_errors=True)
    viol = [l for l in r.stdout.splitlines() if l.startswith("VIOLATION")]
    print("%s vs %s %s: rc=%d, %d VIOLATION lines" % (name, prop, tier, r.returncode, len(viol)))
    for l in viol[:3]:
        print("   ", l[:400])
    if r.returncode == 2:
        print(r.stdout[-2500:])
    meta.setdefault("detected_by", {})["%s/%s" % (prop, tier)] = {"rc": r.returncode, "violations": len(viol), "first": viol[0][:300] if viol else ""}
    json.dump(meta, open(os.path.join(out, "meta.json"), "w"), indent=1)
    return 0

if __name__ == "__main__":
    sys.exit({"confirm": confirm, "detect": detect}[sys.argv[1]](sys.argv[2:]))

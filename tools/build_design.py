#!/usr/bin/env python3
"""Regenerate /verif/DESIGN.md = hand-written status header (design_status.md) + the round-0 plan (design_plan.md)
+ as-built notes per property (pending/*.design.md) + findings table + seeded-change table."""
import glob, json, os, re
V = os.path.dirname(os.path.dirname(os.path.abspath(__file__)))
def rd(p):
    return open(os.path.join(V, p)).read() if os.path.exists(os.path.join(V, p)) else ""
out = []
out.append(rd("design_status.md"))
# measured inventory
import subprocess
def wc(pattern):
    n = 0; k = 0
    for f in glob.glob(os.path.join(V, pattern), recursive=True):
        k += 1; n += sum(1 for _ in open(f, errors="replace"))
    return k, n
k_tla, n_tla = wc("spec/**/*.tla"); k_go, n_go = wc("harness/**/*.go"); k_py, n_py = wc("checks/*.py")
kf_all = json.load(open(os.path.join(V, "known_findings.json"))).get("findings", [])
seeded = [json.load(open(p)) for p in glob.glob(os.path.join(V, "seeded", "*", "meta.json"))]
det = sum(1 for m in seeded if any(v.get("rc") == 1 for v in m.get("detected_by", {}).values()))
out.append("\n## Inventory (measured when this file was generated)\n\n"
           "* %d TLA+ modules, %d lines; %d Go driver files, %d lines; %d check scripts, %d lines.\n"
           "* %d defects recorded: %d repaired with `fix:` commits, %d open (guarded deviations).\n"
           "* %d seeded changes kept (written by sub-agents that saw only the property text, confirmed by `tools/mutant.py confirm`): "
           "%d detected by a quick tier (Part IV lists which check caught which; changes first missed and the strengthening they caused are in the per-property notes).\n"
           % (k_tla, n_tla, k_go, n_go, k_py, n_py, len(kf_all), sum(1 for e in kf_all if e.get("status") == "fixed"),
              sum(1 for e in kf_all if e.get("status") == "open"), len(seeded), det))
out.append("\n\n---------------------------------------------------------------------------------------------\n\n# Part I — the plan written before the code (round 0)\n\n")
plan = rd("design_plan.md")
plan = re.sub(r"^# DESIGN[^\n]*\n", "", plan, count=1)
out.append(plan)
out.append("\n\n---------------------------------------------------------------------------------------------\n\n# Part II — as built, per property (builders' notes)\n\n")
for p in sorted(glob.glob(os.path.join(V, "pending", "*.design.md"))):
    txt = open(p).read().strip()
    txt = re.sub(r"^# ", "## ", txt, flags=re.M)            # demote headings by one level
    txt = re.sub(r"^##(#+) ", r"###\1 ", txt, flags=re.M)
    out.append(txt + "\n\n")
# findings
out.append("\n---------------------------------------------------------------------------------------------\n\n# Part III — defects found (known_findings.json)\n\n")
kf = json.load(open(os.path.join(V, "known_findings.json"))).get("findings", [])
for fn in sorted(glob.glob(os.path.join(V, "pending", "*.findings.json"))):
    j = json.load(open(fn)); kf += j if isinstance(j, list) else j.get("findings", [])
seen = set()
out.append("| property | status | commit | slug | what failed |\n|---|---|---|---|---|\n")
for e in sorted(kf, key=lambda e: (e.get("property", ""), e.get("slug", ""))):
    k = (e.get("property"), e.get("slug"))
    if k in seen: continue
    seen.add(k)
    out.append("| %s | %s | %s | %s | %s |\n" % (e.get("property"), e.get("status"), e.get("commit", "-"), e.get("slug"), e.get("what", "").replace("|", "\\|")))
# seeded
out.append("\n\n# Part IV — seeded changes and which checks catch them\n\n")
out.append("Each change was written by a fresh sub-agent that saw only the property text and a scratch worktree; it was kept after "
           "`tools/mutant.py confirm` (compiles, the touched packages' existing tests unchanged, the demonstration passes without and fails with the patch) "
           "and run against the property's check with `tools/mutant.py detect` (patch applied in a scratch worktree, `VERIF_REPO`).\n\n")
out.append("| change | property | needs to manifest | detected by (rc, violations) |\n|---|---|---|---|\n")
for mp in sorted(glob.glob(os.path.join(V, "seeded", "*", "meta.json"))):
    m = json.load(open(mp))
    det = "; ".join("%s: rc=%s, %s" % (k, v.get("rc"), v.get("violations")) for k, v in sorted(m.get("detected_by", {}).items())) or "not run"
    if m.get("note"):
        det += " — " + m["note"]
    out.append("| %s | %s | %s | %s |\n" % (m["name"], m["property"], (m.get("needs_to_manifest") or "").replace("|", "\\|")[:220], det))
open(os.path.join(V, "DESIGN.md"), "w").write("".join(out))
print("DESIGN.md written:", sum(len(x) for x in out), "bytes")

#!/usr/bin/env python3-vt
"""Validate MANIFEST.json and every evidence file against the given schemas."""
import json, glob, sys, jsonschema
ok = True
def v(p, s):
    global ok
    try:
        jsonschema.validate(json.load(open(p)), json.load(open(s)))
    except Exception as e:
        ok = False
        print("INVALID", p, str(e)[:400])
v('/verif/MANIFEST.json', '/root/.vp/MANIFEST.schema.json')
for f in sorted(glob.glob('/verif/evidence/*.json')):
    v(f, '/root/.vp/EVIDENCE.schema.json')
print("schemas ok" if ok else "schema errors")
sys.exit(0 if ok else 1)

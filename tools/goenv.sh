#!/bin/bash
# Source me: sets the Go environment every driver build uses (DESIGN.md 3.1).
# The repo's go.mod asks for go 1.25.5; the default `go` switches to the cached toolchain
# under GOTOOLCHAIN=auto.  GOTOOLCHAIN=local / GOSUMDB=off break that switch (measured).
export GOFLAGS=-mod=mod
export GOPROXY=off
unset GOTOOLCHAIN GOSUMDB
T=/root/go/pkg/mod/golang.org/toolchain@v0.0.1-go1.25.5.linux-amd64/bin
if [ -x "$T/go" ]; then export PATH="$T:$PATH"; export GOTOOLCHAIN=local; fi

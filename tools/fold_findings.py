#!/usr/bin/env python3
"""Fold pending/*.findings.json into known_findings.json (the committed known-findings file), dedupe by
(property, slug); pending files are kept (the loader tolerates duplicates) but emptied of folded entries."""
import glob, json, os
V = os.path.dirname(os.path.dirname(os.path.abspath(__file__)))
kp = os.path.join(V, "known_findings.json")
kf = json.load(open(kp)).get("findings", [])
seen = {(e.get("property"), e.get("slug")): i for i, e in enumerate(kf)}
for fn in sorted(glob.glob(os.path.join(V, "pending", "*.findings.json"))):
    j = json.load(open(fn)); j = j if isinstance(j, list) else j.get("findings", [])
    for e in j:
        k = (e.get("property"), e.get("slug"))
        if k in seen:
            kf[seen[k]] = e      # later status wins (open -> fixed)
        else:
            seen[k] = len(kf); kf.append(e)
    os.remove(fn)
kf.sort(key=lambda e: (e.get("property", ""), e.get("status", ""), e.get("slug", "")))
for e in kf:
    if e.get("status") == "fixed":
        e["line"] = "fixed: property=%s %s %s" % (e["property"], e.get("commit", ""), e.get("what", ""))
    else:
        e["line"] = "KNOWN-FINDING: property=%s %s" % (e["property"], e.get("what", ""))
old = json.load(open(kp))
old["findings"] = kf
json.dump(old, open(kp, "w"), indent=1)
print(len(kf), "findings;", sum(1 for e in kf if e.get("status") == "open"), "open")
for e in kf:
    if e.get("status") == "open": print("  OPEN", e["property"], e["slug"])

package disputesdrv

// X-step driver for C35 (dispute records).  Builds dispute extrinsics with REAL Ed25519 keys and
// signatures (crypto/ed25519) over the payloads the Gray Paper prescribes
//   judgement:  "jam_valid" | "jam_invalid"  ++ report hash      (10.3, faults 10.6)
//   culprit:    "jam_guarantee" ++ report hash                    (10.5)
// (literal strings on purpose: the repository's constants are part of what is verified), runs
// extrinsic.Disputes() on the singleton chain state block after block and records what happened.
// It only executes and records; spec/stf/Disputes_Trace.tla judges.
//
// Case: {"kappa":[rank..V],"lambda":[rank..V],"psi":{"g":[..],"b":[..],"w":[..],"o":[..]},
//        "blocks":[{"tau":t,"rho":[report rank or 0 per core],
//                   "verdicts":[{"t":r,"age":"cur|prev|old|next","votes":[{"v":bool,"i":idx,"sig":kind}]}],
//                   "culprits":[{"t":r,"k":rank,"sig":kind}],"faults":[{"t":r,"v":bool,"k":rank,"sig":kind}]}]}
// Report / key ranks are positions in the bytewise order of the real hashes / public keys.
// sig kinds: ok | ctx (wrong context string) | key (another validator's key) | target (another
// report) | zero (64 zero bytes).

import (
	"bufio"
	"bytes"
	"crypto/ed25519"
	"crypto/sha256"
	"encoding/json"
	"os"
	"sort"
	"testing"

	"github.com/New-JAMneration/JAM-Protocol/internal/blockchain"
	"github.com/New-JAMneration/JAM-Protocol/internal/extrinsic"
	"github.com/New-JAMneration/JAM-Protocol/internal/types"
	"github.com/New-JAMneration/JAM-Protocol/internal/utilities/hash"
	"github.com/New-JAMneration/JAM-Protocol/internal/verifdrv/vfd"
	"github.com/New-JAMneration/JAM-Protocol/logger"
)

const nKeys = 10
const nReports = 8

type world struct {
	priv    []ed25519.PrivateKey // by rank-1
	pub     []types.Ed25519Public
	reports []types.WorkReport // by rank-1
	rhash   []types.WorkReportHash
	keyRank map[types.Ed25519Public]int
	repRank map[types.WorkReportHash]int
}

func newWorld(seed uint64) *world {
	w := &world{keyRank: map[types.Ed25519Public]int{}, repRank: map[types.WorkReportHash]int{}}
	type kp struct {
		priv ed25519.PrivateKey
		pub  types.Ed25519Public
	}
	var kps []kp
	for i := 0; i < nKeys; i++ {
		s := sha256.Sum256([]byte{byte(seed), byte(seed >> 8), byte(i), 'k', 'e', 'y'})
		priv := ed25519.NewKeyFromSeed(s[:])
		var pub types.Ed25519Public
		copy(pub[:], priv.Public().(ed25519.PublicKey))
		kps = append(kps, kp{priv, pub})
	}
	sort.Slice(kps, func(a, b int) bool { return bytes.Compare(kps[a].pub[:], kps[b].pub[:]) < 0 })
	for i, k := range kps {
		w.priv = append(w.priv, k.priv)
		w.pub = append(w.pub, k.pub)
		w.keyRank[k.pub] = i + 1
	}
	type rp struct {
		r types.WorkReport
		h types.WorkReportHash
	}
	var rps []rp
	for i := 0; i < nReports; i++ {
		var r types.WorkReport
		r.CoreIndex = types.CoreIndex(i % 2)
		r.AuthOutput = types.ByteSequence{byte(seed), byte(i), 0xC3, 0x5}
		r.PackageSpec.Hash = types.WorkPackageHash(sha256.Sum256([]byte{byte(seed), byte(i), 'p'}))
		r.Results = []types.WorkResult{}
		enc := types.GetEncoder()
		b, err := enc.Encode(&r)
		types.PutEncoder(enc)
		if err != nil {
			panic(err)
		}
		rps = append(rps, rp{r, types.WorkReportHash(hash.Blake2bHash(b))})
	}
	sort.Slice(rps, func(a, b int) bool { return bytes.Compare(rps[a].h[:], rps[b].h[:]) < 0 })
	for i, x := range rps {
		w.reports = append(w.reports, x.r)
		w.rhash = append(w.rhash, x.h)
		w.repRank[x.h] = i + 1
	}
	return w
}

func (w *world) sign(signer int, ctx string, target int, kind string) types.Ed25519Signature {
	var sig types.Ed25519Signature
	switch kind {
	case "zero":
		return sig
	case "ctx":
		switch ctx {
		case "jam_valid":
			ctx = "jam_invalid"
		case "jam_invalid":
			ctx = "jam_valid"
		default:
			ctx = "jam_valid"
		}
	case "key":
		signer = signer%nKeys + 1
	case "target":
		target = target%nReports + 1
	}
	msg := append([]byte(ctx), w.rhash[target-1][:]...)
	copy(sig[:], ed25519.Sign(w.priv[signer-1], msg))
	return sig
}

func ranksOfHashes(w *world, hs []types.WorkReportHash) []int {
	out := []int{}
	for _, h := range hs {
		if r, ok := w.repRank[h]; ok {
			out = append(out, r)
		} else {
			out = append(out, -1)
		}
	}
	return out
}

func ranksOfKeys(w *world, ks []types.Ed25519Public) []int {
	out := []int{}
	for _, k := range ks {
		if r, ok := w.keyRank[k]; ok {
			out = append(out, r)
		} else {
			out = append(out, -1)
		}
	}
	return out
}

func psiOut(w *world, p types.DisputesRecords) map[string]any {
	return map[string]any{"g": ranksOfHashes(w, p.Good), "b": ranksOfHashes(w, p.Bad), "w": ranksOfHashes(w, p.Wonky), "o": ranksOfKeys(w, p.Offenders)}
}

func ints(v any) []int {
	out := []int{}
	if v == nil {
		return out
	}
	for _, x := range v.([]any) {
		out = append(out, vfd.I(x))
	}
	return out
}

func list(v any) []map[string]any {
	out := []map[string]any{}
	if v == nil {
		return out
	}
	for _, x := range v.([]any) {
		out = append(out, x.(map[string]any))
	}
	return out
}

func validators(w *world, ranks []int) types.ValidatorsData {
	out := make(types.ValidatorsData, len(ranks))
	for i, r := range ranks {
		out[i].Ed25519 = w.pub[r-1]
		out[i].Bandersnatch[0] = byte(r)
	}
	return out
}

func runCase(out *vfd.Out, w *world, c map[string]any) {
	blockchain.ResetInstance()
	cs := blockchain.GetInstance()
	kappa, lambda := ints(c["kappa"]), ints(c["lambda"])
	cs.GetPriorStates().SetKappa(validators(w, kappa))
	cs.GetPriorStates().SetLambda(validators(w, lambda))
	var psi types.DisputesRecords
	if p, ok := c["psi"].(map[string]any); ok {
		for _, r := range ints(p["g"]) {
			psi.Good = append(psi.Good, w.rhash[r-1])
		}
		for _, r := range ints(p["b"]) {
			psi.Bad = append(psi.Bad, w.rhash[r-1])
		}
		for _, r := range ints(p["w"]) {
			psi.Wonky = append(psi.Wonky, w.rhash[r-1])
		}
		for _, r := range ints(p["o"]) {
			psi.Offenders = append(psi.Offenders, w.pub[r-1])
		}
	}
	cs.GetPriorStates().SetPsi(psi)
	out.Emit(map[string]any{"ev": "Reset", "V": types.ValidatorsCount, "E": types.EpochLength, "kappa": kappa, "lambda": lambda,
		"psi": psiOut(w, cs.GetPriorStates().GetPsi())})

	for bi, b := range list(c["blocks"]) {
		tau := types.TimeSlot(vfd.I(b["tau"]))
		epoch := int(tau) / types.EpochLength
		rhoIn := ints(b["rho"])
		rho := make(types.AvailabilityAssignments, types.CoresCount)
		for i := range rho {
			if i < len(rhoIn) && rhoIn[i] > 0 {
				rho[i] = &types.AvailabilityAssignment{Report: w.reports[rhoIn[i]-1], AssignedSlot: tau}
			}
		}
		for len(rhoIn) < types.CoresCount {
			rhoIn = append(rhoIn, 0)
		}
		var ext types.DisputesExtrinsic
		verdictsIn, culpritsIn, faultsIn := list(b["verdicts"]), list(b["culprits"]), list(b["faults"])
		for _, v := range verdictsIn {
			t := vfd.I(v["t"])
			age := epoch
			set := kappa
			switch vfd.S(v["age"]) {
			case "prev":
				age, set = epoch-1, lambda
			case "old":
				age = epoch - 2
			case "next":
				age = epoch + 1
			}
			vd := types.Verdict{Target: w.rhash[t-1], Age: types.U32(age)}
			for _, j := range list(v["votes"]) {
				idx := vfd.I(j["i"])
				vote := j["v"].(bool)
				ctx := "jam_invalid"
				if vote {
					ctx = "jam_valid"
				}
				signer := set[idx%len(set)]
				vd.Votes = append(vd.Votes, types.Judgement{Vote: vote, Index: types.ValidatorIndex(idx), Signature: w.sign(signer, ctx, t, vfd.S(j["sig"]))})
			}
			ext.Verdicts = append(ext.Verdicts, vd)
		}
		for _, cu := range culpritsIn {
			t, k := vfd.I(cu["t"]), vfd.I(cu["k"])
			ext.Culprits = append(ext.Culprits, types.Culprit{Target: w.rhash[t-1], Key: w.pub[k-1], Signature: w.sign(k, "jam_guarantee", t, vfd.S(cu["sig"]))})
		}
		for _, f := range faultsIn {
			t, k := vfd.I(f["t"]), vfd.I(f["k"])
			vote := f["v"].(bool)
			ctx := "jam_invalid"
			if vote {
				ctx = "jam_valid"
			}
			ext.Faults = append(ext.Faults, types.Fault{Target: w.rhash[t-1], Vote: vote, Key: w.pub[k-1], Signature: w.sign(k, ctx, t, vfd.S(f["sig"]))})
		}

		rec := map[string]any{"ev": "Block", "tau": int(tau), "rho": rhoIn, "verdicts": verdictsIn, "culprits": culpritsIn, "faults": faultsIn}
		var mark types.OffendersMark
		var err error
		panicked, msg := vfd.Guard(func() {
			cs.GetPriorStates().SetTau(tau)
			cs.GetPriorStates().SetRho(rho)
			cs.AddBlock(types.Block{Header: types.Header{Slot: tau + 1, ExtrinsicHash: types.OpaqueHash{byte(bi)}}, Extrinsic: types.Extrinsic{Disputes: ext}})
			cs.GetPosteriorStates().SetTau(tau + 1)
			mark, err = extrinsic.Disputes()
		})
		if panicked {
			rec["ev"], rec["msg"] = "GoPanic", msg
			out.Emit(rec)
			return
		}
		if err != nil {
			rec["ok"], rec["err"] = false, err.Error()
			rec["psi"] = psiOut(w, cs.GetPriorStates().GetPsi())
			rec["rho_dagger"] = []int{}
			rec["mark"] = []int{}
			out.Emit(rec)
			// a refused block leaves the prior records in force; forget whatever was staged
			cs.GetPosteriorStates().SetPsi(types.DisputesRecords{})
			continue
		}
		post := cs.GetPosteriorStates().GetPsi()
		rec["ok"], rec["err"] = true, ""
		rec["psi"] = psiOut(w, post)
		rd := []int{}
		for _, a := range cs.GetIntermediateStates().GetRhoDagger() {
			if a == nil {
				rd = append(rd, 0)
				continue
			}
			enc := types.GetEncoder()
			eb, _ := enc.Encode(&a.Report)
			types.PutEncoder(enc)
			if r, ok := w.repRank[types.WorkReportHash(hash.Blake2bHash(eb))]; ok {
				rd = append(rd, r)
			} else {
				rd = append(rd, -1)
			}
		}
		rec["rho_dagger"] = rd
		rec["mark"] = ranksOfKeys(w, mark)
		out.Emit(rec)
		// posterior becomes prior (ChainState.StateCommit does this for the whole state)
		cs.GetPriorStates().SetPsi(post)
		cs.GetPosteriorStates().SetPsi(types.DisputesRecords{})
	}
}

func TestVerifDisputes(t *testing.T) {
	logger.ConfigureLogger("main", logger.LoggerConfig{Level: "ERROR", Enabled: true})
	types.SetTinyMode()
	f, err := os.Open(vfd.Env("VF_CASES", "cases.ndjson"))
	if err != nil {
		t.Fatal(err)
	}
	defer f.Close()
	out := vfd.NewOut(vfd.Env("VF_OUT", "trace.ndjson"))
	defer out.Close()
	w := newWorld(uint64(vfd.EnvInt("VF_SEED", 1)))
	sc := bufio.NewScanner(f)
	sc.Buffer(make([]byte, 1<<20), 1<<26)
	n := 0
	for sc.Scan() {
		if len(sc.Bytes()) == 0 {
			continue
		}
		var c map[string]any
		if err := json.Unmarshal(sc.Bytes(), &c); err != nil {
			t.Fatal(err)
		}
		n++
		runCase(out, w, c)
	}
	blockchain.ResetInstance()
	t.Logf("cases=%d events=%d", n, out.N)
}

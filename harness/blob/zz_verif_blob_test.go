package PVM

// X-step driver for C03 (in-package).  Runs SingleInitializer / Psi_M on standard program blobs and
// DeBlobProgramCode / the interpreter / the refine host calls machine+invoke on inner blobs, each
// under recover(), a 10 s watchdog, a heap watchdog and runtime.MemStats.TotalAlloc accounting.
// It records what happened; the verdict is ProgramBlob_Trace's.

import (
	"bufio"
	"bytes"
	"encoding/binary"
	"encoding/json"
	"fmt"
	"os"
	"runtime"
	"runtime/metrics"
	"sync"
	"syscall"
	"testing"
	"time"

	"github.com/New-JAMneration/JAM-Protocol/internal/types"
	"github.com/New-JAMneration/JAM-Protocol/internal/verifdrv/vfd"
)

func vfbClamp(x int64) int {
	const lim = 1 << 30
	if x > lim {
		return lim
	}
	if x < -lim {
		return -lim
	}
	return int(x)
}

func vfbGuard(f func()) (msg string) {
	defer func() {
		if r := recover(); r != nil {
			msg = fmt.Sprint(r)
			if msg == "" {
				msg = "panic"
			}
			if len(msg) > 200 {
				msg = msg[:200]
			}
		}
	}()
	f()
	return ""
}

func vfbExitName(e ExitReason) string {
	switch e.GetReasonType() {
	case CONTINUE:
		return "continue"
	case HALT:
		return "halt"
	case PANIC:
		return "panic"
	case OUT_OF_GAS:
		return "oog"
	case PAGE_FAULT:
		return "fault"
	case HOST_CALL:
		return "host"
	}
	return fmt.Sprintf("other:%d", uint64(e)>>56)
}

// Psi_M's ReasonOrBytes: bytes (or nil) on halt, PANIC / OUT_OF_GAS otherwise
func vfbPsiKind(v any) string {
	switch x := v.(type) {
	case nil:
		return "bytes"
	case []byte:
		return "bytes"
	case types.ByteSequence:
		return "bytes"
	case ExitReasonType:
		switch x {
		case PANIC:
			return "panic"
		case OUT_OF_GAS:
			return "oog"
		}
		return fmt.Sprintf("other:type%d", x)
	case ExitReason:
		n := vfbExitName(x)
		if n == "panic" || n == "oog" {
			return n
		}
		return "other:" + n
	}
	return fmt.Sprintf("other:%T", v)
}

func vfbArg(n int) []byte {
	a := make([]byte, n)
	for i := range a {
		a[i] = byte(1 + (i*15+7)%255)
	}
	return a
}

func vfbStd(c map[string]any, rec map[string]any) {
	blob := vfd.Bytes(c["blob"])
	arg := vfbArg(vfd.I(c["al"]))
	gas := int64(vfd.I(c["gas"]))
	pc := ProgramCounter(uint32(vfd.I(c["pc"])))

	ini := map[string]any{"ok": false, "panic": ""}
	var mem Memory
	var regs Registers
	var code Instructions
	ini["panic"] = vfbGuard(func() {
		var r ExitReason
		code, regs, mem, r = SingleInitializer(StandardCodeFormat(append([]byte{}, blob...)), Argument(arg))
		ini["ok"] = r == ExitContinue
	})
	rec["init"] = ini

	psi := map[string]any{"kind": "none", "used": 0, "outlen": 0, "panic": ""}
	psi["panic"] = vfbGuard(func() {
		r := Psi_M(StandardCodeFormat(append([]byte{}, blob...)), pc, types.Gas(gas), Argument(arg), nil, HostCallArgs{})
		psi["kind"] = vfbPsiKind(r.ReasonOrBytes)
		switch x := r.ReasonOrBytes.(type) {
		case []byte:
			psi["outlen"] = vfbClamp(int64(len(x)))
		case types.ByteSequence:
			psi["outlen"] = vfbClamp(int64(len(x)))
		}
		psi["used"] = vfbClamp(int64(r.Gas))
	})
	rec["psi"] = psi

	// the same steps by hand, to observe the heap growth (Psi_M does not return the memory)
	heapK := 0
	// (only a program that contains the sbrk opcode byte can grow the heap)
	if ini["ok"] == true && ini["panic"] == "" && psi["panic"] == "" && bytes.IndexByte(code, 101) >= 0 {
		hp0 := mem.heapPointer
		_ = vfbGuard(func() {
			prog, r := DeBlobProgramCode(ProgramCode(code))
			if r != ExitContinue {
				return
			}
			h := NewHost(&prog, regs, &mem, Gas(gas), HostCallArgs{Program: &prog}, nil)
			h.HostCall(pc, 0)
		})
		if mem.heapPointer > hp0 {
			heapK = vfbClamp(int64((mem.heapPointer - hp0 + 1023) >> 10))
		}
	}
	rec["heapK"] = heapK
}

var vfbOuterBlob = []byte{0, 0, 1, 0, 1} // one trap

func vfbInner(c map[string]any, rec map[string]any) {
	blob := vfd.Bytes(c["blob"])
	gas := int64(vfd.I(c["gas"]))
	pc := ProgramCounter(uint32(vfd.I(c["pc"])))

	de := map[string]any{"ok": false, "panic": ""}
	var prog Program
	de["panic"] = vfbGuard(func() {
		var r ExitReason
		prog, r = DeBlobProgramCode(ProgramCode(append([]byte{}, blob...)))
		de["ok"] = r == ExitContinue
	})
	rec["deblob"] = de

	run := map[string]any{"ran": false, "kind": "none", "used": 0, "panic": ""}
	if de["ok"] == true && de["panic"] == "" {
		run["ran"] = true
		run["panic"] = vfbGuard(func() {
			m := Memory{Pages: map[uint32]*Page{}}
			h := NewHost(&prog, Registers{}, &m, Gas(gas), HostCallArgs{Program: &prog}, nil)
			r := h.HostCall(pc, 0)
			run["kind"] = vfbExitName(r.ExitReason)
			left := int64(h.Interpreter.Gas)
			if left < 0 {
				left = 0
			}
			run["used"] = vfbClamp(gas - left)
		})
	}
	rec["run"] = run

	// refine host calls: machine(po, pz, i) then invoke(n, o)
	mach := map[string]any{"exit": "none", "w7": []int{}, "panic": ""}
	inv := map[string]any{"ran": false, "exit": "none", "w7": []int{}, "gasleft": 0, "panic": ""}
	const blobAt, bufAt = 0x20000, 0x80000
	outer := Memory{Pages: map[uint32]*Page{}}
	for off := 0; off < len(blob) || off == 0; off += ZP {
		pg := &Page{Value: make([]byte, ZP), Access: MemoryReadOnly}
		if off < len(blob) {
			copy(pg.Value, blob[off:])
		}
		outer.Pages[uint32((blobAt+off)/ZP)] = pg
	}
	outer.Pages[bufAt/ZP] = &Page{Value: make([]byte, ZP), Access: MemoryReadWrite}
	var oregs Registers
	ogas := Gas(1000)
	vm := &VMState{Registers: &oregs, Memory: &outer, Gas: &ogas}
	outerProg, _ := DeBlobProgramCode(ProgramCode(append([]byte{}, vfbOuterBlob...)))
	add := HostCallArgs{RefineArgs: RefineArgs{IntegratedPVMMap: IntegratedPVMMap{}}, Program: &outerProg}
	var mout OmegaOutput
	mach["panic"] = vfbGuard(func() {
		oregs[7], oregs[8], oregs[9] = blobAt, uint64(len(blob)), uint64(pc)
		mout = machine(OmegaInput{Operation: MachineOp, VM: vm, Addition: add})
		mach["exit"] = vfbExitName(mout.ExitReason)
		mach["w7"] = vfd.U64LE(oregs[7])
	})
	rec["machine"] = mach
	// the other inner-machine host calls on the fresh machine: pages (2 RW pages at page 16), poke, peek; expunge at the end
	aux := map[string]any{"ran": false, "pages": "none", "poke": "none", "peek": "none", "expunge": "none", "same": false, "codes": []int{}, "panic": ""}
	machineOK := mach["panic"] == "" && mach["exit"] == "continue" && oregs[7] < 16
	nID := oregs[7]
	if machineOK {
		aux["ran"] = true
		aux["panic"] = vfbGuard(func() {
			k := uint64(min(len(blob), 64))
			in := func() OmegaInput { return OmegaInput{VM: vm, Addition: mout.Addition} }
			oregs[7], oregs[8], oregs[9], oregs[10] = nID, 16, 2, 2
			codes := []int{}
			aux["pages"] = vfbExitName(pages(in()).ExitReason)
			codes = append(codes, vfbClamp(int64(oregs[7])))
			oregs[7], oregs[8], oregs[9], oregs[10] = nID, blobAt, 16*ZP, k
			aux["poke"] = vfbExitName(poke(in()).ExitReason)
			codes = append(codes, vfbClamp(int64(oregs[7])))
			oregs[7], oregs[8], oregs[9], oregs[10] = nID, bufAt+512, 16*ZP, k
			aux["peek"] = vfbExitName(peek(in()).ExitReason)
			codes = append(codes, vfbClamp(int64(oregs[7])))
			aux["codes"] = codes
			aux["same"] = string(outer.Pages[bufAt/ZP].Value[512:512+k]) == string(blob[:k])
		})
		oregs[7] = nID
	}
	if machineOK {
		inv["ran"] = true
		inv["panic"] = vfbGuard(func() {
			buf := outer.Pages[bufAt/ZP].Value
			binary.LittleEndian.PutUint64(buf[0:8], uint64(gas))
			oregs[8] = bufAt
			iout := invoke(OmegaInput{Operation: InvokeOp, VM: vm, Addition: mout.Addition})
			inv["exit"] = vfbExitName(iout.ExitReason)
			inv["w7"] = vfd.U64LE(oregs[7])
			inv["gasleft"] = vfbClamp(int64(binary.LittleEndian.Uint64(buf[0:8])))
		})
	}
	rec["invoke"] = inv
	if machineOK && aux["panic"] == "" {
		aux["panic"] = vfbGuard(func() {
			oregs[7] = nID
			aux["expunge"] = vfbExitName(expunge(OmegaInput{VM: vm, Addition: mout.Addition}).ExitReason)
		})
	}
	rec["aux"] = aux
}

func TestVerifBlob(t *testing.T) {
	cases := vfd.ReadCases(os.Getenv("VF_CASES"))
	skip := vfd.EnvInt("VF_SKIP", 0)
	f, err := os.OpenFile(os.Getenv("VF_OUT"), os.O_APPEND|os.O_CREATE|os.O_WRONLY, 0o644)
	if err != nil {
		t.Fatal(err)
	}
	defer f.Close()
	w := bufio.NewWriterSize(f, 1<<16)
	heapLimit := uint64(vfd.EnvInt("VF_HEAP_LIMIT_MB", 3072)) << 20
	watchdog := time.Duration(vfd.EnvInt("VF_WATCHDOG_S", 10)) * time.Second
	flushEvery := max(1, vfd.EnvInt("VF_FLUSH_EVERY", 64))

	// one worker runs the cases in order; this goroutine watches its progress and the heap.
	// mu serialises record emission: whoever holds it decides the fate of the current case.
	var mu sync.Mutex
	cur, curStart, curCPU := skip, time.Now(), vfbCPU() // guarded by mu
	emit := func(rec map[string]any) {
		b, err := json.Marshal(rec)
		if err != nil {
			panic(err)
		}
		w.Write(append(b, '\n'))
	}
	newRec := func(i int) map[string]any {
		c := cases[i]
		return map[string]any{"id": i, "tag": c["tag"], "kind": c["kind"], "blob": c["blob"], "al": c["al"], "gas": c["gas"], "pc": c["pc"], "want": vfd.I(c["want"]),
			"allocK": 0, "hang": false, "mem": false, "died": "", "heapK": 0}
	}
	samples := []metrics.Sample{{Name: "/gc/heap/allocs:bytes"}, {Name: "/memory/classes/heap/objects:bytes"}}
	allocs := func() (uint64, uint64) {
		metrics.Read(samples)
		return samples[0].Value.Uint64(), samples[1].Value.Uint64()
	}
	done := make(chan struct{})
	go func() {
		defer close(done)
		for i := skip; i < len(cases); i++ {
			mu.Lock()
			cur, curStart, curCPU = i, time.Now(), vfbCPU()
			mu.Unlock()
			rec := newRec(i)
			a0, _ := allocs()
			if vfd.S(cases[i]["kind"]) == "std" {
				vfbStd(cases[i], rec)
			} else {
				vfbInner(cases[i], rec)
			}
			a1, live := allocs()
			rec["allocK"] = vfbClamp(int64((a1 - a0) >> 10))
			mu.Lock()
			emit(rec)
			if i%flushEvery == 0 {
				w.Flush() // a process death loses at most the unflushed records; the check re-runs from the last one on disk
			}
			mu.Unlock()
			if live > 256<<20 {
				runtime.GC()
			}
		}
	}()
	tick := time.NewTicker(50 * time.Millisecond)
	defer tick.Stop()
	for {
		select {
		case <-done:
			w.Flush()
			return
		case <-tick.C:
			_, live := allocs()
			mu.Lock()
			// the watchdog counts CPU time of this process (a loop that consumes no gas burns CPU), so that a
			// machine overloaded by other jobs does not look like a hang; wall time only as a distant backstop
			over, late := live > heapLimit, vfbCPU()-curCPU > watchdog || time.Since(curStart) > 20*watchdog
			if over {
				// make sure it is not garbage from earlier cases
				mu.Unlock()
				runtime.GC()
				_, live = allocs()
				mu.Lock()
				over = live > heapLimit
			}
			if over || late {
				// the worker cannot be stopped: report the current case and let the check restart after it
				rec := newRec(cur)
				rec["hang"], rec["mem"] = late && !over, over
				vfbFillShape(rec)
				emit(rec)
				w.Flush()
				f.Sync()
				os.Exit(3)
			}
			mu.Unlock()
		}
	}
}

func vfbCPU() time.Duration {
	var ru syscall.Rusage
	if err := syscall.Getrusage(syscall.RUSAGE_SELF, &ru); err != nil {
		return 0
	}
	return time.Duration(ru.Utime.Nano() + ru.Stime.Nano())
}

func vfbFillShape(rec map[string]any) {
	if vfd.S(rec["kind"]) == "std" {
		rec["init"] = map[string]any{"ok": false, "panic": ""}
		rec["psi"] = map[string]any{"kind": "none", "used": 0, "outlen": 0, "panic": ""}
	} else {
		rec["deblob"] = map[string]any{"ok": false, "panic": ""}
		rec["run"] = map[string]any{"ran": false, "kind": "none", "used": 0, "panic": ""}
		rec["machine"] = map[string]any{"exit": "none", "w7": []int{}, "panic": ""}
		rec["invoke"] = map[string]any{"ran": false, "exit": "none", "w7": []int{}, "gasleft": 0, "panic": ""}
		rec["aux"] = map[string]any{"ran": false, "pages": "none", "poke": "none", "peek": "none", "expunge": "none", "same": false, "codes": []int{}, "panic": ""}
	}
}

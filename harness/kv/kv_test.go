package kv

// X-step driver for C27: executes event scripts (TLC-generated or seeded) on the three
// database providers and records what each call returned.

import (
	"bytes"
	"testing"

	"github.com/New-JAMneration/JAM-Protocol/internal/database"
	"github.com/New-JAMneration/JAM-Protocol/internal/database/provider/memory"
	pebbledb "github.com/New-JAMneration/JAM-Protocol/internal/database/provider/pebble"
	redisdb "github.com/New-JAMneration/JAM-Protocol/internal/database/provider/redis"
	"github.com/New-JAMneration/JAM-Protocol/internal/verifdrv/vfd"
	"github.com/alicebob/miniredis/v2"
)

type kept struct{ live, orig []byte }

type prov struct {
	name  string
	fresh func() database.Database
}

func scramble(b []byte) {
	for i := range b {
		b[i] ^= 0x5a
	}
}

func hasHigh(b []byte) bool {
	for _, x := range b {
		if x >= 0x80 {
			return true
		}
	}
	return false
}

// skipHighIter: the in-process Redis stand-in (miniredis) compiles SCAN MATCH patterns to a Go
// regexp and panics on non-UTF-8 pattern bytes; real Redis is binary safe.  For that provider the
// driver therefore skips iterations whose prefix or start contains a byte >= 0x80.
func runScript(db database.Database, script []any, out *vfd.Out, skipHighIter bool) {
	var keep []kept
	batches := map[int]database.Batch{}
	iso := func() int {
		n := 0
		for _, k := range keep {
			if !bytes.Equal(k.live, k.orig) {
				n++
			}
		}
		return n
	}
	remember := func(b []byte) {
		if b != nil {
			keep = append(keep, kept{b, append([]byte(nil), b...)})
		}
	}
	out.Emit(map[string]any{"ev": "Reset", "iso": 0})
	for _, raw := range script {
		ev := raw.(map[string]any)
		name := vfd.S(ev["ev"])
		rec := map[string]any{"ev": name}
		var k, v []byte
		if x, ok := ev["k"]; ok {
			k = vfd.Bytes(x)
			rec["k"] = vfd.B(k)
		}
		if x, ok := ev["v"]; ok {
			v = vfd.Bytes(x)
			rec["v"] = vfd.B(v)
		}
		b := 0
		if x, ok := ev["b"]; ok {
			b = vfd.I(x)
			rec["b"] = b
		}
		var err error
		switch name {
		case "Put":
			err = db.Put(k, v)
			scramble(k)
			scramble(v)
		case "Delete":
			err = db.Delete(k)
			scramble(k)
		case "BNew":
			batches[b] = db.NewBatch()
		case "BPut":
			err = batches[b].Put(k, v)
			scramble(k)
			scramble(v)
		case "BDel":
			err = batches[b].Delete(k)
			scramble(k)
		case "Commit":
			err = batches[b].Commit()
			if err == nil {
				err = batches[b].Close()
			}
			delete(batches, b)
		case "Discard":
			err = batches[b].Close()
			delete(batches, b)
		case "Get":
			val, found, e := db.Get(k)
			err = e
			rec["found"] = found
			if !found {
				val = nil
			}
			rec["v"] = vfd.B(val)
			remember(val)
			scramble(k)
		case "Has":
			found, e := db.Has(k)
			err = e
			rec["found"] = found
			scramble(k)
		case "Iter":
			p, s := vfd.Bytes(ev["p"]), vfd.Bytes(ev["s"])
			if skipHighIter && (hasHigh(p) || hasHigh(s)) {
				continue
			}
			rec["p"], rec["s"] = vfd.B(p), vfd.B(s)
			keys, vals := [][]int{}, [][]int{}
			held := 0
			it, e := db.NewIterator(p, s)
			err = e
			if e == nil {
				scramble(p)
				scramble(s)
				first := true
				for it.Next() {
					kk := append([]byte(nil), it.Key()...)
					raw := it.Value()
					vv := append([]byte(nil), raw...)
					if first && len(vv) > 0 {
						// a slice handed out by the iterator must not change when the same key is overwritten by a
						// value of the same length while the iterator still stands on it (then the original is put back)
						first = false
						other := append([]byte(nil), vv...)
						other[0] ^= 0x5a
						if db.Put(append([]byte(nil), kk...), other) == nil {
							if !bytes.Equal(raw, vv) {
								held++
							}
							db.Put(append([]byte(nil), kk...), append([]byte(nil), vv...))
						}
					}
					keys = append(keys, vfd.B(kk))
					vals = append(vals, vfd.B(vv))
					remember(vv)
				}
				if it.Error() != nil {
					err = it.Error()
				}
				it.Close()
			}
			rec["keys"], rec["vals"] = keys, vals
			rec["held"] = held
		}
		rec["iso"] = iso()
		if err != nil {
			rec["err"] = err.Error()
			rec["iso"] = -1 // never accepted by the trace spec
		}
		out.Emit(rec)
	}
	for _, bt := range batches {
		bt.Close()
	}
}

func TestRun(t *testing.T) {
	cases := vfd.ReadCases(vfd.Env("VF_CASES", "cases.ndjson"))
	mr, err := miniredis.Run()
	if err != nil {
		t.Fatal(err)
	}
	defer mr.Close()
	rdb := redisdb.NewDatabase(mr.Addr(), "", 0)
	provs := []prov{
		{"memory", func() database.Database { return memory.NewDatabase() }},
		{"pebble", func() database.Database {
			db, err := pebbledb.NewTestDatabase()
			if err != nil {
				t.Fatal(err)
			}
			return db
		}},
		{"redis", func() database.Database { mr.FlushAll(); return rdb }},
	}
	only := vfd.Env("VF_PROVIDER", "")
	for _, p := range provs {
		if only != "" && only != p.name {
			continue
		}
		out := vfd.NewOut(vfd.Env("VF_OUT", "trace") + "-" + p.name + ".ndjson")
		for _, c := range cases {
			db := p.fresh()
			panicked, msg := vfd.Guard(func() { runScript(db, c["script"].([]any), out, p.name == "redis") })
			if panicked {
				out.Emit(map[string]any{"ev": "GoPanic", "msg": msg, "iso": -1})
			}
			if p.name != "redis" {
				db.Close()
			}
		}
		out.Close()
	}
}

package codec

// X-step driver for the codec family C11 / C13 / C14 (overlay-only package, never committed).
//
// It only EXECUTES and RECORDS.  Values are produced by reflection over the Go types (shapes:
// fixed lengths that the encoder insists on, one-of structs), turned into an abstract value tree
// by reflection (toTree knows nothing about the wire format), encoded / decoded with the
// repository's codec, and everything is written as ndjson.  spec/codec/Codec_Trace.tla judges.
//
// A cross-package driver is used instead of an in-package one: the fuzz-protocol messages live in
// internal/fuzz, which imports internal/types, so a `package types` test cannot reach them, and
// nothing unexported is needed (NewEncoder, GetEncoder/PutEncoder, NewDecoder, DecodeWithConsumed,
// Message.ReadFrom, PeerInfo.UnmarshalBinary are all exported).
//
// Modes (VF_MODE):
//   consts  one record with the chain-spec sizes the code uses
//   rt      VF_N seeded values per type of VF_TYPES: encodings (fresh encoder, pooled encoders
//           used from 8 goroutines at once, maps rebuilt in other insertion orders), consumed,
//           decoded tree
//   dec     every case {ty, in, cls} of VF_CASES is decoded under recover() with the TotalAlloc
//           delta; what was accepted is re-encoded

import (
	"bufio"
	"bytes"
	"encoding/json"
	"fmt"
	"os"
	"reflect"
	"runtime"
	"sort"
	"strings"
	"sync"
	"sync/atomic"
	"syscall"
	"testing"

	"github.com/New-JAMneration/JAM-Protocol/internal/fuzz"
	"github.com/New-JAMneration/JAM-Protocol/internal/types"
	"github.com/New-JAMneration/JAM-Protocol/internal/verifdrv/vfd"
)

// ---------------------------------------------------------------------------- registry

var registry = map[string]func() any{
	"U8": func() any { return new(types.U8) }, "U16": func() any { return new(types.U16) },
	"U32": func() any { return new(types.U32) }, "U64": func() any { return new(types.U64) },
	"TimeSlot": func() any { return new(types.TimeSlot) }, "ValidatorIndex": func() any { return new(types.ValidatorIndex) },
	"CoreIndex": func() any { return new(types.CoreIndex) }, "ServiceID": func() any { return new(types.ServiceID) },
	"Gas": func() any { return new(types.Gas) }, "OpaqueHash": func() any { return new(types.OpaqueHash) },
	"HeaderHash": func() any { return new(types.HeaderHash) }, "StateRoot": func() any { return new(types.StateRoot) },
	"BeefyRoot": func() any { return new(types.BeefyRoot) }, "WorkPackageHash": func() any { return new(types.WorkPackageHash) },
	"WorkReportHash": func() any { return new(types.WorkReportHash) }, "ExportsRoot": func() any { return new(types.ExportsRoot) },
	"ErasureRoot": func() any { return new(types.ErasureRoot) }, "Entropy": func() any { return new(types.Entropy) },
	"TicketID": func() any { return new(types.TicketID) }, "AuthorizerHash": func() any { return new(types.AuthorizerHash) },
	"BandersnatchPublic": func() any { return new(types.BandersnatchPublic) }, "Ed25519Public": func() any { return new(types.Ed25519Public) },
	"BlsPublic": func() any { return new(types.BlsPublic) }, "BandersnatchVrfSignature": func() any { return new(types.BandersnatchVrfSignature) },
	"BandersnatchRingVrfSignature": func() any { return new(types.BandersnatchRingVrfSignature) },
	"Ed25519Signature":             func() any { return new(types.Ed25519Signature) },
	"BandersnatchRingCommitment":   func() any { return new(types.BandersnatchRingCommitment) },
	"ValidatorMetadata":            func() any { return new(types.ValidatorMetadata) }, "StateKey": func() any { return new(types.StateKey) },
	"ExportSegment": func() any { return new(types.ExportSegment) }, "TicketAttempt": func() any { return new(types.TicketAttempt) },
	"ByteSequence": func() any { return new(types.ByteSequence) }, "ExtrinsicData": func() any { return new(types.ExtrinsicData) },
	"TimeSlotSet": func() any { return new(types.TimeSlotSet) }, "Bitfield": func() any { return new(types.Bitfield) },
	"EpochMarkValidatorKeys": func() any { return new(types.EpochMarkValidatorKeys) }, "EpochMark": func() any { return new(types.EpochMark) },
	"TicketBody": func() any { return new(types.TicketBody) }, "TicketsMark": func() any { return new(types.TicketsMark) },
	"OffendersMark": func() any { return new(types.OffendersMark) }, "Header": func() any { return new(types.Header) },
	"TicketEnvelope": func() any { return new(types.TicketEnvelope) }, "TicketsExtrinsic": func() any { return new(types.TicketsExtrinsic) },
	"ServiceIDList": func() any { return new(types.ServiceIDList) }, "Preimage": func() any { return new(types.Preimage) },
	"PreimagesExtrinsic": func() any { return new(types.PreimagesExtrinsic) }, "WorkPackageSpec": func() any { return new(types.WorkPackageSpec) },
	"RefineContext": func() any { return new(types.RefineContext) }, "SegmentRootLookupItem": func() any { return new(types.SegmentRootLookupItem) },
	"SegmentRootLookup": func() any { return new(types.SegmentRootLookup) }, "WorkExecResult": func() any { return new(types.WorkExecResult) },
	"RefineLoad": func() any { return new(types.RefineLoad) }, "WorkResult": func() any { return new(types.WorkResult) },
	"WorkReport": func() any { return new(types.WorkReport) }, "ValidatorSignature": func() any { return new(types.ValidatorSignature) },
	"ReportGuarantee": func() any { return new(types.ReportGuarantee) }, "GuaranteesExtrinsic": func() any { return new(types.GuaranteesExtrinsic) },
	"AvailAssurance": func() any { return new(types.AvailAssurance) }, "AssurancesExtrinsic": func() any { return new(types.AssurancesExtrinsic) },
	"Judgement": func() any { return new(types.Judgement) }, "Verdict": func() any { return new(types.Verdict) },
	"Culprit": func() any { return new(types.Culprit) }, "Fault": func() any { return new(types.Fault) },
	"DisputesExtrinsic": func() any { return new(types.DisputesExtrinsic) }, "Extrinsic": func() any { return new(types.Extrinsic) },
	"Block": func() any { return new(types.Block) }, "Authorizer": func() any { return new(types.Authorizer) },
	"ImportSpec": func() any { return new(types.ImportSpec) }, "ExtrinsicSpec": func() any { return new(types.ExtrinsicSpec) },
	"WorkItem": func() any { return new(types.WorkItem) }, "WorkPackage": func() any { return new(types.WorkPackage) },
	"ValidatorActivityRecord": func() any { return new(types.ValidatorActivityRecord) },
	"ValidatorsStatistics":    func() any { return new(types.ValidatorsStatistics) },
	"CoreActivityRecord":      func() any { return new(types.CoreActivityRecord) }, "CoresStatistics": func() any { return new(types.CoresStatistics) },
	"ServiceActivityRecord": func() any { return new(types.ServiceActivityRecord) },
	"ServicesStatistics":    func() any { return new(types.ServicesStatistics) }, "Statistics": func() any { return new(types.Statistics) },
	"Validator": func() any { return new(types.Validator) }, "ValidatorsData": func() any { return new(types.ValidatorsData) },
	"EntropyBuffer": func() any { return new(types.EntropyBuffer) }, "TicketsAccumulator": func() any { return new(types.TicketsAccumulator) },
	"TicketsOrKeys": func() any { return new(types.TicketsOrKeys) }, "AvailabilityAssignment": func() any { return new(types.AvailabilityAssignment) },
	"AvailabilityAssignments": func() any { return new(types.AvailabilityAssignments) }, "Mmr": func() any { return new(types.Mmr) },
	"ReportedWorkPackage": func() any { return new(types.ReportedWorkPackage) }, "BlockInfo": func() any { return new(types.BlockInfo) },
	"BlocksHistory": func() any { return new(types.BlocksHistory) }, "RecentBlocks": func() any { return new(types.RecentBlocks) },
	"AuthPool": func() any { return new(types.AuthPool) }, "AuthPools": func() any { return new(types.AuthPools) },
	"AuthQueue": func() any { return new(types.AuthQueue) }, "AuthQueues": func() any { return new(types.AuthQueues) },
	"ServiceInfo": func() any { return new(types.ServiceInfo) }, "MetaCode": func() any { return new(types.MetaCode) },
	"DisputesRecords": func() any { return new(types.DisputesRecords) }, "ReadyRecord": func() any { return new(types.ReadyRecord) },
	"ReadyQueueItem": func() any { return new(types.ReadyQueueItem) }, "ReadyQueue": func() any { return new(types.ReadyQueue) },
	"AccumulatedQueueItem": func() any { return new(types.AccumulatedQueueItem) }, "AccumulatedQueue": func() any { return new(types.AccumulatedQueue) },
	"AlwaysAccumulateMap": func() any { return new(types.AlwaysAccumulateMap) }, "Privileges": func() any { return new(types.Privileges) },
	"SafroleState": func() any { return new(types.SafroleState) }, "Storage": func() any { return new(types.Storage) },
	"LookupMetaMapkey": func() any { return new(types.LookupMetaMapkey) }, "PreimagesMapEntry": func() any { return new(types.PreimagesMapEntry) },
	"LookupMetaMapEntry": func() any { return new(types.LookupMetaMapEntry) }, "ServiceAccount": func() any { return new(types.ServiceAccount) },
	"ServiceAccountState": func() any { return new(types.ServiceAccountState) }, "State": func() any { return new(types.State) },
	"DeferredTransfer": func() any { return new(types.DeferredTransfer) }, "Operand": func() any { return new(types.Operand) },
	"OperandOrDeferredTransfer": func() any { return new(types.OperandOrDeferredTransfer) },
	"ExtrinsicDataList":         func() any { return new(types.ExtrinsicDataList) },
	"ExportSegmentMatrix":       func() any { return new(types.ExportSegmentMatrix) }, "OpaqueHashMatrix": func() any { return new(types.OpaqueHashMatrix) },
	"WorkPackageBundle": func() any { return new(types.WorkPackageBundle) }, "BoundaryNode": func() any { return new(types.BoundaryNode) },
	"StateKeyVal": func() any { return new(types.StateKeyVal) }, "StateKeyVals": func() any { return new(types.StateKeyVals) },
	"AccumulatedServiceHash":   func() any { return new(types.AccumulatedServiceHash) },
	"AccumulatedServiceOutput": func() any { return new(types.AccumulatedServiceOutput) },
	"LastAccOut":               func() any { return new(types.LastAccOut) }, "AncestryItem": func() any { return new(types.AncestryItem) },
	"Ancestry": func() any { return new(types.Ancestry) },
	// fuzz protocol
	"FuzzPeerInfo": func() any { return new(fuzz.PeerInfo) }, "FuzzSetState": func() any { return new(fuzz.SetState) },
	"FuzzMessage": func() any { return new(fuzz.Message) },
}

// ---------------------------------------------------------------------------- value tree (no wire-format knowledge)

var plainString = reflect.TypeOf("")

func toTree(v reflect.Value) any {
	switch v.Kind() {
	case reflect.Uint8, reflect.Uint16, reflect.Uint32, reflect.Uint64, reflect.Uint:
		n := int(v.Type().Size())
		x := v.Uint()
		out := make([]int, n)
		for i := 0; i < n; i++ {
			out[i] = int(byte(x >> (8 * i)))
		}
		return out
	case reflect.Bool:
		return v.Bool()
	case reflect.String:
		if v.Type() == plainString {
			return vfd.B([]byte(v.String()))
		}
		return v.String() // named string constants (WorkExecResultType)
	case reflect.Array, reflect.Slice:
		if v.Type().Elem().Kind() == reflect.Uint8 {
			out := make([]int, v.Len())
			for i := range out {
				out[i] = int(v.Index(i).Uint())
			}
			return out
		}
		out := make([]any, v.Len())
		for i := range out {
			out[i] = toTree(v.Index(i))
		}
		return out
	case reflect.Ptr:
		if v.IsNil() {
			return []any{}
		}
		return []any{toTree(v.Elem())}
	case reflect.Struct:
		m := map[string]any{}
		t := v.Type()
		for i := 0; i < t.NumField(); i++ {
			if t.Field(i).IsExported() {
				m[t.Field(i).Name] = toTree(v.Field(i))
			}
		}
		return m
	case reflect.Map:
		out := make([]any, 0, v.Len())
		it := v.MapRange()
		for it.Next() {
			out = append(out, map[string]any{"k": toTree(it.Key()), "v": toTree(it.Value())})
		}
		// print order only (so that a seed gives the same trace text every run); the specification sorts by key itself
		keyText := func(e any) string { b, _ := json.Marshal(e.(map[string]any)["k"]); return string(b) }
		sort.Slice(out, func(i, j int) bool { return keyText(out[i]) < keyText(out[j]) })
		return out
	}
	panic("toTree: unsupported kind " + v.Kind().String() + " of " + v.Type().String())
}

// ---------------------------------------------------------------------------- seeded generation by reflection

// mode: 0 random, 1 minimal (everything empty / zero / absent), 2 rich (everything present, two items per list)
type gen struct {
	r    *vfd.Rng
	mode int
}

func (g *gen) fixedLen(name string) (int, bool) {
	switch name {
	case "ValidatorsData", "ValidatorsStatistics":
		return types.ValidatorsCount, true
	case "CoresStatistics", "AuthPools", "AuthQueues", "AvailabilityAssignments", "ServiceIDList", "Bitfield":
		return types.CoresCount, true
	case "AuthQueue":
		return types.AuthQueueSize, true
	case "TicketsMark", "ReadyQueue", "AccumulatedQueue":
		return types.EpochLength, true
	}
	return 0, false
}

func (g *gen) maxLen(name string) (int, bool) {
	switch name {
	case "AuthPool":
		return types.AuthPoolMaxSize, true
	case "BlocksHistory":
		return types.MaxBlocksHistory, true
	case "Ancestry":
		return types.MaxLookupAge, true
	}
	return 0, false
}

var boundary64 = []uint64{0, 1, 2, 0x7f, 0x80, 0xff, 0x100, 0x3fff, 0x4000, 0xffff, 0x10000, 0x1fffff, 0x200000, 0xffffff, 0x1000000,
	0xfffffff, 0x10000000, 0xffffffff, 0x100000000, 0x7ffffffff, 0x800000000, 0x3ffffffffff, 0x40000000000, 0x1ffffffffffff, 0x2000000000000,
	0xffffffffffffff, 0x100000000000000, 0x7fffffffffffffff, 0x8000000000000000, 0xffffffffffffffff,
	// multi-octet naturals whose prefix octet carries value bits (c1 05 00, e1 05 00 00, f1 07 00 00 00, ...)
	65541, 1<<24 + 5, 1<<32 + 7, 1<<41 + 9, 1<<50 + 11, 0x1f0005, 0x0f000005}

func (g *gen) uint(bits int) uint64 {
	var x uint64
	if g.mode == 1 {
		return 0
	}
	switch g.r.N(3) {
	case 0:
		x = boundary64[g.r.N(len(boundary64))]
	case 1:
		x = g.r.U64() >> uint(g.r.N(64))
	default:
		x = g.r.U64()
	}
	if bits < 64 {
		x &= (uint64(1) << uint(bits)) - 1
	}
	return x
}

func (g *gen) bytes(n int) []byte {
	b := make([]byte, n)
	switch g.r.N(4) {
	case 0: // zeros
	case 1:
		for i := range b {
			b[i] = 0xff
		}
	default:
		copy(b, g.r.Bytes(n))
	}
	return b
}

// length of a variable-length sequence at nesting budget `bud`
func (g *gen) seqLen(bud int, isBytes bool) int {
	if g.mode == 1 {
		return 0
	}
	if g.mode == 2 {
		if isBytes {
			return 3
		}
		return 2
	}
	if isBytes {
		switch g.r.N(8) {
		case 0, 4:
			return 0
		case 1:
			return 1
		case 2:
			return 127 + g.r.N(3) // around the 1 -> 2 byte length prefix
		case 3:
			if bud >= 3 {
				return 16383 + g.r.N(3) // around the 2 -> 3 byte length prefix
			}
			return 40
		default:
			return g.r.N(40)
		}
	}
	if bud <= 0 {
		return g.r.N(2)
	}
	switch g.r.N(6) {
	case 0:
		return 0
	case 1:
		return 1
	default:
		return g.r.N(bud + 2)
	}
}

var workExecTypes = []types.WorkExecResultType{types.WorkExecResultOk, types.WorkExecResultOutOfGas, types.WorkExecResultPanic,
	types.WorkExecResultBadExports, types.WorkExecResultReportOversize, types.WorkExecResultBadCode, types.WorkExecResultCodeOversize}

func (g *gen) value(t reflect.Type, bud int, field string) reflect.Value {
	v := reflect.New(t).Elem()
	name := t.Name()
	switch t.Kind() {
	case reflect.Uint8, reflect.Uint16, reflect.Uint32, reflect.Uint64:
		v.SetUint(g.uint(int(t.Size()) * 8))
	case reflect.Bool:
		v.SetBool(g.r.Bool())
	case reflect.String:
		v.SetString(string(g.bytes(g.seqLen(bud, true) % 300)))
	case reflect.Array:
		if t.Elem().Kind() == reflect.Uint8 {
			reflect.Copy(v, reflect.ValueOf(g.bytes(t.Len())))
		} else {
			for i := 0; i < t.Len(); i++ {
				v.Index(i).Set(g.value(t.Elem(), bud-1, ""))
			}
		}
	case reflect.Slice:
		isBytes := t.Elem().Kind() == reflect.Uint8
		n := g.seqLen(bud, isBytes)
		fixed := false
		if fl, ok := g.fixedLen(name); ok {
			n, fixed = fl, true
		} else if field == "EpochMark.Validators" {
			n, fixed = types.ValidatorsCount, true
		} else if field == "Verdict.Votes" {
			n, fixed = types.ValidatorsSuperMajority, true
		} else if field == "TicketsOrKeys.Tickets" || field == "TicketsOrKeys.Keys" {
			n, fixed = types.EpochLength, true
		} else if ml, ok := g.maxLen(name); ok && (n > ml || (g.mode == 0 && g.r.N(4) == 0)) {
			n = ml // the permitted maximum itself
		}
		if t.Elem().Size() > 2000 && n > 2 { // export segments
			n = 2
		}
		if n == 0 && !fixed && g.r.Bool() {
			return v // nil slice
		}
		s := reflect.MakeSlice(t, n, n)
		if name == "Bitfield" {
			for i := 0; i < n; i++ {
				s.Index(i).SetUint(uint64(g.r.N(2)))
			}
		} else if isBytes {
			reflect.Copy(s, reflect.ValueOf(g.bytes(n)))
		} else {
			eb := bud - 1
			if fixed && n > 8 {
				eb = 0 // long fixed sequences (queues): keep the items small
			}
			for i := 0; i < n; i++ {
				s.Index(i).Set(g.value(t.Elem(), eb, ""))
			}
		}
		v.Set(s)
	case reflect.Ptr:
		if g.mode == 2 || (g.mode == 0 && g.r.N(3) != 0) {
			p := reflect.New(t.Elem())
			p.Elem().Set(g.value(t.Elem(), bud-1, ""))
			v.Set(p)
		}
	case reflect.Map:
		n := g.seqLen(bud, false)
		if n == 0 && g.r.Bool() {
			return v
		}
		m := reflect.MakeMap(t)
		for i := 0; i < n; i++ {
			var k reflect.Value
			if t.Key().Kind() == reflect.String { // storage keys: non-empty byte strings, often sharing a prefix
				kb := g.bytes(g.r.N(35))
				if len(kb) > 0 && g.r.Bool() {
					kb[0] = byte(g.r.N(3))
				}
				k = reflect.ValueOf(string(kb)).Convert(t.Key())
			} else {
				k = g.value(t.Key(), 0, "")
				if t.Key().Kind() == reflect.Struct && i > 0 && (g.mode == 2 || g.r.Bool()) {
					// same leading fields (same hash), another last field (another length)
					prev := m.MapKeys()[0]
					nf := t.Key().NumField()
					k = reflect.New(t.Key()).Elem()
					k.Set(prev)
					k.Field(nf - 1).Set(g.value(t.Key().Field(nf-1).Type, 0, ""))
				}
				if t.Key().Kind() == reflect.Uint32 && g.r.Bool() { // ids whose numeric order differs from their byte order
					k.SetUint(uint64([]uint32{1, 255, 256, 257, 65536, 0x01000000, 0xff, 0xff00}[g.r.N(8)]))
				}
			}
			var e reflect.Value
			if t.Elem().Kind() == reflect.Bool {
				e = reflect.ValueOf(true)
			} else {
				e = g.value(t.Elem(), bud-1, "")
			}
			m.SetMapIndex(k, e)
		}
		v.Set(m)
	case reflect.Struct:
		switch name {
		case "WorkExecResult":
			ty := workExecTypes[g.r.N(len(workExecTypes))]
			var data []byte
			if ty == types.WorkExecResultOk {
				data = g.bytes(g.seqLen(bud, true))
			}
			return reflect.ValueOf(types.GetWorkExecResult(ty, data))
		case "TicketsOrKeys":
			f := "Tickets"
			if g.r.Bool() {
				f = "Keys"
			}
			sf, _ := t.FieldByName(f)
			v.FieldByName(f).Set(g.value(sf.Type, bud-1, "TicketsOrKeys."+f))
			return v
		case "OperandOrDeferredTransfer":
			f := "Operand"
			if g.r.Bool() {
				f = "DeferredTransfer"
			}
			sf, _ := t.FieldByName(f)
			p := reflect.New(sf.Type.Elem())
			p.Elem().Set(g.value(sf.Type.Elem(), bud-1, ""))
			v.FieldByName(f).Set(p)
			return v
		case "Message":
			kinds := []struct {
				ty fuzz.MessageType
				f  string
			}{{fuzz.MessageType_PeerInfo, "PeerInfo"}, {fuzz.MessageType_SetState, "SetState"}, {fuzz.MessageType_StateRoot, "StateRoot"},
				{fuzz.MessageType_ImportBlock, "ImportBlock"}, {fuzz.MessageType_GetState, "GetState"}, {fuzz.MessageType_State, "State"},
				{fuzz.MessageType_ErrorMessage, "Error"}}
			k := kinds[g.r.N(len(kinds))]
			v.FieldByName("Type").SetUint(uint64(k.ty))
			sf, _ := t.FieldByName(k.f)
			p := reflect.New(sf.Type.Elem())
			p.Elem().Set(g.value(sf.Type.Elem(), bud-1, ""))
			v.FieldByName(k.f).Set(p)
			return v
		case "State":
			for i := 0; i < t.NumField(); i++ {
				if t.Field(i).Name == "Theta" { // not part of State.Encode (see Schema.tla)
					continue
				}
				v.Field(i).Set(g.value(t.Field(i).Type, bud-1, name+"."+t.Field(i).Name))
			}
			return v
		}
		for i := 0; i < t.NumField(); i++ {
			if !t.Field(i).IsExported() {
				continue
			}
			v.Field(i).Set(g.value(t.Field(i).Type, bud-1, name+"."+t.Field(i).Name))
		}
	default:
		panic("gen: unsupported kind " + t.Kind().String() + " of " + t.String())
	}
	return v
}

// deep copy in which every map is rebuilt with its keys inserted in another order
func (g *gen) rebuild(v reflect.Value) reflect.Value {
	out := reflect.New(v.Type()).Elem()
	switch v.Kind() {
	case reflect.Ptr:
		if !v.IsNil() {
			p := reflect.New(v.Type().Elem())
			p.Elem().Set(g.rebuild(v.Elem()))
			out.Set(p)
		}
	case reflect.Slice:
		if !v.IsNil() {
			s := reflect.MakeSlice(v.Type(), v.Len(), v.Len())
			for i := 0; i < v.Len(); i++ {
				s.Index(i).Set(g.rebuild(v.Index(i)))
			}
			out.Set(s)
		}
	case reflect.Array:
		for i := 0; i < v.Len(); i++ {
			out.Index(i).Set(g.rebuild(v.Index(i)))
		}
	case reflect.Struct:
		for i := 0; i < v.NumField(); i++ {
			if v.Type().Field(i).IsExported() {
				out.Field(i).Set(g.rebuild(v.Field(i)))
			}
		}
	case reflect.Map:
		if !v.IsNil() {
			keys := v.MapKeys()
			for i := len(keys) - 1; i > 0; i-- {
				j := g.r.N(i + 1)
				keys[i], keys[j] = keys[j], keys[i]
			}
			m := reflect.MakeMapWithSize(v.Type(), g.r.N(3)*8)
			for _, k := range keys {
				m.SetMapIndex(k, g.rebuild(v.MapIndex(k)))
			}
			out.Set(m)
		}
	default:
		out.Set(v)
	}
	return out
}

// ---------------------------------------------------------------------------- codec entry points

var emptyHSM = types.HashSegmentMap{}

func encodeWith(e *types.Encoder, ty string, p any) ([]byte, error) {
	switch x := p.(type) {
	case *fuzz.Message:
		return x.MarshalBinary()
	case *fuzz.PeerInfo:
		return x.MarshalBinary()
	}
	e.SetHashSegmentMap(emptyHSM)
	return e.Encode(p)
}

func encodeFresh(ty string, p any) ([]byte, error) { return encodeWith(types.NewEncoder(), ty, p) }

func encodePooled(ty string, p any) ([]byte, error) {
	e := types.GetEncoder()
	defer types.PutEncoder(e)
	return encodeWith(e, ty, p)
}

// exactEntry: the entry point is handed the whole message and reports no consumed count (UnmarshalBinary)
func exactEntry(p any) bool {
	_, ok := p.(*fuzz.PeerInfo)
	return ok
}

// Values whose encoding is REFUSED after part of it has been written (shapes the encoder rejects: an import spec
// without a segment map, a wrong fixed length).  They are encoded on the same encoder objects as the good values,
// in between them: a refusal must leave nothing behind in a reused / pooled encoder.
func poisonValues() []any {
	one := make([]types.EpochMarkValidatorKeys, 1)
	return []any{
		&types.WorkItem{Service: 7, Payload: types.ByteSequence{1, 2, 3}, ImportSegments: []types.ImportSpec{{Index: 1}}},
		&types.EpochMark{Validators: one},
		&types.Verdict{Age: 9, Votes: []types.Judgement{{Vote: true}}},
		&types.TicketsOrKeys{Tickets: []types.TicketBody{{Attempt: 1}}},
		&types.Header{Slot: 5, EpochMark: &types.EpochMark{Validators: one}},
	}
}

// poison runs a refused encoding on e (no segment map installed) and reports whether it was refused
func poison(e *types.Encoder, k int) bool {
	ps := poisonValues()
	e.SetHashSegmentMap(nil)
	_, err := e.Encode(ps[k%len(ps)])
	return err != nil
}

// decode returns (consumed, err); consumed = -1 when the entry point does not report it
func decode(ty string, in []byte, p any) (int, error) {
	switch x := p.(type) {
	case *fuzz.Message:
		n, err := x.ReadFrom(bytes.NewReader(in))
		return int(n), err
	case *fuzz.PeerInfo:
		return -1, x.UnmarshalBinary(in)
	}
	d := types.NewDecoder()
	d.SetHashSegmentMap(emptyHSM)
	return d.DecodeWithConsumed(in, p)
}

func errStr(err error) string {
	if err == nil {
		return ""
	}
	s := err.Error()
	if len(s) > 120 {
		s = s[:120]
	}
	if s == "" {
		s = "error"
	}
	return s
}

func typeList() []string {
	var names []string
	if s := os.Getenv("VF_TYPES"); s != "" {
		for _, n := range strings.Split(s, ",") {
			if _, ok := registry[n]; ok {
				names = append(names, n)
			} else {
				panic("unknown type in VF_TYPES: " + n)
			}
		}
		return names
	}
	for n := range registry {
		names = append(names, n)
	}
	sort.Strings(names)
	return names
}

type item struct {
	ty   string
	ptr  reflect.Value // *T
	alts []reflect.Value
	encs [][]byte
	errs []string
}

func (it *item) add(b []byte, err error) {
	if err != nil {
		it.errs = append(it.errs, errStr(err))
		return
	}
	for _, x := range it.encs {
		if bytes.Equal(x, b) {
			return
		}
	}
	it.encs = append(it.encs, b)
}

func TestRun(t *testing.T) {
	// keep a runaway allocation from hurting the machine: address space limit 10 GiB
	lim := syscall.Rlimit{Cur: 10 << 30, Max: 10 << 30}
	_ = syscall.Setrlimit(syscall.RLIMIT_AS, &lim)
	out := newOut(vfd.Env("VF_OUT", "trace.ndjson"))
	defer out.Close()
	switch vfd.Env("VF_MODE", "rt") {
	case "consts":
		out.Emit(map[string]any{"op": "consts", "V": types.ValidatorsCount, "C": types.CoresCount, "E": types.EpochLength,
			"SM": types.ValidatorsSuperMajority, "ABB": types.AvailBitfieldBytes, "Q": types.AuthQueueSize, "O": types.AuthPoolMaxSize,
			"H": types.MaxBlocksHistory, "L": types.MaxLookupAge, "mode": types.TEST_MODE, "types": typeList()})
	case "rt":
		runRT(out)
	case "dec":
		runDec(out)
	default:
		t.Fatal("unknown VF_MODE")
	}
}

func runRT(out *outw) {
	var refused int64
	seed := uint64(vfd.EnvInt("VF_SEED", 1))
	n := vfd.EnvInt("VF_N", 20)
	budgetBytes := vfd.EnvInt("VF_BYTES_PER_TYPE", 60000)
	g := &gen{r: vfd.NewRng(seed)}
	var items []*item
	for _, ty := range typeList() {
		rt := reflect.TypeOf(registry[ty]()).Elem()
		total := 0
		for i := 0; i < n; i++ {
			bud := []int{0, 1, 2, 3, 3}[g.r.N(5)]
			g.mode = 0
			if i == 0 {
				g.mode = 1
			} else if i == 1 {
				g.mode, bud = 2, 3
			}
			p := reflect.New(rt)
			p.Elem().Set(g.value(rt, bud, ""))
			it := &item{ty: ty, ptr: p}
			for k := 0; k < 4; k++ {
				q := reflect.New(rt)
				q.Elem().Set(g.rebuild(p.Elem()))
				it.alts = append(it.alts, q)
			}
			items = append(items, it)
			if b, err := encodeFresh(ty, p.Interface()); err == nil {
				total += len(b)
			}
			g.mode = 0
			if total > budgetBytes && i >= 1 {
				break
			}
		}
	}
	// shuffle so that pooled encoders are reused across different types
	order := make([]int, len(items))
	for i := range order {
		order[i] = i
	}
	for i := len(order) - 1; i > 0; i-- {
		j := g.r.N(i + 1)
		order[i], order[j] = order[j], order[i]
	}
	const W = 8
	for base := 0; base < len(order); base += W {
		grp := order[base:min(base+W, len(order))]
		// fresh encoder, original value and two rebuilt copies; and one encoder object reused after a refused encoding
		for gi, ix := range grp {
			it := items[ix]
			e := types.NewEncoder()
			if poison(e, base+gi) {
				refused++
			}
			it.add(encodeWith(e, it.ty, it.ptr.Interface()))
			it.add(encodeFresh(it.ty, it.ptr.Interface()))
			it.add(encodeFresh(it.ty, it.alts[0].Interface()))
			it.add(encodeFresh(it.ty, it.alts[1].Interface()))
		}
		// pooled encoders, all goroutines of the group released together
		var wg sync.WaitGroup
		start := make(chan struct{})
		res := make([][][]byte, len(grp))
		rerr := make([][]error, len(grp))
		for gi, ix := range grp {
			wg.Add(1)
			go func(gi int, it *item) {
				defer wg.Done()
				<-start
				for k, q := range []reflect.Value{it.ptr, it.alts[2], it.alts[3], it.ptr} {
					// a refused encoding on a pooled encoder: handed back to the pool (k even: whoever draws it next
					// encodes a good value with it) or reused at once by this goroutine (k odd)
					e := types.GetEncoder()
					if poison(e, gi+k) {
						atomic.AddInt64(&refused, 1)
					}
					if k%2 == 0 {
						types.PutEncoder(e)
						runtime.Gosched()
						e = types.GetEncoder()
					}
					b, err := encodeWith(e, it.ty, q.Interface())
					types.PutEncoder(e)
					res[gi] = append(res[gi], b)
					rerr[gi] = append(rerr[gi], err)
					runtime.Gosched()
				}
			}(gi, items[ix])
		}
		close(start)
		wg.Wait()
		for gi, ix := range grp {
			for k := range res[gi] {
				items[ix].add(res[gi][k], rerr[gi][k])
			}
		}
	}
	for _, it := range items {
		rec := map[string]any{"op": "rt", "ty": it.ty, "v": toTree(it.ptr.Elem()), "nenc": 8, "refused_between": refused, "encerr": strings.Join(it.errs, "; ")}
		encs := make([]any, len(it.encs))
		for i, b := range it.encs {
			encs[i] = vfd.B(b)
		}
		rec["encs"] = encs
		rec["ok"], rec["consumed"], rec["dec"], rec["err"], rec["panic"] = false, 0, []any{}, "", ""
		if len(it.encs) > 0 {
			q := registry[it.ty]()
			var consumed int
			var err error
			p, msg := vfd.Guard(func() { consumed, err = decode(it.ty, it.encs[0], q) })
			if p {
				rec["panic"] = msg
			} else if err != nil {
				rec["err"] = errStr(err)
			} else {
				rec["ok"], rec["consumed"], rec["dec"] = true, consumed, toTree(reflect.ValueOf(q).Elem())
			}
		}
		out.Emit(rec)
	}
}

func runDec(out *outw) {
	cases := vfd.ReadCases(vfd.Env("VF_CASES", "cases.ndjson"))
	from := vfd.EnvInt("VF_FROM", 0)
	var ms runtime.MemStats
	gross, maxGross := 0, vfd.EnvInt("VF_MAX_GROSS", 10)
	for i, c := range cases {
		if i < from {
			continue
		}
		ty := vfd.S(c["ty"])
		in := vfd.Bytes(c["in"])
		// announce the case first: if the process dies in it (fatal out-of-memory) the check knows where
		out.Emit(map[string]any{"op": "begin", "i": i})
		out.Flush()
		rec := map[string]any{"op": "dec", "i": i, "ty": ty, "cls": vfd.S(c["cls"]), "in": vfd.B(in), "ok": false, "consumed": 0,
			"dec": []any{}, "reenc": []int{}, "err": "", "panic": "", "reencerr": ""}
		mk, okTy := registry[ty]
		if !okTy {
			panic("unknown type " + ty)
		}
		q := mk()
		rec["exact"] = exactEntry(q)
		var consumed int
		var err error
		buf := append([]byte(nil), in...)
		runtime.ReadMemStats(&ms)
		a0 := ms.TotalAlloc
		p, msg := vfd.Guard(func() { consumed, err = decode(ty, buf, q) })
		runtime.ReadMemStats(&ms)
		rec["alloc"] = vfd.U64LE(ms.TotalAlloc - a0)
		if p || ms.TotalAlloc-a0 > 256<<20 {
			gross++
		}
		if p {
			rec["panic"] = "panic: " + msg
		} else if err != nil {
			rec["err"] = errStr(err)
		} else {
			rec["ok"], rec["consumed"] = true, consumed
			p2, msg2 := vfd.Guard(func() {
				rec["dec"] = toTree(reflect.ValueOf(q).Elem())
				b, e2 := encodeFresh(ty, q)
				if e2 != nil {
					rec["reencerr"] = errStr(e2)
				} else {
					rec["reenc"] = vfd.B(b)
				}
			})
			if p2 {
				rec["reencerr"] = "panic: " + msg2
			}
		}
		out.Emit(rec)
		// Enough is enough: after many panics / gross over-allocations the verdict is settled and every further
		// such case costs seconds (gigabytes are really allocated); the remaining cases are reported as not run.
		if gross >= maxGross {
			out.Emit(map[string]any{"op": "stopped", "i": i, "ty": ty, "left": len(cases) - i - 1})
			return
		}
	}
}

// ndjson writer with an explicit Flush (vfd.Out has none)
type outw struct {
	f *os.File
	w *bufio.Writer
}

func newOut(path string) *outw {
	f, err := os.Create(path)
	if err != nil {
		panic(err)
	}
	return &outw{f: f, w: bufio.NewWriterSize(f, 1<<20)}
}
func (o *outw) Emit(rec any) {
	b, err := json.Marshal(rec)
	if err != nil {
		panic(err)
	}
	o.w.Write(b)
	o.w.WriteByte('\n')
}
func (o *outw) Flush() { o.w.Flush() }
func (o *outw) Close() { o.w.Flush(); o.f.Close() }

func min(a, b int) int {
	if a < b {
		return a
	}
	return b
}

var _ = fmt.Sprint

package assurancesdrv

// X-step driver for X01 (availability assurances, Gray Paper 11.2).  Per block it
//   - installs the prior pending reports rho, kappa (prior = posterior), tau and the block
//     (header parent / slot, disputes + assurances extrinsics) in the singleton chain state,
//   - runs extrinsic.Disputes() (rho-dagger; wonky verdicts signed with real keys when the case
//     judges reports), extrinsic.Assurance(), and - for the block's guarantees -
//     GuaranteeController.ValidateWorkReports() + TransitionWorkReport() (11.29, 11.43),
//   - records what the store holds afterwards.
// The assurances extrinsic is built as WIRE BYTES (count, then anchor ++ bitfield octets ++
// index u16 ++ signature per assurance) and decoded with the repository's decoder, signed with REAL
// Ed25519 keys (crypto/ed25519) over "jam_available" ++ blake2b(anchor ++ bitfield octets)
// (literal string and x/crypto blake2b on purpose: the repository's constants and wrappers are part
// of what is verified).  It only executes and records; spec/stf/Assurances_Trace.tla judges.
//
// Case: {"tau":t,"rho":[[report id,slot] per core],"blocks":[{"slot":s,"judge":[ids],
//        "as":[{"v":idx,"f":octet | [octets],"anchor":"ok|bad","sig":kind}],"place":[[core,id]]}]}
// (a sparse "rho" may be given as {"core":[id,slot]} for the full-size configuration, VF_MODE=full)
// sig kinds: ok | ctx (other context string) | key (next validator's key) | bits (other bitfield)
// | parent (other anchor) | nohash (payload not hashed) | zero (64 zero bytes).
// After an accepted block the posterior rho becomes the prior one the way ChainState.StateCommit
// does it (same slice); after a refused block the prior rho is re-installed from a private copy (as
// RestoreBlockAndState reloads it).

import (
	"bufio"
	"bytes"
	"crypto/ed25519"
	"crypto/sha256"
	"encoding/json"
	"os"
	"sort"
	"strconv"
	"testing"

	"golang.org/x/crypto/blake2b"

	"github.com/New-JAMneration/JAM-Protocol/internal/blockchain"
	"github.com/New-JAMneration/JAM-Protocol/internal/extrinsic"
	"github.com/New-JAMneration/JAM-Protocol/internal/types"
	AssuranceErrorCode "github.com/New-JAMneration/JAM-Protocol/internal/types/error_codes/assurances"
	ReportsErrorCode "github.com/New-JAMneration/JAM-Protocol/internal/types/error_codes/reports"
	"github.com/New-JAMneration/JAM-Protocol/internal/verifdrv/vfd"
	"github.com/New-JAMneration/JAM-Protocol/logger"
)

type world struct {
	seed uint64
	priv []ed25519.PrivateKey
	pub  []types.Ed25519Public
	ids  map[types.WorkPackageHash]int
}

func newWorld(seed uint64) *world {
	w := &world{seed: seed, ids: map[types.WorkPackageHash]int{}}
	for i := 0; i < types.ValidatorsCount+2; i++ {
		s := sha256.Sum256([]byte{byte(seed), byte(seed >> 8), byte(i), byte(i >> 8), 'x', '0', '1'})
		priv := ed25519.NewKeyFromSeed(s[:])
		var pub types.Ed25519Public
		copy(pub[:], priv.Public().(ed25519.PublicKey))
		w.priv = append(w.priv, priv)
		w.pub = append(w.pub, pub)
	}
	return w
}

func (w *world) report(id, core int) types.WorkReport {
	var r types.WorkReport
	r.CoreIndex = types.CoreIndex(core)
	r.PackageSpec.Hash = types.WorkPackageHash(sha256.Sum256([]byte{byte(w.seed), byte(id), byte(id >> 8), 'p', 'k', 'g'}))
	r.AuthOutput = types.ByteSequence{byte(id), 0x01}
	r.Results = []types.WorkResult{}
	w.ids[r.PackageSpec.Hash] = id
	return r
}

func (w *world) idOf(r *types.WorkReport) int {
	if id, ok := w.ids[r.PackageSpec.Hash]; ok {
		return id
	}
	return -1
}

func (w *world) rhoOut(rho types.AvailabilityAssignments) [][]int {
	out := [][]int{}
	for _, a := range rho {
		if a == nil {
			out = append(out, []int{0, 0})
		} else {
			out = append(out, []int{w.idOf(&a.Report), int(a.AssignedSlot)})
		}
	}
	return out
}

func reportHash(r *types.WorkReport) types.WorkReportHash {
	enc := types.GetEncoder()
	b, err := enc.Encode(r)
	types.PutEncoder(enc)
	if err != nil {
		panic(err)
	}
	return types.WorkReportHash(blake2b.Sum256(b))
}

func octets(v any) []byte {
	if a, ok := v.([]any); ok {
		out := make([]byte, len(a))
		for i, x := range a {
			out[i] = byte(vfd.I(x))
		}
		return out
	}
	out := make([]byte, types.AvailBitfieldBytes)
	out[0] = byte(vfd.I(v))
	return out
}

// natural-number prefix of a sequence length (general compact encoding, lengths below 2^14)
func lenPrefix(n int) []byte {
	if n < 128 {
		return []byte{byte(n)}
	}
	return []byte{0x80 | byte(n>>8), byte(n)}
}

func (w *world) signAssurance(v int, anchor types.HeaderHash, fIn []byte, kind string) types.Ed25519Signature {
	f := append([]byte{}, fIn...)
	var sig types.Ed25519Signature
	ctx := "jam_available"
	signer := v % types.ValidatorsCount
	payloadAnchor := anchor
	switch kind {
	case "zero":
		return sig
	case "ctx":
		ctx = "jam_guarantee"
	case "key":
		signer = (v + 1) % types.ValidatorsCount
	case "bits":
		f[0] ^= 1
	case "parent":
		payloadAnchor[0] ^= 0xFF
	}
	body := append(append([]byte{}, payloadAnchor[:]...), f...)
	var msg []byte
	if kind == "nohash" {
		msg = append([]byte(ctx), body...)
	} else {
		h := blake2b.Sum256(body)
		msg = append([]byte(ctx), h[:]...)
	}
	copy(sig[:], ed25519.Sign(w.priv[signer], msg))
	return sig
}

func list(v any) []map[string]any {
	out := []map[string]any{}
	if v == nil {
		return out
	}
	for _, x := range v.([]any) {
		out = append(out, x.(map[string]any))
	}
	return out
}

func pairs(v any) [][]int {
	out := [][]int{}
	if v == nil {
		return out
	}
	for _, x := range v.([]any) {
		p := x.([]any)
		out = append(out, []int{vfd.I(p[0]), vfd.I(p[1])})
	}
	return out
}

func ints(v any) []int {
	out := []int{}
	if v == nil {
		return out
	}
	for _, x := range v.([]any) {
		out = append(out, vfd.I(x))
	}
	return out
}

func assuranceErr(c types.ErrorCode) string {
	switch c {
	case AssuranceErrorCode.BadAttestationParent:
		return "anchor"
	case AssuranceErrorCode.BadValidatorIndex:
		return "index"
	case AssuranceErrorCode.CoreNotEngaged:
		return "core"
	case AssuranceErrorCode.BadSignature:
		return "sig"
	case AssuranceErrorCode.NotSortedOrUniqueAssurers:
		return "order"
	}
	return "other"
}

func runCase(out *vfd.Out, w *world, c map[string]any) {
	blockchain.ResetInstance()
	cs := blockchain.GetInstance()
	V, C := types.ValidatorsCount, types.CoresCount
	kappa := make(types.ValidatorsData, V)
	for i := range kappa {
		kappa[i].Ed25519 = w.pub[i]
		kappa[i].Bandersnatch[0] = byte(i + 1)
	}
	tau := types.TimeSlot(vfd.I(c["tau"]))
	rho := make(types.AvailabilityAssignments, C)
	if sparse, ok := c["rho"].(map[string]any); ok {
		for k, x := range sparse {
			i, _ := strconv.Atoi(k)
			p := x.([]any)
			rho[i] = &types.AvailabilityAssignment{Report: w.report(vfd.I(p[0]), i), AssignedSlot: types.TimeSlot(vfd.I(p[1]))}
		}
	} else {
		for i, p := range pairs(c["rho"]) {
			if i < C && p[0] > 0 {
				rho[i] = &types.AvailabilityAssignment{Report: w.report(p[0], i), AssignedSlot: types.TimeSlot(p[1])}
			}
		}
	}
	alpha := make(types.AuthPools, C)
	for i := range alpha {
		alpha[i] = types.AuthPool{types.AuthorizerHash{}}
	}
	cs.GetPriorStates().SetKappa(kappa)
	cs.GetPriorStates().SetLambda(kappa)
	cs.GetPriorStates().SetAlpha(alpha)
	cs.GetPriorStates().SetRho(rho)
	cs.GetPriorStates().SetTau(tau)
	out.Emit(map[string]any{"ev": "Reset", "V": V, "C": C, "U": types.WorkReportTimeout, "tau": int(tau), "rho": w.rhoOut(rho)})

	for bi, b := range list(c["blocks"]) {
		slot := types.TimeSlot(vfd.I(b["slot"]))
		judge, asIn, place := ints(b["judge"]), list(b["as"]), pairs(b["place"])
		prior := cs.GetPriorStates().GetRho()
		rec := map[string]any{"ev": "Block", "slot": int(slot), "tau": int(tau), "rho": w.rhoOut(prior), "judge": judge, "as": asIn, "place": place}
		// private copy of the prior pending reports (what a reload from the database would give)
		saved := make(types.AvailabilityAssignments, len(prior))
		for i, a := range prior {
			if a != nil {
				cp := *a
				saved[i] = &cp
			}
		}
		parent := types.HeaderHash(sha256.Sum256([]byte{byte(w.seed), byte(bi), 'p', 'a', 'r'}))
		other := types.HeaderHash(sha256.Sum256([]byte{byte(w.seed), byte(bi), 'o', 't', 'h'}))

		// disputes extrinsic: one wonky verdict (V/3 positive of 2V/3+1 judgements) per judged report
		var dis types.DisputesExtrinsic
		epoch := types.U32(tau) / types.U32(types.EpochLength)
		for _, id := range judge {
			core := 0
			for i, a := range prior {
				if a != nil && w.idOf(&a.Report) == id {
					core = i
				}
			}
			r := w.report(id, core)
			h := reportHash(&r)
			vd := types.Verdict{Target: h, Age: epoch}
			for i := 0; i < types.ValidatorsSuperMajority; i++ {
				vote := i < V/3
				ctx := "jam_invalid"
				if vote {
					ctx = "jam_valid"
				}
				var sig types.Ed25519Signature
				copy(sig[:], ed25519.Sign(w.priv[i], append([]byte(ctx), h[:]...)))
				vd.Votes = append(vd.Votes, types.Judgement{Vote: vote, Index: types.ValidatorIndex(i), Signature: sig})
			}
			dis.Verdicts = append(dis.Verdicts, vd)
		}
		sort.Slice(dis.Verdicts, func(a, b int) bool { return bytes.Compare(dis.Verdicts[a].Target[:], dis.Verdicts[b].Target[:]) < 0 })

		// assurances extrinsic as wire bytes
		wire := lenPrefix(len(asIn))
		for _, a := range asIn {
			v, f := vfd.I(a["v"]), octets(a["f"])
			a["f"] = vfd.B(f)
			anchor := parent
			if vfd.S(a["anchor"]) != "ok" {
				anchor = other
			}
			sig := w.signAssurance(v, anchor, f, vfd.S(a["sig"]))
			wire = append(wire, anchor[:]...)
			wire = append(wire, f...)
			wire = append(wire, byte(v), byte(v>>8))
			wire = append(wire, sig[:]...)
		}

		stage, errName := "ok", ""
		var ext types.AssurancesExtrinsic
		im := cs.GetIntermediateStates()
		// rho-dagger is read right after Disputes(), rho-ddagger and W right after Assurance(): the store
		// reuses the slices (prior rho, rho-dagger, rho-ddagger and posterior rho can be one slice)
		snap := func() {
			rec["rho_dd"] = w.rhoOut(im.GetRhoDoubleDagger())
			wl := [][]int{}
			for i := range im.GetAvailableWorkReports() {
				r := im.GetAvailableWorkReports()[i]
				wl = append(wl, []int{w.idOf(&r), int(r.CoreIndex)})
			}
			rec["w"] = wl
		}
		snap()
		rec["rho_dagger"] = w.rhoOut(im.GetRhoDagger())
		panicked, msg := vfd.Guard(func() {
			if derr := types.NewDecoder().Decode(wire, &ext); derr != nil {
				stage, errName = "decode", "decode"
				return
			}
			cs.AddBlock(types.Block{Header: types.Header{Parent: parent, Slot: slot, ExtrinsicHash: types.OpaqueHash{byte(bi), 1}},
				Extrinsic: types.Extrinsic{Disputes: dis, Assurances: ext}})
			cs.GetPosteriorStates().SetTau(slot)
			cs.GetPosteriorStates().SetKappa(kappa)
			if _, derr := extrinsic.Disputes(); derr != nil {
				stage, errName = "disputes", derr.Error()
				return
			}
			rec["rho_dagger"] = w.rhoOut(im.GetRhoDagger())
			aerr := extrinsic.Assurance()
			snap()
			if aerr != nil {
				stage, errName = "assurances", assuranceErr(*aerr)
				return
			}
			g := extrinsic.NewGuaranteeController()
			for _, p := range place {
				g.Guarantees = append(g.Guarantees, types.ReportGuarantee{Report: w.report(p[1], p[0]), Slot: slot})
			}
			if gerr := g.ValidateWorkReports(); gerr != nil {
				stage, errName = "reports", "other"
				if ec, ok := gerr.(*types.ErrorCode); ok && *ec == ReportsErrorCode.CoreEngaged {
					errName = "core_engaged"
				}
				return
			}
			g.TransitionWorkReport()
		})
		if panicked {
			rec["ev"], rec["msg"] = "GoPanic", msg
			out.Emit(rec)
			return
		}
		rec["stage"], rec["err"] = stage, errName
		post := cs.GetPosteriorStates().GetRho()
		rec["rho_post"] = w.rhoOut(post)
		rec["prior_after"] = w.rhoOut(cs.GetPriorStates().GetRho())
		postSet := false
		for _, a := range post {
			if a != nil {
				postSet = true
			}
		}
		rec["post_set"] = postSet
		out.Emit(rec)
		if stage == "ok" {
			// posterior becomes prior (ChainState.StateCommit moves the whole state this way)
			cs.GetPriorStates().SetRho(post)
			cs.GetPriorStates().SetTau(slot)
			tau = slot
		} else {
			cs.GetPriorStates().SetRho(saved)
		}
		cs.GetPosteriorStates().SetRho(nil)
	}
}

func TestVerifAssurances(t *testing.T) {
	logger.ConfigureLogger("main", logger.LoggerConfig{Level: "FATAL", Enabled: false})
	if vfd.Env("VF_MODE", "tiny") == "full" {
		types.SetFullMode()
	} else {
		types.SetTinyMode()
	}
	f, err := os.Open(vfd.Env("VF_CASES", "cases.ndjson"))
	if err != nil {
		t.Fatal(err)
	}
	defer f.Close()
	out := vfd.NewOut(vfd.Env("VF_OUT", "trace.ndjson"))
	defer out.Close()
	w := newWorld(uint64(vfd.EnvInt("VF_SEED", 1)))
	sc := bufio.NewScanner(f)
	sc.Buffer(make([]byte, 1<<20), 1<<26)
	n := 0
	for sc.Scan() {
		if len(sc.Bytes()) == 0 {
			continue
		}
		var c map[string]any
		if err := json.Unmarshal(sc.Bytes(), &c); err != nil {
			t.Fatal(err)
		}
		n++
		runCase(out, w, c)
	}
	blockchain.ResetInstance()
	t.Logf("cases=%d events=%d", n, out.N)
}

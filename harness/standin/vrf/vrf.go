// Package vrf is a deterministic pure-Go TEST DOUBLE for the missing submodule
// pkg/Rust-VRF/vrf-func-ffi/src (a cgo wrapper around a Rust Bandersnatch VRF library that is
// not present offline).  It is injected with `go build -overlay` by /verif only; it is not part
// of the verified code.  See /verif/DESIGN.md section 3.1.
//
// Scheme (no cryptographic meaning):
//   public key      = B("pk" ‖ sk)
//   IETF signature  = out(32) ‖ tag(32) ‖ zeros(32)     (96 bytes)
//                     out = B("out" ‖ pk ‖ context)  when produced by IETFSign
//                     tag = B("ietf" ‖ pk ‖ context ‖ message ‖ out)
//   ring signature  = out(32) ‖ tag(32) ‖ zeros(720)    (784 bytes)
//                     tag = B("ring" ‖ commitment ‖ context ‖ message ‖ out)
//   VRF output Y(sig) = sig[0:32]
// Verification checks the tag only, so a generator can mint a signature with any chosen VRF
// output (ticket identifier / seal output) via ForgeIETF / ForgeRing.
package vrf

import (
	"errors"

	"golang.org/x/crypto/blake2b"
)

const (
	IETFSigSize = 96
	RingSigSize = 784
)

func b(parts ...[]byte) []byte {
	h, _ := blake2b.New256(nil)
	for _, p := range parts {
		var l [4]byte
		l[0], l[1], l[2], l[3] = byte(len(p)), byte(len(p)>>8), byte(len(p)>>16), byte(len(p)>>24)
		h.Write(l[:])
		h.Write(p)
	}
	return h.Sum(nil)
}

func GetPublicKeyFromSecret(sk []byte) ([]byte, error) {
	if len(sk) != 32 {
		return nil, errors.New("vrf stand-in: secret must be 32 bytes")
	}
	return b([]byte("pk"), sk), nil
}

func ietfTag(pk, context, message, out []byte) []byte {
	return b([]byte("ietf"), pk, context, message, out)
}

// ForgeIETF builds a signature valid for pk with an arbitrary VRF output.
func ForgeIETF(pk, context, message, out []byte) []byte {
	sig := make([]byte, IETFSigSize)
	copy(sig[0:32], out)
	copy(sig[32:64], ietfTag(pk, context, message, sig[0:32]))
	return sig
}

func IETFSign(sk, context, message []byte) ([]byte, error) {
	pk, err := GetPublicKeyFromSecret(sk)
	if err != nil {
		return nil, err
	}
	out := b([]byte("out"), pk, context)
	return ForgeIETF(pk, context, message, out), nil
}

func IETFVerify(context, message, signature, signerKey []byte) ([]byte, error) {
	if len(signature) != IETFSigSize {
		return nil, errors.New("vrf stand-in: bad signature length")
	}
	if len(signerKey) != 32 {
		return nil, errors.New("vrf stand-in: bad key length")
	}
	tag := ietfTag(signerKey, context, message, signature[0:32])
	for i := 0; i < 32; i++ {
		if tag[i] != signature[32+i] {
			return nil, errors.New("vrf stand-in: invalid signature")
		}
	}
	for i := 64; i < IETFSigSize; i++ {
		if signature[i] != 0 {
			return nil, errors.New("vrf stand-in: invalid signature")
		}
	}
	out := make([]byte, 32)
	copy(out, signature[0:32])
	return out, nil
}

func VRFIetfOutput(signature []byte) ([]byte, error) {
	if len(signature) < 32 {
		return nil, errors.New("vrf stand-in: short signature")
	}
	out := make([]byte, 32)
	copy(out, signature[0:32])
	return out, nil
}

// ---- ring ----

type Verifier struct {
	ring       []byte
	ringSize   uint
	commitment []byte
}

func Commitment(ring []byte) []byte {
	c := make([]byte, 0, 144)
	for i := 0; len(c) < 144; i++ {
		c = append(c, b([]byte("commit"), []byte{byte(i)}, ring)...)
	}
	return c[:144]
}

func NewVerifier(ring []byte, ringSize uint) (*Verifier, error) {
	if uint(len(ring)) != ringSize*32 {
		return nil, errors.New("vrf stand-in: ring length mismatch")
	}
	r := make([]byte, len(ring))
	copy(r, ring)
	return &Verifier{ring: r, ringSize: ringSize, commitment: Commitment(r)}, nil
}

func (v *Verifier) Free() {}

func (v *Verifier) GetCommitment() ([]byte, error) {
	c := make([]byte, len(v.commitment))
	copy(c, v.commitment)
	return c, nil
}

func ringTag(commitment, context, message, out []byte) []byte {
	return b([]byte("ring"), commitment, context, message, out)
}

// ForgeRing builds a ring signature valid for the ring with an arbitrary VRF output.
func ForgeRing(ring, context, message, out []byte) []byte {
	sig := make([]byte, RingSigSize)
	copy(sig[0:32], out)
	copy(sig[32:64], ringTag(Commitment(ring), context, message, sig[0:32]))
	return sig
}

func (v *Verifier) RingVerify(context, message, signature []byte) ([]byte, error) {
	if len(signature) != RingSigSize {
		return nil, errors.New("vrf stand-in: bad ring signature length")
	}
	tag := ringTag(v.commitment, context, message, signature[0:32])
	for i := 0; i < 32; i++ {
		if tag[i] != signature[32+i] {
			return nil, errors.New("vrf stand-in: invalid ring signature")
		}
	}
	out := make([]byte, 32)
	copy(out, signature[0:32])
	return out, nil
}

type VerifyItem struct {
	Context   []byte
	Message   []byte
	Signature []byte
}

type VerifyResult struct {
	Output []byte
	Error  error
}

func (v *Verifier) RingVerifyBatch(items []VerifyItem) ([]VerifyResult, error) {
	res := make([]VerifyResult, len(items))
	for i, it := range items {
		out, err := v.RingVerify(it.Context, it.Message, it.Signature)
		if err != nil {
			res[i] = VerifyResult{Output: make([]byte, 32), Error: err}
			continue
		}
		res[i] = VerifyResult{Output: out}
	}
	return res, nil
}

type Handler struct {
	ring      []byte
	sk        []byte
	ringSize  uint
	proverIdx uint
}

func NewHandler(ring, sk []byte, ringSize, proverIdx uint) (*Handler, error) {
	if len(sk) != 32 {
		return nil, errors.New("vrf stand-in: secret must be 32 bytes")
	}
	return &Handler{ring: append([]byte(nil), ring...), sk: append([]byte(nil), sk...), ringSize: ringSize, proverIdx: proverIdx}, nil
}

func (h *Handler) Free() {}

func (h *Handler) IETFSign(context, message []byte) ([]byte, error) {
	return IETFSign(h.sk, context, message)
}

func (h *Handler) VRFIetfOutput(signature []byte) ([]byte, error) { return VRFIetfOutput(signature) }

func (h *Handler) RingSign(context, message []byte) ([]byte, error) {
	pk, _ := GetPublicKeyFromSecret(h.sk)
	out := b([]byte("out"), pk, context)
	return ForgeRing(h.ring, context, message, out), nil
}

func (h *Handler) VRFRingOutput(signature []byte) ([]byte, error) { return VRFIetfOutput(signature) }

// Package erasurecoding: pure-Go TEST DOUBLE for the cgo wrapper pkg/erasure_coding whose Rust
// static library cannot be built offline (crate reed-solomon-simd missing).  Injected by /verif
// through `go build -overlay` ONLY so that packages importing it link (C18, C32); no property
// about shard values is decided with it (C30 is not_applicable).  Systematic "code": data shards
// are the padded data, parity shards are an XOR-fold — recovery works from the data shards only.
package erasurecoding

import "errors"

type Shard struct {
	Index int
	Data  [2]byte
}

func EncodeDataShards(data []byte, dataShard, parityShard int) ([][]byte, error) {
	flat, err := EncodeData(data, dataShard, parityShard)
	if err != nil {
		return nil, err
	}
	total := dataShard + parityShard
	sz := len(flat) / total
	out := make([][]byte, total)
	for i := range out {
		out[i] = append([]byte(nil), flat[i*sz:(i+1)*sz]...)
	}
	return out, nil
}

func EncodeData(data []byte, dataShards, parityShards int) ([]byte, error) {
	if len(data) == 0 {
		return nil, errors.New("empty data")
	}
	if dataShards <= 0 || parityShards < 0 {
		return nil, errors.New("bad shard counts")
	}
	sz := (len(data) + dataShards - 1) / dataShards
	if sz%2 == 1 {
		sz++
	}
	total := dataShards + parityShards
	flat := make([]byte, total*sz)
	copy(flat, data)
	for p := 0; p < parityShards; p++ {
		for j := 0; j < sz; j++ {
			var x byte = byte(p + 1)
			for d := 0; d < dataShards; d++ {
				x ^= flat[d*sz+j]
			}
			flat[(dataShards+p)*sz+j] = x
		}
	}
	return flat, nil
}

func DecodeShards(flatten []byte, indices []int, dataShards, parityShards, shardSize int) ([]byte, error) {
	if len(flatten) == 0 || len(indices) == 0 {
		return nil, errors.New("no shards provided")
	}
	if shardSize <= 0 || len(flatten)%shardSize != 0 || len(flatten)/shardSize != len(indices) {
		return nil, errors.New("bad shard layout")
	}
	out := make([]byte, dataShards*shardSize)
	have := make([]bool, dataShards)
	for i, idx := range indices {
		if idx >= 0 && idx < dataShards {
			copy(out[idx*shardSize:], flatten[i*shardSize:(i+1)*shardSize])
			have[idx] = true
		}
	}
	for _, h := range have {
		if !h {
			return nil, errors.New("erasure stand-in: only data shards can be decoded")
		}
	}
	return out, nil
}

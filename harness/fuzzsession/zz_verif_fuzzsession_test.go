package fuzz

// X-step driver for X10 (the fuzz-protocol session).  In-package for internal/fuzz: it runs the real
// FuzzServer.serve loop on one end of an in-memory net.Pipe, plays client scripts on the other end, and
// records every frame both ways.  spec/node/FuzzSession_Trace.tla judges the conversation.
//
// A case: {"id","n","parent","ckind","tau0","sfeat": target features (config), "sessions": [[frame..]..]}
//   frame: {"k":"peer","feat":n} | {"k":"set","anc":0|1} | {"k":"import","x":b,"probe":""|"old"} |
//          {"k":"get","x":b}  (b = n+1: a header nobody knows) |
//          {"k":"bad","of":"peer|set|import|get","x":b,"mut":class}  a frame the target must not accept:
//               trail (one more payload byte), trunc (last payload byte dropped), att_len (first length
//               prefix of the payload replaced by 2^32-1), frame_tag (undefined type octet), resp_type (a
//               response type: StateRoot), frame_len0 / frame_len1 (length field 0 / 1), len_minus /
//               len_plus (length field one less / one more than what follows), huge (length 2^31, no payload)
//               (classes named after spec/codec/CodecMut.tla) |
//          {"k":"eof","mid":0|1}   the client closes, after half a frame if mid = 1
// Blocks and states are real (the C26 block builder).  Roots and key-value sets in responses are named by
// the block they truly belong to (0 = genesis, -1 = empty, -2 = something else).

import (
	"context"
	"encoding/binary"
	"io"
	"net"
	"testing"
	"time"

	"github.com/New-JAMneration/JAM-Protocol/config"
	"github.com/New-JAMneration/JAM-Protocol/internal/blockchain"
	"github.com/New-JAMneration/JAM-Protocol/internal/types"
	m "github.com/New-JAMneration/JAM-Protocol/internal/utilities/merklization"
	"github.com/New-JAMneration/JAM-Protocol/internal/verifdrv/vfd"
	"github.com/New-JAMneration/JAM-Protocol/logger"
)

type fsWorld struct {
	*world
	digest  []string
	roots   []types.StateRoot
	unknown types.HeaderHash
}

func (w *fsWorld) nameKV(kv types.StateKeyVals) int {
	if len(kv) == 0 {
		return -1
	}
	d := kvDigest(kv)
	for x, dx := range w.digest {
		if dx == d {
			return x
		}
	}
	return -2
}

func (w *fsWorld) nameRoot(r types.StateRoot) int {
	for x, rx := range w.roots {
		if rx == r {
			return x
		}
	}
	return -2
}

func (w *fsWorld) hashOf(x int) types.HeaderHash {
	if x >= 0 && x <= w.n {
		return w.hashes[x]
	}
	return w.unknown
}

// wellFormed builds the frame of a request
func (w *fsWorld) wellFormed(k string, f map[string]any) []byte {
	var msg Message
	switch k {
	case "peer":
		p := PeerInfo{FuzzVersion: 1, FuzzFeatures: Features(vfd.I(f["feat"])), JamVersion: Version{0, 7, 0}, AppVersion: Version{0, 1, 0}, AppName: "verif-fuzzer"}
		msg = Message{Type: MessageType_PeerInfo, PeerInfo: &p}
	case "set":
		s := SetState{Header: genesisHeader(w.tau0), State: w.gkv.DeepCopy()}
		if vfd.I(f["anc"]) != 0 {
			old := w.tau0
			if old > 0 {
				old--
			}
			s.Ancestry = types.Ancestry{{Slot: old, HeaderHash: types.HeaderHash(h32([]byte("verif-ancestor")))}}
		}
		msg = Message{Type: MessageType_SetState, SetState: &s}
	case "import":
		b := ImportBlock(w.blocks[vfd.I(f["x"])])
		msg = Message{Type: MessageType_ImportBlock, ImportBlock: &b}
	case "get":
		g := GetState(w.hashOf(vfd.I(f["x"])))
		msg = Message{Type: MessageType_GetState, GetState: &g}
	}
	b, err := msg.MarshalBinary()
	if err != nil {
		panic(err)
	}
	return b
}

func (w *fsWorld) frameBytes(f map[string]any) []byte {
	k := vfd.S(f["k"])
	if k != "bad" {
		return w.wellFormed(k, f)
	}
	b := w.wellFormed(vfd.S(f["of"]), f)
	payload := append([]byte{}, b[5:]...)
	typ := b[4]
	frame := func(length uint32, typ byte, payload []byte) []byte {
		out := binary.LittleEndian.AppendUint32(nil, length)
		out = append(out, typ)
		return append(out, payload...)
	}
	switch vfd.S(f["mut"]) {
	case "trail":
		payload = append(payload, 0)
		return frame(uint32(len(payload)+1), typ, payload)
	case "trunc":
		if len(payload) > 0 {
			payload = payload[:len(payload)-1]
		}
		return frame(uint32(len(payload)+1), typ, payload)
	case "att_len":
		// the first length prefix of the payload claims 2^32-1 items (for PeerInfo: the name length, for
		// SetState: the key-value count after the header is not at a fixed place, so the header's offenders
		// mark count is used; harmless stand-in: prepend the attack prefix)
		payload = append([]byte{0xF0, 0xFF, 0xFF, 0xFF, 0xFF}, payload...)
		return frame(uint32(len(payload)+1), typ, payload)
	case "frame_tag":
		return frame(uint32(len(payload)+1), 7, payload)
	case "resp_type":
		return frame(33, byte(MessageType_StateRoot), make([]byte, 32))
	case "frame_len0":
		return binary.LittleEndian.AppendUint32(nil, 0)
	case "frame_len1":
		return frame(1, typ, nil)
	case "len_minus":
		return frame(uint32(len(payload)), typ, payload)
	case "len_plus":
		return frame(uint32(len(payload)+2), typ, payload)
	case "huge":
		return frame(1<<31, typ, nil)
	}
	panic("unknown mutant class " + vfd.S(f["mut"]))
}

// readFrame reads one response frame; kind "closed" on EOF / closed pipe, "none" on timeout
func (w *fsWorld) readFrame(c net.Conn, wait time.Duration) map[string]any {
	c.SetReadDeadline(time.Now().Add(wait))
	var msg Message
	_, err := msg.ReadFrom(c)
	if err != nil {
		if ne, ok := err.(net.Error); ok && ne.Timeout() {
			return map[string]any{"k": "none"}
		}
		if err == io.EOF || err == io.ErrClosedPipe || err == io.ErrUnexpectedEOF {
			return map[string]any{"k": "closed"}
		}
		return map[string]any{"k": "garbled", "why": err.Error()}
	}
	switch msg.Type {
	case MessageType_PeerInfo:
		return map[string]any{"k": "peer", "feat": int(msg.PeerInfo.FuzzFeatures), "fuzzv": int(msg.PeerInfo.FuzzVersion)}
	case MessageType_StateRoot:
		return map[string]any{"k": "root", "root": w.nameRoot(types.StateRoot(*msg.StateRoot))}
	case MessageType_State:
		return map[string]any{"k": "state", "kv": w.nameKV(types.StateKeyVals(*msg.State)), "n": len(*msg.State)}
	case MessageType_ErrorMessage:
		e := msg.Error.Error
		if len(e) > 100 {
			e = e[:100]
		}
		return map[string]any{"k": "error", "msg": e}
	}
	return map[string]any{"k": "other", "type": int(msg.Type)}
}

func TestFuzzSession(t *testing.T) {
	types.SetTinyMode()
	logger.ConfigureLogger("main", logger.LoggerConfig{Enabled: false})
	cases := vfd.ReadCases(vfd.Env("VF_CASES", "cases.ndjson"))
	out := vfd.NewOut(vfd.Env("VF_OUT", "trace.ndjson"))
	defer out.Close()
	for _, c := range cases {
		head := map[string]any{"ev": "Scenario", "id": vfd.I(c["id"]), "n": vfd.I(c["n"]), "parent": intsOf(c["parent"]), "ckind": strsOf(c["ckind"]),
			"tau0": vfd.I(c["tau0"]), "gap": 0, "gapat": 0, "sfeat": vfd.I(c["sfeat"]), "sessions": c["sessions"], "built": true, "why": ""}
		bw, err := build(c)
		if err != nil {
			head["built"], head["why"] = false, err.Error()
			out.Emit(head)
			continue
		}
		w := &fsWorld{world: bw, unknown: types.HeaderHash(h32([]byte("verif-unknown")))}
		w.digest, w.roots = make([]string, w.n+1), make([]types.StateRoot, w.n+1)
		for x := 0; x <= w.n && head["built"].(bool); x++ {
			if x >= len(bw.states) || bw.states[x] == nil {
				head["built"], head["why"] = false, "no state for a block"
				break
			}
			w.digest[x], w.roots[x] = kvDigest(bw.states[x]), m.MerklizationSerializedState(bw.states[x].DeepCopy())
		}
		out.Emit(head)
		if !head["built"].(bool) {
			continue
		}
		// a fresh process: no node state, the target's features as configured
		blockchain.ResetInstance()
		config.Config.Info.FuzzFeatures = uint32(vfd.I(c["sfeat"]))
		config.Config.Info.FuzzVersion = 1
		if config.Config.Info.AppVersion == "" {
			config.Config.Info.AppVersion, config.Config.Info.JamVersion, config.Config.Info.Name = "0.1.0", "0.7.0", "verif-target"
		}
		srv := &FuzzServer{Service: new(FuzzServiceStub)}
		for si, rawSession := range c["sessions"].([]any) {
			cli, sv := net.Pipe()
			ctx, cancel := context.WithCancel(context.Background())
			done := make(chan struct{})
			go func() { srv.serve(ctx, sv); close(done) }()
			out.Emit(map[string]any{"ev": "Connect", "s": si + 1})
			clientClosed := false
			for _, rawFrame := range rawSession.([]any) {
				f := rawFrame.(map[string]any)
				rec := map[string]any{"ev": "Frame", "s": si + 1, "f": f}
				if vfd.S(f["k"]) == "eof" {
					if vfd.I(f["mid"]) != 0 {
						half := w.wellFormed("get", map[string]any{"x": 0.0})
						cli.SetWriteDeadline(time.Now().Add(500 * time.Millisecond))
						cli.Write(half[:len(half)/2])
					}
					cli.Close()
					clientClosed = true
					rec["werr"], rec["resp"] = false, map[string]any{"k": "closed"}
					out.Emit(rec)
					break
				}
				data := w.frameBytes(f)
				// the pipe is synchronous: write in the background, the target may stop reading half way
				werr := make(chan error, 1)
				go func() {
					cli.SetWriteDeadline(time.Now().Add(2 * time.Second))
					_, e := cli.Write(data)
					werr <- e
				}()
				wait := 3 * time.Second
				if k := vfd.S(f["mut"]); k == "len_plus" || k == "huge" {
					wait = 300 * time.Millisecond // the target is waiting for bytes that never come
				}
				rec["resp"] = w.readFrame(cli, wait)
				select {
				case e := <-werr:
					rec["werr"] = e != nil
				case <-time.After(2500 * time.Millisecond):
					rec["werr"] = true
				}
				out.Emit(rec)
			}
			if !clientClosed {
				cli.Close()
			}
			exited := false
			select {
			case <-done:
				exited = true
			case <-time.After(2 * time.Second):
			}
			cancel()
			out.Emit(map[string]any{"ev": "End", "s": si + 1, "exited": exited})
		}
	}
}

package shuffle

// Overlay-only shim for the /verif C20 driver (never committed to the repository).
var VerifNumericSequenceFromHash = numericSequenceFromHash

package shuffledrv

// X-step driver for C20: executes shuffle.FisherYatesShuffle / numericSequenceFromHash / Shuffle and
// extrinsic.rotateCores / permute / NewGuranatorAssignments on the cases of Shuffle_Gen and records
// what they returned.  It also answers the specification's oracle-table queries (BLAKE2b-256 of the
// listed inputs, computed with golang.org/x/crypto directly).  No expectations are computed here.

import (
	"testing"

	"golang.org/x/crypto/blake2b"

	"github.com/New-JAMneration/JAM-Protocol/internal/blockchain"
	"github.com/New-JAMneration/JAM-Protocol/internal/extrinsic"
	"github.com/New-JAMneration/JAM-Protocol/internal/types"
	"github.com/New-JAMneration/JAM-Protocol/internal/utilities/shuffle"
	"github.com/New-JAMneration/JAM-Protocol/internal/verifdrv/vfd"
)

func u32le(x types.U32) []int {
	return []int{int(byte(x)), int(byte(x >> 8)), int(byte(x >> 16)), int(byte(x >> 24))}
}

func fromLE(v any) types.U32 {
	b := vfd.Bytes(v)
	var x types.U32
	for i := 0; i < len(b) && i < 4; i++ {
		x |= types.U32(b[i]) << (8 * i)
	}
	return x
}

func u32s(v any) []types.U32 {
	out := []types.U32{}
	if v == nil {
		return out
	}
	for _, x := range v.([]any) {
		out = append(out, types.U32(vfd.I(x)))
	}
	return out
}

func ints(xs []types.U32) []int {
	out := make([]int, len(xs))
	for i, x := range xs {
		out[i] = int(x)
	}
	return out
}

// oracle table: BLAKE2b-256 of every query
func table(v any) [][][]int {
	tab := [][][]int{}
	if v == nil {
		return tab
	}
	for _, q := range v.([]any) {
		in := vfd.Bytes(q)
		h := blake2b.Sum256(in)
		tab = append(tab, [][]int{vfd.B(in), vfd.B(h[:])})
	}
	return tab
}

func b2i(b bool) int {
	if b {
		return 1
	}
	return 0
}

func TestRun(t *testing.T) {
	cases := vfd.ReadCases(vfd.Env("VF_CASES", "cases.ndjson"))
	out := vfd.NewOut(vfd.Env("VF_OUT", "trace.ndjson"))
	defer out.Close()
	for ci, c := range cases {
		switch vfd.S(c["kind"]) {
		case "fy":
			s := u32s(c["s"])
			r := []types.U32{}
			rb := [][]int{}
			for _, x := range c["r"].([]any) {
				r = append(r, fromLE(x))
				rb = append(rb, vfd.B(vfd.Bytes(x)))
			}
			rec := map[string]any{"ev": "fy", "c": ci, "s": ints(s), "r": rb}
			got := []types.U32{}
			p, msg := vfd.Guard(func() { got = shuffle.FisherYatesShuffle(s, r) })
			rec["got"], rec["s_after"], rec["panic"], rec["pmsg"] = ints(got), ints(s), b2i(p), msg
			out.Emit(rec)
		case "nseq":
			var h types.OpaqueHash
			copy(h[:], vfd.Bytes(c["h"]))
			l := vfd.I(c["l"])
			got := [][]int{}
			p, msg := vfd.Guard(func() {
				for _, x := range shuffle.VerifNumericSequenceFromHash(h, types.U32(l)) {
					got = append(got, u32le(x))
				}
			})
			out.Emit(map[string]any{"ev": "nseq", "c": ci, "h": vfd.B(h[:]), "l": l, "tab": table(c["queries"]), "got": got, "panic": b2i(p), "pmsg": msg})
		case "shuffle":
			var h types.OpaqueHash
			copy(h[:], vfd.Bytes(c["h"]))
			s := u32s(c["s"])
			rec := map[string]any{"ev": "shuffle", "c": ci, "h": vfd.B(h[:]), "s": ints(s), "tab": table(c["queries"])}
			got := []types.U32{}
			p, msg := vfd.Guard(func() { got = shuffle.Shuffle(s, h) })
			rec["got"], rec["panic"], rec["pmsg"] = ints(got), b2i(p), msg
			out.Emit(rec)
		case "rot":
			types.CoresCount = vfd.I(c["C"])
			in := u32s(c["in"])
			n := vfd.I(c["n"])
			got := []types.U32{}
			p, msg := vfd.Guard(func() { got = extrinsic.VerifRotateCores(in, types.U32(n)) })
			out.Emit(map[string]any{"ev": "rot", "c": ci, "C": vfd.I(c["C"]), "in": ints(u32s(c["in"])), "n": n, "got": ints(got), "panic": b2i(p), "pmsg": msg})
		case "assign":
			runAssign(out, ci, c)
		}
	}
}

func mkValidator(i int) types.Validator {
	var v types.Validator
	for j := range v.Ed25519 {
		v.Ed25519[j] = byte(i*7 + j + 1)
	}
	v.Ed25519[0], v.Ed25519[1] = byte(i), byte(i>>8)
	v.Bandersnatch[0], v.Bandersnatch[1], v.Bandersnatch[2] = byte(i), byte(i>>8), 0xB
	v.Bls[0], v.Bls[1], v.Bls[2] = byte(i), byte(i>>8), 0xC
	v.Metadata[0], v.Metadata[1], v.Metadata[2] = byte(i), byte(i>>8), 0xD
	return v
}

func cores(xs []types.CoreIndex) []int {
	out := make([]int, len(xs))
	for i, x := range xs {
		out[i] = int(x)
	}
	return out
}

func runAssign(out *vfd.Out, ci int, c map[string]any) {
	V, C, E, R := vfd.I(c["V"]), vfd.I(c["C"]), vfd.I(c["E"]), vfd.I(c["R"])
	types.ValidatorsCount, types.CoresCount, types.EpochLength, types.RotationPeriod = V, C, E, R
	for gi, graw := range c["epochs"].([]any) {
		g := graw.(map[string]any)
		var e types.Entropy
		copy(e[:], vfd.Bytes(g["e"]))
		// offenders for this epoch (exercise Phi in NewGuranatorAssignments): validators gi and gi+3, when present
		off := []int{}
		for _, o := range []int{gi, gi + 3} {
			if o < V && gi%2 == 0 {
				off = append(off, o)
			}
		}
		out.Emit(map[string]any{"ev": "Params", "c": ci, "V": V, "C": C, "E": E, "R": R})
		out.Emit(map[string]any{"ev": "Epoch", "c": ci, "e": vfd.B(e[:]), "tab": table(g["queries"])})
		// All results of one epoch group are HELD (the returned slices themselves) until every call of the group has been
		// made; each Slot record then re-reads what it was handed ("held_*"): an assignment must not change afterwards.
		type held struct {
			rec             map[string]any
			perm, star, nga []types.CoreIndex
		}
		helds := []held{}
		stars, _ := g["stars"].([]any)
		for si, traw := range g["slots"].([]any) {
			slot := types.TimeSlot(fromLE(traw))
			rec := map[string]any{"ev": "Slot", "c": ci, "t": vfd.B(vfd.Bytes(traw)), "off": off}
			perm, again, nga, pk, star := []int{}, []int{}, []int{}, []int{}, []int{}
			tstar := []int{}
			if si < len(stars) {
				tstar = vfd.B(vfd.Bytes(stars[si]))
			}
			inChanged := 0
			h := held{rec: rec}
			p, msg := vfd.Guard(func() {
				h.perm = extrinsic.VerifPermute(e, slot)
				perm = cores(h.perm)
				if len(tstar) == 4 {
					// the assignment of the previous rotation under the same entropy (what G* needs), right after G
					h.star = extrinsic.VerifPermute(e, types.TimeSlot(fromLE(stars[si])))
					star = cores(h.star)
				}
				blockchain.ResetInstance()
				psiO := []types.Ed25519Public{}
				vals := make(types.ValidatorsData, V)
				orig := make(types.ValidatorsData, V)
				for i := 0; i < V; i++ {
					vals[i] = mkValidator(i)
					orig[i] = vals[i]
				}
				for _, o := range off {
					psiO = append(psiO, orig[o].Ed25519)
				}
				blockchain.GetInstance().GetPosteriorStates().SetPsiO(psiO)
				ga := extrinsic.NewGuranatorAssignments(e, slot, vals)
				h.nga = ga.CoreAssignments
				nga = cores(h.nga)
				for i, k := range ga.PublicKeys {
					switch {
					case i < V && k == orig[i]:
						pk = append(pk, 1)
					case k == (types.Validator{}):
						pk = append(pk, 0)
					default:
						pk = append(pk, 2)
					}
				}
				for i := range vals {
					if vals[i] != orig[i] {
						inChanged = 1
					}
				}
				again = cores(extrinsic.VerifPermute(e, slot))
			})
			rec["permute"], rec["again"], rec["nga"], rec["pk"], rec["in_changed"] = perm, again, nga, pk, inChanged
			rec["tstar"], rec["star"] = tstar, star
			rec["panic"], rec["pmsg"] = b2i(p), msg
			helds = append(helds, h)
		}
		for _, h := range helds {
			h.rec["held_permute"], h.rec["held_star"], h.rec["held_nga"] = cores(h.perm), cores(h.star), cores(h.nga)
			out.Emit(h.rec)
		}
	}
}

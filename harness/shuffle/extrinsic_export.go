package extrinsic

// Overlay-only shims for the /verif C20 driver (never committed to the repository).
var (
	VerifPermute     = permute
	VerifRotateCores = rotateCores
)

package PVM

// X-step driver for C01 / C02 / C04 / C05 (in-package: Memory.heapPointer, engines).
// It only executes and records: every expected value comes from spec/pvm/PVM.tla through TLC.
//
// A case: {"id", "prog":{"code":[..],"mask":[0/1..],"jt":[ints],"z":n}, "pc", "gas", "regs":[[8]x13],
//          "acc":[[page,"R"|"W"],..], "data":[[page,off,byte],..], "hp":[8], "hl":[8],
//          "fx":[[8]...]   scripted host-call effects: after the k-th host exit, reg 7 := fx[k], gas -= 10
//          "gases":[ints]  optional: run the first segment again from the same start with each of these gas values}
// One trace record per segment (execution between host calls) and engine observation.

import (
	"fmt"
	"sort"
	"testing"

	"github.com/New-JAMneration/JAM-Protocol/internal/types"
	"github.com/New-JAMneration/JAM-Protocol/internal/verifdrv/vfd"
)

const sentinelExit = ExitReason(0x77) << 56

type vmSnap struct {
	Pc   int        `json:"pc"`
	Gas  int        `json:"gas"`
	Regs [][]int    `json:"regs"`
	Acc  [][]any    `json:"acc"`
	Data [][]int    `json:"data"`
	Hp   []int      `json:"hp"`
	Hl   []int      `json:"hl"`
}

type obs struct {
	Exit    string `json:"exit"`
	Arg     []int  `json:"arg"`
	Pc      int    `json:"pc"`
	Gas     int    `json:"gas"`
	GasNeg  bool   `json:"gasneg"`
	Regs    [][]int `json:"regs"`
	Acc     [][]any `json:"acc"`
	Data    [][]int `json:"data"`
	Hp      []int  `json:"hp"`
	GoPanic string `json:"gopanic"`
}

func buildBlob(prog map[string]any) []byte {
	code := vfd.Bytes(prog["code"])
	mask := prog["mask"].([]any)
	jt := prog["jt"].([]any)
	z := vfd.I(prog["z"])
	var out []byte
	out = append(out, encNat(uint64(len(jt)))...)
	out = append(out, byte(z))
	out = append(out, encNat(uint64(len(code)))...)
	for _, e := range jt {
		v := uint64(vfd.I(e))
		for i := 0; i < z; i++ {
			out = append(out, byte(v>>(8*i)))
		}
	}
	out = append(out, code...)
	k := make([]byte, (len(code)+7)/8)
	for i := range mask {
		if vfd.I(mask[i]) == 1 {
			k[i/8] |= 1 << (i % 8)
		}
	}
	out = append(out, k...)
	return out
}

// minimal natural encoder for the driver's own blob assembly (values < 2^14 only)
func encNat(x uint64) []byte {
	if x < 128 {
		return []byte{byte(x)}
	}
	if x < 1<<14 {
		return []byte{byte(0x80 | (x >> 8)), byte(x)}
	}
	panic("driver encNat: value too large")
}

func buildMem(c map[string]any) *Memory {
	m := &Memory{Pages: map[uint32]*Page{}}
	for _, a := range c["acc"].([]any) {
		pa := a.([]any)
		acc := MemoryReadOnly
		if vfd.S(pa[1]) == "W" {
			acc = MemoryReadWrite
		} else if vfd.S(pa[1]) == "N" {
			acc = MemoryInaccessible
		}
		m.Pages[uint32(vfd.I(pa[0]))] = &Page{Value: make([]byte, ZP), Access: acc}
	}
	for _, d := range c["data"].([]any) {
		t := d.([]any)
		pg := m.Pages[uint32(vfd.I(t[0]))]
		if pg != nil {
			pg.Value[vfd.I(t[1])] = byte(vfd.I(t[2]))
		}
	}
	m.heapPointer = vfd.FromU64LE(c["hp"])
	m.heapLimit = vfd.FromU64LE(c["hl"])
	return m
}

func copyMem(m *Memory) *Memory {
	n := &Memory{Pages: map[uint32]*Page{}, heapPointer: m.heapPointer, heapLimit: m.heapLimit}
	for k, p := range m.Pages {
		n.Pages[k] = &Page{Value: append([]byte(nil), p.Value...), Access: p.Access}
	}
	return n
}

func snapMem(m *Memory) (acc [][]any, data [][]int) {
	acc, data = [][]any{}, [][]int{}
	keys := make([]int, 0, len(m.Pages))
	for k := range m.Pages {
		keys = append(keys, int(k))
	}
	sort.Ints(keys)
	for _, k := range keys {
		p := m.Pages[uint32(k)]
		a := "N"
		if p.Access == MemoryReadOnly {
			a = "R"
		} else if p.Access == MemoryReadWrite {
			a = "W"
		}
		acc = append(acc, []any{k, a}) // present-but-inaccessible pages are reported as "N"
		for off, b := range p.Value {
			if b != 0 {
				data = append(data, []int{k, off, int(b)})
			}
		}
	}
	return
}

func regsJSON(r Registers) [][]int {
	out := make([][]int, 13)
	for i := range r {
		out[i] = vfd.U64LE(r[i])
	}
	return out
}

func exitName(e ExitReason) (string, []int) {
	switch e.GetReasonType() {
	case HALT:
		return "halt", vfd.U64LE(0)
	case PANIC:
		return "panic", vfd.U64LE(0)
	case OUT_OF_GAS:
		return "oog", vfd.U64LE(0)
	case PAGE_FAULT:
		return "fault", vfd.U64LE(uint64(e.GetPageFaultAddress()))
	case HOST_CALL:
		return "host", vfd.U64LE(e.GetHostCallIndex())
	case CONTINUE:
		return "cont", vfd.U64LE(0)
	}
	return fmt.Sprintf("unknown-%d", e.GetReasonType()), vfd.U64LE(uint64(e))
}

func gasJSON(g Gas) (int, bool) {
	if g < 0 {
		return 0, true
	}
	if g > 1<<30 {
		return 1 << 30, false
	}
	return int(g), false
}

func TestRun(t *testing.T) {
	cases := vfd.ReadCases(vfd.Env("VF_CASES", "cases.ndjson"))
	out := vfd.NewOut(vfd.Env("VF_OUT", "trace.ndjson"))
	defer out.Close()
	for _, c := range cases {
		runCase(c, out)
	}
}

func runCase(c map[string]any, out *vfd.Out) {
	progJ := c["prog"].(map[string]any)
	blob := buildBlob(progJ)
	var prog Program
	var er ExitReason
	panicked, msg := vfd.Guard(func() { prog, er = DeBlobProgramCode(append([]byte(nil), blob...)) })
	base := map[string]any{"id": c["id"], "prog": progJ, "tag": c["tag"]}
	if panicked || er != ExitContinue {
		rec := map[string]any{"k": "deblob", "ok": false, "gopanic": msg}
		for k, v := range base {
			rec[k] = v
		}
		out.Emit(rec)
		return
	}
	var regs Registers
	for i, r := range c["regs"].([]any) {
		regs[i] = vfd.FromU64LE(r)
	}
	mem0 := buildMem(c)
	gases := []int{vfd.I(c["gas"])}
	if gs, ok := c["gases"].([]any); ok {
		for _, g := range gs {
			gases = append(gases, vfd.I(g))
		}
	}
	var fx []any
	if f, ok := c["fx"].([]any); ok {
		fx = f
	}
	for gi, gas0 := range gases {
		// ---- engine A: block engine through Host.HostCall with stub host functions
		memA := copyMem(mem0)
		lastID := -1
		stubs := make(Omegas, 256)
		for k := range stubs {
			kk := k
			stubs[k] = func(in OmegaInput) OmegaOutput {
				lastID = kk
				return OmegaOutput{ExitReason: sentinelExit, Addition: in.Addition}
			}
		}
		host := NewHost(&prog, regs, memA, Gas(gas0), HostCallArgs{}, stubs)
		// ---- engine B: single-step engine on an identical copy
		memB := copyMem(mem0)
		interpB := NewInterpreter(&prog, regs, memB, Gas(gas0))
		pcA, pcB := ProgramCounter(vfd.I(c["pc"])), ProgramCounter(vfd.I(c["pc"]))
		deadB := false
		for seg := 0; seg < 6; seg++ {
			pre := vmSnap{Pc: int(pcA), Regs: regsJSON(host.Interpreter.Registers), Hp: vfd.U64LE(memA.heapPointer), Hl: vfd.U64LE(memA.heapLimit)}
			pre.Gas, _ = gasJSON(host.Interpreter.Gas)
			pre.Acc, pre.Data = snapMem(memA)
			// A
			var a obs
			var res Psi_H_ReturnType
			lastID = -1
			pA, mA := vfd.Guard(func() { res = host.HostCall(pcA, 0) })
			if pA {
				a = obs{Exit: "gopanic", GoPanic: mA, Arg: vfd.U64LE(0), Regs: regsJSON(host.Interpreter.Registers), Hp: vfd.U64LE(memA.heapPointer)}
				a.Acc, a.Data = snapMem(memA)
			} else {
				if res.ExitReason == sentinelExit {
					a.Exit, a.Arg = "host", vfd.U64LE(uint64(lastID))
				} else {
					a.Exit, a.Arg = exitName(res.ExitReason)
				}
				a.Pc = int(res.Counter)
				a.Gas, a.GasNeg = gasJSON(host.Interpreter.Gas)
				a.Regs = regsJSON(host.Interpreter.Registers)
				a.Acc, a.Data = snapMem(memA)
				a.Hp = vfd.U64LE(memA.heapPointer)
			}
			// B (same start state as A had for this segment, by construction of the lock-step)
			var b obs
			if !deadB {
				var eb ExitReason
				var pcb ProgramCounter
				oogB := false
				pB, mB := vfd.Guard(func() {
					for {
						eb, pcb = interpB.SingleStepInvoke(pcB)
						if eb.GetReasonType() == HOST_CALL && eb.GetHostCallIndex() >= 256 {
							// same host environment as engine A's table: identifiers >= 256 are unknown
							// (hostCallException: charge 10, omega7 := WHAT, continue after the ecalli)
							nxt := pcb + 1 + ProgramCounter(skip(int(pcb), prog.Bitmasks))
							interpB.Gas -= 10
							if interpB.Gas < 0 {
								oogB = true
								pcb = nxt
								return
							}
							interpB.Registers[7] = WHAT
							pcB = nxt
							continue
						}
						return
					}
				})
				if pB {
					b = obs{Exit: "gopanic", GoPanic: mB, Arg: vfd.U64LE(0), Regs: regsJSON(interpB.Registers), Hp: vfd.U64LE(memB.heapPointer)}
					b.Acc, b.Data = snapMem(memB)
					deadB = true
				} else {
					b.Exit, b.Arg = exitName(eb)
					b.Pc = int(pcb)
					if oogB {
						b.Exit, b.Arg = "oog", vfd.U64LE(0)
					} else if eb.GetReasonType() == HOST_CALL {
						// the step engine reports the ecalli's own position; its caller (invoke) resumes at +1+skip
						b.Pc = int(pcb) + 1 + int(skip(int(pcb), prog.Bitmasks))
					}
					b.Gas, b.GasNeg = gasJSON(interpB.Gas)
					b.Regs = regsJSON(interpB.Registers)
					b.Acc, b.Data = snapMem(memB)
					b.Hp = vfd.U64LE(memB.heapPointer)
				}
			} else {
				b = obs{Exit: "skipped", Arg: vfd.U64LE(0)}
			}
			rec := map[string]any{"k": "seg", "seg": seg, "gi": gi, "pre": pre, "a": a, "b": b}
			for k, v := range base {
				rec[k] = v
			}
			out.Emit(rec)
			if a.Exit != "host" || pA {
				break
			}
			// scripted host effect on both engines: reg7 := fx[seg] (default: unchanged), gas -= 10
			if seg < len(fx) {
				v := vfd.FromU64LE(fx[seg])
				host.Interpreter.Registers[7] = v
				interpB.Registers[7] = v
			}
			host.Interpreter.Gas -= 10
			interpB.Gas -= 10
			if host.Interpreter.Gas < 0 {
				break
			}
			if b.Exit != "host" {
				deadB = true // the engines diverged at this boundary; A continues alone
			}
			pcA = ProgramCounter(a.Pc)
			pcB = ProgramCounter(b.Pc)
		}
	}
}

// ---- C04: invocation level (Psi_M / R): reported gas usage for limits up to 2^64-1 ----
// case: {"id","prog", "limits":[[8]...]}  -> {"k":"invoke","prog","limit":[8],"res":"halt|panic|oog","used":[8],"gopanic"}
func TestInvoke(t *testing.T) {
	cases := vfd.ReadCases(vfd.Env("VF_CASES", "cases.ndjson"))
	out := vfd.NewOut(vfd.Env("VF_OUT", "trace.ndjson"))
	defer out.Close()
	for _, c := range cases {
		progJ := c["prog"].(map[string]any)
		inner := buildBlob(progJ)
		// standard program: E3(|o|) E3(|w|) E2(z) E3(s) o w E4(|c|) c   with empty o, w and no heap/stack
		std := []byte{0, 0, 0, 0, 0, 0, 0, 0, 0, 0, 0}
		std = append(std, byte(len(inner)), byte(len(inner)>>8), byte(len(inner)>>16), byte(len(inner)>>24))
		std = append(std, inner...)
		stillRunning := false // a run with a limit >= 400 ended out of gas: the program loops, larger limits would not end
		for _, lim := range c["limits"].([]any) {
			limit := vfd.FromU64LE(lim)
			if stillRunning && limit > 400 {
				continue
			}
			rec := map[string]any{"k": "invoke", "id": c["id"], "prog": progJ, "limit": vfd.U64LE(limit), "gopanic": ""}
			var r Psi_M_ReturnType
			p, msg := vfd.Guard(func() {
				r = Psi_M(StandardCodeFormat(append([]byte(nil), std...)), 0, types.Gas(limit), Argument{}, make(Omegas, 0), HostCallArgs{})
			})
			if p {
				rec["res"], rec["used"], rec["gopanic"] = "gopanic", vfd.U64LE(0), msg
			} else {
				rec["used"] = vfd.U64LE(uint64(r.Gas))
				switch v := r.ReasonOrBytes.(type) {
				case ExitReasonType:
					if v == OUT_OF_GAS {
						rec["res"] = "oog"
						if limit >= 400 {
							stillRunning = true
						}
					} else {
						rec["res"] = "panic"
					}
				case ExitReason:
					rec["res"] = "panic"
				default:
					rec["res"] = "halt"
				}
			}
			out.Emit(rec)
		}
	}
}

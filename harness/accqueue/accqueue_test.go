package accumulation

// X-step driver for C21 (accumulation queue selection and ordering).  In-package because
// updateXi / updateVartheta are unexported.  It only executes and records: every verdict is
// TLC's (spec/stf/AccQueue_Trace.tla).
//
// Case (one JSON object per line of VF_CASES):
//   {"E":3,"tau":0,"xi":[[name..]..E],"th":[[rec..]..E],"api":"fn"|"stf",
//    "blocks":[{"slot":s,"W":[rep..],"n":k}..]}                       history case
//   {"fn":"edit","r":[rec..],"x":[name..]} | {"fn":"pq","r":[rec..]}  function case
// rep = {"id":i,"h":name,"pre":[name..],"look":[name..]}, rec = rep + {"d":[name..]}.
// Hash names are mapped to distinct real 32-byte values (SHA-256 of the name) and back.

import (
	"bufio"
	"crypto/sha256"
	"encoding/hex"
	"encoding/json"
	"os"
	"testing"

	"github.com/New-JAMneration/JAM-Protocol/internal/blockchain"
	"github.com/New-JAMneration/JAM-Protocol/internal/types"
	"github.com/New-JAMneration/JAM-Protocol/internal/verifdrv/vfd"
	"github.com/New-JAMneration/JAM-Protocol/logger"
)

type vqNames struct{ back map[types.WorkPackageHash]string }

func (n *vqNames) hash(name string) types.WorkPackageHash {
	h := types.WorkPackageHash(sha256.Sum256([]byte("verif-c21:" + name)))
	n.back[h] = name
	return h
}

func (n *vqNames) name(h types.WorkPackageHash) string {
	if s, ok := n.back[h]; ok {
		return s
	}
	return "?" + hex.EncodeToString(h[:6])
}

func vqStrs(v any) []string {
	out := []string{}
	if v == nil {
		return out
	}
	for _, x := range v.([]any) {
		out = append(out, x.(string))
	}
	return out
}

func (n *vqNames) report(m map[string]any) types.WorkReport {
	var w types.WorkReport
	w.PackageSpec.Hash = n.hash(vfd.S(m["h"]))
	w.CoreIndex = types.CoreIndex(vfd.I(m["id"]))
	w.AuthGasUsed = types.Gas(vfd.I(m["id"]))
	for _, p := range vqStrs(m["pre"]) {
		w.Context.Prerequisites = append(w.Context.Prerequisites, types.OpaqueHash(n.hash(p)))
	}
	for _, p := range vqStrs(m["look"]) {
		root := types.OpaqueHash(sha256.Sum256([]byte("root:" + p)))
		w.SegmentRootLookup = append(w.SegmentRootLookup, types.SegmentRootLookupItem{WorkPackageHash: n.hash(p), SegmentTreeRoot: root})
	}
	return w
}

func (n *vqNames) record(m map[string]any) types.ReadyRecord {
	r := types.ReadyRecord{Report: n.report(m), Dependencies: []types.WorkPackageHash{}}
	for _, p := range vqStrs(m["d"]) {
		r.Dependencies = append(r.Dependencies, n.hash(p))
	}
	return r
}

func (n *vqNames) item(v any) types.ReadyQueueItem {
	out := types.ReadyQueueItem{}
	if v == nil {
		return out
	}
	for _, x := range v.([]any) {
		out = append(out, n.record(x.(map[string]any)))
	}
	return out
}

func (n *vqNames) names(hs []types.WorkPackageHash) []string {
	out := []string{}
	for _, h := range hs {
		out = append(out, n.name(h))
	}
	return out
}

func (n *vqNames) repOut(w types.WorkReport) map[string]any {
	pre := []string{}
	for _, p := range w.Context.Prerequisites {
		pre = append(pre, n.name(types.WorkPackageHash(p)))
	}
	look := []string{}
	for _, l := range w.SegmentRootLookup {
		look = append(look, n.name(l.WorkPackageHash))
	}
	return map[string]any{"id": int(w.CoreIndex), "h": n.name(w.PackageSpec.Hash), "pre": pre, "look": look}
}

func (n *vqNames) recOut(r types.ReadyRecord) map[string]any {
	m := n.repOut(r.Report)
	m["d"] = n.names(r.Dependencies)
	return m
}

func (n *vqNames) itemOut(it types.ReadyQueueItem) []any {
	out := []any{}
	for _, r := range it {
		out = append(out, n.recOut(r))
	}
	return out
}

func (n *vqNames) thOut(q types.ReadyQueue) []any {
	out := []any{}
	for _, it := range q {
		out = append(out, n.itemOut(it))
	}
	return out
}

func (n *vqNames) xiOut(q types.AccumulatedQueue) []any {
	out := []any{}
	for _, it := range q {
		out = append(out, n.names(it))
	}
	return out
}

func vqIDs(ws []types.WorkReport) []int {
	out := []int{}
	for _, w := range ws {
		out = append(out, int(w.CoreIndex))
	}
	return out
}

func vqHistory(out *vfd.Out, c map[string]any) {
	n := &vqNames{back: map[types.WorkPackageHash]string{}}
	e := vfd.I(c["E"])
	types.EpochLength = e
	blockchain.ResetInstance()
	cs := blockchain.GetInstance()
	api := vfd.S(c["api"])
	if api == "" {
		api = "fn"
	}

	xi := make(types.AccumulatedQueue, e)
	th := make(types.ReadyQueue, e)
	xin, _ := c["xi"].([]any)
	thn, _ := c["th"].([]any)
	for i := 0; i < e; i++ {
		xi[i] = types.AccumulatedQueueItem{}
		th[i] = types.ReadyQueueItem{}
		if i < len(xin) {
			for _, s := range vqStrs(xin[i]) {
				xi[i] = append(xi[i], n.hash(s))
			}
		}
		if i < len(thn) {
			th[i] = n.item(thn[i])
		}
	}
	tau := types.TimeSlot(vfd.I(c["tau"]))
	cs.GetPriorStates().SetTau(tau)
	cs.GetPriorStates().SetXi(xi)
	cs.GetPriorStates().SetVartheta(th)
	out.Emit(map[string]any{"ev": "Reset", "E": e, "tau": int(tau),
		"xi": n.xiOut(cs.GetPriorStates().GetXi()), "th": n.thOut(cs.GetPriorStates().GetVartheta())})

	blocks, _ := c["blocks"].([]any)
	for _, bv := range blocks {
		b := bv.(map[string]any)
		slot := types.TimeSlot(vfd.I(b["slot"]))
		var W []types.WorkReport
		winp := []any{}
		if b["W"] != nil {
			for _, x := range b["W"].([]any) {
				w := n.report(x.(map[string]any))
				W = append(W, w)
				winp = append(winp, n.repOut(w))
			}
		}
		nreq := vfd.I(b["n"])
		rec := map[string]any{"ev": "Block", "api": api, "slot": int(slot), "W": winp}
		panicked, msg := vfd.Guard(func() {
			cs.AddBlock(types.Block{Header: types.Header{Slot: slot}})
			cs.GetPosteriorStates().SetTau(slot)
			cs.GetIntermediateStates().SetAvailableWorkReports(W)
			if api == "stf" {
				if err := ProcessAccumulation(); err != nil {
					panic("ProcessAccumulation: " + err.Error())
				}
			} else {
				UpdateImmediatelyAccumulateWorkReports()
				UpdateQueuedWorkReports()
				UpdateAccumulatableWorkReports()
			}
			is := cs.GetIntermediateStates()
			wstar := is.GetAccumulatableWorkReports()
			rec["wbang"] = vqIDs(is.GetAccumulatedWorkReports())
			rec["wq"] = n.itemOut(is.GetQueuedWorkReports())
			rec["wstar"] = vqIDs(wstar)
			if api == "stf" {
				// the whole of 12.3: with result-free reports every member of W* fits the gas limit
				if err := DeferredTransfers(); err != nil {
					panic("DeferredTransfers: " + err.Error())
				}
				rec["n"] = len(wstar)
			} else {
				k := nreq
				if k > len(wstar) {
					k = len(wstar)
				}
				rec["n"] = k
				updateXi(cs, types.U64(k))
				updateVartheta(cs)
			}
			rec["xi"] = n.xiOut(cs.GetPosteriorStates().GetXi())
			rec["th"] = n.thOut(cs.GetPosteriorStates().GetVartheta())
		})
		if panicked {
			out.Emit(map[string]any{"ev": "GoPanic", "slot": int(slot), "W": winp, "msg": msg})
			return
		}
		out.Emit(rec)
		// what chain_state.StateCommit does for these components: posterior becomes prior
		// (same slices), posterior starts afresh
		cs.GetPriorStates().SetTau(slot)
		cs.GetPriorStates().SetXi(cs.GetPosteriorStates().GetXi())
		cs.GetPriorStates().SetVartheta(cs.GetPosteriorStates().GetVartheta())
		cs.GetPosteriorStates().SetXi(make(types.AccumulatedQueue, e))
		cs.GetPosteriorStates().SetVartheta(make(types.ReadyQueue, e))
	}
}

func vqFunction(out *vfd.Out, c map[string]any) {
	n := &vqNames{back: map[types.WorkPackageHash]string{}}
	r := n.item(c["r"])
	rin := n.itemOut(r)
	switch vfd.S(c["fn"]) {
	case "edit":
		var x []types.WorkPackageHash
		for _, s := range vqStrs(c["x"]) {
			x = append(x, n.hash(s))
		}
		var got types.ReadyQueueItem
		panicked, msg := vfd.Guard(func() { got = QueueEditingFunction(r, x) })
		if panicked {
			out.Emit(map[string]any{"ev": "GoPanic", "msg": msg, "r": rin})
			return
		}
		// the argument must not have been modified
		out.Emit(map[string]any{"ev": "Edit", "r": rin, "x": n.names(x), "out": n.itemOut(got), "r_after": n.itemOut(r)})
	case "pq":
		var got []types.WorkReport
		panicked, msg := vfd.Guard(func() { got = AccumulationPriorityQueue(r) })
		if panicked {
			out.Emit(map[string]any{"ev": "GoPanic", "msg": msg, "r": rin})
			return
		}
		out.Emit(map[string]any{"ev": "PQ", "r": rin, "out": vqIDs(got), "r_after": n.itemOut(r)})
	}
}

func TestVerifAccQueue(t *testing.T) {
	f, err := os.Open(vfd.Env("VF_CASES", "cases.ndjson"))
	if err != nil {
		t.Fatal(err)
	}
	defer f.Close()
	out := vfd.NewOut(vfd.Env("VF_OUT", "trace.ndjson"))
	defer out.Close()
	logger.ConfigureLogger("main", logger.LoggerConfig{Level: "ERROR", Enabled: true})
	saved := types.EpochLength
	defer func() { types.EpochLength = saved; blockchain.ResetInstance() }()
	sc := bufio.NewScanner(f)
	sc.Buffer(make([]byte, 1<<20), 1<<26)
	ncases := 0
	for sc.Scan() {
		if len(sc.Bytes()) == 0 {
			continue
		}
		var c map[string]any
		if err := json.Unmarshal(sc.Bytes(), &c); err != nil {
			t.Fatal(err)
		}
		ncases++
		if c["fn"] != nil {
			vqFunction(out, c)
		} else {
			vqHistory(out, c)
		}
	}
	t.Logf("cases=%d events=%d", ncases, out.N)
}

package ce

// Overlay-only shim for /verif drivers (never committed to the repository).

func VerifConstructMerkleCoPath(seq [][]byte, idx uint16) ([]byte, error) {
	return constructMerkleCoPath(seq, idx)
}

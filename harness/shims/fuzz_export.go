package fuzz

// Overlay-only shims for /verif drivers (never committed to the repository).

func VerifCompactEncode(x uint64) []byte         { return compactEncode(x) }
func VerifCompactDecode(b []byte) (uint64, int) { return compactDecode(b) }

package blockchain

// Overlay-only shims for /verif drivers (never committed to the repository).

import (
	"github.com/New-JAMneration/JAM-Protocol/internal/database"
	"github.com/New-JAMneration/JAM-Protocol/internal/store"
)

// VerifInstallChainState makes a fresh ChainState over the given databases the process-wide instance
// (what a new process does in newChainState, with the databases chosen by the caller).
func VerifInstallChainState(repoDB, persistentDB database.Database) *ChainState {
	initOnce.Do(func() {})
	cs := newChainState()
	cs.repo = store.NewRepository(repoDB)
	if persistentDB == repoDB {
		cs.persistentRepo = cs.repo
	} else {
		cs.persistentRepo = store.NewRepository(persistentDB)
	}
	globalChainState = cs
	return cs
}

package types

import "bytes"

// Overlay-only shims for /verif drivers (never committed to the repository).

func (d *Decoder) VerifSetBuf(data []byte) { d.buf = bytes.NewReader(data) }
func (d *Decoder) VerifRemaining() int     { return d.buf.Len() }

package reportsdrv

// X-step driver for X02 (admission of work reports, Gray Paper 11.4).  Cross-package driver
// (overlay-only package internal/verifdrv/reports).  Per case it loads the state on the chain-state
// singleton the way the repository's reports test-vector runner does (jamtests/reports Dump: latest
// block with the guarantees extrinsic and the slot, posterior tau / kappa / lambda / eta / psi_o,
// rho-double-dagger and beta-dagger in the intermediate state, prior beta / alpha / delta / xi) plus
// what the vectors leave empty (prior rho, the accumulation queue, the ancestry), calls
// stf.UpdateReports() - the function the vector runner calls - and records what happened.
// Guarantees carry REAL Ed25519 signatures (crypto/ed25519) over "jam_guarantee" ++ BLAKE2b(E(report))
// (literal string on purpose: the repository's constant is part of what is verified).
// It only executes and records; spec/stf/Reports_Trace.tla judges.
//
// Identities: every hash / key of a case is a small integer; hashOf(tag, id) is the real 32-byte value
// (0 = all zero), key id k is the Ed25519 key pair derived from k.  Reports are identified in the
// output by their real hash (rid of the case that built the same report, -1 = unknown).

import (
	"crypto/ed25519"
	"crypto/sha256"
	"testing"

	"github.com/New-JAMneration/JAM-Protocol/internal/blockchain"
	"github.com/New-JAMneration/JAM-Protocol/internal/extrinsic"
	"github.com/New-JAMneration/JAM-Protocol/internal/stf"
	"github.com/New-JAMneration/JAM-Protocol/internal/types"
	reportsErr "github.com/New-JAMneration/JAM-Protocol/internal/types/error_codes/reports"
	"github.com/New-JAMneration/JAM-Protocol/internal/utilities/hash"
	"github.com/New-JAMneration/JAM-Protocol/internal/verifdrv/vfd"
	"github.com/New-JAMneration/JAM-Protocol/logger"
	"golang.org/x/crypto/blake2b"
)

func hashOf(tag string, id int) (out [32]byte) {
	if id == 0 {
		return
	}
	return sha256.Sum256([]byte{tag[0], tag[1], byte(id), byte(id >> 8), byte(id >> 16)})
}

var privs = map[int]ed25519.PrivateKey{}

func priv(k int) ed25519.PrivateKey {
	if p, ok := privs[k]; ok {
		return p
	}
	s := sha256.Sum256([]byte{'e', 'd', byte(k), byte(k >> 8), 'x', '0', '2'})
	p := ed25519.NewKeyFromSeed(s[:])
	privs[k] = p
	return p
}

func pub(k int) (out types.Ed25519Public) {
	if k == 0 {
		return
	}
	copy(out[:], priv(k).Public().(ed25519.PublicKey))
	return
}

func validator(k int) types.Validator {
	var v types.Validator
	v.Ed25519 = pub(k)
	b := hashOf("bs", k)
	copy(v.Bandersnatch[:], b[:])
	v.Bls[0], v.Metadata[0] = byte(k), byte(k)
	return v
}

func list(v any) []any {
	if v == nil {
		return nil
	}
	return v.([]any)
}

func rec(v any) map[string]any { return v.(map[string]any) }

func ints(v any) []int {
	out := []int{}
	for _, x := range list(v) {
		out = append(out, vfd.I(x))
	}
	return out
}

func validators(ids []int) types.ValidatorsData {
	out := types.ValidatorsData{}
	for _, k := range ids {
		out = append(out, validator(k))
	}
	return out
}

func fill(n int, seed byte) []byte {
	b := make([]byte, n)
	for i := range b {
		b[i] = byte(i)*7 + seed
	}
	return b
}

// the report of a guarantee record (also used, with fewer fields, for pending / queued reports)
func report(g map[string]any) types.WorkReport {
	var r types.WorkReport
	pkg := vfd.I(g["pkg"])
	r.PackageSpec.Hash = types.WorkPackageHash(hashOf("pk", pkg))
	r.PackageSpec.ExportsRoot = types.ExportsRoot(hashOf("xr", vfd.I(g["xroot"])))
	r.PackageSpec.ErasureRoot = types.ErasureRoot(hashOf("er", pkg))
	r.PackageSpec.Length = types.U32(100 + pkg)
	r.PackageSpec.ExportsCount = types.U16(vfd.I(g["rid"]))
	r.Context.Anchor = types.HeaderHash(hashOf("hh", vfd.I(g["anchor"])))
	r.Context.StateRoot = types.StateRoot(hashOf("sr", vfd.I(g["sroot"])))
	r.Context.BeefyRoot = types.BeefyRoot(hashOf("br", vfd.I(g["broot"])))
	r.Context.LookupAnchor = types.HeaderHash(hashOf("hh", vfd.I(g["lanchor"])))
	r.Context.LookupAnchorSlot = types.TimeSlot(vfd.I(g["lslot"]))
	r.Context.Prerequisites = []types.OpaqueHash{}
	for _, p := range ints(g["pre"]) {
		r.Context.Prerequisites = append(r.Context.Prerequisites, types.OpaqueHash(hashOf("pk", p)))
	}
	r.CoreIndex = types.CoreIndex(vfd.I(g["core"]))
	r.AuthorizerHash = types.OpaqueHash(hashOf("au", vfd.I(g["auth"])))
	r.AuthGasUsed = 7
	r.AuthOutput = types.ByteSequence(fill(vfd.I(g["aout"]), 3))
	r.SegmentRootLookup = types.SegmentRootLookup{}
	for _, lx := range list(g["srl"]) {
		l := rec(lx)
		r.SegmentRootLookup = append(r.SegmentRootLookup, types.SegmentRootLookupItem{
			WorkPackageHash: types.WorkPackageHash(hashOf("pk", vfd.I(l["p"]))), SegmentTreeRoot: types.OpaqueHash(hashOf("xr", vfd.I(l["x"])))})
	}
	r.Results = []types.WorkResult{}
	for i, dx := range list(g["res"]) {
		d := rec(dx)
		w := types.WorkResult{ServiceID: types.ServiceID(vfd.I(d["s"])), CodeHash: types.OpaqueHash(hashOf("ch", vfd.I(d["code"]))),
			PayloadHash: types.OpaqueHash(hashOf("pl", i+1)), AccumulateGas: types.Gas(vfd.FromU64LE(d["gas"]))}
		if d["okr"].(bool) {
			w.Result = types.GetWorkExecResult(types.WorkExecResultOk, fill(vfd.I(d["out"]), byte(i)))
		} else {
			w.Result = types.GetWorkExecResult(types.WorkExecResultPanic, nil)
		}
		r.Results = append(r.Results, w)
	}
	return r
}

// a pending report (prior rho): only identity matters
func pendingReport(core int, e map[string]any) types.WorkReport {
	return report(map[string]any{"pkg": e["pkg"], "xroot": e["pkg"], "rid": e["rid"], "anchor": 1.0, "sroot": 1.0, "broot": 1.0,
		"lanchor": 1.0, "lslot": 0.0, "pre": []any{}, "core": float64(core), "auth": 1.0, "aout": 1.0, "srl": []any{},
		"res": []any{map[string]any{"s": 1.0, "code": 1.0, "gas": []any{1.0, 0.0, 0.0, 0.0, 0.0, 0.0, 0.0, 0.0}, "okr": true, "out": 1.0}}})
}

func reportHash(r *types.WorkReport) types.OpaqueHash {
	enc := types.NewEncoder()
	b, err := enc.Encode(r)
	if err != nil {
		panic(err)
	}
	return hash.Blake2bHash(b)
}

func sign(k int, kind string, h types.OpaqueHash) (sig types.Ed25519Signature) {
	ctx := "jam_guarantee"
	switch kind {
	case "zero":
		return
	case "ctx":
		ctx = "jam_available"
	case "rep":
		h[0] ^= 1
	}
	copy(sig[:], ed25519.Sign(priv(k), append([]byte(ctx), h[:]...)))
	return
}

func errName(c types.ErrorCode) string {
	for n, v := range reportsErr.ReportsErrorMap {
		if v == c {
			return n
		}
	}
	return "code_" + string(rune('0'+int(c)/10)) + string(rune('0'+int(c)%10))
}

type world struct {
	rids map[types.OpaqueHash]int
	keys map[types.Ed25519Public]int
}

func (w *world) rhoOut(r types.AvailabilityAssignments) []map[string]int {
	out := []map[string]int{}
	for _, a := range r {
		if a == nil {
			out = append(out, map[string]int{"rid": 0, "t": 0})
			continue
		}
		id, ok := w.rids[reportHash(&a.Report)]
		if !ok {
			id = -1
		}
		out = append(out, map[string]int{"rid": id, "t": int(a.AssignedSlot)})
	}
	return out
}

func (w *world) keysOut(vs []types.Ed25519Public) []int {
	out := []int{}
	for _, k := range vs {
		if k == (types.Ed25519Public{}) {
			out = append(out, 0)
		} else if id, ok := w.keys[k]; ok {
			out = append(out, id)
		} else {
			out = append(out, -1)
		}
	}
	return out
}

func edKeys(vs types.ValidatorsData) []types.Ed25519Public {
	out := []types.Ed25519Public{}
	for _, v := range vs {
		out = append(out, v.Ed25519)
	}
	return out
}

func runCase(out *vfd.Out, c map[string]any) {
	st := rec(c["st"])
	tau := types.TimeSlot(vfd.I(st["tau"]))
	w := &world{rids: map[types.OpaqueHash]int{}, keys: map[types.Ed25519Public]int{}}
	kappa, lambda, off := ints(st["kappa"]), ints(st["lambda"]), ints(st["off"])
	for _, k := range append(append(append([]int{}, kappa...), lambda...), off...) {
		w.keys[pub(k)] = k
	}

	// oracle table: BLAKE2b-256 of the inputs the specification asks for
	tab := [][][]int{}
	for _, q := range list(c["hq"]) {
		in := vfd.Bytes(q)
		h := blake2b.Sum256(in)
		tab = append(tab, [][]int{vfd.B(in), vfd.B(h[:])})
	}

	// the extrinsic
	var ext types.GuaranteesExtrinsic
	for _, gx := range list(c["ext"]) {
		g := rec(gx)
		r := report(g)
		h := reportHash(&r)
		w.rids[h] = vfd.I(g["rid"])
		rg := types.ReportGuarantee{Report: r, Slot: types.TimeSlot(vfd.I(g["slot"]))}
		for _, sx := range list(g["sigs"]) {
			s := rec(sx)
			w.keys[pub(vfd.I(s["k"]))] = vfd.I(s["k"])
			rg.Signatures = append(rg.Signatures, types.ValidatorSignature{ValidatorIndex: types.ValidatorIndex(vfd.I(s["i"])),
				Signature: sign(vfd.I(s["k"]), vfd.S(s["kind"]), h)})
		}
		ext = append(ext, rg)
	}

	// the state
	rhoIn := list(st["rho"])
	prior := make(types.AvailabilityAssignments, types.CoresCount)
	rdd := make(types.AvailabilityAssignments, types.CoresCount)
	for i := range prior {
		if i >= len(rhoIn) {
			break
		}
		e := rec(rhoIn[i])
		if vfd.I(e["rid"]) == 0 {
			continue
		}
		r := pendingReport(i, e)
		w.rids[reportHash(&r)] = vfd.I(e["rid"])
		prior[i] = &types.AvailabilityAssignment{Report: r, AssignedSlot: types.TimeSlot(vfd.I(e["t"]))}
		if e["live"].(bool) {
			r2 := pendingReport(i, e) // a separate copy: the driver itself introduces no aliasing
			rdd[i] = &types.AvailabilityAssignment{Report: r2, AssignedSlot: types.TimeSlot(vfd.I(e["t"]))}
		}
	}
	alpha := make(types.AuthPools, types.CoresCount)
	for i, px := range list(st["alpha"]) {
		if i < len(alpha) {
			for _, a := range ints(px) {
				alpha[i] = append(alpha[i], types.AuthorizerHash(hashOf("au", a)))
			}
		}
	}
	var betaD, betaP types.BlocksHistory
	bl := list(st["beta"])
	for i, bx := range bl {
		b := rec(bx)
		info := types.BlockInfo{HeaderHash: types.HeaderHash(hashOf("hh", vfd.I(b["h"]))), BeefyRoot: types.OpaqueHash(hashOf("br", vfd.I(b["b"]))),
			StateRoot: types.StateRoot(hashOf("sr", vfd.I(b["s"])))}
		for _, px := range list(b["rep"]) {
			p := rec(px)
			info.Reported = append(info.Reported, types.ReportedWorkPackage{Hash: types.WorkReportHash(hashOf("pk", vfd.I(p["p"]))), ExportsRoot: types.ExportsRoot(hashOf("xr", vfd.I(p["x"])))})
		}
		betaD = append(betaD, info)
		pi := info
		pi.Reported = append([]types.ReportedWorkPackage{}, info.Reported...)
		if i == len(bl)-1 {
			pi.StateRoot = types.StateRoot{} // prior beta does not know the last block's state root yet (4.6 / 7.5)
		}
		betaP = append(betaP, pi)
	}
	xi := make(types.AccumulatedQueue, types.EpochLength)
	for _, p := range ints(st["xi"]) {
		xi[p%types.EpochLength] = append(xi[p%types.EpochLength], types.WorkPackageHash(hashOf("pk", p)))
	}
	theta := make(types.ReadyQueue, types.EpochLength)
	for _, p := range ints(st["theta"]) {
		r := pendingReport(0, map[string]any{"pkg": float64(p), "rid": 0.0})
		theta[(p+5)%types.EpochLength] = append(theta[(p+5)%types.EpochLength], types.ReadyRecord{Report: r, Dependencies: []types.WorkPackageHash{types.WorkPackageHash(hashOf("pk", 98))}})
	}
	delta := types.ServiceAccountState{}
	for _, dx := range list(st["delta"]) {
		d := rec(dx)
		delta[types.ServiceID(vfd.I(d["id"]))] = types.ServiceAccount{ServiceInfo: types.ServiceInfo{CodeHash: types.OpaqueHash(hashOf("ch", vfd.I(d["code"]))),
			MinItemGas: types.Gas(vfd.FromU64LE(d["min"])), Balance: 1000}}
	}
	var anc types.Ancestry
	for _, ax := range list(st["anc"]) {
		a := rec(ax)
		anc = append(anc, types.AncestryItem{Slot: types.TimeSlot(vfd.I(a["t"])), HeaderHash: types.HeaderHash(hashOf("hh", vfd.I(a["h"])))})
	}
	var eta types.EntropyBuffer
	eta[0], eta[1] = types.Entropy(hashOf("e0", 1)), types.Entropy(hashOf("e1", 1))
	copy(eta[2][:], vfd.Bytes(st["eta2"]))
	copy(eta[3][:], vfd.Bytes(st["eta3"]))
	offKeys := []types.Ed25519Public{}
	for _, k := range off {
		offKeys = append(offKeys, pub(k))
	}

	st["tab"] = tab
	o := map[string]any{"ev": "Block", "sc": c["sc"], "ds": c["ds"], "st": st, "ext": c["ext"], "panic": 0, "ok": false, "err": "",
		"rho_before": []int{}, "rho_post": []int{}, "prior_after": []int{}, "rdd_after": []int{}, "reporters": []int{}, "kappa_after": []int{}, "lambda_after": []int{}}
	var cs *blockchain.ChainState
	var err error
	panicked, msg := vfd.Guard(func() {
		blockchain.ResetInstance()
		cs = blockchain.GetInstance()
		cs.AddBlock(types.Block{Header: types.Header{Slot: tau}, Extrinsic: types.Extrinsic{Guarantees: ext}})
		cs.GetPriorStates().SetTau(tau - 1)
		cs.GetPosteriorStates().SetTau(tau)
		cs.GetPriorStates().SetXi(xi)
		cs.GetPriorStates().SetVartheta(theta)
		cs.GetPriorStates().SetRho(prior)
		cs.GetIntermediateStates().SetRhoDoubleDagger(rdd)
		cs.GetPosteriorStates().SetKappa(validators(kappa))
		cs.GetPosteriorStates().SetLambda(validators(lambda))
		cs.GetPosteriorStates().SetEta(eta)
		cs.GetPosteriorStates().SetPsiO(offKeys)
		cs.GetPriorStates().SetPsiO(append([]types.Ed25519Public{}, offKeys...))
		cs.GetPriorStates().SetBetaH(betaP)
		cs.GetIntermediateStates().SetBetaHDagger(betaD)
		cs.GetPriorStates().SetAlpha(alpha)
		cs.GetPriorStates().SetDelta(delta)
		cs.ClearAncestry()
		if len(anc) > 0 {
			cs.AppendAncestry(anc)
		}
		o["rho_before"] = w.rhoOut(cs.GetPosteriorStates().GetRho())
		err = stf.UpdateReports()
	})
	if panicked {
		o["panic"], o["err"] = 1, msg
		out.Emit(o)
		return
	}
	o["ok"] = err == nil
	if err != nil {
		o["err"] = err.Error()
		if ec, isCode := err.(*types.ErrorCode); isCode {
			o["err"] = errName(*ec)
		}
	}
	o["rho_post"] = w.rhoOut(cs.GetPosteriorStates().GetRho())
	o["prior_after"] = w.rhoOut(cs.GetPriorStates().GetRho())
	o["rdd_after"] = w.rhoOut(cs.GetIntermediateStates().GetRhoDoubleDagger())
	o["kappa_after"] = w.keysOut(edKeys(cs.GetPosteriorStates().GetKappa()))
	o["lambda_after"] = w.keysOut(edKeys(cs.GetPosteriorStates().GetLambda()))
	if err == nil {
		reps := [][]int{}
		p2, m2 := vfd.Guard(func() {
			for _, g := range ext {
				ks, gerr := extrinsic.GetGuarantors(g)
				if gerr != nil {
					ks = nil
				}
				reps = append(reps, w.keysOut(ks))
			}
		})
		if p2 {
			o["panic"], o["err"] = 1, "GetGuarantors: "+m2
		}
		o["reporters"] = reps
		// computing the reporters must not touch the validator keys either
		o["kappa_after"] = w.keysOut(edKeys(cs.GetPosteriorStates().GetKappa()))
		o["lambda_after"] = w.keysOut(edKeys(cs.GetPosteriorStates().GetLambda()))
	}
	out.Emit(o)
}

func TestVerifReports(t *testing.T) {
	logger.ConfigureLogger("main", logger.LoggerConfig{Level: "ERROR", Enabled: true})
	types.SetTinyMode()
	cases := vfd.ReadCases(vfd.Env("VF_CASES", "cases.ndjson"))
	out := vfd.NewOut(vfd.Env("VF_OUT", "trace.ndjson"))
	defer out.Close()
	for _, c := range cases {
		runCase(out, c)
	}
	blockchain.ResetInstance()
	t.Logf("cases=%d events=%d", len(cases), out.N)
}

package fuzz

// X-step driver for C26 (in-package, internal/fuzz): block import is atomic and repeatable.
//
// It builds inputs, executes FuzzServiceStub and records what it answered.  It contains no
// oracle: every recorded answer is judged by spec/node/NodeImport_Trace.tla.
//
// A case (one line of VF_CASES), produced by spec/node/NodeImport_Gen.tla + checks/c26.py:
//   {"id":n, "n":N, "parent":[p1..pN], "ckind":[k1..kN], "seq":[x1..xL], "tau0":t, "anc":0|1, "gap":g, "gapat":x}
// parent[x] < x, 0 = genesis.  ckind is the concrete block recipe (see mkBlock).  For every
// case the driver
//   1. builds the N blocks on a scratch node (valid blocks are imported there so that their
//      children can be built on their posterior state; the state a block quotes is that of its
//      nearest ancestor whose whole ancestry is valid),
//   2. run A: fresh node, SetState(genesis), ImportBlock(seq[1]), ..., and after every call
//      GetState of the genesis header, of every block accepted so far and of the block just sent,
//   3. runs B1, B2, ...: B(k+1) is B(k) (B0 = A) on a fresh node without the first call that B(k)
//      answered with an error (the node that never saw that rejected block), until nothing is
//      rejected any more,
//   4. run C: run A once more on a fresh node.
// Digests (state roots, key-value sets) are replaced by small integers, equal digests giving
// equal integers within a case, so that TLC can compare them.

import (
	"bytes"
	"crypto/ed25519"
	"encoding/binary"
	"encoding/hex"
	"fmt"
	"os"
	"sort"
	"testing"

	"github.com/New-JAMneration/JAM-Protocol/internal/blockchain"
	"github.com/New-JAMneration/JAM-Protocol/internal/extrinsic"
	"github.com/New-JAMneration/JAM-Protocol/internal/types"
	"github.com/New-JAMneration/JAM-Protocol/internal/utilities"
	"github.com/New-JAMneration/JAM-Protocol/internal/utilities/hash"
	m "github.com/New-JAMneration/JAM-Protocol/internal/utilities/merklization"
	"github.com/New-JAMneration/JAM-Protocol/internal/verifdrv/vfd"
	"github.com/New-JAMneration/JAM-Protocol/logger"
	vrf "github.com/New-JAMneration/JAM-Protocol/pkg/Rust-VRF/vrf-func-ffi/src"
	"golang.org/x/crypto/blake2b"
)

func h32(parts ...[]byte) [32]byte {
	h, _ := blake2b.New256(nil)
	for _, p := range parts {
		h.Write(p)
	}
	var o [32]byte
	copy(o[:], h.Sum(nil))
	return o
}

// ---------------------------------------------------------------- synthetic genesis

func edKey(tag string, i int) ed25519.PrivateKey {
	seed := h32([]byte("verif-ed-"+tag), []byte{byte(i)})
	return ed25519.NewKeyFromSeed(seed[:])
}

// validators: hash-derived Bandersnatch keys (the stand-in needs no secret), real Ed25519 keys
func verifValidators(tag string) types.ValidatorsData {
	v := make(types.ValidatorsData, types.ValidatorsCount)
	for i := range v {
		v[i].Bandersnatch = types.BandersnatchPublic(h32([]byte("verif-bs-"+tag), []byte{byte(i)}))
		copy(v[i].Ed25519[:], edKey(tag, i).Public().(ed25519.PublicKey))
	}
	return v
}

// edSecret finds the private key of one of the generated validators
func edSecret(pub types.Ed25519Public) ed25519.PrivateKey {
	for _, tag := range []string{"a", "b"} {
		for i := 0; i < types.ValidatorsCount; i++ {
			k := edKey(tag, i)
			if bytes.Equal(k.Public().(ed25519.PublicKey), pub[:]) {
				return k
			}
		}
	}
	return nil
}

func ringOf(vs types.ValidatorsData) []byte {
	ring := make([]byte, 0, 32*len(vs))
	for _, v := range vs {
		ring = append(ring, v.Bandersnatch[:]...)
	}
	return ring
}

// F(entropy, validators)  (GP 6.26), restated so the builder does not lean on internal/safrole.
func fallbackKeys(entropy types.Entropy, vs types.ValidatorsData) []types.BandersnatchPublic {
	keys := make([]types.BandersnatchPublic, types.EpochLength)
	for i := 0; i < types.EpochLength; i++ {
		in := append(append([]byte{}, entropy[:]...), byte(i), byte(i>>8), byte(i>>16), byte(i>>24))
		d := h32(in)
		idx := (uint32(d[0]) | uint32(d[1])<<8 | uint32(d[2])<<16 | uint32(d[3])<<24) % uint32(len(vs))
		keys[i] = vs[idx].Bandersnatch
	}
	return keys
}

// A minimal well-formed state for the tiny constants (V=6, C=2, E=12): fallback-key sealing,
// empty pools/queues/history, no services.
func genesisState(tau types.TimeSlot) types.State {
	st := blockchain.NewPriorStates().GetState()
	vs := verifValidators("a")
	st.Iota = verifValidators("b")
	st.Kappa = append(types.ValidatorsData{}, vs...)
	st.Lambda = append(types.ValidatorsData{}, vs...)
	st.Gamma.GammaK = append(types.ValidatorsData{}, vs...)
	copy(st.Gamma.GammaZ[:], vrf.Commitment(ringOf(vs)))
	for i := 0; i < 4; i++ {
		st.Eta[i] = types.Entropy(h32([]byte("verif-eta"), []byte{byte(i)}))
	}
	st.Gamma.GammaS = types.TicketsOrKeys{Keys: fallbackKeys(st.Eta[2], st.Kappa)}
	st.Gamma.GammaA = types.TicketsAccumulator{}
	st.Tau = tau
	for c := range st.Varphi {
		st.Varphi[c] = make(types.AuthQueue, types.AuthQueueSize)
	}
	for c := range st.Alpha {
		st.Alpha[c] = types.AuthPool{}
	}
	st.Pi.ValsCurr = make(types.ValidatorsStatistics, types.ValidatorsCount)
	st.Pi.ValsLast = make(types.ValidatorsStatistics, types.ValidatorsCount)
	st.Pi.Cores = make(types.CoresStatistics, types.CoresCount)
	st.Pi.Services = types.ServicesStatistics{}
	st.Chi.AlwaysAccum = types.AlwaysAccumulateMap{}
	// one authorizer, always in every pool (the queues refill the pools with it)
	for c := range st.Varphi {
		for i := range st.Varphi[c] {
			st.Varphi[c][i] = types.AuthorizerHash(verifAuthorizer)
		}
		st.Alpha[c] = types.AuthPool{types.AuthorizerHash(verifAuthorizer)}
	}
	// recent history knows the genesis header, so that the first block can anchor a report on it
	st.Beta.History = types.BlocksHistory{{HeaderHash: hh(genesisHeader(tau)), Reported: []types.ReportedWorkPackage{}}}
	// two services with raw storage and solicited (not yet provided) preimages: their
	// storage / lookup entries are the node's "unmatched" key-values
	for _, sid := range verifServices {
		acc := types.ServiceAccount{
			ServiceInfo: types.ServiceInfo{CodeHash: types.OpaqueHash(h32([]byte("verif-code"), []byte{byte(sid)})),
				Balance: 1 << 40, MinItemGas: 10, MinMemoGas: 10, Bytes: 1000, Items: 12},
			PreimageLookup: types.PreimagesMapEntry{},
			LookupDict:     types.LookupMetaMapEntry{},
			StorageDict:    types.Storage{},
		}
		for j := 0; j < 3; j++ {
			acc.StorageDict[string([]byte{'k', byte(sid), byte(j)})] = bytes.Repeat([]byte{byte(sid), byte(j)}, 3+j)
		}
		for j := 0; j < verifBlobs; j++ {
			b := verifBlob(sid, j)
			acc.LookupDict[types.LookupMetaMapkey{Hash: types.OpaqueHash(h32(b)), Length: types.U32(len(b))}] = types.TimeSlotSet{}
		}
		if sid == verifServices[0] {
			// the first service has code: its accumulate program writes every operand it is given
			// into its storage (key [i] := item i)
			code := append([]byte{0}, recorderProgram()...) // E(|metadata| = 0) ++ program
			ch := types.OpaqueHash(h32(code))
			acc.ServiceInfo.CodeHash = ch
			acc.PreimageLookup[ch] = code
			acc.LookupDict[types.LookupMetaMapkey{Hash: ch, Length: types.U32(len(code))}] = types.TimeSlotSet{0}
		}
		st.Delta[sid] = acc
	}
	return st
}

var verifServices = []types.ServiceID{7, 300}
var verifAuthorizer = h32([]byte("verif-authorizer"))

// ---- a tiny PVM assembler (after harness/accrounds): the recorder accumulate program
type asm struct {
	code   []byte
	starts []int
	fix    [][3]int // at, insn, label position index
	labels map[string]int
	fixl   []string
}

func (a *asm) ins(b ...byte) { a.starts = append(a.starts, len(a.code)); a.code = append(a.code, b...) }
func le32(x uint32) []byte   { b := make([]byte, 4); binary.LittleEndian.PutUint32(b, x); return b }
func le64(x uint64) []byte   { b := make([]byte, 8); binary.LittleEndian.PutUint64(b, x); return b }
func (a *asm) loadImm64(r byte, x uint64) { a.ins(append([]byte{20, r}, le64(x)...)...) }
func (a *asm) jump(l string) {
	at := len(a.code)
	a.ins(40, 0, 0, 0, 0)
	a.fix, a.fixl = append(a.fix, [3]int{at + 1, at, 0}), append(a.fixl, l)
}
func (a *asm) branchEqImmMinus1(r byte, l string) {
	at := len(a.code)
	a.ins(81, 1<<4|r, 0xFF, 0, 0, 0, 0)
	a.fix, a.fixl = append(a.fix, [3]int{at + 3, at, 0}), append(a.fixl, l)
}

func recorderProgram() []byte {
	const buf, key, rw = 0x20000, 0x20400, 4096
	a := &asm{labels: map[string]int{}}
	a.labels["refine"] = len(a.code)
	a.jump("refine") // offset 0 (refine entry) is never used; accumulation starts at 5
	a.loadImm64(6, 0)
	a.ins(1) // fallthrough
	a.labels["loop"] = len(a.code)
	a.loadImm64(7, buf)
	a.loadImm64(8, 0)
	a.loadImm64(9, 512)
	a.loadImm64(10, 15)
	a.ins(100, 6<<4|11) // move_reg r11 <- r6
	a.ins(10, 1)        // ecalli fetch (operand r6)
	a.branchEqImmMinus1(7, "end")
	a.ins(100, 7<<4|10)                            // value length
	a.ins(append([]byte{59, 6}, le32(key)...)...) // store_u8 r6 -> key
	a.loadImm64(7, key)
	a.loadImm64(8, 1)
	a.loadImm64(9, buf)
	a.ins(10, 4)                                  // ecalli write
	a.ins(append([]byte{149, 6<<4 | 6}, le32(1)...)...) // add_imm_64 r6 += 1
	a.jump("loop")
	a.labels["end"] = len(a.code)
	a.ins(1)
	a.loadImm64(8, 0)
	a.ins(50, 0) // halt: jump_ind r0
	for i, f := range a.fix {
		binary.LittleEndian.PutUint32(a.code[f[0]:], uint32(int32(a.labels[a.fixl[i]]-f[1])))
	}
	mask := make([]byte, (len(a.code)+7)/8)
	for _, st := range a.starts {
		mask[st/8] |= 1 << uint(st%8)
	}
	nat := func(x int) []byte {
		if x < 128 {
			return []byte{byte(x)}
		}
		return []byte{byte(0x80 | x>>8), byte(x)}
	}
	inner := append([]byte{0, 1}, nat(len(a.code))...)
	inner = append(append(inner, a.code...), mask...)
	le3 := func(x int) []byte { return []byte{byte(x), byte(x >> 8), byte(x >> 16)} }
	p := append(append(append([]byte{}, le3(0)...), le3(rw)...), 0, 0)
	p = append(p, le3(4096)...)
	p = append(p, make([]byte, rw)...)
	p = append(p, le32(uint32(len(inner)))...)
	return append(p, inner...)
}

const verifBlobs = 5

func verifBlob(sid types.ServiceID, j int) []byte {
	return append([]byte("verif-preimage"), byte(sid), byte(sid>>8), byte(j), byte(j*j))
}

// solicited reports which of the genesis-solicited blobs are still wanted in the state pkv
func solicited(pkv types.StateKeyVals, sid types.ServiceID, j int) bool {
	b := verifBlob(sid, j)
	key := m.EncodeDelta4Key(sid, types.LookupMetaMapkey{Hash: types.OpaqueHash(h32(b)), Length: types.U32(len(b))})
	for _, kv := range pkv {
		if kv.Key == key {
			return len(kv.Value) == 1 && kv.Value[0] == 0
		}
	}
	return false
}

func genesisHeader(tau types.TimeSlot) types.Header {
	var gh types.Header
	gh.Slot = tau
	gh.OffendersMark = types.OffendersMark{}
	return gh
}

// ---------------------------------------------------------------- block builder

func hh(hd types.Header) types.HeaderHash {
	x, err := hash.ComputeBlockHeaderHash(hd)
	if err != nil {
		panic(err)
	}
	return x
}

// what the header of a block in slot `slot` on top of state ps must say about Safrole
type safroleView struct {
	kappa  types.ValidatorsData
	gammaK types.ValidatorsData
	keys   []types.BandersnatchPublic
	eta2   types.Entropy
	eta3   types.Entropy
	mark   *types.EpochMark
}

func viewFor(ps *types.State, slot types.TimeSlot) (safroleView, error) {
	v := safroleView{kappa: ps.Kappa, gammaK: ps.Gamma.GammaK, keys: ps.Gamma.GammaS.Keys, eta2: ps.Eta[2], eta3: ps.Eta[3]}
	e := uint32(ps.Tau) / uint32(types.EpochLength)
	e2 := uint32(slot) / uint32(types.EpochLength)
	if e2 > e {
		gk := append(types.ValidatorsData{}, ps.Iota...)
		for i := range gk {
			for _, o := range ps.Psi.Offenders {
				if gk[i].Ed25519 == o {
					gk[i] = types.Validator{}
				}
			}
		}
		em := &types.EpochMark{Entropy: ps.Eta[0], TicketsEntropy: ps.Eta[1]}
		for _, k := range gk {
			em.Validators = append(em.Validators, types.EpochMarkValidatorKeys{Bandersnatch: k.Bandersnatch, Ed25519: k.Ed25519})
		}
		v.mark = em
		v.kappa = ps.Gamma.GammaK
		v.gammaK = gk
		v.eta2, v.eta3 = ps.Eta[1], ps.Eta[2]
		// no ticket contest is ever won in these chains: gamma_s' = F(eta_2', kappa')
		v.keys = fallbackKeys(v.eta2, v.kappa)
	}
	if len(v.keys) == 0 {
		return v, fmt.Errorf("builder handles fallback-key epochs only")
	}
	return v, nil
}

// seal fills H_v and H_s for author key pk (VRF stand-in: forged tags, deterministic outputs).
func seal(hd *types.Header, pk types.BandersnatchPublic, eta3 types.Entropy, keepEntropy bool) {
	sctx := append([]byte(types.JamFallbackSeal), eta3[:]...)
	sout := h32([]byte("verif-seal-out"), pk[:], sctx)
	if !keepEntropy {
		// H_v signs XE ++ Y(H_s); Y(H_s) is the seal's output chosen above, so H_v comes first
		ectx := append([]byte(types.JamEntropy), sout[:]...)
		eout := h32([]byte("verif-entropy-out"), pk[:], ectx)
		copy(hd.EntropySource[:], vrf.ForgeIETF(pk[:], ectx, nil, eout[:]))
	}
	msg, err := utilities.HeaderUSerialization(*hd)
	if err != nil {
		panic(err)
	}
	copy(hd.Seal[:], vrf.ForgeIETF(pk[:], sctx, msg, sout[:]))
}

func ticket(v safroleView, attempt byte, tag byte, good bool) types.TicketEnvelope {
	ctx := append(append([]byte(types.JamTicketSeal), v.eta2[:]...), attempt)
	out := h32([]byte("verif-ticket"), []byte{tag, attempt})
	var t types.TicketEnvelope
	t.Attempt = types.TicketAttempt(attempt)
	copy(t.Signature[:], vrf.ForgeRing(ringOf(v.gammaK), ctx, []byte{}, out[:]))
	if !good {
		t.Signature[40] ^= 1
	}
	return t
}

// mkBlock builds block recipe `kind` with parent header hash `parent` on top of the state pkv
// (the posterior key-values of the nearest fully valid ancestor).  "ok*" recipes are meant to be
// importable, every other recipe breaks exactly one rule and is otherwise well-formed, so that the
// STF fails where the name says:
//   stage 1 (header, nothing written yet): badroot badxthash badtmark badoffmark
//   (valid: ok, okticket = two tickets, okpreimage = solicited preimages, which moves lookup entries
//    out of the raw storage key-values and adds preimage entries, okreport = a guarantee with real
//    Ed25519 credentials, okassur = assurances by all validators: a pending report becomes available
//    and is accumulated by a real PVM program that writes the service's storage, okverdict = a wonky
//    verdict, on the pending report if there is one)
//   disputes: baddispute      safrole: badslot badslot0 badticket badtproof badtorder
//   header VRF: badseal badentropy badauthor badepoch      extrinsic: badxtorder badpreimage
//   assurances: badassur badassuridx badassursig      reports: badreport badreportord badreportsig
//   composite: badsealverdict (a valid verdict that clears a pending report, then a bad seal),
//              badreportassur (valid assurances that make a report available, then a bad guarantee)
func mkBlock(kind string, parent types.HeaderHash, pkv types.StateKeyVals, slot types.TimeSlot) (types.Block, error) {
	ps, _, err := m.StateKeyValsToState(pkv.DeepCopy())
	if err != nil {
		return types.Block{}, fmt.Errorf("parent state does not decode: %w", err)
	}
	switch kind {
	case "badslot":
		slot = ps.Tau
	case "badslot0":
		if ps.Tau > 0 {
			slot = ps.Tau - 1
		} else {
			slot = ps.Tau
		}
	}
	v, err := viewFor(&ps, slot)
	if err != nil {
		return types.Block{}, err
	}
	canTicket := int(slot)%types.EpochLength < types.SlotSubmissionEnd
	ext := types.Extrinsic{}
	var hd types.Header
	hd.OffendersMark = types.OffendersMark{}
	switch kind {
	case "okticket":
		if canTicket {
			a, b := ticket(v, 0, byte(slot), true), ticket(v, 1, byte(slot), true)
			if bytes.Compare(a.Signature[:32], b.Signature[:32]) > 0 {
				a, b = b, a
			}
			ext.Tickets = types.TicketsExtrinsic{a, b}
		}
	case "okreport":
		// a guarantee for core 0 by the validators assigned to it, anchored on the parent
		if g, ok := guarantee(&ps, v, parent, pkv, slot); ok {
			ext.Guarantees = types.GuaranteesExtrinsic{g}
		}
	case "okassur", "badreportassur":
		// every validator assures every core that holds a pending report (which makes it available)
		bits := make(types.Bitfield, types.CoresCount)
		for c := range ps.Rho {
			if ps.Rho[c] != nil {
				bits[c] = 1
			}
		}
		for i := range ps.Kappa {
			ext.Assurances = append(ext.Assurances, assurance(ps.Kappa, i, parent, bits))
		}
		if kind == "badreportassur" {
			// valid assurances (a pending report becomes available), then a guarantee for a core that does not exist
			ext.Guarantees = types.GuaranteesExtrinsic{{Report: types.WorkReport{CoreIndex: types.CoreIndex(types.CoresCount)}, Slot: slot}}
		}
	case "okverdict", "badsealverdict":
		// a "wonky" verdict (one third positive judgements) on some report hash: needs neither
		// culprits nor faults, and lands in psi_w
		// (the pending report of core 0 if there is one, which removes it from rho)
		vd := types.Verdict{Target: types.WorkReportHash(h32([]byte("verif-target"), []byte{byte(slot), byte(slot >> 8)})),
			Age: types.U32(ps.Tau) / types.U32(types.EpochLength)}
		if len(ps.Rho) > 0 && ps.Rho[0] != nil {
			if enc, err := types.NewEncoder().Encode(&ps.Rho[0].Report); err == nil {
				vd.Target = types.WorkReportHash(h32(enc))
			}
		}
		for i := 0; i < types.ValidatorsSuperMajority; i++ {
			j := types.Judgement{Vote: i < types.ValidatorsCount/3, Index: types.ValidatorIndex(i)}
			ctx := types.JamInvalid
			if j.Vote {
				ctx = types.JamValid
			}
			if sk := edSecret(ps.Kappa[i].Ed25519); sk != nil {
				copy(j.Signature[:], ed25519.Sign(sk, append([]byte(ctx), vd.Target[:]...)))
			}
			vd.Votes = append(vd.Votes, j)
		}
		ext.Disputes.Verdicts = []types.Verdict{vd}
	case "okpreimage":
		// provide one still-solicited blob per service, a different one in different slots
		for _, sid := range verifServices {
			for d := 0; d < verifBlobs; d++ {
				j := (int(slot) + d) % verifBlobs
				if solicited(pkv, sid, j) {
					ext.Preimages = append(ext.Preimages, types.Preimage{Requester: sid, Blob: verifBlob(sid, j)})
					break
				}
			}
		}
	case "badticket":
		ext.Tickets = types.TicketsExtrinsic{ticket(v, byte(types.TicketsPerValidator), 1, true)}
	case "badtproof":
		ext.Tickets = types.TicketsExtrinsic{ticket(v, 0, 1, false)}
	case "badtorder":
		a, b := ticket(v, 0, 7, true), ticket(v, 1, 7, true)
		if bytes.Compare(a.Signature[:32], b.Signature[:32]) < 0 {
			a, b = b, a
		}
		ext.Tickets = types.TicketsExtrinsic{a, b}
	case "badxtorder":
		ext.Preimages = types.PreimagesExtrinsic{{Requester: 9, Blob: []byte{1}}, {Requester: 3, Blob: []byte{2}}}
	case "badpreimage":
		ext.Preimages = types.PreimagesExtrinsic{{Requester: 5, Blob: []byte{1, 2, 3}}}
	case "badassur":
		ext.Assurances = types.AssurancesExtrinsic{{Anchor: types.HeaderHash{7}, Bitfield: make(types.Bitfield, types.CoresCount), ValidatorIndex: 0}}
	case "badassuridx":
		ext.Assurances = types.AssurancesExtrinsic{{Anchor: parent, Bitfield: make(types.Bitfield, types.CoresCount), ValidatorIndex: types.ValidatorIndex(types.ValidatorsCount)}}
	case "badassursig":
		a := assurance(ps.Kappa, 1, parent, make(types.Bitfield, types.CoresCount))
		a.Signature[5] ^= 1
		ext.Assurances = types.AssurancesExtrinsic{a}
	case "badreportsig":
		if g, ok := guarantee(&ps, v, parent, pkv, slot); ok {
			g.Signatures[0].Signature[5] ^= 1
			ext.Guarantees = types.GuaranteesExtrinsic{g}
		} else {
			ext.Guarantees = types.GuaranteesExtrinsic{{Report: types.WorkReport{CoreIndex: types.CoreIndex(types.CoresCount)}, Slot: slot}}
		}
	case "badreport":
		ext.Guarantees = types.GuaranteesExtrinsic{{Report: types.WorkReport{CoreIndex: types.CoreIndex(types.CoresCount)}, Slot: slot}}
	case "badreportord":
		ext.Guarantees = types.GuaranteesExtrinsic{{Report: types.WorkReport{CoreIndex: 1}, Slot: slot}, {Report: types.WorkReport{CoreIndex: 0}, Slot: slot}}
	case "baddispute":
		ext.Disputes.Culprits = []types.Culprit{{Target: types.WorkReportHash{5}, Key: types.Ed25519Public{6}}}
		hd.OffendersMark = types.OffendersMark{{6}}
	case "badoffmark":
		hd.OffendersMark = types.OffendersMark{{9}}
	}
	hd.Parent = parent
	hd.ParentStateRoot = m.MerklizationSerializedState(pkv.DeepCopy())
	xh, err := utilities.CreateExtrinsicHash(ext)
	if err != nil {
		return types.Block{}, err
	}
	hd.ExtrinsicHash = xh
	hd.Slot = slot
	hd.EpochMark = v.mark
	want := v.keys[uint32(slot)%uint32(len(v.keys))]
	author := -1
	for i, k := range v.kappa {
		if k.Bandersnatch == want {
			author = i
			break
		}
	}
	if author < 0 {
		return types.Block{}, fmt.Errorf("slot key not among kappa'")
	}
	hd.AuthorIndex = types.ValidatorIndex(author)
	keepEntropy := false
	switch kind {
	case "badroot":
		hd.ParentStateRoot[0] ^= 1
	case "badxthash":
		hd.ExtrinsicHash[0] ^= 1
	case "badtmark":
		tm := make(types.TicketsMark, types.EpochLength)
		hd.TicketsMark = &tm
	case "badepoch":
		if hd.EpochMark == nil {
			em := &types.EpochMark{Entropy: ps.Eta[0], TicketsEntropy: ps.Eta[1]}
			for _, k := range ps.Iota {
				em.Validators = append(em.Validators, types.EpochMarkValidatorKeys{Bandersnatch: k.Bandersnatch, Ed25519: k.Ed25519})
			}
			hd.EpochMark = em
		} else {
			hd.EpochMark = nil
		}
	case "badauthor":
		for i, k := range v.kappa {
			if k.Bandersnatch != want {
				hd.AuthorIndex = types.ValidatorIndex(i)
				break
			}
		}
		want = v.kappa[hd.AuthorIndex].Bandersnatch
	}
	seal(&hd, want, v.eta3, false)
	switch kind {
	case "badentropy":
		hd.EntropySource[40] ^= 1
		keepEntropy = true
		seal(&hd, want, v.eta3, keepEntropy)
	case "badseal", "badsealverdict":
		hd.Seal[40] ^= 1
	}
	return types.Block{Header: hd, Extrinsic: ext}, nil
}

func assurance(kappa types.ValidatorsData, i int, parent types.HeaderHash, bits types.Bitfield) types.AvailAssurance {
	a := types.AvailAssurance{Anchor: parent, Bitfield: bits, ValidatorIndex: types.ValidatorIndex(i)}
	anchor := utilities.OpaqueHashWrapper{Value: types.OpaqueHash(parent)}.Serialize()
	bf := utilities.ByteSequenceWrapper{Value: types.ByteSequence(bits.ToOctetSlice())}.Serialize()
	hd := h32(append(anchor, bf...))
	if sk := edSecret(kappa[i].Ed25519); sk != nil {
		copy(a.Signature[:], ed25519.Sign(sk, append([]byte(types.JamAvailable), hd[:]...)))
	}
	return a
}

// guarantee builds a work report for core 0 and service verifServices[0], anchored on the parent
// block, with credentials of the validators that the rotation assigns to core 0 in this slot.
func guarantee(ps *types.State, v safroleView, parent types.HeaderHash, pkv types.StateKeyVals, slot types.TimeSlot) (types.ReportGuarantee, bool) {
	var g types.ReportGuarantee
	if len(ps.Rho) == 0 || ps.Rho[0] != nil || len(ps.Beta.History) == 0 || int(slot)-int(ps.Tau) > types.MaxLookupAge {
		return g, false // core engaged, or the lookup anchor (the parent) would be too old
	}
	last := ps.Beta.History[len(ps.Beta.History)-1]
	if last.HeaderHash != parent {
		return g, false
	}
	sid := verifServices[0]
	tag := []byte{byte(slot), byte(slot >> 8)}
	r := types.WorkReport{
		PackageSpec: types.WorkPackageSpec{Hash: types.WorkPackageHash(h32([]byte("verif-wp"), parent[:], tag)), Length: 100,
			ErasureRoot: types.ErasureRoot(h32([]byte("verif-er"), tag)), ExportsRoot: types.ExportsRoot(h32([]byte("verif-ex"), tag))},
		Context: types.RefineContext{Anchor: parent, StateRoot: m.MerklizationSerializedState(pkv.DeepCopy()), BeefyRoot: types.BeefyRoot(last.BeefyRoot),
			LookupAnchor: parent, LookupAnchorSlot: ps.Tau, Prerequisites: []types.OpaqueHash{}},
		CoreIndex:         0,
		AuthorizerHash:    types.OpaqueHash(verifAuthorizer),
		AuthOutput:        types.ByteSequence{},
		SegmentRootLookup: types.SegmentRootLookup{},
		Results: []types.WorkResult{{ServiceID: sid, CodeHash: ps.Delta[sid].ServiceInfo.CodeHash, PayloadHash: types.OpaqueHash(h32([]byte("verif-payload"), tag)),
			AccumulateGas: 100000, Result: types.WorkExecResult{Type: types.WorkExecResultOk, Data: append([]byte("out"), tag...)}}},
	}
	g.Report, g.Slot = r, slot
	enc, err := types.NewEncoder().Encode(&r)
	if err != nil {
		return g, false
	}
	hd := h32(enc)
	msg := append([]byte(types.JamGuarantee), hd[:]...)
	asg := extrinsic.NewGuranatorAssignments(v.eta2, slot, append(types.ValidatorsData{}, v.kappa...))
	for i, c := range asg.CoreAssignments {
		if c == 0 && len(g.Signatures) < 3 {
			sk := edSecret(v.kappa[i].Ed25519)
			if sk == nil {
				return g, false
			}
			var sig types.ValidatorSignature
			sig.ValidatorIndex = types.ValidatorIndex(i)
			copy(sig.Signature[:], ed25519.Sign(sk, msg))
			g.Signatures = append(g.Signatures, sig)
		}
	}
	return g, len(g.Signatures) >= 2
}

func isOK(kind string) bool { return len(kind) >= 2 && kind[:2] == "ok" }

// ---------------------------------------------------------------- running a case

type ids struct{ m map[string]int }

func (t *ids) of(s string) int {
	if s == "" {
		return 0
	}
	if v, ok := t.m[s]; ok {
		return v
	}
	t.m[s] = len(t.m) + 1
	return t.m[s]
}

func kvDigest(kv types.StateKeyVals) string {
	s := kv.DeepCopy()
	sort.Slice(s, func(i, j int) bool { return bytes.Compare(s[i].Key[:], s[j].Key[:]) < 0 })
	h, _ := blake2b.New256(nil)
	for _, e := range s {
		h.Write(e.Key[:])
		var l [4]byte
		l[0], l[1], l[2], l[3] = byte(len(e.Value)), byte(len(e.Value)>>8), byte(len(e.Value)>>16), byte(len(e.Value)>>24)
		h.Write(l[:])
		h.Write(e.Value)
	}
	return "kv:" + hex.EncodeToString(h.Sum(nil))
}

type world struct {
	n      int
	parent []int // 1-based
	ckind  []string
	tau0   types.TimeSlot
	anc    bool
	gkv    types.StateKeyVals
	ghash  types.HeaderHash
	blocks []types.Block      // 1-based
	hashes []types.HeaderHash // 0 = genesis
	slots  []types.TimeSlot
	states []types.StateKeyVals // posterior key-values of the blocks the scratch node accepted (nil otherwise)
}

func intsOf(v any) []int {
	a, _ := v.([]any)
	out := make([]int, len(a))
	for i, x := range a {
		out[i] = vfd.I(x)
	}
	return out
}

func strsOf(v any) []string {
	a, _ := v.([]any)
	out := make([]string, len(a))
	for i, x := range a {
		out[i] = vfd.S(x)
	}
	return out
}

// anc: hand SetState a (synthetic) ancestry list, which switches on the node's ancestry
// bookkeeping (it then refuses fork blocks older than its newest committed block).
func freshNode(w *world, anc bool) (types.StateRoot, error) {
	blockchain.ResetInstance()
	svc := &FuzzServiceStub{}
	var ancestry types.Ancestry
	if anc {
		old := w.tau0
		if old > 0 {
			old--
		}
		ancestry = types.Ancestry{{Slot: old, HeaderHash: types.HeaderHash(h32([]byte("verif-ancestor")))}}
	}
	return svc.SetState(genesisHeader(w.tau0), w.gkv.DeepCopy(), ancestry)
}

// build constructs the blocks of the case on a scratch node.
func build(c map[string]any) (*world, error) {
	w := &world{n: vfd.I(c["n"]), tau0: types.TimeSlot(vfd.I(c["tau0"]))}
	w.parent = append([]int{0}, intsOf(c["parent"])...)
	w.ckind = append([]string{"genesis"}, strsOf(c["ckind"])...)
	if len(w.parent) != w.n+1 || len(w.ckind) != w.n+1 {
		return nil, fmt.Errorf("malformed case")
	}
	kv, err := m.StateEncoder(genesisState(w.tau0))
	if err != nil {
		return nil, err
	}
	w.gkv = kv
	w.ghash = hh(genesisHeader(w.tau0))
	w.anc = vfd.I(c["anc"]) != 0
	if _, err := freshNode(w, false); err != nil {
		return nil, fmt.Errorf("SetState: %w", err)
	}
	svc := &FuzzServiceStub{}
	w.blocks = make([]types.Block, w.n+1)
	w.hashes = make([]types.HeaderHash, w.n+1)
	w.slots = make([]types.TimeSlot, w.n+1)
	w.hashes[0], w.slots[0] = w.ghash, w.tau0
	good := make([]bool, w.n+1)
	state := make([]types.StateKeyVals, w.n+1)
	good[0] = true
	if state[0], err = svc.GetState(w.ghash); err != nil {
		return nil, fmt.Errorf("GetState(genesis): %w", err)
	}
	for x := 1; x <= w.n; x++ {
		p := w.parent[x]
		if p < 0 || p >= x {
			return nil, fmt.Errorf("malformed case: parent")
		}
		base := p
		for !good[base] {
			base = w.parent[base]
		}
		// siblings get different slots; a gap of 12 or more crosses an epoch boundary
		w.slots[x] = w.slots[p] + types.TimeSlot(x-p)
		if vfd.I(c["gap"]) > 0 && x == vfd.I(c["gapat"]) {
			w.slots[x] += types.TimeSlot(vfd.I(c["gap"]))
		}
		b, err := mkBlock(w.ckind[x], w.hashes[p], state[base], w.slots[x])
		if err != nil {
			return nil, fmt.Errorf("block %d (%s): %w", x, w.ckind[x], err)
		}
		w.blocks[x], w.hashes[x] = b, hh(b.Header)
		for y := 0; y < x; y++ {
			if w.hashes[y] == w.hashes[x] {
				return nil, fmt.Errorf("blocks %d and %d coincide", y, x)
			}
		}
		w.states = state
		if good[p] && isOK(w.ckind[x]) {
			if _, err := svc.ImportBlock(b); err != nil {
				return nil, fmt.Errorf("scratch node rejects block %d (%s, slot %d on %d): %v", x, w.ckind[x], w.slots[x], p, err)
			}
			if state[x], err = svc.GetState(w.hashes[x]); err != nil {
				return nil, fmt.Errorf("scratch node has no state for block %d: %v", x, err)
			}
			good[x] = true
		}
	}
	return w, nil
}

func runOnce(w *world, out *vfd.Out, tab *ids, run string, seq []int, idx []int) (rejected []bool) {
	root, err := freshNode(w, w.anc)
	rec := map[string]any{"ev": "Fresh", "run": run, "ok": err == nil, "root": 0}
	if err == nil {
		rec["root"] = tab.of("r:" + hex.EncodeToString(root[:]))
	}
	svc := &FuzzServiceStub{}
	// GetState of genesis, of every block this node has accepted in this run and of the block
	// just submitted (a choice of what to look at, made from the node's own answers)
	look := make([]bool, w.n+1)
	look[0] = true
	probe := func(extra int) []map[string]any {
		gets := []map[string]any{}
		for b := 0; b <= w.n; b++ {
			if !look[b] && b != extra {
				continue
			}
			kv, err := svc.GetState(w.hashes[b])
			g := map[string]any{"b": b, "found": err == nil, "kv": 0, "nkv": len(kv), "kvroot": 0}
			if err == nil {
				g["kv"] = tab.of(kvDigest(kv))
				// side observation (not judged for C26): reference Merkle root of what GetState returned
				r := m.MerklizationSerializedState(kv.DeepCopy())
				g["kvroot"] = tab.of("r:" + hex.EncodeToString(r[:]))
			}
			gets = append(gets, g)
		}
		return gets
	}
	rec["gets"] = probe(0)
	out.Emit(rec)
	rejected = make([]bool, len(seq))
	for i, x := range seq {
		var r types.StateRoot
		var ierr error
		panicked, msg := vfd.Guard(func() { r, ierr = svc.ImportBlock(w.blocks[x]) })
		rec := map[string]any{"ev": "Import", "run": run, "i": idx[i], "x": x, "kind": w.ckind[x], "ok": ierr == nil && !panicked, "root": 0, "err": "", "panic": panicked}
		if panicked {
			rec["err"] = "GO PANIC: " + msg
		} else if ierr != nil {
			e := ierr.Error()
			if len(e) > 120 {
				e = e[:120]
			}
			rec["err"] = e
		} else {
			rec["root"] = tab.of("r:" + hex.EncodeToString(r[:]))
		}
		rejected[i] = !(ierr == nil && !panicked)
		if !rejected[i] {
			look[x] = true
		}
		rec["gets"] = probe(x)
		out.Emit(rec)
	}
	return rejected
}

func TestRun(t *testing.T) {
	os.Setenv("JAM_FUZZ", "1")
	types.SetTinyMode()
	logger.ConfigureLogger("main", logger.LoggerConfig{Enabled: false})
	cases := vfd.ReadCases(vfd.Env("VF_CASES", "cases.ndjson"))
	out := vfd.NewOut(vfd.Env("VF_OUT", "trace.ndjson"))
	defer out.Close()
	for _, c := range cases {
		seq := intsOf(c["seq"])
		head := map[string]any{"ev": "Scenario", "id": vfd.I(c["id"]), "n": vfd.I(c["n"]), "parent": intsOf(c["parent"]),
			"ckind": strsOf(c["ckind"]), "seq": seq, "tau0": vfd.I(c["tau0"]), "anc": vfd.I(c["anc"]), "gap": vfd.I(c["gap"]), "gapat": vfd.I(c["gapat"]),
			"expect": c["expect"], "built": true, "why": ""}
		w, err := build(c)
		if err != nil {
			head["built"], head["why"] = false, err.Error()
			out.Emit(head)
			continue
		}
		for _, x := range seq {
			if x < 1 || x > w.n {
				t.Fatalf("case %v: bad block index", c["id"])
			}
		}
		slots := make([]int, w.n)
		for x := 1; x <= w.n; x++ {
			slots[x-1] = int(w.slots[x])
		}
		head["slots"] = slots
		out.Emit(head)
		tab := &ids{m: map[string]int{}}
		all := make([]int, len(seq))
		for i := range all {
			all[i] = i + 1
		}
		rej := runOnce(w, out, tab, "A", seq, all)
		// shadows: drop the first call the previous run answered with an error and run the rest on a
		// fresh node, until a run has no rejection left (B1 never saw A's first rejected block, B2
		// neither that nor B1's first rejected block, ...)
		curSeq, curIdx := seq, all
		for k := 1; k <= 8; k++ {
			first := -1
			for i := range curSeq {
				if rej[i] {
					first = i
					break
				}
			}
			if first < 0 {
				break
			}
			nextSeq := append(append([]int{}, curSeq[:first]...), curSeq[first+1:]...)
			nextIdx := append(append([]int{}, curIdx[:first]...), curIdx[first+1:]...)
			curSeq, curIdx = nextSeq, nextIdx
			rej = runOnce(w, out, tab, fmt.Sprintf("B%d", k), curSeq, curIdx)
		}
		runOnce(w, out, tab, "C", seq, all)
	}
}

package merklization

// X-step driver for C17 (state export / import round trip).  In-package for
// internal/utilities/merklization (encodeDelta*, key constructors).  It only EXECUTES and RECORDS:
// the expected key-value set, the import classification and every verdict are TLC's
// (spec/node/StateKV.tla through StateKV_Trace.tla).
//
// Input  (VF_CASES): shapes from spec/node/StateKV_Gen.tla  {svcs:[{idc,st,pre,look}], comp, core}
// Output (VF_OUT):   one record per case
//   abs    the abstract state the driver built: comp[16] (opaque tokens), svc[{id,info{c,b,..},storage[{k,v}],pre[blob],look[{h,l,t}]}]
//   exp    StateEncoder(state): kvs [{k,v}] (component values as tokens: E4(len) ++ BLAKE2b(value))
//   runs   per ordering of the snapshot: StateKeyValsToState -> parsed services, raw; StateEncoder(parsed) -> kvs2; roots
//   kh     hash oracle table {in,out}: BLAKE2b-256 computed with x/crypto directly (DESIGN.md 3.3), for a fixed query
//          schema that knows nothing about the classification: every service-entry value v: v, FEFFFFFF++H(v), E4(|v|)++H(v);
//          every abstract storage key: FFFFFFFF++k; every abstract lookup item: l++h
// The 16 non-service components come from a reflection-based seeded generator over internal/types (the idea and the
// shape rules are those of harness/codec/codec_test.go): they are real encodings of random well-typed values.

import (
	"bytes"
	"encoding/binary"
	"fmt"
	"reflect"
	"runtime"
	"sort"
	"testing"

	"github.com/New-JAMneration/JAM-Protocol/internal/types"
	"github.com/New-JAMneration/JAM-Protocol/internal/verifdrv/vfd"
	"golang.org/x/crypto/blake2b"
)

// ---------------------------------------------------------------------------- reflection generator (after harness/codec)

type skGen struct {
	r    *vfd.Rng
	mode int // 0 random, 1 minimal, 2 rich
}

func (g *skGen) fixedLen(name string) (int, bool) {
	switch name {
	case "ValidatorsData", "ValidatorsStatistics":
		return types.ValidatorsCount, true
	case "CoresStatistics", "AuthPools", "AuthQueues", "AvailabilityAssignments", "ServiceIDList", "Bitfield":
		return types.CoresCount, true
	case "AuthQueue":
		return types.AuthQueueSize, true
	case "TicketsMark", "ReadyQueue", "AccumulatedQueue":
		return types.EpochLength, true
	}
	return 0, false
}

func (g *skGen) maxLen(name string) (int, bool) {
	switch name {
	case "AuthPool":
		return types.AuthPoolMaxSize, true
	case "BlocksHistory":
		return types.MaxBlocksHistory, true
	}
	return 0, false
}

var skBoundary = []uint64{0, 1, 2, 0x7f, 0x80, 0xff, 0x100, 0x3fff, 0x4000, 0xffff, 0x10000, 0x1fffff, 0x200000, 0xffffff, 0x1000000,
	0xfffffff, 0x10000000, 0xffffffff, 0x100000000, 0x7ffffffff, 0x800000000, 0x3ffffffffff, 0x40000000000, 0x1ffffffffffff, 0x2000000000000,
	0xffffffffffffff, 0x100000000000000, 0x7fffffffffffffff, 0x8000000000000000, 0xffffffffffffffff}

func (g *skGen) uint(bits int) uint64 {
	var x uint64
	if g.mode == 1 {
		return 0
	}
	switch g.r.N(3) {
	case 0:
		x = skBoundary[g.r.N(len(skBoundary))]
	case 1:
		x = g.r.U64() >> uint(g.r.N(64))
	default:
		x = g.r.U64()
	}
	if bits < 64 {
		x &= (uint64(1) << uint(bits)) - 1
	}
	return x
}

func (g *skGen) bytes(n int) []byte {
	b := make([]byte, n)
	switch g.r.N(4) {
	case 0:
	case 1:
		for i := range b {
			b[i] = 0xff
		}
	default:
		copy(b, g.r.Bytes(n))
	}
	return b
}

func (g *skGen) seqLen(bud int, isBytes bool) int {
	if g.mode == 1 {
		return 0
	}
	if g.mode == 2 {
		if isBytes {
			return 3
		}
		return 2
	}
	if isBytes {
		switch g.r.N(8) {
		case 0, 4:
			return 0
		case 1:
			return 1
		case 2:
			return 127 + g.r.N(3)
		default:
			return g.r.N(40)
		}
	}
	if bud <= 0 {
		return g.r.N(2)
	}
	switch g.r.N(6) {
	case 0:
		return 0
	case 1:
		return 1
	default:
		return g.r.N(bud + 2)
	}
}

var skExecTypes = []types.WorkExecResultType{types.WorkExecResultOk, types.WorkExecResultOutOfGas, types.WorkExecResultPanic,
	types.WorkExecResultBadExports, types.WorkExecResultReportOversize, types.WorkExecResultBadCode, types.WorkExecResultCodeOversize}

func (g *skGen) value(t reflect.Type, bud int, field string) reflect.Value {
	v := reflect.New(t).Elem()
	name := t.Name()
	switch t.Kind() {
	case reflect.Uint8, reflect.Uint16, reflect.Uint32, reflect.Uint64:
		v.SetUint(g.uint(int(t.Size()) * 8))
	case reflect.Bool:
		v.SetBool(g.r.Bool())
	case reflect.String:
		v.SetString(string(g.bytes(g.seqLen(bud, true) % 300)))
	case reflect.Array:
		if t.Elem().Kind() == reflect.Uint8 {
			reflect.Copy(v, reflect.ValueOf(g.bytes(t.Len())))
		} else {
			for i := 0; i < t.Len(); i++ {
				v.Index(i).Set(g.value(t.Elem(), bud-1, ""))
			}
		}
	case reflect.Slice:
		isBytes := t.Elem().Kind() == reflect.Uint8
		n := g.seqLen(bud, isBytes)
		fixed := false
		if fl, ok := g.fixedLen(name); ok {
			n, fixed = fl, true
		} else if field == "TicketsOrKeys.Tickets" || field == "TicketsOrKeys.Keys" {
			n, fixed = types.EpochLength, true
		} else if ml, ok := g.maxLen(name); ok && (n > ml || (g.mode == 0 && g.r.N(4) == 0)) {
			n = ml
		}
		if n == 0 && !fixed && g.r.Bool() {
			return v
		}
		s := reflect.MakeSlice(t, n, n)
		if isBytes {
			reflect.Copy(s, reflect.ValueOf(g.bytes(n)))
		} else {
			eb := bud - 1
			if fixed && n > 8 {
				eb = 0
			}
			for i := 0; i < n; i++ {
				s.Index(i).Set(g.value(t.Elem(), eb, ""))
			}
		}
		v.Set(s)
	case reflect.Ptr:
		if g.mode == 2 || (g.mode == 0 && g.r.N(3) != 0) {
			p := reflect.New(t.Elem())
			p.Elem().Set(g.value(t.Elem(), bud-1, ""))
			v.Set(p)
		}
	case reflect.Map:
		n := g.seqLen(bud, false)
		if n == 0 && g.r.Bool() {
			return v
		}
		m := reflect.MakeMap(t)
		for i := 0; i < n; i++ {
			k := g.value(t.Key(), 0, "")
			if t.Key().Kind() == reflect.Uint32 && g.r.Bool() {
				k.SetUint(uint64([]uint32{1, 255, 256, 257, 65536, 0x01000000, 0xff, 0xff00}[g.r.N(8)]))
			}
			var e reflect.Value
			if t.Elem().Kind() == reflect.Bool {
				e = reflect.ValueOf(true)
			} else {
				e = g.value(t.Elem(), bud-1, "")
			}
			m.SetMapIndex(k, e)
		}
		v.Set(m)
	case reflect.Struct:
		switch name {
		case "WorkExecResult":
			ty := skExecTypes[g.r.N(len(skExecTypes))]
			var data []byte
			if ty == types.WorkExecResultOk {
				data = g.bytes(g.seqLen(bud, true))
			}
			return reflect.ValueOf(types.GetWorkExecResult(ty, data))
		case "TicketsOrKeys":
			f := "Tickets"
			if g.r.Bool() {
				f = "Keys"
			}
			sf, _ := t.FieldByName(f)
			v.FieldByName(f).Set(g.value(sf.Type, bud-1, "TicketsOrKeys."+f))
			return v
		}
		for i := 0; i < t.NumField(); i++ {
			if !t.Field(i).IsExported() {
				continue
			}
			v.Field(i).Set(g.value(t.Field(i).Type, bud-1, name+"."+t.Field(i).Name))
		}
	default:
		panic("skGen: unsupported kind " + t.Kind().String() + " of " + t.String())
	}
	return v
}

// the 16 non-service components of a state (Delta is filled from the shape)
func (g *skGen) components() types.State {
	var st types.State
	sv := reflect.ValueOf(&st).Elem()
	t := sv.Type()
	for i := 0; i < t.NumField(); i++ {
		if t.Field(i).Name == "Delta" {
			continue
		}
		sv.Field(i).Set(g.value(t.Field(i).Type, 3, "State."+t.Field(i).Name))
	}
	return st
}

// ---------------------------------------------------------------------------- recording helpers

func skHash(b []byte) [32]byte { return blake2b.Sum256(b) } // the primitive, not the repository's wrapper

func skLE4(x uint32) []byte {
	b := make([]byte, 4)
	binary.LittleEndian.PutUint32(b, x)
	return b
}
func skLE8(x uint64) []byte {
	b := make([]byte, 8)
	binary.LittleEndian.PutUint64(b, x)
	return b
}

type skOracle struct {
	seen map[string]bool
	tab  []map[string]any
}

func (o *skOracle) add(in []byte) [32]byte {
	h := skHash(in)
	if !o.seen[string(in)] {
		o.seen[string(in)] = true
		o.tab = append(o.tab, map[string]any{"in": vfd.B(in), "out": vfd.B(h[:])})
	}
	return h
}

// queries that every service-entry value gives rise to (uniform; no classification knowledge)
func (o *skOracle) addValue(v []byte) {
	h := o.add(v)
	o.add(append([]byte{0xFE, 0xFF, 0xFF, 0xFF}, h[:]...))
	o.add(append(skLE4(uint32(len(v))), h[:]...))
}

func skIsCompKey(k types.StateKey) bool { // [i,0,...,0] with 1 <= i <= 16: only decides token vs. content in the LOG
	if k[0] < 1 || k[0] > 16 {
		return false
	}
	for _, b := range k[1:] {
		if b != 0 {
			return false
		}
	}
	return true
}

// component values are opaque to the specification: log E4(len) ++ BLAKE2b(value) instead of kilobytes
func skToken(v []byte) []int {
	h := skHash(v)
	return vfd.B(append(skLE4(uint32(len(v))), h[:]...))
}

func (o *skOracle) kvs(in types.StateKeyVals) []map[string]any {
	out := make([]map[string]any, 0, len(in))
	for _, kv := range in {
		if skIsCompKey(kv.Key) {
			out = append(out, map[string]any{"k": vfd.B(kv.Key[:]), "v": skToken(kv.Value)})
		} else {
			o.addValue(kv.Value)
			out = append(out, map[string]any{"k": vfd.B(kv.Key[:]), "v": vfd.B(kv.Value)})
		}
	}
	return out
}

func skInfo(si types.ServiceInfo) map[string]any {
	return map[string]any{"ver": int(si.Version), "c": vfd.B(si.CodeHash[:]), "b": vfd.B(skLE8(uint64(si.Balance))), "g": vfd.B(skLE8(uint64(si.MinItemGas))),
		"m": vfd.B(skLE8(uint64(si.MinMemoGas))), "o": vfd.B(skLE8(uint64(si.Bytes))), "f": vfd.B(skLE8(uint64(si.DepositOffset))),
		"i": vfd.B(skLE4(uint32(si.Items))), "r": vfd.B(skLE4(uint32(si.CreationSlot))), "a": vfd.B(skLE4(uint32(si.LastAccumulationSlot))),
		"p": vfd.B(skLE4(uint32(si.ParentService)))}
}

func skSlots(t types.TimeSlotSet) [][]int {
	out := [][]int{}
	for _, s := range t {
		out = append(out, vfd.B(skLE4(uint32(s))))
	}
	return out
}

// services of a state as plain data, in ascending id order, map contents in bytewise order
func skServices(delta types.ServiceAccountState, withStorage bool) []map[string]any {
	ids := make([]types.ServiceID, 0, len(delta))
	for id := range delta {
		ids = append(ids, id)
	}
	sort.Slice(ids, func(i, j int) bool { return ids[i] < ids[j] })
	out := []map[string]any{}
	for _, id := range ids {
		a := delta[id]
		m := map[string]any{"id": vfd.B(skLE4(uint32(id))), "info": skInfo(a.ServiceInfo), "nst": len(a.StorageDict)}
		st := []map[string]any{}
		if withStorage {
			keys := make([]string, 0, len(a.StorageDict))
			for k := range a.StorageDict {
				keys = append(keys, k)
			}
			sort.Strings(keys)
			for _, k := range keys {
				st = append(st, map[string]any{"k": vfd.B([]byte(k)), "v": vfd.B(a.StorageDict[k])})
			}
		}
		m["storage"] = st
		type ph struct {
			h types.OpaqueHash
			v []byte
		}
		ps := []ph{}
		for h, v := range a.PreimageLookup {
			ps = append(ps, ph{h, v})
		}
		sort.Slice(ps, func(i, j int) bool { return bytes.Compare(ps[i].h[:], ps[j].h[:]) < 0 })
		pre := []map[string]any{}
		for _, p := range ps {
			pre = append(pre, map[string]any{"h": vfd.B(p.h[:]), "v": vfd.B(p.v)})
		}
		m["pre"] = pre
		lks := make([]types.LookupMetaMapkey, 0, len(a.LookupDict))
		for k := range a.LookupDict {
			lks = append(lks, k)
		}
		sort.Slice(lks, func(i, j int) bool {
			if c := bytes.Compare(lks[i].Hash[:], lks[j].Hash[:]); c != 0 {
				return c < 0
			}
			return lks[i].Length < lks[j].Length
		})
		look := []map[string]any{}
		for _, k := range lks {
			look = append(look, map[string]any{"h": vfd.B(k.Hash[:]), "l": vfd.B(skLE4(uint32(k.Length))), "t": skSlots(a.LookupDict[k])})
		}
		m["look"] = look
		out = append(out, m)
	}
	return out
}

// ---------------------------------------------------------------------------- building a state from a shape

func skServiceID(r *vfd.Rng, idc string) types.ServiceID {
	switch idc {
	case "zero":
		return 0
	case "one":
		return 1
	case "ff":
		return 255
	case "ff00":
		return 0xFF00
	case "max":
		return 0xFFFFFFFF
	case "max1":
		return 0xFFFFFFFE
	case "randff":
		return types.ServiceID(uint32(r.U64())<<8 | 0xFF)
	}
	return types.ServiceID(uint32(r.U64()))
}

func skLen(r *vfd.Rng, class int, forKey bool) int {
	if forKey {
		return []int{0, 1, 32, 1 + r.N(40)}[class%4]
	}
	switch class {
	case 0:
		return 0
	case 1:
		return 1
	case 2:
		return 32
	case 3:
		return 33
	case 4:
		return r.N(101)
	case 5:
		return 300
	case 6:
		return 260
	}
	return r.N(201)
}

func skBuildDelta(r *vfd.Rng, g *skGen, svcs []any) types.ServiceAccountState {
	delta := types.ServiceAccountState{}
	var prevFirst []byte // first preimage of the previous service (for cross-service lookup items)
	for _, raw := range svcs {
		sh := raw.(map[string]any)
		id := skServiceID(r, vfd.S(sh["idc"]))
		for {
			if _, dup := delta[id]; !dup {
				break
			}
			id += 0x01000001
		}
		acc := types.ServiceAccount{PreimageLookup: types.PreimagesMapEntry{}, LookupDict: types.LookupMetaMapEntry{}, StorageDict: types.Storage{}}
		acc.ServiceInfo = g.value(reflect.TypeOf(types.ServiceInfo{}), 2, "").Interface().(types.ServiceInfo)
		acc.ServiceInfo.Version = types.ServiceInfoVersion
		var blobs [][]byte
		for _, c := range sh["pre"].([]any) {
			b := r.Bytes(skLen(r, vfd.I(c), false))
			if vfd.I(c) == 4 && len(b) == 0 {
				b = []byte{7}
			}
			h := skHash(b)
			if _, dup := acc.PreimageLookup[types.OpaqueHash(h)]; dup {
				continue
			}
			acc.PreimageLookup[types.OpaqueHash(h)] = b
			blobs = append(blobs, b)
		}
		for _, x := range sh["st"].([]any) {
			e := x.(map[string]any)
			k := r.Bytes(skLen(r, vfd.I(e["kc"]), true))
			var v []byte
			if vfd.I(e["vc"]) == 7 && len(blobs) > 0 {
				v = append([]byte(nil), blobs[0]...)
			} else {
				v = r.Bytes(skLen(r, vfd.I(e["vc"]), false))
			}
			acc.StorageDict[string(k)] = v
		}
		for _, x := range sh["look"].([]any) {
			e := x.(map[string]any)
			tgt, dl, nt := vfd.I(e["tgt"]), vfd.I(e["dl"]), vfd.I(e["nt"])
			var key types.LookupMetaMapkey
			switch {
			case tgt >= 1 && len(blobs) > 0:
				b := blobs[(tgt-1)%len(blobs)]
				key = types.LookupMetaMapkey{Hash: types.OpaqueHash(skHash(b)), Length: types.U32(len(b) + dl)}
			case tgt == -1 && prevFirst != nil:
				key = types.LookupMetaMapkey{Hash: types.OpaqueHash(skHash(prevFirst)), Length: types.U32(len(prevFirst) + dl)}
			default:
				var h types.OpaqueHash
				copy(h[:], r.Bytes(32))
				key = types.LookupMetaMapkey{Hash: h, Length: types.U32(uint32(r.U64()) >> uint(r.N(32)))}
			}
			slots := types.TimeSlotSet{}
			for i := 0; i < nt; i++ {
				slots = append(slots, types.TimeSlot(uint32(g.uint(32))))
			}
			acc.LookupDict[key] = slots
		}
		delta[id] = acc
		prevFirst = nil
		if len(blobs) > 0 {
			prevFirst = blobs[0]
		}
	}
	return delta
}

func skCopyKVs(in types.StateKeyVals) types.StateKeyVals {
	out := make(types.StateKeyVals, len(in))
	for i := range in {
		out[i].Key = in[i].Key
		out[i].Value = append(types.ByteSequence{}, in[i].Value...)
	}
	return out
}

// orderings of a snapshot: as exported (sorted), reversed, lookup-ish entries first, seeded shuffles
func skOrderings(r *vfd.Rng, kvs types.StateKeyVals, n int) (names []string, out []types.StateKeyVals) {
	names, out = append(names, "sorted"), append(out, skCopyKVs(kvs))
	rev := skCopyKVs(kvs)
	for i, j := 0, len(rev)-1; i < j; i, j = i+1, j-1 {
		rev[i], rev[j] = rev[j], rev[i]
	}
	names, out = append(names, "reversed"), append(out, rev)
	// short values first: lookup items (1..13 octets) then come before the preimages they belong to
	short := skCopyKVs(kvs)
	sort.SliceStable(short, func(i, j int) bool { return len(short[i].Value) < len(short[j].Value) })
	names, out = append(names, "short_first"), append(out, short)
	for i := 0; i < n; i++ {
		p := skCopyKVs(kvs)
		for a := len(p) - 1; a > 0; a-- {
			b := r.N(a + 1)
			p[a], p[b] = p[b], p[a]
		}
		names, out = append(names, fmt.Sprintf("shuffle%d", i)), append(out, p)
	}
	return
}

// ---------------------------------------------------------------------------- the test

func TestStateKV(t *testing.T) {
	cases := vfd.ReadCases(vfd.Env("VF_CASES", "cases.ndjson"))
	out := vfd.NewOut(vfd.Env("VF_OUT", "trace.ndjson"))
	defer out.Close()
	seed := uint64(vfd.EnvInt("VF_SEED", 1))
	nshuf := vfd.EnvInt("VF_SHUFFLES", 2)
	var snap *vfd.Out
	if p := vfd.Env("VF_SNAP", ""); p != "" {
		snap = vfd.NewOut(p)
		defer snap.Close()
	}
	for ci, c := range cases {
		r := vfd.NewRng(seed*1000003 + uint64(vfd.I(c["n"]))*7919 + 11)
		g := &skGen{r: r, mode: vfd.I(c["comp"])}
		if ci%3 == 0 {
			runtime.GOMAXPROCS(1 + ci/3%8) // StateEncoder fans the services out over goroutines
		}
		types.MaxWorkers = []int{1, 2, 4, 16}[ci%4]
		rec := map[string]any{"n": vfd.I(c["n"]), "shape": c["svcs"], "compmode": vfd.I(c["comp"])}
		orc := &skOracle{seen: map[string]bool{}, tab: []map[string]any{}}
		var state types.State
		pan, msg := vfd.Guard(func() {
			state = g.components()
			state.Delta = skBuildDelta(r, g, c["svcs"].([]any))
		})
		if pan {
			t.Fatalf("case %d: building the state panicked: %s", vfd.I(c["n"]), msg) // a driver problem, not a verdict
		}
		// abstract view of what was built (before any code under test runs)
		abs := skServices(state.Delta, true)
		for _, a := range abs {
			for _, e := range a["storage"].([]map[string]any) {
				orc.add(append([]byte{0xFF, 0xFF, 0xFF, 0xFF}, vfd.Bytes(e["k"])...))
			}
			for _, e := range a["pre"].([]map[string]any) {
				orc.addValue(vfd.Bytes(e["v"]))
			}
			for _, e := range a["look"].([]map[string]any) {
				orc.add(append(vfd.Bytes(e["l"]), vfd.Bytes(e["h"])...))
			}
		}
		rec["abs"] = map[string]any{"svc": abs}

		var kvs types.StateKeyVals
		exp := map[string]any{"err": "", "panic": "", "kvs": []any{}}
		pan, msg = vfd.Guard(func() {
			var err error
			kvs, err = StateEncoder(state)
			if err != nil {
				exp["err"] = err.Error()
			}
		})
		if pan {
			exp["panic"] = msg
		}
		exp["kvs"] = orc.kvs(kvs)
		// the components as the encoder serialises them on their own (tokens), for the abstract state
		comp := [][]int{skToken(encodeAlpha(state.Alpha)), skToken(encodeVarphi(state.Varphi)), skToken(encodeBeta(state.Beta)),
			skToken(encodeGamma(state.Gamma)), skToken(encodePsi(state.Psi)), skToken(encodeEta(state.Eta)), skToken(encodeIota(state.Iota)),
			skToken(encodeKappa(state.Kappa)), skToken(encodeLambda(state.Lambda)), skToken(encodeRho(state.Rho)), skToken(encodeTau(state.Tau)),
			skToken(encodeChi(state.Chi)), skToken(encodePi(state.Pi)), skToken(encodeVartheta(state.Vartheta)), skToken(encodeXi(state.Xi)),
			skToken(encodeTheta(state.Theta))}
		rec["abs"].(map[string]any)["comp"] = comp
		total := 0
		for _, kv := range kvs {
			total += len(kv.Value)
		}
		rec["bytes"] = total
		if snap != nil && c["snap"] == true { // full key-values (no tokens) for the root-term pass
			es := []map[string]any{}
			for _, kv := range kvs {
				es = append(es, map[string]any{"k": vfd.B(kv.Key[:]), "v": vfd.B(kv.Value)})
			}
			snap.Emit(map[string]any{"n": vfd.I(c["n"]), "entries": es})
		}
		rec["exp"] = exp
		root0 := MerklizationSerializedState(skCopyKVs(kvs))
		rootS := MerklizationState(state)
		rec["root0"], rec["rootS"] = vfd.B(root0[:]), vfd.B(rootS[:])

		runs := []map[string]any{}
		names, orders := skOrderings(r, kvs, nshuf)
		for oi, ord := range orders {
			run := map[string]any{"ord": names[oi], "err": "", "panic": "", "err2": "", "raw": []any{}, "kvs2": []any{}, "svc": []any{}, "root2": []int{}}
			pan, msg := vfd.Guard(func() {
				st2, raw, err := StateKeyValsToState(ord)
				if err != nil {
					run["err"] = err.Error()
					return
				}
				run["raw"] = orc.kvs(raw)
				run["svc"] = skServices(st2.Delta, false)
				kvs2, err := StateEncoder(st2)
				if err != nil {
					run["err2"] = err.Error()
					return
				}
				run["kvs2"] = orc.kvs(kvs2)
				comb := append(skCopyKVs(raw), kvs2...)
				// hand the union over in a seeded order: the root is a function of the set
				for a := len(comb) - 1; a > 0; a-- {
					b := r.N(a + 1)
					comb[a], comb[b] = comb[b], comb[a]
				}
				root2 := MerklizationSerializedState(comb)
				run["root2"] = vfd.B(root2[:])
			})
			if pan {
				run["panic"] = msg
			}
			runs = append(runs, run)
		}
		rec["runs"] = runs
		rec["kh"] = orc.tab
		out.Emit(rec)
	}
	runtime.GOMAXPROCS(runtime.NumCPU())
}

// TestRootTerms evaluates the specification's root terms (spec/crypto/Trie.tla) with the real BLAKE2b.
func TestRootTerms(t *testing.T) {
	cases := vfd.ReadCases(vfd.Env("VF_CASES", "terms.ndjson"))
	out := vfd.NewOut(vfd.Env("VF_OUT", "roots.ndjson"))
	defer out.Close()
	for _, c := range cases {
		out.Emit(map[string]any{"id": vfd.I(c["id"]), "want": vfd.B(vfd.EvalTerm(c["want"]))})
	}
}


package recent_history

// X-step driver for C25 (in-package: serLastAccOut / lastAccOutRoot are unexported).
// Replays TLC-expanded block histories (a) function by function — History2HistoryDagger,
// serLastAccOut, lastAccOutRoot, AppendAndCommitMmr, MapWorkReportFromEg, NewItem, AddItem2BetaHPrime —
// (b) through STFBetaH2BetaHDagger + STFBetaHDagger2BetaHPrime on the chain-state singleton and
// (c) through STFBetaHDagger2BetaHPrime_ForTestVector ("tv": header hash in Header.Parent, commitment given).
// The specification's terms (want_*) are evaluated with the generic evaluator (real Keccak);
// nothing is compared here: spec/stf/RecentHistory_Trace.tla judges the recorded events.

import (
	"encoding/json"
	"testing"

	"golang.org/x/crypto/blake2b"

	"github.com/New-JAMneration/JAM-Protocol/internal/blockchain"
	"github.com/New-JAMneration/JAM-Protocol/internal/types"
	"github.com/New-JAMneration/JAM-Protocol/internal/verifdrv/vfd"
)

func h32(v any) (h types.OpaqueHash) {
	copy(h[:], vfd.Bytes(v))
	return
}

func histIn(v any) types.BlocksHistory {
	out := types.BlocksHistory{}
	for _, x := range v.([]any) {
		m := x.(map[string]any)
		bi := types.BlockInfo{HeaderHash: types.HeaderHash(h32(m["h"])), StateRoot: types.StateRoot(h32(m["s"])), BeefyRoot: h32(m["b"])}
		for _, p := range m["p"].([]any) {
			pm := p.(map[string]any)
			bi.Reported = append(bi.Reported, types.ReportedWorkPackage{Hash: types.WorkReportHash(h32(pm["hash"])), ExportsRoot: types.ExportsRoot(h32(pm["exports"]))})
		}
		out = append(out, bi)
	}
	return out
}

func pkgsOut(ps []types.ReportedWorkPackage) []any {
	out := []any{}
	for _, p := range ps {
		out = append(out, map[string]any{"hash": vfd.B(p.Hash[:]), "exports": vfd.B(p.ExportsRoot[:])})
	}
	return out
}

func histOut(h types.BlocksHistory) []any {
	out := []any{}
	for _, bi := range h {
		out = append(out, map[string]any{"h": vfd.B(bi.HeaderHash[:]), "s": vfd.B(bi.StateRoot[:]), "b": vfd.B(bi.BeefyRoot[:]), "p": pkgsOut(bi.Reported)})
	}
	return out
}

func sameHist(a, b []any) bool {
	return string(mustJSON(a)) == string(mustJSON(b))
}

func peaksIn(v any) []types.MmrPeak {
	var ps []types.MmrPeak
	for _, t := range v.([]any) {
		b := vfd.EvalTerm(t)
		if len(b) == 0 {
			ps = append(ps, nil)
			continue
		}
		var h types.OpaqueHash
		copy(h[:], b)
		ps = append(ps, &h)
	}
	return ps
}

func peaksOut(p []types.MmrPeak) [][]int {
	out := [][]int{}
	for _, x := range p {
		if x == nil {
			out = append(out, []int{})
		} else {
			out = append(out, vfd.B((*x)[:]))
		}
	}
	return out
}

func termPeaksBytes(v any) [][]int {
	out := [][]int{}
	for _, t := range v.([]any) {
		out = append(out, vfd.B(vfd.EvalTerm(t)))
	}
	return out
}

func guarantees(v any) types.GuaranteesExtrinsic {
	eg := types.GuaranteesExtrinsic{}
	for i, g := range v.([]any) {
		gm := g.(map[string]any)
		var r types.WorkReport
		r.PackageSpec.Hash = types.WorkPackageHash(h32(gm["hash"]))
		r.PackageSpec.ExportsRoot = types.ExportsRoot(h32(gm["exports"]))
		r.CoreIndex = types.CoreIndex(i)
		eg = append(eg, types.ReportGuarantee{Report: r})
	}
	return eg
}

func outsIn(v any) types.LastAccOut {
	lo := types.LastAccOut{}
	for _, o := range v.([]any) {
		om := o.(map[string]any)
		lo = append(lo, types.AccumulatedServiceHash{ServiceID: types.ServiceID(uint32(vfd.FromU64LE(om["s"]))), Hash: h32(om["h"])})
	}
	return lo
}

// kept: a beta' window returned earlier, watched for later change (as harness/mmr does for peak lists)
type kept struct {
	live   types.BlocksHistory
	full   string // rendering when it was returned
	masked string // the same without the newest entry's state root (History2HistoryDagger of the NEXT block
	// writes the parent state root there in place on the unchanged tree: informational, C26)
}

func render(h types.BlocksHistory, mask bool) string {
	o := histOut(h)
	if mask && len(o) > 0 {
		o[len(o)-1].(map[string]any)["s"] = nil
	}
	return string(mustJSON(o))
}

func keep(h types.BlocksHistory) kept { return kept{live: h, full: render(h, false), masked: render(h, true)} }

// oldChanged counts earlier results that differ now: any difference / a difference beyond the newest entry's state root
func oldChanged(ks []kept) (anyDiff, structDiff int) {
	for _, k := range ks {
		if render(k.live, false) != k.full {
			anyDiff++
		}
		if render(k.live, true) != k.masked {
			structDiff++
		}
	}
	return
}

// siblingOf derives a different block on the same parent: same parent state root and accumulation outputs
// (so the specification's terms of the block apply), another header hash, another list of reported packages.
func siblingOf(b map[string]any) map[string]any {
	s := map[string]any{}
	for k, v := range b {
		s[k] = v
	}
	hh := append([]byte{}, vfd.Bytes(b["hh"])...)
	hh[5] ^= 0x5a
	s["hh"] = vfd.B(hh)
	gs := b["gs"].([]any)
	var sg []any
	for i := len(gs) - 1; i >= 1; i-- { // reversed, first one dropped
		sg = append(sg, gs[i])
	}
	ex := append([]byte{}, hh...)
	ex[7] ^= 0x33
	sg = append(sg, map[string]any{"hash": vfd.B(ex), "exports": b["proot"]})
	s["gs"] = sg
	return s
}

func TestRun(t *testing.T) {
	cases := vfd.ReadCases(vfd.Env("VF_CASES", "cases.ndjson"))
	out := vfd.NewOut(vfd.Env("VF_OUT", "trace.ndjson"))
	defer out.Close()
	for ci, c := range cases {
		for _, api := range []string{"fn", "stf", "tv"} {
			init := c["init"].(map[string]any)
			hist := histIn(init["hist"])
			belt := types.Mmr{Peaks: peaksIn(init["belt"])}
			out.Emit(map[string]any{"ev": "Reset", "api": api, "hist": histOut(hist), "belt": peaksOut(belt.Peaks)})
			var parent types.HeaderHash
			var keeps []kept
			blocks := c["blocks"].([]any)
			// one transition from the prior OBJECTS (hist, belt) as they are now; ev = "Block" | "Sibling"
			exec := func(ev string, bi int, b map[string]any) (map[string]any, types.BlocksHistory, types.Mmr, types.HeaderHash, bool) {
				rec := map[string]any{"ev": ev, "api": api, "proot": b["proot"], "gs": b["gs"], "outs": b["outs"],
					"want_mroot": vfd.B(vfd.EvalTerm(b["want_mroot"])), "want_belt": termPeaksBytes(b["want_belt"]), "want_b": vfd.B(vfd.EvalTerm(b["want_b"])),
					"hh": b["hh"], "panic": "", "err": "", "prior_mut": 0, "old_changed": 0, "old_struct": 0,
					"got_dagger": []any{}, "got_ser": []any{}, "got_mroot": []int{}, "got_belt": []any{}, "got_b": []int{}, "got_p": []any{}, "got_hist": []any{}}
				proot := types.StateRoot(h32(b["proot"]))
				eg := guarantees(b["gs"])
				lo := outsIn(b["outs"])
				before := histOut(hist)
				var next types.BlocksHistory
				var nextBelt types.Mmr
				newParent := parent
				p, msg := vfd.Guard(func() {
					switch api {
					case "fn":
						dagger := History2HistoryDagger(hist, proot)
						rec["got_dagger"] = histOut(dagger)
						ser, err := serLastAccOut(lo)
						if err != nil {
							rec["err"] = err.Error()
							return
						}
						sj := []any{}
						for _, s := range ser {
							sj = append(sj, vfd.B(s))
						}
						rec["got_ser"] = sj
						root := lastAccOutRoot(ser)
						rec["got_mroot"] = vfd.B(root[:])
						var commit types.OpaqueHash
						nextBelt, commit = AppendAndCommitMmr(belt, root)
						rec["got_belt"] = peaksOut(nextBelt.Peaks)
						rec["got_b"] = vfd.B(commit[:])
						ps := MapWorkReportFromEg(eg)
						rec["got_p"] = pkgsOut(ps)
						item := NewItem(types.HeaderHash(h32(b["hh"])), ps, commit)
						next = AddItem2BetaHPrime(dagger, item)
						rec["got_hist"] = histOut(next)
					case "tv":
						// the test-vector variant: header hash is carried in Header.Parent, the commitment comes
						// from the intermediate state, the belt is maintained outside (here: the specification's)
						blockchain.ResetInstance()
						cs := blockchain.GetInstance()
						hdr := types.Header{Parent: types.HeaderHash(h32(b["hh"])), ParentStateRoot: proot, Slot: types.TimeSlot(bi + 1)}
						cs.AddBlock(types.Block{Header: hdr, Extrinsic: types.Extrinsic{Guarantees: eg}})
						cs.GetPriorStates().SetBeta(types.RecentBlocks{History: hist, Mmr: belt})
						STFBetaH2BetaHDagger()
						rec["got_dagger"] = histOut(cs.GetIntermediateStates().GetBetaHDagger())
						cs.GetIntermediateStates().SetMmrCommitment(h32(rec["want_b"]))
						if err := STFBetaHDagger2BetaHPrime_ForTestVector(); err != nil {
							rec["err"] = err.Error()
							return
						}
						next = cs.GetPosteriorStates().GetBeta().History
						nextBelt = types.Mmr{Peaks: peaksIn(b["want_belt"])}
						rec["got_belt"] = rec["want_belt"]
						rec["got_hist"] = histOut(next)
					default:
						blockchain.ResetInstance()
						cs := blockchain.GetInstance()
						hdr := types.Header{Parent: parent, ParentStateRoot: proot, Slot: types.TimeSlot(bi + 1)}
						copy(hdr.ExtrinsicHash[:], vfd.Bytes(b["hh"])) // makes every header distinct
						enc, err := types.NewEncoder().Encode(&hdr)
						if err != nil {
							rec["err"] = "header encode: " + err.Error()
							return
						}
						hh := blake2b.Sum256(enc)
						rec["hh"] = vfd.B(hh[:])
						newParent = types.HeaderHash(hh)
						cs.AddBlock(types.Block{Header: hdr, Extrinsic: types.Extrinsic{Guarantees: eg}})
						cs.GetPriorStates().SetBeta(types.RecentBlocks{History: hist, Mmr: belt})
						cs.GetPosteriorStates().SetLastAccOut(lo)
						STFBetaH2BetaHDagger()
						rec["got_dagger"] = histOut(cs.GetIntermediateStates().GetBetaHDagger())
						if err := STFBetaHDagger2BetaHPrime(); err != nil {
							rec["err"] = err.Error()
							return
						}
						post := cs.GetPosteriorStates().GetBeta()
						next, nextBelt = post.History, post.Mmr
						rec["got_belt"] = peaksOut(nextBelt.Peaks)
						rec["got_hist"] = histOut(next)
					}
				})
				if p {
					rec["panic"] = msg
				}
				if !sameHist(before, histOut(hist)) {
					rec["prior_mut"] = 1
				}
				rec["old_changed"], rec["old_struct"] = oldChanged(keeps)
				ok := !p && rec["err"] == ""
				if ok {
					keeps = append(keeps, keep(next))
					if len(keeps) > 6 {
						keeps = keeps[len(keeps)-6:]
					}
				}
				return rec, next, nextBelt, newParent, ok
			}
			for bi, raw := range blocks {
				b := raw.(map[string]any)
				// logical prior: the VALUE the prior window has before the first transition from it
				logical := histOut(hist)
				rec, next, nextBelt, newParent, ok := exec("Block", bi, b)
				out.Emit(rec)
				if !ok {
					break
				}
				// sibling probe: the SAME prior objects are used again for a different block on the same parent
				// (same parent state root), then for the first block once more
				probe := (len(blocks) <= 2 && bi == 0 && ci%5 == 0) || (len(blocks) > 2 && (bi == 0 || bi == 3 || bi == 12))
				if probe {
					for _, sb := range []map[string]any{siblingOf(b), b} {
						r2, _, _, _, ok2 := exec("Sibling", bi, sb)
						r2["prior"] = logical
						out.Emit(r2)
						if !ok2 {
							break
						}
					}
				}
				hist, belt, parent = next, nextBelt, newParent
			}
		}
	}
}

func mustJSON(v any) []byte {
	b, err := json.Marshal(v)
	if err != nil {
		panic(err)
	}
	return b
}

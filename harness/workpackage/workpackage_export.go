package work_package

import (
	"github.com/New-JAMneration/JAM-Protocol/PVM"
	"github.com/New-JAMneration/JAM-Protocol/internal/types"
)

// Overlay-only shim for the /verif X04 driver (never committed to the repository).
func (p *WorkPackageController) VerifPrepareInputs() (types.WorkPackage, PVM.ExtrinsicDataMap, types.ExportSegmentMatrix, []byte, types.OpaqueHash, error) {
	return p.prepareInputs()
}

package workpackagedrv

// X-step driver for X04: WorkPackage.Validate, ExtractExtrinsics, PagedProofs and the whole
// WorkPackageController.Process (initial guarantor, then second guarantor from the produced bundle) with a
// scripted fetcher / authorizer / refinement and a seeded node dictionary.  Hash terms of the specification are
// reduced with the generic evaluator; the package hash goes through a one-level oracle table (BLAKE2b of the
// package encoding, computed with golang.org/x/crypto).  No expectations are computed here.

import (
	"testing"

	"golang.org/x/crypto/blake2b"

	"github.com/New-JAMneration/JAM-Protocol/PVM"
	"github.com/New-JAMneration/JAM-Protocol/internal/blockchain"
	"github.com/New-JAMneration/JAM-Protocol/internal/types"
	"github.com/New-JAMneration/JAM-Protocol/internal/verifdrv/vfd"
	"github.com/New-JAMneration/JAM-Protocol/internal/work_package"
)

func le(x uint64, n int) []int {
	out := make([]int, n)
	for i := 0; i < n; i++ {
		out[i] = int(byte(x >> (8 * i)))
	}
	return out
}

func b2i(b bool) int {
	if b {
		return 1
	}
	return 0
}

func ints(v any) []int {
	out := []int{}
	if v == nil {
		return out
	}
	for _, x := range v.([]any) {
		out = append(out, vfd.I(x))
	}
	return out
}

func setMode(m string) {
	if m == "tiny" {
		types.SetTinyMode()
	} else {
		types.SetFullMode()
	}
}

func TestRun(t *testing.T) {
	cases := vfd.ReadCases(vfd.Env("VF_CASES", "cases.ndjson"))
	out := vfd.NewOut(vfd.Env("VF_OUT", "trace.ndjson"))
	defer out.Close()
	for ci, c := range cases {
		switch vfd.S(c["kind"]) {
		case "validate":
			runValidate(out, ci, c)
		case "extract":
			runExtract(out, ci, c)
		case "paged":
			runPaged(out, ci, c)
		case "process":
			runProcess(out, ci, c)
		}
	}
}

func runValidate(out *vfd.Out, ci int, c map[string]any) {
	setMode(vfd.S(c["mode"]))
	var wp types.WorkPackage
	wp.Authorization = make([]byte, vfd.I(c["auth"]))
	wp.AuthorizerConfig = make([]byte, vfd.I(c["cfg"]))
	items := []any{}
	for _, raw := range c["items"].([]any) {
		it := raw.(map[string]any)
		var w types.WorkItem
		w.Payload = make([]byte, vfd.I(it["plen"]))
		w.ImportSegments = make([]types.ImportSpec, vfd.I(it["ni"]))
		for _, l := range ints(it["ext"]) {
			w.Extrinsic = append(w.Extrinsic, types.ExtrinsicSpec{Len: types.U32(l)})
		}
		w.ExportCount = types.U16(vfd.I(it["e"]))
		w.RefineGasLimit = types.Gas(vfd.FromU64LE(it["g"]))
		w.AccumulateGasLimit = types.Gas(vfd.FromU64LE(it["a"]))
		wp.Items = append(wp.Items, w)
		items = append(items, map[string]any{"plen": vfd.I(it["plen"]), "ni": vfd.I(it["ni"]), "ext": ints(it["ext"]), "e": vfd.I(it["e"]),
			"g": vfd.B(vfd.Bytes(it["g"])), "a": vfd.B(vfd.Bytes(it["a"]))})
	}
	var err error
	p, msg := vfd.Guard(func() { err = wp.Validate() })
	if err != nil {
		msg = err.Error()
	}
	out.Emit(map[string]any{"ev": "validate", "c": ci, "mode": vfd.S(c["mode"]), "auth": vfd.I(c["auth"]), "cfg": vfd.I(c["cfg"]), "items": items,
		"ok": b2i(err == nil), "panic": b2i(p), "pmsg": msg})
	setMode("full")
}

func runExtract(out *vfd.Out, ci int, c map[string]any) {
	specs := []types.ExtrinsicSpec{}
	echo := []any{}
	for i, raw := range c["specs"].([]any) {
		sp := raw.(map[string]any)
		var s types.ExtrinsicSpec
		copy(s.Hash[:], vfd.EvalTerm(c["want_hs"].([]any)[i]))
		s.Len = types.U32(vfd.I(sp["l"]))
		specs = append(specs, s)
		echo = append(echo, map[string]any{"x": vfd.B(vfd.Bytes(sp["x"])), "l": vfd.I(sp["l"])})
	}
	data := vfd.Bytes(c["data"])
	var m PVM.ExtrinsicDataMap
	var err error
	p, msg := vfd.Guard(func() { m, err = work_package.ExtractExtrinsics(types.ByteSequence(data), specs) })
	ret := [][]int{}
	if err == nil && !p {
		for _, s := range specs {
			b, ok := m[s.Hash]
			if !ok {
				ret = append(ret, []int{-1})
			} else {
				ret = append(ret, vfd.B(b))
			}
		}
	}
	if err != nil {
		msg = err.Error()
	}
	out.Emit(map[string]any{"ev": "extract", "c": ci, "specs": echo, "data": vfd.B(data), "ok": b2i(err == nil), "ret": ret, "panic": b2i(p), "pmsg": msg})
}

func segments(v any) []types.ExportSegment {
	segs := []types.ExportSegment{}
	for _, st := range v.([]any) {
		var s types.ExportSegment
		b := vfd.EvalTerm(st)
		if len(b) != len(s) {
			panic("segment term has the wrong length")
		}
		copy(s[:], b)
		segs = append(segs, s)
	}
	return segs
}

func runPaged(out *vfd.Out, ci int, c map[string]any) {
	segs := segments(c["segs"])
	want := [][]int{}
	for _, t := range c["want_pages"].([]any) {
		want = append(want, vfd.B(vfd.EvalTerm(t)))
	}
	got := [][]int{}
	var err error
	p, msg := vfd.Guard(func() {
		var pages []types.ExportSegment
		pages, err = work_package.PagedProofs(segs)
		for _, pg := range pages {
			got = append(got, vfd.B(pg[:]))
		}
	})
	if err != nil {
		msg = err.Error()
	}
	out.Emit(map[string]any{"ev": "paged", "c": ci, "n": len(segs), "want_pages": want, "got": got, "err": b2i(err != nil), "panic": b2i(p), "pmsg": msg})
}

// ---------------------------------------------------------------- process

func idHash(id int) types.OpaqueHash {
	var h types.OpaqueHash
	h[0], h[1], h[2], h[3] = byte(id), byte(id>>8), 0xEE, 0x01
	return h
}

type fetchEntry struct {
	seg    types.ExportSegment
	proofs []types.OpaqueHash
}

type scriptedFetcher struct {
	table map[[2]int]fetchEntry
	back  map[types.OpaqueHash]int
	calls [][]int
}

func (f *scriptedFetcher) Fetch(erasureRoot types.OpaqueHash, index types.U16) (types.ExportSegment, []types.OpaqueHash, error) {
	id, ok := f.back[erasureRoot]
	if !ok {
		id = -1
	}
	f.calls = append(f.calls, []int{id, int(index)})
	e, ok := f.table[[2]int{id, int(index)}]
	if !ok {
		// not scripted: an all-0xFF segment without justification, so that a wrong fetch shows up in the bundle
		var s types.ExportSegment
		for i := range s {
			s[i] = 0xFF
		}
		return s, nil, nil
	}
	return e.seg, append([]types.OpaqueHash(nil), e.proofs...), nil
}

type scripted struct {
	authOut []byte
	authGas types.Gas
	outs    []PVM.RefineOutput
	offsets []int
	code    []byte
}

func (m *scripted) Psi_I(p types.WorkPackage, c types.CoreIndex, code types.ByteSequence) PVM.Psi_I_ReturnType {
	m.code = append([]byte{}, code...)
	return PVM.Psi_I_ReturnType{WorkExecResult: types.WorkExecResultOk, WorkOutput: append([]byte(nil), m.authOut...), Gas: m.authGas}
}

func (m *scripted) RefineInvoke(in PVM.RefineInput) PVM.RefineOutput {
	m.offsets = append(m.offsets, int(in.ExportSegmentOffset))
	o := m.outs[in.WorkItemIndex]
	return PVM.RefineOutput{WorkResult: o.WorkResult, RefineOutput: append([]byte(nil), o.RefineOutput...),
		ExportSegment: append([]types.ExportSegment(nil), o.ExportSegment...), Gas: o.Gas}
}

func digestOut(d types.WorkResult) map[string]any {
	return map[string]any{
		"s": le(uint64(d.ServiceID), 4), "c": vfd.B(d.CodeHash[:]), "y": vfd.B(d.PayloadHash[:]), "a": le(uint64(d.AccumulateGas), 8),
		"rt": string(d.Result.Type), "rdata": vfd.B(d.Result.Data), "u": le(uint64(d.RefineLoad.GasUsed), 8),
		"i": int(d.RefineLoad.Imports), "x": int(d.RefineLoad.ExtrinsicCount), "z": le(uint64(d.RefineLoad.ExtrinsicSize), 4), "e": int(d.RefineLoad.Exports)}
}

func pairs(v any) [][2]int {
	out := [][2]int{}
	if v == nil {
		return out
	}
	for _, p := range v.([]any) {
		q := p.([]any)
		out = append(out, [2]int{vfd.I(q[0]), vfd.I(q[1])})
	}
	return out
}

func runProcess(out *vfd.Out, ci int, c map[string]any) {
	setMode(vfd.S(c["mode"]))
	flaw := vfd.S(c["flaw"])
	k := vfd.I(c["k"])
	dict, erasure := pairs(c["dict"]), pairs(c["erasure"])
	back := map[types.OpaqueHash]int{}
	for _, d := range dict {
		back[idHash(d[0])] = d[0]
		back[idHash(d[1])] = d[1]
	}
	for _, e := range erasure {
		back[idHash(e[0])] = e[0]
		back[idHash(e[1])] = e[1]
	}
	// ---- the package
	var wp types.WorkPackage
	wp.AuthCodeHost = types.ServiceID(vfd.I(c["authhost"]))
	copy(wp.AuthCodeHash[:], vfd.Bytes(c["authcodehash"]))
	wp.Authorization = vfd.Bytes(c["auth"])
	wp.AuthorizerConfig = vfd.Bytes(c["cfg"])
	wp.Context.Anchor[0], wp.Context.StateRoot[0], wp.Context.BeefyRoot[0], wp.Context.LookupAnchor[0] = byte(k+1), byte(k+2), byte(k+3), byte(k+4)
	wp.Context.LookupAnchorSlot = 5
	if k%2 == 1 {
		wp.Context.Prerequisites = []types.OpaqueHash{idHash(900 + k)}
	}
	itemsEcho, outsEcho, wantYs := []any{}, []any{}, []any{}
	pvm := func() *scripted {
		return &scripted{authOut: vfd.Bytes(c["authout"]), authGas: types.Gas(vfd.FromU64LE(c["authgas"])), offsets: []int{}}
	}
	m1, m2 := pvm(), pvm()
	for j, raw := range c["items"].([]any) {
		it := raw.(map[string]any)
		var w types.WorkItem
		w.Service = types.ServiceID(vfd.FromU64LE(it["s"]))
		copy(w.CodeHash[:], vfd.Bytes(it["c"]))
		w.AccumulateGasLimit = types.Gas(vfd.FromU64LE(it["a"]))
		w.RefineGasLimit = types.Gas(vfd.FromU64LE(it["g"]))
		w.ExportCount = types.U16(vfd.I(it["e"]))
		w.Payload = vfd.Bytes(it["payload"])
		imps := []any{}
		for _, ir := range it["imports"].([]any) {
			im := ir.(map[string]any)
			w.ImportSegments = append(w.ImportSegments, types.ImportSpec{TreeRoot: idHash(vfd.I(im["r"])), Index: types.U16(vfd.I(im["n"]))})
			back[idHash(vfd.I(im["r"]))] = vfd.I(im["r"])
			imps = append(imps, map[string]any{"r": vfd.I(im["r"]), "n": vfd.I(im["n"])})
		}
		xs := []any{}
		for i, xr := range it["xs"].([]any) {
			blob := vfd.Bytes(xr)
			var sp types.ExtrinsicSpec
			copy(sp.Hash[:], vfd.EvalTerm(c["want_xhs"].([]any)[j].([]any)[i]))
			sp.Len = types.U32(len(blob))
			w.Extrinsic = append(w.Extrinsic, sp)
			xs = append(xs, vfd.B(blob))
		}
		wp.Items = append(wp.Items, w)
		itemsEcho = append(itemsEcho, map[string]any{"s": vfd.B(vfd.Bytes(it["s"])), "c": vfd.B(w.CodeHash[:]), "a": vfd.B(vfd.Bytes(it["a"])), "g": vfd.B(vfd.Bytes(it["g"])),
			"e": vfd.I(it["e"]), "payload": vfd.B(w.Payload), "imports": imps, "xs": xs})
		om := c["outs"].([]any)[j].(map[string]any)
		segs := segments(om["segs"])
		ro := PVM.RefineOutput{WorkResult: types.WorkExecResultType(vfd.S(om["t"])), RefineOutput: vfd.Bytes(om["data"]), ExportSegment: segs, Gas: types.Gas(vfd.FromU64LE(om["u"]))}
		m1.outs = append(m1.outs, ro)
		m2.outs = append(m2.outs, ro)
		outsEcho = append(outsEcho, map[string]any{"t": vfd.S(om["t"]), "data": vfd.B(vfd.Bytes(om["data"])), "datarep": 0, "nret": len(segs), "u": vfd.B(vfd.Bytes(om["u"]))})
		wantYs = append(wantYs, vfd.B(vfd.EvalTerm(c["want_ys"].([]any)[j])))
	}
	// ---- fetch script
	fetchEcho := []any{}
	table := map[[2]int]fetchEntry{}
	for _, fr := range c["fetch"].([]any) {
		f := fr.(map[string]any)
		var e fetchEntry
		copy(e.seg[:], vfd.Bytes(f["prefix"]))
		pe := []any{}
		for _, pr := range f["proofs"].([]any) {
			var h types.OpaqueHash
			copy(h[:], vfd.Bytes(pr))
			e.proofs = append(e.proofs, h)
			pe = append(pe, vfd.B(h[:]))
		}
		table[[2]int{vfd.I(f["eid"]), vfd.I(f["n"])}] = e
		fetchEcho = append(fetchEcho, map[string]any{"eid": vfd.I(f["eid"]), "n": vfd.I(f["n"]), "prefix": vfd.B(vfd.Bytes(f["prefix"])), "proofs": pe})
	}
	// ---- node state: dictionary, erasure map, authorizer code
	seed := func() {
		blockchain.ResetInstance()
		cs := blockchain.GetInstance()
		for _, d := range dict {
			if _, err := cs.SetHashSegmentMapWithLimit(idHash(d[0]), idHash(d[1])); err != nil {
				panic(err)
			}
		}
		for _, e := range erasure {
			if err := cs.SetSegmentErasureMap(idHash(e[0]), idHash(e[1])); err != nil {
				panic(err)
			}
		}
		acct := types.ServiceAccount{PreimageLookup: types.PreimagesMapEntry{}, LookupDict: types.LookupMetaMapEntry{}}
		if flaw != "nocode" {
			mc := types.MetaCode{Metadata: vfd.Bytes(c["meta"]), Code: vfd.Bytes(c["code"])}
			blob, err := types.NewEncoder().Encode(&mc)
			if err != nil {
				panic(err)
			}
			acct.PreimageLookup[wp.AuthCodeHash] = append([]byte(nil), blob...)
			acct.LookupDict[types.LookupMetaMapkey{Hash: wp.AuthCodeHash, Length: types.U32(len(blob))}] = types.TimeSlotSet{0}
		}
		cs.GetPriorStates().SetDelta(types.ServiceAccountState{wp.AuthCodeHost: acct})
	}
	dictOut := func() [][]int {
		res := [][]int{}
		m, err := blockchain.GetInstance().GetHashSegmentMap()
		if err != nil {
			return res
		}
		for kh, vh := range m {
			ki, ok := back[kh]
			if !ok {
				ki = -1
			}
			vi, ok := back[vh]
			if !ok {
				vi = -1
			}
			res = append(res, []int{ki, vi})
		}
		return res
	}
	rec := map[string]any{"ev": "process", "c": ci, "k": k, "flaw": flaw, "mode": vfd.S(c["mode"]), "core": vfd.I(c["core"]),
		"auth": len(wp.Authorization), "cfg": len(wp.AuthorizerConfig), "items": itemsEcho, "outs": outsEcho, "dict": dict, "erasure": erasure, "fetch": fetchEcho,
		"data": vfd.B(vfd.Bytes(c["data"])), "code": vfd.B(vfd.Bytes(c["code"])), "authout": vfd.B(vfd.Bytes(c["authout"])), "authgas": vfd.B(vfd.Bytes(c["authgas"])),
		"want_pa": vfd.B(vfd.EvalTerm(c["want_pa"])), "want_ys": wantYs, "want_root": vfd.B(vfd.EvalTerm(c["want_root"])), "nsegs": vfd.I(c["nsegs"])}
	core := types.CoreIndex(vfd.I(c["core"]))
	data := vfd.Bytes(c["data"])

	// pass 0: what the initial guarantor prepares (bundle, package hash), and the package encoding for the oracle table
	seed()
	ep, tab := []int{}, [][][]int{}
	{
		enc := types.NewEncoder()
		d, _ := blockchain.GetInstance().GetHashSegmentMap()
		enc.SetHashSegmentMap(d)
		if b, err := enc.Encode(&wp); err == nil {
			ep = vfd.B(b)
			h := blake2b.Sum256(b)
			tab = append(tab, [][]int{vfd.B(b), vfd.B(h[:])})
		}
	}
	rec["ep"], rec["tab"] = ep, tab
	f0 := &scriptedFetcher{table: table, back: back, calls: [][]int{}}
	ctl0 := work_package.NewInitialController(&wp, data, core, f0)
	var bundle []byte
	var prepErr error
	var prepHash types.OpaqueHash
	p0, msg0 := vfd.Guard(func() { _, _, _, bundle, prepHash, prepErr = ctl0.VerifPrepareInputs() })
	rec["prep"] = map[string]any{"err": b2i(prepErr != nil), "panic": b2i(p0), "pmsg": msg0, "bundle": vfd.B(bundle), "h": vfd.B(prepHash[:]), "calls": f0.calls}

	// pass 1: the initial guarantor's report
	seed()
	f1 := &scriptedFetcher{table: table, back: back, calls: [][]int{}}
	ctl1 := work_package.NewInitialController(&wp, data, core, f1)
	ctl1.PVM = m1
	var rep types.WorkReport
	var err error
	p1, msg1 := vfd.Guard(func() { rep, err = ctl1.Process() })
	if err != nil {
		msg1 = err.Error()
	}
	results := []any{}
	for _, d := range rep.Results {
		results = append(results, digestOut(d))
	}
	lookup := [][]int{}
	for _, l := range rep.SegmentRootLookup {
		ki, ok := back[types.OpaqueHash(l.WorkPackageHash)]
		if !ok {
			ki = -1
			if types.OpaqueHash(l.WorkPackageHash) == types.OpaqueHash(rep.PackageSpec.Hash) {
				ki = 0
			}
		}
		vi, ok := back[l.SegmentTreeRoot]
		if !ok {
			vi = -1
			if l.SegmentTreeRoot == types.OpaqueHash(rep.PackageSpec.ExportsRoot) {
				vi = 0
			}
		}
		lookup = append(lookup, []int{ki, vi})
	}
	encode := func(v any) []int {
		b, e := types.NewEncoder().Encode(v)
		if e != nil {
			return []int{}
		}
		return vfd.B(b)
	}
	rec["got"] = map[string]any{"err": b2i(err != nil), "panic": b2i(p1), "pmsg": msg1,
		"results": results, "h": vfd.B(rep.PackageSpec.Hash[:]), "l": le(uint64(rep.PackageSpec.Length), 4), "n": int(rep.PackageSpec.ExportsCount),
		"root": vfd.B(rep.PackageSpec.ExportsRoot[:]), "core": int(rep.CoreIndex), "pa": vfd.B(rep.AuthorizerHash[:]),
		"authgas": le(uint64(rep.AuthGasUsed), 8), "authout": vfd.B(rep.AuthOutput), "ctx_in": encode(&wp.Context), "ctx_out": encode(&rep.Context),
		"lookup": lookup, "authcode": vfd.B(m1.code), "offsets": m1.offsets, "calls": f1.calls, "dict_after": dictOut(), "rep": encode(&rep)}

	// pass 2: a second guarantor works from the bundle of pass 0 on an identically seeded node
	seed()
	sh := map[string]any{"ran": 0, "err": 0, "panic": 0, "pmsg": "", "rep": []int{}}
	if prepErr == nil && !p0 && len(bundle) > 0 {
		ctl2 := work_package.NewSharedController(bundle, core)
		ctl2.PVM = m2
		var rep2 types.WorkReport
		var err2 error
		p2, msg2 := vfd.Guard(func() { rep2, err2 = ctl2.Process() })
		if err2 != nil {
			msg2 = err2.Error()
		}
		sh = map[string]any{"ran": 1, "err": b2i(err2 != nil), "panic": b2i(p2), "pmsg": msg2, "rep": encode(&rep2)}
	}
	rec["shared"] = sh
	out.Emit(rec)
}

//go:build verif

// C28 driver (DESIGN.md 6/C28, T pipeline).  Runs the real tcpClient over an in-memory
// net.Conn / dialer under seeded concurrent load and injected faults, and RECORDS:
//   - every vtrace hook event (taken inside the sequencer lock; snapshot of epoch, seqCounter
//     and the drop ranges read under that same lock),
//   - every Write / Close / Read-error of the fake connection and every dial,
//   - call and return of every Emit*, Close.
// All records carry a stamp from one atomic counter.  Stamps are logical: they order the
// stamping operations themselves, never wall-clock time; an operation is known to lie between
// the stamps that bracket it in its own goroutine.  No judgement is made here: TLC
// (Telemetry_Trace.tla) decides whether the recorded run is a behaviour of Telemetry.tla.
package telemetry

import (
	"bufio"
	"context"
	"errors"
	"fmt"
	"io"
	"log"
	"net"
	"os"
	"runtime"
	"sort"
	"strconv"
	"strings"
	"sync"
	"sync/atomic"
	"testing"
	"time"
)

// ---------------------------------------------------------------- PRNG (xorshift64*, as lib/vf.py)

type vrng struct{ s uint64 }

func newVrng(seed uint64) *vrng {
	s := seed*0x9E3779B97F4A7C15 + 0x1234567
	if s == 0 {
		s = 1
	}
	return &vrng{s}
}
func (r *vrng) u64() uint64 {
	s := r.s
	s ^= s >> 12
	s ^= s << 25
	s ^= s >> 27
	r.s = s
	return s * 0x2545F4914F6CDD1D
}
func (r *vrng) n(k int) int {
	if k <= 0 {
		return 0
	}
	return int(r.u64() % uint64(k))
}
func (r *vrng) pct(p int) bool { return r.n(100) < p }

// ---------------------------------------------------------------- records

type vrec struct {
	st    uint64
	ev    string
	k     int
	em    int
	kind  string
	disc  int
	pl    []byte
	par   uint64
	nilb  bool
	boom  bool
	id    uint64
	h     string
	a, b  uint64
	c     uint64
	ep    int
	sq    uint64
	dr    []dropRange
	conn  int
	ok    bool
	bytes []byte
	err   bool
	force bool
	stuck int
}

type vrun struct {
	stamp  atomic.Uint64
	cl     *tcpClient
	lrecs  []vrec // appended only inside the sequencer lock
	netmu  sync.Mutex
	netlog []vrec
	emlogs [][]vrec
	ctl    []vrec // controller goroutine only
	closer []vrec // closer goroutine only

	rng     *vrng
	plan    runPlan
	nconn   atomic.Int32
	ndial   int
	curConn atomic.Pointer[vconn]
	ncalls  atomic.Int64
	nextK   atomic.Int64
	lastID  atomic.Uint64
	gateSig chan *vconn

	// parking an emitter between its pre-check and its lock section ("emit.pre" / "fup.pre" hooks,
	// which run WITHOUT the sequencer lock): parkArm = 1 parks the next emit.pre, 2 the next fup.pre
	parkArm     atomic.Int32
	parkHit     chan struct{}
	parkRelease chan struct{}
}

func (r *vrun) tick() uint64 { return r.stamp.Add(1) }

func (r *vrun) netrec(v vrec) {
	r.netmu.Lock()
	v.st = r.tick()
	r.netlog = append(r.netlog, v)
	r.netmu.Unlock()
}

type runPlan struct {
	emitters   int
	perEm      int
	buf        int
	gmp        int
	ep0        int
	dialFail   map[int]bool // dial attempt index -> fail
	connPlans  []connPlan   // per successful connection
	closeAt    int          // Close() once this many calls were made (-1: after the emitters)
	peerAt     []int        // inject peer close once this many calls were made
	tailWait   bool
	startEarly bool
	boomPct    int
	yieldPct   int
	sleepPct   int
	postCalls  int
	holdAt     []int // hold the sequencer mutex for ~1.5 ms once this many calls were made (see lockHold)
	forceFup   bool // force a reconnect between a follow-up's pre-check and its lock section
	forceClose bool // force a complete Close() between an emit's pre-check and its lock section
}

type connPlan struct {
	failAt   int // index of the Write call that fails (-1 never)
	failKeep int // bytes accepted by the failing Write
	shortPct int // chance of a short (n < len, nil) Write
	gateAt   int // index of the Write call that blocks on the gate (-1 never)
	gateDrop bool // block the first Write that carries the body of a Dropped frame
	seed     uint64
}

// ---------------------------------------------------------------- fake connection

type vconn struct {
	run     *vrun
	idx     int
	plan    connPlan
	rng     *vrng
	mu      sync.Mutex
	nwrites int
	broken  bool
	closed  bool
	done    chan struct{} // closed by Close()
	peer    chan struct{} // closed by peerClose()
	peerOne sync.Once
	doneOne sync.Once
	gate    chan struct{}

	gatedOnce bool // connection goroutine only
}

func (c *vconn) Write(b []byte) (int, error) {
	c.mu.Lock()
	i := c.nwrites
	c.nwrites++
	dead := c.broken || c.closed
	c.mu.Unlock()
	if dead {
		c.run.netrec(vrec{ev: "W", conn: c.idx, err: true})
		return 0, io.ErrClosedPipe
	}
	if i == c.plan.gateAt || (c.plan.gateDrop && !c.gatedOnce && len(b) == 25 && b[8] == 0) {
		c.gatedOnce = true
		c.run.netrec(vrec{ev: "Gate", conn: c.idx})
		select {
		case c.run.gateSig <- c:
		default:
		}
		select {
		case <-c.gate:
		case <-c.done:
		}
	}
	if i == c.plan.failAt {
		n := c.plan.failKeep
		if n >= len(b) {
			n = len(b) - 1
		}
		if n < 0 {
			n = 0
		}
		c.mu.Lock()
		c.broken = true
		c.mu.Unlock()
		c.run.netrec(vrec{ev: "W", conn: c.idx, bytes: append([]byte(nil), b[:n]...), err: true})
		return n, errors.New("verif: injected write failure")
	}
	n := len(b)
	if len(b) > 1 && c.rng.pct(c.plan.shortPct) {
		n = 1 + c.rng.n(len(b)-1)
	}
	c.run.netrec(vrec{ev: "W", conn: c.idx, bytes: append([]byte(nil), b[:n]...)})
	return n, nil
}

func (c *vconn) Read(b []byte) (int, error) {
	select {
	case <-c.peer:
	case <-c.done:
	}
	c.run.netrec(vrec{ev: "ReadErr", conn: c.idx})
	return 0, io.EOF
}

func (c *vconn) peerClose() { c.peerOne.Do(func() { close(c.peer) }) }

func (c *vconn) Close() error {
	force := false
	var pcs [16]uintptr
	n := runtime.Callers(2, pcs[:])
	fr := runtime.CallersFrames(pcs[:n])
	for {
		f, more := fr.Next()
		if strings.HasSuffix(f.Function, "(*tcpClient).Close") {
			force = true
		}
		if !more {
			break
		}
	}
	c.run.netrec(vrec{ev: "ConnClose", conn: c.idx, force: force})
	c.mu.Lock()
	c.closed = true
	c.mu.Unlock()
	c.doneOne.Do(func() { close(c.done) })
	return nil
}

type vaddr struct{}

func (vaddr) Network() string { return "verif" }
func (vaddr) String() string  { return "verif" }

func (c *vconn) LocalAddr() net.Addr                { return vaddr{} }
func (c *vconn) RemoteAddr() net.Addr               { return vaddr{} }
func (c *vconn) SetDeadline(t time.Time) error      { return nil }
func (c *vconn) SetReadDeadline(t time.Time) error  { return nil }
func (c *vconn) SetWriteDeadline(t time.Time) error { return nil }

// dial is called by the connection goroutine only.
func (r *vrun) dial(ctx context.Context, addr string) (net.Conn, error) {
	i := r.ndial
	r.ndial++
	if r.plan.dialFail[i] || ctx.Err() != nil {
		r.netrec(vrec{ev: "Dial", ok: false})
		return nil, errors.New("verif: injected dial failure")
	}
	ci := int(r.nconn.Add(1))
	cp := connPlan{failAt: -1, gateAt: -1}
	if ci-1 < len(r.plan.connPlans) {
		cp = r.plan.connPlans[ci-1]
	}
	c := &vconn{run: r, idx: ci, plan: cp, rng: newVrng(cp.seed + 77), done: make(chan struct{}), peer: make(chan struct{}), gate: make(chan struct{})}
	r.curConn.Store(c)
	r.netrec(vrec{ev: "Dial", ok: true, conn: ci})
	return c, nil
}

// ---------------------------------------------------------------- plan

func makePlan(rng *vrng, profile string) runPlan {
	p := runPlan{dialFail: map[int]bool{}, closeAt: -1}
	p.emitters = 1 + rng.n(8)
	p.buf = []int{1, 1, 2, 2, 3, 4, 8, 16}[rng.n(8)]
	p.perEm = 2 + rng.n(24)
	if p.emitters*p.perEm > 140 {
		p.perEm = 140 / p.emitters
	}
	p.gmp = []int{1, 2, 4, 16}[rng.n(4)]
	p.ep0 = 1
	if rng.pct(8) {
		p.ep0 = 0xFFFF - rng.n(3) // epoch exhaustion within a reconnect or two
	}
	total := p.emitters * p.perEm
	for i := 0; i < 6; i++ {
		if rng.pct(12) {
			p.dialFail[i] = true
		}
	}
	nconn := 6
	for i := 0; i < nconn; i++ {
		cp := connPlan{failAt: -1, gateAt: -1, seed: rng.u64()}
		if rng.pct(35) {
			cp.shortPct = 5 + rng.n(40)
		}
		switch {
		case rng.pct(10): // NodeInfo write fails (first frame: writes 0 and 1, more with short writes)
			cp.failAt = rng.n(2)
			cp.failKeep = rng.n(40)
		case rng.pct(40):
			cp.failAt = 2 + rng.n(2*total/3+4)
			cp.failKeep = rng.n(12)
		}
		if rng.pct(18) {
			cp.gateAt = 2 + rng.n(total/2+3)
			if cp.gateAt == cp.failAt {
				cp.gateAt++
			}
		} else if rng.pct(15) {
			cp.gateDrop = true
		}
		p.connPlans = append(p.connPlans, cp)
	}
	for i := 0; i < 3; i++ {
		if rng.pct(30) {
			p.peerAt = append(p.peerAt, 1+rng.n(total))
		}
	}
	sort.Ints(p.peerAt)
	if rng.pct(45) {
		p.closeAt = rng.n(total + 1)
	}
	p.tailWait = rng.pct(50)
	p.startEarly = rng.pct(25)
	if rng.pct(15) {
		p.boomPct = 1 + rng.n(6)
	}
	p.yieldPct = []int{0, 5, 20, 50, 90}[rng.n(5)]
	p.sleepPct = []int{0, 2, 10, 30}[rng.n(4)]
	p.postCalls = rng.n(3)
	if rng.pct(35) {
		for i := 0; i < 1+rng.n(3); i++ {
			p.holdAt = append(p.holdAt, 1+rng.n(total))
		}
		sort.Ints(p.holdAt)
	}
	p.forceFup = rng.pct(55)
	p.forceClose = rng.pct(60)
	return p
}

// ---------------------------------------------------------------- emitters

const (
	discEmit    = 1
	discFup     = 2
	discLazy    = 3
	discFupLazy = 4
)

func payloadFor(k int) []byte {
	pl := []byte{byte(k), byte(k >> 8)}
	for i := 0; i < k%5; i++ {
		pl = append(pl, byte(0xA0+i))
	}
	return pl
}

// one call of the client API, recorded as Call ... Ret in the caller's own log
func (r *vrun) doCall(lg *[]vrec, em int, rng *vrng, mine []uint64) uint64 {
	return r.doCallF(lg, em, rng, mine, -1, 0)
}

// doCallF: forceKind < 0 picks the kind from rng; 0 forces Emit, 1 forces EmitFollowup(forceParent)
func (r *vrun) doCallF(lg *[]vrec, em int, rng *vrng, mine []uint64, forceKind int, forceParent uint64) uint64 {
	k := int(r.nextK.Add(1))
	pl := payloadFor(k)
	v := vrec{ev: "Call", k: k, em: em, pl: pl, par: InvalidID}
	kindSel := rng.n(100)
	boom := r.plan.boomPct > 0 && rng.pct(r.plan.boomPct)
	if forceKind == 0 {
		kindSel = 0
	} else if forceKind == 1 {
		kindSel = 70
	}
	pickParent := func() uint64 {
		s := rng.n(100)
		switch {
		case s < 50 && len(mine) > 0:
			return mine[len(mine)-1-rng.n(min(len(mine), 3))]
		case s < 75:
			if x := r.lastID.Load(); x != 0 {
				return x
			}
			return InvalidID
		case s < 83:
			return InvalidID
		case s < 88:
			return 0
		case s < 94 && len(mine) > 0: // forged: same seq, previous epoch
			x := mine[rng.n(len(mine))]
			return makeEventID(eventIDEpoch(x)-1, eventIDSeq(x))
		default:
			if len(mine) > 0 {
				return mine[0]
			}
			return InvalidID
		}
	}
	builder := func() []byte {
		if boom {
			panic("verif: injected builder panic")
		}
		return append([]byte(nil), pl...)
	}
	var id uint64
	switch {
	case kindSel < 40:
		v.kind, v.disc = "emit", discEmit
		v.st = r.tick()
		*lg = append(*lg, v)
		id = r.cl.Emit(discEmit, append([]byte(nil), pl...))
	case kindSel < 62:
		v.kind, v.disc, v.boom = "lazy", discLazy, boom
		if rng.pct(4) {
			v.nilb, v.boom = true, false
			v.st = r.tick()
			*lg = append(*lg, v)
			id = r.cl.EmitLazy(discLazy, nil)
		} else {
			v.st = r.tick()
			*lg = append(*lg, v)
			id = r.cl.EmitLazy(discLazy, builder)
		}
	case kindSel < 85:
		v.kind, v.disc, v.par = "fup", discFup, pickParent()
		if forceKind == 1 {
			v.par = forceParent
		}
		v.st = r.tick()
		*lg = append(*lg, v)
		id = r.cl.EmitFollowup(discFup, v.par, append([]byte(nil), pl...))
	default:
		v.kind, v.disc, v.par, v.boom = "fuplazy", discFupLazy, pickParent(), boom
		if rng.pct(4) {
			v.nilb, v.boom = true, false
			v.st = r.tick()
			*lg = append(*lg, v)
			id = r.cl.EmitFollowupLazy(discFupLazy, v.par, nil)
		} else {
			v.st = r.tick()
			*lg = append(*lg, v)
			id = r.cl.EmitFollowupLazy(discFupLazy, v.par, builder)
		}
	}
	*lg = append(*lg, vrec{st: r.tick(), ev: "Ret", k: k, id: id})
	if id != InvalidID {
		r.lastID.Store(id)
	}
	r.ncalls.Add(1)
	return id
}

func (r *vrun) emitter(em int, seed uint64, wg *sync.WaitGroup) {
	defer wg.Done()
	rng := newVrng(seed)
	lg := &r.emlogs[em]
	var mine []uint64
	if !(r.plan.startEarly && em%2 == 0) {
		for i := 0; i < 20000 && !r.cl.Enabled() && !r.cl.closedFlag.Load(); i++ {
			runtime.Gosched()
			if i%64 == 63 {
				time.Sleep(50 * time.Microsecond)
			}
		}
	}
	for i := 0; i < r.plan.perEm; i++ {
		id := r.doCall(lg, em, rng, mine)
		if id != InvalidID {
			mine = append(mine, id)
		}
		if rng.pct(r.plan.yieldPct) {
			runtime.Gosched()
		}
		if rng.pct(r.plan.sleepPct) {
			time.Sleep(time.Duration(20+rng.n(200)) * time.Microsecond)
		}
	}
}

// ---------------------------------------------------------------- one run

func sampleInfo() NodeInfo {
	ni := NodeInfo{ImplName: "verif", ImplVersion: "0", GrayPaperVer: "0.7.2", FreeformInfo: "c28"}
	for i := range ni.GenesisHash {
		ni.GenesisHash[i] = byte(i)
		ni.PeerID[i] = byte(0xF0 - i)
	}
	ni.PeerPort = 4242
	return ni
}

func waitUntil(cond func() bool, d time.Duration) bool {
	dl := time.Now().Add(d)
	for !cond() {
		if time.Now().After(dl) {
			return false
		}
		time.Sleep(100 * time.Microsecond)
	}
	return true
}

type runResult struct {
	lines   []string
	aborted string
	stop    bool
}

func oneRun(runIdx int, seed uint64, profile string, forceGmp int) runResult {
	rng := newVrng(seed)
	r := &vrun{rng: rng, gateSig: make(chan *vconn, 8), parkHit: make(chan struct{}, 1)}
	r.plan = makePlan(rng, profile)
	if forceGmp > 0 {
		r.plan.gmp = forceGmp
	}
	prev := runtime.GOMAXPROCS(r.plan.gmp)
	defer runtime.GOMAXPROCS(prev)
	t0 := time.Now()

	cfg := Config{Endpoint: "verif:1", NodeInfo: sampleInfo(), BufferSize: r.plan.buf,
		ReconnectMin: 200 * time.Microsecond, ReconnectMax: time.Millisecond,
		CloseTimeout: 30 * time.Second, TailDropInterval: time.Millisecond}
	cl, err := newTCPClient(cfg)
	if err != nil {
		return runResult{aborted: "newTCPClient: " + err.Error()}
	}
	cl.dialer = r.dial
	cl.seq.currentEpoch = uint16(r.plan.ep0)
	r.cl = cl
	r.emlogs = make([][]vrec, r.plan.emitters+64)
	niBytes, _ := cfg.NodeInfo.Encode()

	vtraceSink = func(ev string, a, b, c uint64) {
		if ev == "emit.pre" || ev == "fup.pre" {
			// NOT under the lock: touch nothing but the park control
			want := int32(1)
			if ev == "fup.pre" {
				want = 2
			}
			if r.parkArm.CompareAndSwap(want, 0) {
				rel := r.parkRelease
				r.parkHit <- struct{}{}
				<-rel
			}
			return
		}
		// runs inside the sequencer lock (every other call site holds it)
		r.lrecs = append(r.lrecs, vrec{st: r.tick(), ev: "L", h: ev, a: a, b: b, c: c,
			ep: int(cl.seq.currentEpoch), sq: cl.seq.seqCounter,
			dr: append([]dropRange(nil), cl.drops.ranges...)})
	}
	defer func() { vtraceSink = nil }()

	cl.start()
	var wg sync.WaitGroup
	for e := 0; e < r.plan.emitters; e++ {
		wg.Add(1)
		go r.emitter(e, rng.u64(), &wg)
	}
	emDone := make(chan struct{})
	go func() { wg.Wait(); close(emDone) }()

	closedCh := make(chan struct{})
	var closeOnce sync.Once
	doClose := func() {
		closeOnce.Do(func() {
			go func() {
				r.closer = append(r.closer, vrec{st: r.tick(), ev: "CloseCall"})
				_ = cl.Close()
				r.closer = append(r.closer, vrec{st: r.tick(), ev: "CloseRet"})
				close(closedCh)
			}()
		})
	}

	// controller: logical triggers on the number of calls made so far
	burstEm := r.plan.emitters
	peerIx := 0
	holdIx := 0
	finished := false
	watchdog := time.After(25 * time.Second)
	tk := time.NewTicker(50 * time.Microsecond)
	defer tk.Stop()
	stuckMsg := ""
	stuckObs := false
	for !finished {
		select {
		case gc := <-r.gateSig:
			// the writer is blocked inside Write: emitters must still all return
			nb := 2 + rng.n(3)
			var bwg sync.WaitGroup
			for i := 0; i < nb; i++ {
				bwg.Add(1)
				em := burstEm
				burstEm++
				s := rng.u64()
				cnt := 1 + rng.n(2*r.plan.buf+3)
				go func() {
					defer bwg.Done()
					brng := newVrng(s)
					var mine []uint64
					for j := 0; j < cnt; j++ {
						if id := r.doCall(&r.emlogs[em], em, brng, mine); id != InvalidID {
							mine = append(mine, id)
						}
					}
				}()
				if burstEm >= len(r.emlogs)-1 {
					break
				}
			}
			bdone := make(chan struct{})
			go func() { bwg.Wait(); close(bdone) }()
			stuck := 0
			select {
			case <-bdone:
			case <-time.After(10 * time.Second):
				stuck = 1
			}
			r.ctl = append(r.ctl, vrec{st: r.tick(), ev: "Ungate", conn: gc.idx, stuck: stuck})
			close(gc.gate)
			if stuck != 0 {
				<-bdone
			}
		case <-emDone:
			finished = true
		case <-watchdog:
			// slow host or blocked emitters?  blocked = not a single call completes for 5 more seconds
			n0 := r.ncalls.Load()
			time.Sleep(5 * time.Second)
			select {
			case <-emDone:
			default:
				if r.ncalls.Load() != n0 {
					stuckMsg = "emitters still progressing after 30s (overloaded host)"
				} else {
					stuckObs = true
				}
			}
			finished = true
		case <-tk.C:
			n := int(r.ncalls.Load())
			for peerIx < len(r.plan.peerAt) && n >= r.plan.peerAt[peerIx] {
				if c := r.curConn.Load(); c != nil {
					c.peerClose()
				}
				peerIx++
			}
			if holdIx < len(r.plan.holdAt) && n >= r.plan.holdAt[holdIx] {
				// lockHold: the harness itself holds the sequencer mutex for > 1 ms while the writer and the
				// emitters pile up behind it.  sync.Mutex then switches to starvation mode: ownership is handed
				// over in FIFO order, so an emitter's lock section is placed BETWEEN two consecutive lock
				// sections of the writer (and vice versa) - the interleaving a split peek/pop would need.
				// Invisible to the specification: no state changes, hook order is still the lock order.
				holdIx++
				cl.seq.Lock()
				time.Sleep(time.Duration(1200+rng.n(800)) * time.Microsecond)
				cl.seq.Unlock()
			}
			if r.plan.closeAt >= 0 && n >= r.plan.closeAt {
				doClose()
			}
		}
	}
	if stuckMsg != "" {
		return runResult{aborted: stuckMsg}
	}
	if stuckObs {
		// emitters that never return are an observation ("emitters never block"), judged by the
		// specification.  Their goroutines stay blocked inside the client, so the driver stops after
		// this run (a late wake-up must not write into another run's log).
		r.ctl = append(r.ctl, vrec{st: r.tick(), ev: "Stuck"})
		return runResult{lines: r.renderAll(runIdx, niBytes), stop: true}
	}
	// ---- forced windows (quiescent phase: the seeded emitters are done, Close has not been called)
	closeStarted := func() bool { return cl.closedFlag.Load() }
	sawStuck := false
	// pump waits for cond (or d), releasing any gate that fires meanwhile
	pump := func(cond func() bool, d time.Duration) bool {
		dl := time.Now().Add(d)
		for !cond() {
			select {
			case gc := <-r.gateSig:
				r.ctl = append(r.ctl, vrec{st: r.tick(), ev: "Ungate", conn: gc.idx})
				close(gc.gate)
			default:
			}
			if time.Now().After(dl) {
				return false
			}
			time.Sleep(50 * time.Microsecond)
		}
		return true
	}
	// parkOne starts `call` on its own goroutine with the park armed; returns (parked, done channel)
	parkOne := func(arm int32, call func()) (bool, chan struct{}) {
		r.parkRelease = make(chan struct{})
		done := make(chan struct{})
		r.parkArm.Store(arm)
		go func() { call(); close(done) }()
		parked := false
		pump(func() bool {
			select {
			case <-r.parkHit:
				parked = true
				return true
			case <-done:
				return true
			default:
				return false
			}
		}, 5*time.Second)
		r.parkArm.Store(0)
		if !parked {
			select { // the CAS may have won just before the disarm
			case <-r.parkHit:
				parked = true
			default:
			}
		}
		return parked, done
	}
	unpark := func(done chan struct{}) {
		close(r.parkRelease)
		stuck := 0
		select {
		case <-done:
		case <-time.After(10 * time.Second):
			stuck = 1 // the emitter is still inside Emit*: recorded, judged by the specification
		}
		if stuck != 0 {
			sawStuck = true
		}
		r.ctl = append(r.ctl, vrec{st: r.tick(), ev: "Unpark", stuck: stuck})
	}
	waitDone := func(done chan struct{}) {
		select {
		case <-done:
		case <-time.After(10 * time.Second):
			sawStuck = true
			r.ctl = append(r.ctl, vrec{st: r.tick(), ev: "Unpark", stuck: 1})
		}
	}
	if r.plan.forceFup && !closeStarted() && cl.Enabled() && burstEm < len(r.emlogs)-2 {
		// a follow-up whose parent is valid at its pre-check; the connection is lost and re-established
		// (epoch bump) before the follow-up reaches its lock section
		em := burstEm
		burstEm++
		frng := newVrng(rng.u64())
		parent := r.doCallF(&r.emlogs[em], em, frng, nil, 0, 0)
		if parent != InvalidID {
			ep0, _ := cl.seq.snapshot()
			parked, done := parkOne(2, func() { r.doCallF(&r.emlogs[em], em, frng, nil, 1, parent) })
			if parked {
				if c := r.curConn.Load(); c != nil {
					c.peerClose()
				}
				pump(func() bool {
					ep, _ := cl.seq.snapshot()
					return (ep != ep0 && cl.enabledFlag.Load()) || cl.degradedFlag.Load() || cl.closedFlag.Load()
				}, 3*time.Second)
				unpark(done)
			} else {
				waitDone(done)
			}
		}
	}
	if r.plan.forceClose && !closeStarted() && cl.Enabled() && burstEm < len(r.emlogs)-2 {
		// an Emit that passed its pre-check before Close() and reaches its lock section after Close()
		// has returned: it must still return (InvalidID)
		em := burstEm
		burstEm++
		frng := newVrng(rng.u64())
		parked, done := parkOne(1, func() { r.doCallF(&r.emlogs[em], em, frng, nil, 0, 0) })
		if parked {
			doClose()
			pump(func() bool {
				select {
				case <-closedCh:
					return true
				default:
					return false
				}
			}, 28*time.Second)
			unpark(done)
		} else {
			waitDone(done)
		}
	}

	// release any gate still pending (the gated Write may never have been reached by the burst path)
	drainGates := func() {
		for {
			select {
			case gc := <-r.gateSig:
				r.ctl = append(r.ctl, vrec{st: r.tick(), ev: "Ungate", conn: gc.idx})
				close(gc.gate)
			default:
				return
			}
		}
	}
	drainGates()
	if r.plan.tailWait {
		time.Sleep(3 * time.Millisecond)
		drainGates()
	}
	doClose()
	closeWait := time.After(28 * time.Second)
	for done := false; !done; {
		select {
		case <-closedCh:
			done = true
		case gc := <-r.gateSig:
			r.ctl = append(r.ctl, vrec{st: r.tick(), ev: "Ungate", conn: gc.idx})
			close(gc.gate)
		case <-closeWait:
			return runResult{aborted: "Close did not return within 28s"}
		}
	}
	post := &r.emlogs[len(r.emlogs)-1]
	for i := 0; i < r.plan.postCalls; i++ {
		r.doCall(post, len(r.emlogs)-1, rng, nil)
	}
	// everything has returned: nobody can hold the sequencer mutex any more
	free := false
	for i := 0; i < 200 && !free; i++ {
		if cl.seq.mu.TryLock() {
			cl.seq.mu.Unlock()
			free = true
		} else {
			time.Sleep(5 * time.Millisecond)
		}
	}
	r.ctl = append(r.ctl, vrec{st: r.tick(), ev: "LockProbe", ok: free})
	r.ctl = append(r.ctl, vrec{st: r.tick(), ev: "End"})
	if !sawStuck && time.Since(t0) > 15*time.Second {
		return runResult{aborted: "run took longer than 15s (overloaded host)"}
	}

	return runResult{lines: r.renderAll(runIdx, niBytes), stop: sawStuck}
}

// renderAll merges the per-goroutine logs by stamp (stamps are unique) and renders the run
func (r *vrun) renderAll(runIdx int, niBytes []byte) []string {
	var all []vrec
	all = append(all, r.lrecs...)
	all = append(all, r.netlog...)
	all = append(all, r.ctl...)
	all = append(all, r.closer...)
	for _, l := range r.emlogs {
		all = append(all, l...)
	}
	sort.Slice(all, func(i, j int) bool { return all[i].st < all[j].st })
	idToK := map[uint64]int{}
	for _, v := range all {
		if v.ev == "Ret" && v.id != InvalidID {
			if _, dup := idToK[v.id]; !dup {
				idToK[v.id] = v.k
			}
		}
	}
	lines := make([]string, 0, len(all)+1)
	lines = append(lines, fmt.Sprintf(`{"ev":"Run","run":%d,"buf":%d,"ep0":%d,"em":%d,"gmp":%d,"ni":%s}`,
		runIdx, r.plan.buf, r.plan.ep0, r.plan.emitters, r.plan.gmp, jbytes(niBytes)))
	for _, v := range all {
		lines = append(lines, render(v, idToK))
	}
	return lines
}

func jbytes(b []byte) string {
	var sb strings.Builder
	sb.WriteByte('[')
	for i, x := range b {
		if i > 0 {
			sb.WriteByte(',')
		}
		sb.WriteString(strconv.Itoa(int(x)))
	}
	sb.WriteByte(']')
	return sb.String()
}

func ju64(x uint64) string { return jbytes(EncodeU64(x)) }

// small integer view of a 48-bit seq / count for TLC (32-bit ints); -1 when it does not fit
func small(x uint64) int {
	if x >= 1<<30 {
		return -1
	}
	return int(x)
}

func render(v vrec, idToK map[uint64]int) string {
	switch v.ev {
	case "Call":
		return fmt.Sprintf(`{"ev":"Call","st":%d,"k":%d,"em":%d,"kind":"%s","disc":%d,"pl":%s,"par":%s,"pep":%d,"psq":%d,"pinv":%t,"nilb":%t,"boom":%t}`,
			v.st, v.k, v.em, v.kind, v.disc, jbytes(v.pl), ju64(v.par), eventIDEpoch(v.par), small(eventIDSeq(v.par)), v.par == InvalidID, v.nilb, v.boom)
	case "Ret":
		return fmt.Sprintf(`{"ev":"Ret","st":%d,"k":%d,"id":%s,"inv":%t,"ep":%d,"sq":%d}`,
			v.st, v.k, ju64(v.id), v.id == InvalidID, eventIDEpoch(v.id), small(eventIDSeq(v.id)))
	case "L":
		var sb strings.Builder
		sb.WriteByte('[')
		for i, d := range v.dr {
			if i > 0 {
				sb.WriteByte(',')
			}
			fmt.Fprintf(&sb, `{"first":%d,"count":%d,"fep":%d}`, small(eventIDSeq(d.firstID)), small(d.count), eventIDEpoch(d.firstID))
		}
		sb.WriteByte(']')
		k := 0
		if strings.HasPrefix(v.h, "emit.") || strings.HasPrefix(v.h, "fup.") {
			k = idToK[v.a]
		}
		return fmt.Sprintf(`{"ev":"L","st":%d,"h":"%s","k":%d,"aep":%d,"asq":%d,"a":%d,"bep":%d,"bsq":%d,"b":%d,"c":%d,"ep":%d,"sq":%d,"dr":%s}`,
			v.st, v.h, k, eventIDEpoch(v.a), small(eventIDSeq(v.a)), small(v.a), eventIDEpoch(v.b), small(eventIDSeq(v.b)), small(v.b), small(v.c), v.ep, small(v.sq), sb.String())
	case "Dial":
		return fmt.Sprintf(`{"ev":"Dial","st":%d,"c":%d,"ok":%t}`, v.st, v.conn, v.ok)
	case "W":
		return fmt.Sprintf(`{"ev":"W","st":%d,"c":%d,"b":%s,"err":%t}`, v.st, v.conn, jbytes(v.bytes), v.err)
	case "Gate":
		return fmt.Sprintf(`{"ev":"Gate","st":%d,"c":%d}`, v.st, v.conn)
	case "Ungate":
		return fmt.Sprintf(`{"ev":"Ungate","st":%d,"c":%d,"stuck":%d}`, v.st, v.conn, v.stuck)
	case "Unpark":
		return fmt.Sprintf(`{"ev":"Unpark","st":%d,"stuck":%d}`, v.st, v.stuck)
	case "LockProbe":
		return fmt.Sprintf(`{"ev":"LockProbe","st":%d,"free":%t}`, v.st, v.ok)
	case "ConnClose":
		return fmt.Sprintf(`{"ev":"ConnClose","st":%d,"c":%d,"force":%t}`, v.st, v.conn, v.force)
	case "ReadErr":
		return fmt.Sprintf(`{"ev":"ReadErr","st":%d,"c":%d}`, v.st, v.conn)
	default:
		return fmt.Sprintf(`{"ev":"%s","st":%d}`, v.ev, v.st)
	}
}

// ---------------------------------------------------------------- entry point

func TestVerifTelemetryRun(t *testing.T) {
	out := os.Getenv("VF_OUT")
	if out == "" {
		t.Skip("VF_OUT not set")
	}
	log.SetOutput(io.Discard)
	seed, _ := strconv.ParseUint(os.Getenv("VF_SEED"), 10, 64)
	runs, _ := strconv.Atoi(os.Getenv("VF_RUNS"))
	if runs <= 0 {
		runs = 10
	}
	first, _ := strconv.Atoi(os.Getenv("VF_FIRST"))
	forceGmp, _ := strconv.Atoi(os.Getenv("VF_GOMAXPROCS"))
	profile := os.Getenv("VF_PROFILE")
	f, err := os.Create(out)
	if err != nil {
		t.Fatal(err)
	}
	w := bufio.NewWriterSize(f, 1<<20)
	aborted := 0
	for i := first; i < first+runs; i++ {
		res := oneRun(i, seed*1000003+uint64(i)*7919+1, profile, forceGmp)
		if res.aborted != "" {
			// goroutines of the aborted run may still be alive: stop here, the check reports exit 2
			aborted++
			fmt.Fprintf(w, `{"ev":"Aborted","run":%d,"why":%q}`+"\n", i, res.aborted)
			break
		}
		for _, ln := range res.lines {
			w.WriteString(ln)
			w.WriteByte('\n')
		}
		if res.stop {
			fmt.Fprintf(w, `{"ev":"Stopped","run":%d}`+"\n", i)
			break
		}
	}
	w.Flush()
	f.Close()
	t.Logf("runs=%d aborted=%d", runs, aborted)
}

package vfd

// Generic hash-term evaluator (DESIGN.md 3.3): reduces a term produced by the TLA+ specification
// (spec/lib/HashTerm.tla) to bytes with the real primitives.  It knows nothing about tries,
// Merkle trees or mountain ranges: all structure comes from the specification.

import (
	"fmt"

	"golang.org/x/crypto/blake2b"
	"golang.org/x/crypto/sha3"
)

func EvalTerm(t any) []byte {
	m, ok := t.(map[string]any)
	if !ok {
		panic(fmt.Sprintf("term: unexpected %T", t))
	}
	switch m["t"].(string) {
	case "lit":
		return Bytes(m["b"])
	case "str":
		return []byte(m["s"].(string))
	case "cat":
		var out []byte
		for _, x := range m["xs"].([]any) {
			out = append(out, EvalTerm(x)...)
		}
		return out
	case "b2b":
		h := blake2b.Sum256(EvalTerm(m["x"]))
		return h[:]
	case "kec":
		h := sha3.NewLegacyKeccak256()
		h.Write(EvalTerm(m["x"]))
		return h.Sum(nil)
	case "slice":
		b := EvalTerm(m["x"])
		f, n := I(m["from"]), I(m["len"])
		return append([]byte(nil), b[f:f+n]...)
	case "clr":
		b := append([]byte(nil), EvalTerm(m["x"])...)
		if len(b) > 0 {
			b[0] &= 0x7f
		}
		return b
	case "rep":
		out := make([]byte, I(m["n"]))
		for i := range out {
			out[i] = byte(I(m["b"]))
		}
		return out
	case "none":
		return nil
	}
	panic("term: unknown op " + m["t"].(string))
}

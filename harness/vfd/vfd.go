// Package vfd: helpers shared by the /verif Go drivers (overlay-only; standard library only).
package vfd

import (
	"bufio"
	"encoding/json"
	"fmt"
	"os"
	"runtime/debug"
	"strconv"
)

// B converts bytes to a JSON-friendly []int (TLC cannot index strings; base64 is useless to it).
func B(b []byte) []int {
	out := make([]int, len(b))
	for i, x := range b {
		out[i] = int(x)
	}
	return out
}

// Bytes converts a decoded JSON array ([]any of float64, or []int) to bytes.
func Bytes(v any) []byte {
	switch a := v.(type) {
	case nil:
		return nil
	case []any:
		out := make([]byte, len(a))
		for i, x := range a {
			out[i] = byte(int(x.(float64)))
		}
		return out
	case []int:
		out := make([]byte, len(a))
		for i, x := range a {
			out[i] = byte(x)
		}
		return out
	}
	panic(fmt.Sprintf("vfd.Bytes: unexpected %T", v))
}

// U64LE renders a uint64 as 8 little-endian bytes (as ints).
func U64LE(x uint64) []int {
	out := make([]int, 8)
	for i := 0; i < 8; i++ {
		out[i] = int(byte(x >> (8 * i)))
	}
	return out
}

func FromU64LE(v any) uint64 {
	b := Bytes(v)
	var x uint64
	for i := 0; i < len(b) && i < 8; i++ {
		x |= uint64(b[i]) << (8 * i)
	}
	return x
}

// Rng is xorshift64* (same as lib/vf.py Rng).
type Rng struct{ s uint64 }

func NewRng(seed uint64) *Rng {
	s := seed*0x9E3779B97F4A7C15 + 0x1234567
	if s == 0 {
		s = 1
	}
	return &Rng{s}
}
func (r *Rng) U64() uint64 {
	s := r.s
	s ^= s >> 12
	s ^= s << 25
	s ^= s >> 27
	r.s = s
	return s * 0x2545F4914F6CDD1D
}
func (r *Rng) N(k int) int {
	if k <= 0 {
		return 0
	}
	return int(r.U64() % uint64(k))
}
func (r *Rng) Bytes(n int) []byte {
	b := make([]byte, n)
	for i := range b {
		b[i] = byte(r.U64())
	}
	return b
}
func (r *Rng) Bool() bool { return r.U64()&1 == 1 }

func Env(k, def string) string {
	if v := os.Getenv(k); v != "" {
		return v
	}
	return def
}
func EnvInt(k string, def int) int {
	if v := os.Getenv(k); v != "" {
		n, err := strconv.Atoi(v)
		if err == nil {
			return n
		}
	}
	return def
}

// ReadCases reads an ndjson file of generic objects.
func ReadCases(path string) []map[string]any {
	f, err := os.Open(path)
	if err != nil {
		panic(err)
	}
	defer f.Close()
	sc := bufio.NewScanner(f)
	sc.Buffer(make([]byte, 1<<20), 1<<28)
	var out []map[string]any
	for sc.Scan() {
		if len(sc.Bytes()) == 0 {
			continue
		}
		var m map[string]any
		if err := json.Unmarshal(sc.Bytes(), &m); err != nil {
			panic(err)
		}
		out = append(out, m)
	}
	return out
}

// Out is an ndjson trace writer.
type Out struct {
	f *os.File
	w *bufio.Writer
	N int
}

func NewOut(path string) *Out {
	f, err := os.Create(path)
	if err != nil {
		panic(err)
	}
	return &Out{f: f, w: bufio.NewWriterSize(f, 1<<20)}
}
func (o *Out) Emit(rec any) {
	b, err := json.Marshal(rec)
	if err != nil {
		panic(err)
	}
	o.w.Write(b)
	o.w.WriteByte('\n')
	o.N++
}
func (o *Out) Close() { o.w.Flush(); o.f.Close() }

// Guard runs f and reports a Go runtime panic (message, short stack) instead of dying.
func Guard(f func()) (panicked bool, msg string) {
	defer func() {
		if r := recover(); r != nil {
			panicked = true
			msg = fmt.Sprint(r)
			_ = debug.Stack
		}
	}()
	f()
	return
}

func I(v any) int {
	switch x := v.(type) {
	case float64:
		return int(x)
	case int:
		return x
	case nil:
		return 0
	}
	panic(fmt.Sprintf("vfd.I: unexpected %T", v))
}
func S(v any) string {
	if v == nil {
		return ""
	}
	return v.(string)
}

package PVM

// X-step driver for C10 (accumulation checkpoint and rollback), in-package.
// It only assembles, executes and records; every expected value comes from spec/host/AccumulateInv.tla.
//
// A case: {"id","tag","calls":[{"op":"write","k":[..],"v":[..]} | {"op":"transfer","amt":n} | {"op":"new","c":tag}
//                              | {"op":"yield","h":tag} | {"op":"provide","b":[..]} | {"op":"checkpoint"}
//                              | {"op":"upgrade","c":tag} | {"op":"solicit","h":tag,"z":n} | {"op":"forget","h":tag,"z":n}],
//          "ends":[{"kind":"halt0|halt32|halt5|halt33|halt48|halt64|halt200|trap|spin|oog","k":n,"d":"min|max"}]}
// Each behaviour (call sequence + ending) is assembled into a real accumulate program (load_imm_64 / ecalli
// sequences, operands in the read-write segment of a standard program blob), installed as the code of service
// 42 in a fresh state, and executed with Psi_A.  For the call sequence the driver also runs every prefix
// ending in a plain halt: snaps[k] is what Psi_A returns when the program halts after k calls.
// Returned values are projected canonically; equal projections are stored once (`states`) and referred to
// by index.  ending "oog": the gas limit pays for exactly k calls plus nothing ("min") or plus all but one
// unit of what call k+1 (or the ending) needs before its host function is charged ("max").

import (
	"encoding/json"
	"sort"
	"strconv"
	"testing"

	"github.com/New-JAMneration/JAM-Protocol/internal/service_account"
	"github.com/New-JAMneration/JAM-Protocol/internal/types"
	"github.com/New-JAMneration/JAM-Protocol/internal/utilities/hash"
	"github.com/New-JAMneration/JAM-Protocol/internal/utilities/merklization"
	"github.com/New-JAMneration/JAM-Protocol/internal/verifdrv/vfd"
)

const (
	vfaSelf     = types.ServiceID(42)
	vfaDest     = types.ServiceID(43)
	vfaDataAt   = uint64(0x20000) // start of the read-write segment when the read-only segment is empty
	vfaAmple    = 1000000
	vfaIncoming = 777
)

var vfaBalance0 = uint64(1000000000000)

// ---- assembler

type vfaAsm struct {
	code []byte
	mask []byte
	data []byte
	n    int // instructions so far
}

func (a *vfaAsm) ins(b ...byte) {
	a.code = append(a.code, b...)
	a.mask = append(a.mask, 1)
	for i := 1; i < len(b); i++ {
		a.mask = append(a.mask, 0)
	}
	a.n++
}

func (a *vfaAsm) loadImm64(reg int, v uint64) {
	b := []byte{20, byte(reg)}
	for i := 0; i < 8; i++ {
		b = append(b, byte(v>>(8*i)))
	}
	a.ins(b...)
}

// place bytes in the read-write segment, return their address
func (a *vfaAsm) put(b []byte) uint64 {
	at := vfaDataAt + uint64(len(a.data))
	a.data = append(a.data, b...)
	return at
}

func (a *vfaAsm) ecalli(id int) { a.ins(10, byte(id)) }

func vfaRep(tag int, n int) []byte {
	b := make([]byte, n)
	for i := range b {
		b[i] = byte(tag)
	}
	return b
}

// one host call: operand registers, then ecalli
func (a *vfaAsm) call(c map[string]any) {
	switch vfd.S(c["op"]) {
	case "write":
		k, v := vfd.Bytes(c["k"]), vfd.Bytes(c["v"])
		a.loadImm64(7, a.put(k))
		a.loadImm64(8, uint64(len(k)))
		a.loadImm64(9, a.put(v))
		a.loadImm64(10, uint64(len(v)))
		a.ecalli(int(WriteOp))
	case "transfer":
		memo := make([]byte, types.TransferMemoSize)
		copy(memo, []byte{0xde, 0xad, byte(vfd.I(c["amt"]))})
		a.loadImm64(7, uint64(vfaDest))
		a.loadImm64(8, uint64(vfd.I(c["amt"])))
		a.loadImm64(9, 0) // gas limit of the transfer: the receiver asks for none
		a.loadImm64(10, a.put(memo))
		a.ecalli(int(TransferOp))
	case "new":
		a.loadImm64(7, a.put(vfaRep(vfd.I(c["c"]), 32)))
		a.loadImm64(8, 100)
		a.loadImm64(9, 0)
		a.loadImm64(10, 0)
		a.loadImm64(11, 0)
		a.loadImm64(12, 0)
		a.ecalli(int(NewOp))
	case "yield":
		a.loadImm64(7, a.put(vfaRep(vfd.I(c["h"]), 32)))
		a.ecalli(int(YieldOp))
	case "provide":
		b := vfd.Bytes(c["b"])
		a.loadImm64(7, ^uint64(0))
		a.loadImm64(8, a.put(b))
		a.loadImm64(9, uint64(len(b)))
		a.ecalli(int(ProvideOp))
	case "upgrade":
		a.loadImm64(7, a.put(vfaRep(vfd.I(c["c"]), 32)))
		a.loadImm64(8, 3)
		a.loadImm64(9, 4)
		a.ecalli(int(UpgradeOp))
	case "solicit":
		a.loadImm64(7, a.put(vfaRep(vfd.I(c["h"]), 32)))
		a.loadImm64(8, uint64(vfd.I(c["z"])))
		a.ecalli(int(SolicitOp))
	case "forget":
		a.loadImm64(7, a.put(vfaRep(vfd.I(c["h"]), 32)))
		a.loadImm64(8, uint64(vfd.I(c["z"])))
		a.ecalli(int(ForgetOp))
	case "checkpoint":
		a.ecalli(int(CheckpointOp))
	default:
		panic("driver: unknown call " + vfd.S(c["op"]))
	}
}

func (a *vfaAsm) end(kind string) {
	switch kind {
	case "halt0":
		a.loadImm64(7, vfaDataAt)
		a.loadImm64(8, 0)
		a.ins(50, 0) // jump_ind r0 + 0: r0 holds 2^32 - 2^16, the halt address
	case "halt32":
		a.loadImm64(7, a.put(vfaRep(77, 32)))
		a.loadImm64(8, 32)
		a.ins(50, 0)
	case "halt5":
		a.loadImm64(7, a.put(vfaRep(78, 5)))
		a.loadImm64(8, 5)
		a.ins(50, 0)
	case "halt33", "halt48", "halt64", "halt200": // an output longer than a hash
		n, _ := strconv.Atoi(kind[4:])
		a.loadImm64(7, a.put(vfaRep(79, n)))
		a.loadImm64(8, uint64(n))
		a.ins(50, 0)
	case "trap":
		a.ins(0)
	case "spin", "oog":
		a.ins(40, 0) // jump to itself
	default:
		panic("driver: unknown ending " + kind)
	}
}

func vfaNat(x int) []byte {
	if x < 128 {
		return []byte{byte(x)}
	}
	if x < 1<<14 {
		return []byte{byte(0x80 | (x >> 8)), byte(x)}
	}
	panic("driver: program too long")
}

// standard program blob E3(|o|) E3(|w|) E2(z) E3(s) o w E4(|c|) c  with o empty, z = 0, s = 0
func (a *vfaAsm) blob() []byte {
	inner := []byte{0, 0}
	inner = append(inner, vfaNat(len(a.code))...)
	inner = append(inner, a.code...)
	k := make([]byte, (len(a.code)+7)/8)
	for i, m := range a.mask {
		if m == 1 {
			k[i/8] |= 1 << (i % 8)
		}
	}
	inner = append(inner, k...)
	w := len(a.data)
	out := []byte{0, 0, 0, byte(w), byte(w >> 8), byte(w >> 16), 0, 0, 0, 0, 0}
	out = append(out, a.data...)
	out = append(out, byte(len(inner)), byte(len(inner)>>8), byte(len(inner)>>16), byte(len(inner)>>24))
	return append(out, inner...)
}

// ---- state

var vfaCodeHash = types.OpaqueHash{1, 2, 3, 4, 5, 6, 7, 8, 9, 10, 11, 12, 13, 14, 15, 16, 17, 18, 19, 20, 21, 22, 23, 24, 25, 26, 27, 28, 29, 30, 31, 32}

func vfaState(program []byte, provideBlobs [][]byte) (types.PartialStateSet, types.StateKeyVals) {
	self := types.ServiceAccount{
		ServiceInfo:    types.ServiceInfo{CodeHash: vfaCodeHash, Balance: types.U64(vfaBalance0)},
		PreimageLookup: types.PreimagesMapEntry{vfaCodeHash: append([]byte{0}, program...)},
		LookupDict:     types.LookupMetaMapEntry{},
		StorageDict:    types.Storage{"k1": types.ByteSequence{9, 9}},
	}
	for _, b := range provideBlobs { // solicited, not yet provided
		self.LookupDict[types.LookupMetaMapkey{Hash: hash.Blake2bHash(b), Length: types.U32(len(b))}] = types.TimeSlotSet{}
	}
	// lookup entries with 0, 1, 2 and 3 slots (hash = 32 x tag 80..83, length 10) for solicit / forget; the slots are
	// far older than the accumulation's time slot minus D
	self.LookupDict[types.LookupMetaMapkey{Hash: types.OpaqueHash(vfaRep(80, 32)), Length: 10}] = types.TimeSlotSet{}
	self.LookupDict[types.LookupMetaMapkey{Hash: types.OpaqueHash(vfaRep(81, 32)), Length: 10}] = types.TimeSlotSet{5}
	self.LookupDict[types.LookupMetaMapkey{Hash: types.OpaqueHash(vfaRep(82, 32)), Length: 10}] = types.TimeSlotSet{5, 6}
	self.LookupDict[types.LookupMetaMapkey{Hash: types.OpaqueHash(vfaRep(83, 32)), Length: 10}] = types.TimeSlotSet{5, 6, 7}
	d := service_account.GetServiceAccountDerivatives(self)
	self.ServiceInfo.Items, self.ServiceInfo.Bytes = d.Items, d.Bytes
	// the three storage entries that exist only as raw key-values count in the footprint as well
	for _, e := range [][2]string{{"kx", "\x05"}, {"ka", "\x07\x07\x07"}, {"kz", "\x06"}} {
		i, o := service_account.CalcStorageItemfootprint(e[0], types.ByteSequence(e[1]))
		self.ServiceInfo.Items += i
		self.ServiceInfo.Bytes += o
	}
	dest := types.ServiceAccount{
		ServiceInfo:    types.ServiceInfo{CodeHash: types.OpaqueHash{9}, Balance: 5},
		PreimageLookup: types.PreimagesMapEntry{},
		LookupDict:     types.LookupMetaMapEntry{},
		StorageDict:    types.Storage{},
	}
	ps := types.PartialStateSet{
		ServiceAccounts: types.ServiceAccountState{vfaSelf: self, vfaDest: dest},
		ValidatorKeys:   types.ValidatorsData{},
		Authorizers:     types.AuthQueues{},
		Assign:          types.ServiceIDList{},
		AlwaysAccum:     types.AlwaysAccumulateMap{},
	}
	kv := types.StateKeyVals{
		merklization.WrapEncodeDelta2KeyVal(vfaSelf, types.ByteSequence("kx"), types.ByteSequence{5}),
		merklization.WrapEncodeDelta2KeyVal(vfaSelf, types.ByteSequence("ka"), types.ByteSequence{7, 7, 7}),
		merklization.WrapEncodeDelta2KeyVal(vfaSelf, types.ByteSequence("kz"), types.ByteSequence{6}),
	}
	return ps, kv
}

// ---- projection

type vfaAcct struct {
	ID    []int   `json:"id"`
	Code  []int   `json:"code"`
	Bal   []int   `json:"bal"`
	Items int     `json:"items"`
	Bytes []int   `json:"bytes"`
	St    [][]any `json:"st"`
	Lk    [][]any `json:"lk"`
	Pre   [][]int `json:"pre"`
	Par   []int   `json:"par"`
	Slot  int     `json:"slot"`
}

type vfaProj struct {
	Accts []vfaAcct `json:"accts"`
	Tr    [][]any   `json:"tr"`
	Pv    [][]any   `json:"pv"`
	Kv    [][]any   `json:"kv"`
	Priv  []any     `json:"priv"`
}

func vfaLE4(x uint32) []int { return []int{int(byte(x)), int(byte(x >> 8)), int(byte(x >> 16)), int(byte(x >> 24))} }

func vfaTrim(b []byte) []int {
	n := len(b)
	for n > 0 && b[n-1] == 0 {
		n--
	}
	return vfd.B(b[:n])
}

func vfaProject(r Psi_A_ReturnType) vfaProj {
	var p vfaProj
	ids := make([]int, 0)
	for id := range r.PartialStateSet.ServiceAccounts {
		ids = append(ids, int(id))
	}
	sort.Ints(ids)
	p.Accts = []vfaAcct{}
	for _, id := range ids {
		a := r.PartialStateSet.ServiceAccounts[types.ServiceID(id)]
		x := vfaAcct{ID: vfaLE4(uint32(id)), Code: vfd.B(a.ServiceInfo.CodeHash[:]), Bal: vfd.U64LE(uint64(a.ServiceInfo.Balance)),
			Items: int(a.ServiceInfo.Items & 0x3fffffff), Bytes: vfd.U64LE(uint64(a.ServiceInfo.Bytes)),
			Par: vfaLE4(uint32(a.ServiceInfo.ParentService)), Slot: int(a.ServiceInfo.CreationSlot & 0x3fffffff),
			St: [][]any{}, Lk: [][]any{}, Pre: [][]int{}}
		ks := make([]string, 0)
		for k := range a.StorageDict {
			ks = append(ks, k)
		}
		sort.Strings(ks)
		for _, k := range ks {
			x.St = append(x.St, []any{vfd.B([]byte(k)), vfd.B(a.StorageDict[k])})
		}
		lks := make([]types.LookupMetaMapkey, 0)
		for k := range a.LookupDict {
			lks = append(lks, k)
		}
		sort.Slice(lks, func(i, j int) bool {
			if lks[i].Hash != lks[j].Hash {
				return string(lks[i].Hash[:]) < string(lks[j].Hash[:])
			}
			return lks[i].Length < lks[j].Length
		})
		for _, k := range lks {
			slots := []int{}
			for _, s := range a.LookupDict[k] {
				slots = append(slots, int(s&0x3fffffff))
			}
			x.Lk = append(x.Lk, []any{vfd.B(k.Hash[:4]), int(k.Length & 0x3fffffff), slots})
		}
		phs := make([]string, 0)
		for h := range a.PreimageLookup {
			phs = append(phs, string(h[:]))
		}
		sort.Strings(phs)
		for _, h := range phs {
			x.Pre = append(x.Pre, vfd.B([]byte(h)[:4]))
		}
		p.Accts = append(p.Accts, x)
	}
	p.Tr = [][]any{}
	for _, t := range r.DeferredTransfers {
		p.Tr = append(p.Tr, []any{vfaLE4(uint32(t.SenderID)), vfaLE4(uint32(t.ReceiverID)), vfd.U64LE(uint64(t.Balance)), vfaTrim(t.Memo[:]), vfd.U64LE(uint64(t.GasLimit))})
	}
	p.Pv = [][]any{}
	for _, b := range r.ServiceBlobs {
		p.Pv = append(p.Pv, []any{vfaLE4(uint32(b.ServiceID)), vfd.B(b.Blob)})
	}
	sort.Slice(p.Pv, func(i, j int) bool {
		a, _ := json.Marshal(p.Pv[i])
		b, _ := json.Marshal(p.Pv[j])
		return string(a) < string(b)
	})
	p.Kv = [][]any{}
	for _, e := range r.StorageKeyVal {
		p.Kv = append(p.Kv, []any{vfd.B(e.Key[:]), vfd.B(e.Value)})
	}
	ps := r.PartialStateSet
	assign := []int{}
	for _, s := range ps.Assign {
		assign = append(assign, int(s&0x3fffffff))
	}
	p.Priv = []any{vfaLE4(uint32(ps.Bless)), assign, vfaLE4(uint32(ps.Designate)), vfaLE4(uint32(ps.CreateAcct)), len(ps.AlwaysAccum), len(ps.ValidatorKeys), len(ps.Authorizers)}
	return p
}

// ---- execution

type vfaRun struct {
	S       int    `json:"s"`    // index into states
	Y       []int  `json:"y"`    // result hash ([] = none)
	Used    int    `json:"used"` // gas used
	GoPanic string `json:"gopanic"`
}

type vfaRunner struct {
	states []json.RawMessage
	index  map[string]int
	blobs  [][]byte
}

func (rn *vfaRunner) run(program []byte, gas uint64) vfaRun {
	ps, kv := vfaState(program, rn.blobs)
	ops := []types.OperandOrDeferredTransfer{{DeferredTransfer: &types.DeferredTransfer{SenderID: vfaDest, ReceiverID: vfaSelf, Balance: vfaIncoming}}}
	var r Psi_A_ReturnType
	panicked, msg := vfd.Guard(func() {
		r = Psi_A(ps, types.TimeSlot(100000), vfaSelf, types.Gas(gas), ops, types.Entropy{4, 4, 4}, kv)
	})
	if panicked {
		return vfaRun{S: -1, Y: []int{}, GoPanic: msg}
	}
	b, err := json.Marshal(vfaProject(r))
	if err != nil {
		panic(err)
	}
	idx, ok := rn.index[string(b)]
	if !ok {
		idx = len(rn.states)
		rn.index[string(b)] = idx
		rn.states = append(rn.states, json.RawMessage(b))
	}
	out := vfaRun{S: idx, Y: []int{}}
	if r.Result != nil {
		out.Y = vfd.B(r.Result[:])
	}
	used := uint64(r.Gas)
	if used > 1<<30 {
		used = 1 << 30
	}
	out.Used = int(used)
	return out
}

func vfaProgram(calls []any, k int, ending string) (blob []byte, costs []int, endInstr int) {
	a := &vfaAsm{}
	a.ins(40, 5, 0, 0, 0) // the accumulate entry point is instruction counter 5: a jump there fills 0..4 (never executed)
	a.n = 0
	for i := 0; i < k; i++ {
		n0 := a.n
		a.call(calls[i].(map[string]any))
		costs = append(costs, a.n-n0)
	}
	n0 := a.n
	a.end(ending)
	return a.blob(), costs, a.n - n0
}

func TestAccInv(t *testing.T) {
	cases := vfd.ReadCases(vfd.Env("VF_CASES", "cases.ndjson"))
	out := vfd.NewOut(vfd.Env("VF_OUT", "trace.ndjson"))
	defer out.Close()
	for _, c := range cases {
		calls := c["calls"].([]any)
		rn := &vfaRunner{index: map[string]int{}}
		for _, cj := range calls {
			cm := cj.(map[string]any)
			if vfd.S(cm["op"]) == "provide" {
				rn.blobs = append(rn.blobs, vfd.Bytes(cm["b"]))
			}
		}
		n := len(calls)
		// what a program that halts after k calls returns
		snaps := []vfaRun{}
		var costs []int
		for k := 0; k <= n; k++ {
			blob, cs, _ := vfaProgram(calls, k, "halt0")
			if k == n {
				costs = cs
			}
			snaps = append(snaps, rn.run(blob, vfaAmple))
		}
		if costs == nil {
			costs = []int{}
		}
		ends := []map[string]any{}
		for _, ej := range c["ends"].([]any) {
			e := ej.(map[string]any)
			kind := vfd.S(e["kind"])
			limit := uint64(vfaAmple)
			k := n
			if kind == "oog" {
				k = vfd.I(e["k"]) // the limit pays for exactly k calls ...
				if k > n {
					k = n
				}
			}
			blob, _, _ := vfaProgram(calls, n, kind)
			if kind == "oog" || kind == "spin" {
				limit = 0
				for i := 0; i < k; i++ {
					limit += uint64(costs[i]) + 10
				}
				if kind == "spin" {
					limit += 37
				} else if vfd.S(e["d"]) == "max" { // ... plus all but one unit of what the next step needs
					if k < n {
						limit += uint64(costs[k]) + 9
					} else {
						limit += 5 // a few turns of the final loop
					}
				}
			}
			res := rn.run(blob, limit)
			ends = append(ends, map[string]any{"kind": kind, "k": vfd.I(e["k"]), "d": vfd.S(e["d"]), "limit": int(limit), "res": res})
		}
		out.Emit(map[string]any{"id": c["id"], "tag": c["tag"], "calls": calls, "cost": costs, "states": rn.states, "snaps": snaps, "ends": ends})
	}
}

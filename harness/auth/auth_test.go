package authdrv

// X-step driver for C24: replays TLC-generated cases and seeded free-running histories on
// authorization.STFAlpha2AlphaPrime, authorization.Authorization() (chain-state singleton) and
// types.AuthPool.RemoveLeftMostPairedValue.  It executes and records; the verdict is TLC's
// (spec/stf/Authorizer_Trace.tla).
//
// Names stand for 32-byte hashes: ASCII zero-padded ("" = zero hash); "x:<hex>" = raw bytes.

import (
	"encoding/hex"
	"fmt"
	"strings"
	"testing"

	"github.com/New-JAMneration/JAM-Protocol/internal/authorization"
	"github.com/New-JAMneration/JAM-Protocol/internal/blockchain"
	"github.com/New-JAMneration/JAM-Protocol/internal/types"
	"github.com/New-JAMneration/JAM-Protocol/internal/verifdrv/vfd"
)

func hashOf(name string) (h types.OpaqueHash) {
	if strings.HasPrefix(name, "x:") {
		b, err := hex.DecodeString(name[2:])
		if err != nil || len(b) != 32 {
			panic("bad hex name " + name)
		}
		copy(h[:], b)
		return
	}
	if len(name) > 32 {
		panic("name too long " + name)
	}
	copy(h[:], name)
	return
}

func nameOf(h [32]byte) string {
	n := 32
	for n > 0 && h[n-1] == 0 {
		n--
	}
	ok := true
	for i := 0; i < n; i++ {
		c := h[i]
		if c < 0x21 || c > 0x7e || c == '"' || c == '\\' {
			ok = false
		}
	}
	if ok && !(n >= 2 && h[0] == 'x' && h[1] == ':') {
		return string(h[:n])
	}
	return "x:" + hex.EncodeToString(h[:])
}

type qdesc struct {
	tag  string
	per  []string
	over map[int]string
	raw  map[string]any
}

func parseQ(v any) qdesc {
	m := v.(map[string]any)
	q := qdesc{tag: vfd.S(m["tag"]), over: map[int]string{}, raw: m}
	if p, ok := m["per"].([]any); ok {
		for _, x := range p {
			q.per = append(q.per, vfd.S(x))
		}
	}
	if o, ok := m["over"].([]any); ok {
		for _, x := range o {
			r := x.(map[string]any)
			i := vfd.I(r["i"])
			if _, dup := q.over[i]; !dup { // first override of an index wins (as in QueueAt)
				q.over[i] = vfd.S(r["h"])
			}
		}
	}
	return q
}

// expand lists the described queue: plain data expansion of the descriptor, no selection logic
func (q qdesc) expand(core int) types.AuthQueue {
	out := make(types.AuthQueue, types.AuthQueueSize)
	for i := range out {
		var name string
		if h, ok := q.over[i]; ok {
			name = h
		} else if len(q.per) > 0 {
			name = q.per[i%len(q.per)]
		} else {
			name = fmt.Sprintf("%s_%d_%d", q.tag, core, i)
		}
		out[i] = types.AuthorizerHash(hashOf(name))
	}
	return out
}

func poolsFromNames(v any, nilEmpty bool) types.AuthPools {
	var out types.AuthPools
	for _, p := range v.([]any) {
		names := p.([]any)
		var pool types.AuthPool
		if !nilEmpty {
			pool = types.AuthPool{}
		}
		for _, n := range names {
			pool = append(pool, types.AuthorizerHash(hashOf(vfd.S(n))))
		}
		out = append(out, pool)
	}
	return out
}

func poolNames(p types.AuthPools) [][]string {
	out := [][]string{}
	for _, pool := range p {
		ns := []string{}
		for _, h := range pool {
			ns = append(ns, nameOf(h))
		}
		out = append(out, ns)
	}
	return out
}

func sameNames(a, b [][]string) bool {
	if len(a) != len(b) {
		return false
	}
	for i := range a {
		if len(a[i]) != len(b[i]) {
			return false
		}
		for j := range a[i] {
			if a[i][j] != b[i][j] {
				return false
			}
		}
	}
	return true
}

type guar struct {
	core int
	auth string
}

func mkGuarantees(gs []guar) types.GuaranteesExtrinsic {
	out := make(types.GuaranteesExtrinsic, 0, len(gs))
	for _, g := range gs {
		out = append(out, types.ReportGuarantee{Report: types.WorkReport{
			CoreIndex: types.CoreIndex(g.core), AuthorizerHash: hashOf(g.auth)}})
	}
	return out
}

func gsJSON(gs []guar) []map[string]any {
	out := []map[string]any{}
	for _, g := range gs {
		out = append(out, map[string]any{"core": g.core, "auth": g.auth})
	}
	return out
}

func slotLE(s uint32) []int { return []int{int(byte(s)), int(byte(s >> 8)), int(byte(s >> 16)), int(byte(s >> 24))} }

// one block through one API; prior is handed to the code as is (no copy): the returned pools are
// what a caller would carry into the next block
func runBlock(api string, slot uint32, prior types.AuthPools, gs []guar, qs []qdesc) (map[string]any, types.AuthPools) {
	before := poolNames(prior)
	varphi := make(types.AuthQueues, len(qs))
	for c, q := range qs {
		varphi[c] = q.expand(c)
	}
	eg := mkGuarantees(gs)
	res := map[string]any{"got": [][]string{}, "err": "", "panic": "", "mut": 0}
	var post types.AuthPools
	var err error
	p, msg := vfd.Guard(func() {
		switch api {
		case "stf":
			post, err = authorization.STFAlpha2AlphaPrime(types.TimeSlot(slot), eg, prior, varphi)
		case "auth":
			blockchain.ResetInstance()
			cs := blockchain.GetInstance()
			cs.AddBlock(types.Block{Header: types.Header{Slot: types.TimeSlot(slot)}, Extrinsic: types.Extrinsic{Guarantees: eg}})
			cs.GetPosteriorStates().SetVarphi(varphi)
			cs.GetPriorStates().SetAlpha(prior)
			err = authorization.Authorization()
			if err == nil {
				post = cs.GetPosteriorStates().GetAlpha()
			}
		}
	})
	if p {
		res["panic"] = msg
		return res, nil
	}
	if err != nil {
		res["err"] = err.Error()
		return res, nil
	}
	res["got"] = poolNames(post)
	if !sameNames(before, poolNames(prior)) {
		res["mut"] = 1
	}
	return res, post
}

func TestRun(t *testing.T) {
	cases := vfd.ReadCases(vfd.Env("VF_CASES", "cases.ndjson"))
	out := vfd.NewOut(vfd.Env("VF_OUT", "trace.ndjson"))
	defer out.Close()
	savedCores := types.CoresCount
	defer func() { types.CoresCount = savedCores }()
	for _, c := range cases {
		switch vfd.S(c["ev"]) {
		case "Remove":
			pool := poolsFromNames([]any{c["pool"]}, false)[0]
			h := hashOf(vfd.S(c["h"]))
			r := map[string]any{"got": []string{}, "panic": ""}
			p, msg := vfd.Guard(func() { pool.RemoveLeftMostPairedValue(h) })
			if p {
				r["panic"] = msg
			} else {
				r["got"] = poolNames(types.AuthPools{pool})[0]
			}
			out.Emit(map[string]any{"ev": "Remove", "pool": c["pool"], "h": c["h"], "res": map[string]any{"remove": r}})
		case "Block":
			cores := vfd.I(c["cores"])
			types.CoresCount = cores
			var gs []guar
			for _, g := range c["gs"].([]any) {
				m := g.(map[string]any)
				gs = append(gs, guar{vfd.I(m["core"]), vfd.S(m["auth"])})
			}
			var qs []qdesc
			for _, q := range c["q"].([]any) {
				qs = append(qs, parseQ(q))
			}
			slot := uint32(vfd.FromU64LE(c["slot"]))
			res := map[string]any{}
			for _, api := range []string{"stf", "auth"} {
				prior := poolsFromNames(c["prior"], vfd.I(c["nilempty"]) == 1)
				res[api], _ = runBlock(api, slot, prior, gs, qs)
			}
			out.Emit(map[string]any{"ev": "Block", "cores": cores, "nilempty": vfd.I(c["nilempty"]), "slot": slotLE(slot),
				"prior": c["prior"], "gs": gsJSON(gs), "q": c["q"], "res": res})
		case "Hist":
			history(out, c)
		}
	}
}

// history: a seeded free-running history.  The driver picks the inputs of each block from the
// CURRENT pools of the real code (so guarantees often name an authorizer that is present, at a
// random position) and carries the returned pools forward.  No expectation is computed here.
func history(out *vfd.Out, c map[string]any) {
	seed := uint64(vfd.I(c["seed"]))
	n := vfd.I(c["n"])
	cores := vfd.I(c["cores"])
	types.CoresCount = cores
	alphabet := []string{"a", "b", "c", "d", "e", "f", ""}
	for _, api := range []string{"stf", "auth"} {
		rng := vfd.NewRng(seed)
		rndName := func() string {
			if rng.N(6) == 0 {
				return "x:" + hex.EncodeToString(rng.Bytes(32))
			}
			return alphabet[rng.N(len(alphabet))]
		}
		pools := make(types.AuthPools, cores)
		for k := range pools {
			pools[k] = types.AuthPool{}
			for i, m := 0, rng.N(types.AuthPoolMaxSize+1); i < m; i++ {
				pools[k] = append(pools[k], types.AuthorizerHash(hashOf(rndName())))
			}
		}
		starts := []uint32{0, 70, 1<<31 - 100, 1<<32 - 1 - uint32(3*n), uint32(rng.U64() >> 34)}
		slot := starts[rng.N(len(starts))]
		qs := make([]qdesc, cores)
		newQ := func(k int) qdesc {
			m := map[string]any{"tag": fmt.Sprintf("t%d", rng.N(1000)), "per": []any{}, "over": []any{}}
			if rng.N(2) == 0 {
				per := []any{}
				for i, p := 0, []int{1, 2, 3, 5, 7}[rng.N(5)]; i < p; i++ {
					per = append(per, rndName())
				}
				m["per"] = per
			}
			over := []any{}
			for i, p := 0, rng.N(4); i < p; i++ {
				over = append(over, map[string]any{"i": float64(rng.N(types.AuthQueueSize)), "h": rndName()})
			}
			m["over"] = over
			return parseQ(m)
		}
		for k := range qs {
			qs[k] = newQ(k)
		}
		for b := 0; b < n; b++ {
			if rng.N(10) == 0 {
				slot += uint32(1 + rng.N(3))
			}
			slot++
			for k := range qs {
				if rng.N(5) == 0 {
					qs[k] = newQ(k)
				}
			}
			var gs []guar
			for k := 0; k < cores; k++ {
				m := 0
				if r := rng.N(100); r < 55 {
					m = 1
				} else if r < 62 {
					m = 2
				}
				for i := 0; i < m; i++ {
					var a string
					if len(pools[k]) > 0 && rng.N(10) < 7 {
						a = nameOf(pools[k][rng.N(len(pools[k]))])
					} else {
						a = []string{"z", "y", "a", ""}[rng.N(4)]
					}
					if i == 1 && a == gs[len(gs)-1].auth {
						continue
					}
					gs = append(gs, guar{k, a})
				}
			}
			prior := poolNames(pools)
			res, post := runBlock(api, slot, pools, gs, qs)
			qj := []any{}
			for _, q := range qs {
				qj = append(qj, q.raw)
			}
			out.Emit(map[string]any{"ev": "Block", "cores": cores, "nilempty": 0, "hist": vfd.I(c["seed"]), "step": b, "slot": slotLE(slot),
				"prior": prior, "gs": gsJSON(gs), "q": qj, "res": map[string]any{api: res}})
			if post == nil {
				break
			}
			pools = post
		}
	}
}

package statsdrv

// X-step driver for C34 (activity statistics).  Cross-package driver (overlay-only package
// internal/verifdrv/statistics).  It loads generated block histories on the chain-state singleton
// the way the repository's test-vector runner does (jamtests/statistics Dump: latest block,
// present work reports, prior tau / pi, posterior tau / kappa) plus what the vectors leave empty
// (posterior lambda and eta, newly available reports, accumulation statistics), calls
// statistics.UpdateValidatorActivityStatistics() (= stf.UpdateStatistics) and records the
// posterior pi.  It only executes and records; spec/stf/Statistics_Trace.tla judges.
//
// Case: {"ev":"Hist","P":{"V","C","E","R"},"init":{"tau","piV":[[b,t,p,d,g,a]..],"piL":[..]},
//        "blocks":[{"slot","author","nt","adv","pre":[[service,len]..],
//                   "gs":[{"slot","core","sigs":[idx..],"len","nexp","res":[{"s","i","x","z","e","u":[8 LE],"r":result kind}..]}..],
//                   "as":[{"v","bits":[0|1 per core]}..],"avail":[{"core","len","nexp"}..],
//                   "acc":[{"s","n","u":[8 LE]}..],"kappa":[key..],"lambda":[key..]}..]}
// Keys are small integers standing for Ed25519 keys.  adv = 1: the posterior becomes the next
// prior; adv = 0: the blocks are alternatives applied to the same prior state.

import (
	"crypto/sha256"
	"sort"
	"testing"

	"github.com/New-JAMneration/JAM-Protocol/internal/blockchain"
	"github.com/New-JAMneration/JAM-Protocol/internal/statistics"
	"github.com/New-JAMneration/JAM-Protocol/internal/types"
	"github.com/New-JAMneration/JAM-Protocol/internal/verifdrv/vfd"
	"github.com/New-JAMneration/JAM-Protocol/logger"
)

func keyBytes(tag string, k int, n int) []byte {
	out := []byte{}
	for i := 0; len(out) < n; i++ {
		h := sha256.Sum256([]byte{tag[0], tag[1], byte(k), byte(k >> 8), byte(i)})
		out = append(out, h[:]...)
	}
	return out[:n]
}

func validator(k int) types.Validator {
	var v types.Validator
	copy(v.Bandersnatch[:], keyBytes("bk", k, 32))
	copy(v.Ed25519[:], keyBytes("ek", k, 32))
	copy(v.Bls[:], keyBytes("bl", k, 144))
	copy(v.Metadata[:], keyBytes("md", k, 128))
	return v
}

func validators(v any) types.ValidatorsData {
	out := types.ValidatorsData{}
	for _, x := range list(v) {
		out = append(out, validator(vfd.I(x)))
	}
	return out
}

func list(v any) []any {
	if v == nil {
		return nil
	}
	return v.([]any)
}

func ints(v any) []int {
	out := []int{}
	for _, x := range list(v) {
		out = append(out, vfd.I(x))
	}
	return out
}

func vals(v any) types.ValidatorsStatistics {
	out := types.ValidatorsStatistics{}
	for _, x := range list(v) {
		r := ints(x)
		out = append(out, types.ValidatorActivityRecord{Blocks: types.U32(r[0]), Tickets: types.U32(r[1]), PreImages: types.U32(r[2]),
			PreImagesSize: types.U32(r[3]), Guarantees: types.U32(r[4]), Assurances: types.U32(r[5])})
	}
	return out
}

func valsOut(vs types.ValidatorsStatistics) [][]int {
	out := [][]int{}
	for _, r := range vs {
		out = append(out, []int{int(r.Blocks), int(r.Tickets), int(r.PreImages), int(r.PreImagesSize), int(r.Guarantees), int(r.Assurances)})
	}
	return out
}

func copyVals(vs types.ValidatorsStatistics) types.ValidatorsStatistics {
	return append(types.ValidatorsStatistics{}, vs...)
}

func setParams(p map[string]any) map[string]int {
	types.ValidatorsCount = vfd.I(p["V"])
	types.CoresCount = vfd.I(p["C"])
	types.EpochLength = vfd.I(p["E"])
	types.RotationPeriod = vfd.I(p["R"])
	types.AvailBitfieldBytes = (types.CoresCount + 7) / 8
	return map[string]int{"V": types.ValidatorsCount, "C": types.CoresCount, "E": types.EpochLength, "R": types.RotationPeriod}
}

func report(core, length, nexp int, res any, tag byte) types.WorkReport {
	var r types.WorkReport
	r.CoreIndex = types.CoreIndex(core)
	r.PackageSpec.Length = types.U32(length)
	r.PackageSpec.ExportsCount = types.U16(nexp)
	r.PackageSpec.Hash = types.WorkPackageHash(sha256.Sum256([]byte{tag, byte(core), byte(length)}))
	for _, dx := range list(res) {
		d := dx.(map[string]any)
		var w types.WorkResult
		w.ServiceID = types.ServiceID(vfd.I(d["s"]))
		kind := types.WorkExecResultType(vfd.S(d["r"]))
		if kind == "" {
			kind = types.WorkExecResultOk
		}
		w.Result = types.GetWorkExecResult(kind, []byte{1}) // ok or one of the six error kinds, as generated
		w.RefineLoad = types.RefineLoad{GasUsed: types.Gas(vfd.FromU64LE(d["u"])), Imports: types.U16(vfd.I(d["i"])),
			ExtrinsicCount: types.U16(vfd.I(d["x"])), ExtrinsicSize: types.U32(vfd.I(d["z"])), Exports: types.U16(vfd.I(d["e"]))}
		r.Results = append(r.Results, w)
	}
	return r
}

func runHist(out *vfd.Out, c map[string]any) {
	par := setParams(c["P"].(map[string]any))
	init := c["init"].(map[string]any)
	tau := vfd.I(init["tau"])
	piV, piL := vals(init["piV"]), vals(init["piL"])
	out.Emit(map[string]any{"ev": "Reset", "P": par, "tau": tau, "piV": valsOut(piV), "piL": valsOut(piL)})
	for _, bx := range list(c["blocks"]) {
		b := bx.(map[string]any)
		slot := vfd.I(b["slot"])
		var ext types.Extrinsic
		ext.Tickets = make(types.TicketsExtrinsic, vfd.I(b["nt"]))
		for _, px := range list(b["pre"]) {
			p := ints(px)
			blob := make(types.ByteSequence, p[1])
			for i := range blob {
				blob[i] = byte(i + p[0])
			}
			ext.Preimages = append(ext.Preimages, types.Preimage{Requester: types.ServiceID(p[0]), Blob: blob})
		}
		present := []types.WorkReport{}
		for gi, gx := range list(b["gs"]) {
			g := gx.(map[string]any)
			rg := types.ReportGuarantee{Report: report(vfd.I(g["core"]), vfd.I(g["len"]), vfd.I(g["nexp"]), g["res"], byte(gi)), Slot: types.TimeSlot(vfd.I(g["slot"]))}
			for _, s := range ints(g["sigs"]) {
				rg.Signatures = append(rg.Signatures, types.ValidatorSignature{ValidatorIndex: types.ValidatorIndex(s)})
			}
			ext.Guarantees = append(ext.Guarantees, rg)
			present = append(present, rg.Report)
		}
		for _, ax := range list(b["as"]) {
			a := ax.(map[string]any)
			bf := make(types.Bitfield, types.CoresCount)
			for i, x := range ints(a["bits"]) {
				if i < len(bf) {
					bf[i] = byte(x)
				}
			}
			ext.Assurances = append(ext.Assurances, types.AvailAssurance{Bitfield: bf, ValidatorIndex: types.ValidatorIndex(vfd.I(a["v"]))})
		}
		avail := []types.WorkReport{}
		for ai, ax := range list(b["avail"]) {
			a := ax.(map[string]any)
			avail = append(avail, report(vfd.I(a["core"]), vfd.I(a["len"]), vfd.I(a["nexp"]), nil, byte(100+ai)))
		}
		acc := types.AccumulationStatistics{}
		for _, ax := range list(b["acc"]) {
			a := ax.(map[string]any)
			acc[types.ServiceID(vfd.I(a["s"]))] = types.GasAndNumAccumulatedReports{Gas: types.Gas(vfd.FromU64LE(a["u"])), NumAccumulatedReports: types.U64(vfd.I(a["n"]))}
		}

		rec := map[string]any{"ev": "Block"}
		for _, k := range []string{"slot", "author", "nt", "adv", "pre", "gs", "as", "avail", "acc", "kappa", "lambda"} {
			rec[k] = b[k]
		}
		var cs *blockchain.ChainState
		panicked, msg := vfd.Guard(func() {
			blockchain.ResetInstance()
			cs = blockchain.GetInstance()
			cs.AddBlock(types.Block{Header: types.Header{Slot: types.TimeSlot(slot), AuthorIndex: types.ValidatorIndex(vfd.I(b["author"]))}, Extrinsic: ext})
			cs.GetIntermediateStates().SetPresentWorkReports(present)
			cs.GetIntermediateStates().SetAvailableWorkReports(avail)
			cs.GetIntermediateStates().SetAccumulationStatistics(acc)
			cs.GetPriorStates().SetTau(types.TimeSlot(tau))
			cs.GetPriorStates().SetPiCurrent(copyVals(piV))
			cs.GetPriorStates().SetPiLast(copyVals(piL))
			cs.GetPosteriorStates().SetTau(types.TimeSlot(slot))
			cs.GetPosteriorStates().SetKappa(validators(b["kappa"]))
			cs.GetPosteriorStates().SetLambda(validators(b["lambda"]))
			var eta types.EntropyBuffer
			for i := range eta {
				eta[i] = types.Entropy(sha256.Sum256([]byte{'e', byte(i), byte(slot)}))
			}
			cs.GetPosteriorStates().SetEta(eta)
			statistics.UpdateValidatorActivityStatistics()
		})
		if panicked {
			rec["ev"], rec["msg"] = "GoPanic", msg
			out.Emit(rec)
			return
		}
		pi := cs.GetPosteriorStates().GetPi()
		cores := []map[string]any{}
		for _, cr := range pi.Cores {
			cores = append(cores, map[string]any{"i": int(cr.Imports), "x": int(cr.ExtrinsicCount), "z": int(cr.ExtrinsicSize), "e": int(cr.Exports),
				"u": vfd.U64LE(uint64(cr.GasUsed)), "b": int(cr.BundleSize), "d": int(cr.DALoad), "p": int(cr.Popularity)})
		}
		ids := []int{}
		for s := range pi.Services {
			ids = append(ids, int(s))
		}
		sort.Ints(ids)
		svcs := []map[string]any{}
		for _, s := range ids {
			r := pi.Services[types.ServiceID(s)]
			svcs = append(svcs, map[string]any{"s": s, "pc": int(r.ProvidedCount), "ps": int(r.ProvidedSize), "rn": int(r.RefinementCount),
				"ru": vfd.U64LE(uint64(r.RefinementGasUsed)), "i": int(r.Imports), "x": int(r.ExtrinsicCount), "z": int(r.ExtrinsicSize),
				"e": int(r.Exports), "an": int(r.AccumulateCount), "au": vfd.U64LE(uint64(r.AccumulateGasUsed))})
		}
		rec["post"] = map[string]any{"piV": valsOut(pi.ValsCurr), "piL": valsOut(pi.ValsLast), "cores": cores, "svcs": svcs}
		out.Emit(rec)
		if vfd.I(b["adv"]) == 1 {
			tau, piV, piL = slot, copyVals(pi.ValsCurr), copyVals(pi.ValsLast)
		}
	}
}

func TestVerifStatistics(t *testing.T) {
	logger.ConfigureLogger("main", logger.LoggerConfig{Level: "ERROR", Enabled: true})
	defer types.SetTinyMode()
	cases := vfd.ReadCases(vfd.Env("VF_CASES", "cases.ndjson"))
	out := vfd.NewOut(vfd.Env("VF_OUT", "trace.ndjson"))
	defer out.Close()
	for _, c := range cases {
		if vfd.S(c["ev"]) == "Hist" {
			runHist(out, c)
		}
	}
	blockchain.ResetInstance()
	t.Logf("cases=%d events=%d", len(cases), out.N)
}

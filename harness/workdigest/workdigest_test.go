package workdigestdrv

// X-step driver for C32: executes work_package.C and work_package.A on the cases of WorkDigest_Gen and
// records the fields they returned.  Hash terms of the specification are reduced with the generic
// evaluator (vfd.EvalTerm); no expectations are computed here.

import (
	"testing"

	"github.com/New-JAMneration/JAM-Protocol/PVM"
	"github.com/New-JAMneration/JAM-Protocol/internal/types"
	"github.com/New-JAMneration/JAM-Protocol/internal/verifdrv/vfd"
	"github.com/New-JAMneration/JAM-Protocol/internal/work_package"
)

func le(x uint64, n int) []int {
	out := make([]int, n)
	for i := 0; i < n; i++ {
		out[i] = int(byte(x >> (8 * i)))
	}
	return out
}

func b2i(b bool) int {
	if b {
		return 1
	}
	return 0
}

func TestRun(t *testing.T) {
	cases := vfd.ReadCases(vfd.Env("VF_CASES", "cases.ndjson"))
	out := vfd.NewOut(vfd.Env("VF_OUT", "trace.ndjson"))
	defer out.Close()
	for ci, c := range cases {
		switch vfd.S(c["kind"]) {
		case "C":
			runC(out, ci, c)
		case "A":
			runA(out, ci, c)
		case "Xi":
			runXi(out, ci, c)
		}
	}
}

func mkItem(it map[string]any) (types.WorkItem, map[string]any) {
	var item types.WorkItem
	item.Service = types.ServiceID(vfd.FromU64LE(it["s"]))
	copy(item.CodeHash[:], vfd.Bytes(it["c"]))
	item.AccumulateGasLimit = types.Gas(vfd.FromU64LE(it["a"]))
	item.RefineGasLimit = types.Gas(vfd.FromU64LE(it["g"]))
	item.ExportCount = types.U16(vfd.I(it["e"]))
	item.Payload = types.ByteSequence(vfd.Bytes(it["payload"]))
	ni := vfd.I(it["ni"])
	for i := 0; i < ni; i++ {
		var sp types.ImportSpec
		sp.TreeRoot[0], sp.TreeRoot[1] = byte(i), 0x11
		sp.Index = types.U16(i * 3)
		item.ImportSegments = append(item.ImportSegments, sp)
	}
	ext := []int{}
	exth := it["exth"].([]any)
	for i, x := range it["ext"].([]any) {
		var sp types.ExtrinsicSpec
		sp.Hash[0], sp.Hash[1] = byte(vfd.I(exth[i])), 0x22 // equal hash ids = the same extrinsic spec referenced again
		sp.Len = types.U32(vfd.I(x))
		item.Extrinsic = append(item.Extrinsic, sp)
		ext = append(ext, vfd.I(x))
	}
	echo := map[string]any{"s": vfd.B(vfd.Bytes(it["s"])), "c": vfd.B(item.CodeHash[:]), "a": vfd.B(vfd.Bytes(it["a"])), "e": vfd.I(it["e"]), "payload": vfd.B(item.Payload), "ni": ni, "ext": ext, "exth": exth}
	return item, echo
}

func digestOut(d types.WorkResult) map[string]any {
	return map[string]any{
		"s": le(uint64(d.ServiceID), 4), "c": vfd.B(d.CodeHash[:]), "y": vfd.B(d.PayloadHash[:]), "a": le(uint64(d.AccumulateGas), 8),
		"rt": string(d.Result.Type), "rdata": vfd.B(d.Result.Data), "u": le(uint64(d.RefineLoad.GasUsed), 8),
		"i": int(d.RefineLoad.Imports), "x": int(d.RefineLoad.ExtrinsicCount), "z": le(uint64(d.RefineLoad.ExtrinsicSize), 4), "e": int(d.RefineLoad.Exports)}
}

func runC(out *vfd.Out, ci int, c map[string]any) {
	item, echo := mkItem(c["item"].(map[string]any))
	rm := c["result"].(map[string]any)
	result := types.WorkExecResult{Type: types.WorkExecResultType(vfd.S(rm["t"])), Data: vfd.Bytes(rm["data"])}
	gas := types.Gas(vfd.FromU64LE(c["u"]))
	rec := map[string]any{"ev": "C", "c": ci,
		"item":   echo,
		"result": map[string]any{"t": vfd.S(rm["t"]), "data": vfd.B(result.Data)},
		"u":      vfd.B(vfd.Bytes(c["u"])),
		"want_y": vfd.B(vfd.EvalTerm(c["want_y"]))}
	var d types.WorkResult
	p, msg := vfd.Guard(func() { d = work_package.C(item, result, gas) })
	rec["got"] = digestOut(d)
	rec["panic"], rec["pmsg"] = b2i(p), msg
	out.Emit(rec)
}

func runA(out *vfd.Out, ci int, c map[string]any) {
	var h types.OpaqueHash
	copy(h[:], vfd.Bytes(c["h"]))
	blen, bfill := vfd.I(c["blen"]), vfd.I(c["bfill"])
	bundle := make([]byte, blen)
	for i := range bundle {
		bundle[i] = byte(bfill + i*7)
	}
	segs := []types.ExportSegment{}
	for _, st := range c["segs"].([]any) {
		var s types.ExportSegment
		b := vfd.EvalTerm(st)
		if len(b) != len(s) {
			panic("segment term has the wrong length")
		}
		copy(s[:], b)
		segs = append(segs, s)
	}
	rec := map[string]any{"ev": "A", "c": ci, "h": vfd.B(h[:]), "blen": blen, "nseg": len(segs), "want_root": vfd.B(vfd.EvalTerm(c["want_root"]))}
	var sp types.WorkPackageSpec
	var err error
	p, msg := vfd.Guard(func() { sp, err = work_package.A(h, bundle, segs) })
	rec["got"] = map[string]any{"h": vfd.B(sp.Hash[:]), "l": le(uint64(sp.Length), 4), "n": int(sp.ExportsCount), "root": vfd.B(sp.ExportsRoot[:])}
	rec["err"] = b2i(err != nil)
	if err != nil {
		msg = err.Error()
	}
	rec["panic"], rec["pmsg"] = b2i(p), msg
	out.Emit(rec)
}

// scripted executor: replays the generated refinement outcomes and records the offsets it was handed
type scripted struct {
	authOut []byte
	authGas types.Gas
	outs    []PVM.RefineOutput
	offsets []int
}

func (m *scripted) Psi_I(p types.WorkPackage, c types.CoreIndex, code types.ByteSequence) PVM.Psi_I_ReturnType {
	return PVM.Psi_I_ReturnType{WorkExecResult: types.WorkExecResultOk, WorkOutput: m.authOut, Gas: m.authGas}
}

func (m *scripted) RefineInvoke(in PVM.RefineInput) PVM.RefineOutput {
	m.offsets = append(m.offsets, int(in.ExportSegmentOffset))
	return m.outs[in.WorkItemIndex]
}

func segments(v any) []types.ExportSegment {
	segs := []types.ExportSegment{}
	for _, st := range v.([]any) {
		var s types.ExportSegment
		b := vfd.EvalTerm(st)
		if len(b) != len(s) {
			panic("segment term has the wrong length")
		}
		copy(s[:], b)
		segs = append(segs, s)
	}
	return segs
}

func runXi(out *vfd.Out, ci int, c map[string]any) {
	var wp types.WorkPackage
	items, outsEcho, wantYs := []any{}, []any{}, []any{}
	m := &scripted{authOut: vfd.Bytes(c["authout"]), authGas: types.Gas(vfd.FromU64LE(c["authgas"])), offsets: []int{}}
	for j, raw := range c["items"].([]any) {
		item, echo := mkItem(raw.(map[string]any))
		wp.Items = append(wp.Items, item)
		items = append(items, echo)
		om := c["outs"].([]any)[j].(map[string]any)
		data := vfd.Bytes(om["data"])
		for k := 0; k < vfd.I(om["datarep"]); k++ {
			data = append(data, 7)
		}
		segs := segments(om["segs"])
		m.outs = append(m.outs, PVM.RefineOutput{WorkResult: types.WorkExecResultType(vfd.S(om["t"])), RefineOutput: data,
			ExportSegment: segs, Gas: types.Gas(vfd.FromU64LE(om["u"]))})
		outsEcho = append(outsEcho, map[string]any{"t": vfd.S(om["t"]), "data": vfd.B(vfd.Bytes(om["data"])), "datarep": vfd.I(om["datarep"]),
			"nret": len(segs), "u": vfd.B(vfd.Bytes(om["u"]))})
		wantYs = append(wantYs, vfd.B(vfd.EvalTerm(c["want_ys"].([]any)[j])))
	}
	var h, pa types.OpaqueHash
	copy(h[:], vfd.Bytes(c["h"]))
	pa[0] = 0xA1
	blen, bfill := vfd.I(c["blen"]), vfd.I(c["bfill"])
	bundle := make([]byte, blen)
	for i := range bundle {
		bundle[i] = byte(bfill + i*7)
	}
	core := vfd.I(c["core"])
	offs := []int{}
	for _, x := range c["offsets"].([]any) {
		offs = append(offs, vfd.I(x))
	}
	rec := map[string]any{"ev": "Xi", "c": ci, "kinds": c["kinds"], "items": items, "outs": outsEcho, "h": vfd.B(h[:]), "blen": blen,
		"core": core, "authgas": vfd.B(vfd.Bytes(c["authgas"])), "authout": vfd.B(vfd.Bytes(c["authout"])),
		"want_ys": wantYs, "want_root": vfd.B(vfd.EvalTerm(c["want_root"])), "nsegs": vfd.I(c["nsegs"])}
	var rep types.WorkReport
	var err error
	p, msg := vfd.Guard(func() {
		rep, err = work_package.WorkReportCompute(&wp, types.CoreIndex(core), pa, nil, PVM.ExtrinsicDataMap{}, nil, types.ServiceAccountState{}, bundle, h, m)
	})
	results := []any{}
	for _, d := range rep.Results {
		results = append(results, digestOut(d))
	}
	rec["got"] = map[string]any{"results": results, "h": vfd.B(rep.PackageSpec.Hash[:]), "l": le(uint64(rep.PackageSpec.Length), 4),
		"n": int(rep.PackageSpec.ExportsCount), "root": vfd.B(rep.PackageSpec.ExportsRoot[:]), "core": int(rep.CoreIndex),
		"authgas": le(uint64(rep.AuthGasUsed), 8), "authout": vfd.B(rep.AuthOutput)}
	rec["got_offsets"] = m.offsets
	rec["err"] = b2i(err != nil)
	if err != nil {
		msg = err.Error()
	}
	rec["panic"], rec["pmsg"] = b2i(p), msg
	out.Emit(rec)
}

package accumulation

// X-step driver for X06 (functional correctness of the accumulation pipeline).  Same package and the same
// assembler as accrounds_test.go (C22); this file adds the richer scenario format of spec/stf/AccOuter_Gen.tla
// and records the WHOLE posterior so that spec/stf/AccOuter_Trace.tla can compare it with the posterior the
// specification computes (AccOuterFn.tla).  It only executes and records.
//
// Scenario: {n, svcs:[{id, code, prog, bal, sol:[tag..], ejby}], reports:[[{id,gas}..]..], free:[{id,gas}..],
//            priv:{m, a:[..], v, r}, g, stf}
// Entry points: OuterAccumulation(GasLimit = g)  always;  DeferredTransfers() when stf (g is then the block limit
// the specification computed, the code computes its own).

import (
	"crypto/sha256"
	"encoding/binary"
	"encoding/json"
	"fmt"
	"runtime"
	"sort"
	"testing"

	"github.com/New-JAMneration/JAM-Protocol/internal/blockchain"
	"github.com/New-JAMneration/JAM-Protocol/internal/types"
	"github.com/New-JAMneration/JAM-Protocol/internal/verifdrv/vfd"
	"golang.org/x/crypto/blake2b"
)

type axService struct {
	id   types.ServiceID
	code []byte
	bal  uint64
	sol  []uint32
	ejby types.ServiceID
}

type axScenario struct {
	svcs    []axService
	reports []types.WorkReport
	hashIx  map[types.WorkPackageHash]int
	free    types.AlwaysAccumulateMap
	m, v, r types.ServiceID
	a       []types.ServiceID
	g       uint64
}

func axBlob(tag uint32) []byte { b := make([]byte, 4); binary.LittleEndian.PutUint32(b, tag); return b }

func axParse(c map[string]any) *axScenario {
	sc := &axScenario{free: types.AlwaysAccumulateMap{}, hashIx: map[types.WorkPackageHash]int{}}
	for _, raw := range c["svcs"].([]any) {
		s := raw.(map[string]any)
		x := axService{id: types.ServiceID(vfd.I(s["id"])), bal: uint64(vfd.I(s["bal"])), ejby: types.ServiceID(vfd.I(s["ejby"]))}
		if s["code"] == true {
			x.code = append([]byte{0}, arAssemble(s["prog"].([]any))...)
		}
		for _, t := range s["sol"].([]any) {
			x.sol = append(x.sol, uint32(vfd.I(t)))
		}
		sc.svcs = append(sc.svcs, x)
	}
	for ri, raw := range c["reports"].([]any) {
		var w types.WorkReport
		w.PackageSpec.Hash = types.WorkPackageHash(sha256.Sum256([]byte(fmt.Sprintf("verif-x06-report-%d", ri))))
		sc.hashIx[w.PackageSpec.Hash] = ri + 1
		w.CoreIndex = types.CoreIndex(ri % types.CoresCount)
		for _, d := range raw.([]any) {
			dm := d.(map[string]any)
			w.Results = append(w.Results, types.WorkResult{ServiceID: types.ServiceID(vfd.I(dm["id"])), AccumulateGas: types.Gas(vfd.I(dm["gas"])),
				Result: types.GetWorkExecResult(types.WorkExecResultOk, []byte{byte(ri)})})
		}
		sc.reports = append(sc.reports, w)
	}
	for _, raw := range c["free"].([]any) {
		f := raw.(map[string]any)
		sc.free[types.ServiceID(vfd.I(f["id"]))] = types.Gas(vfd.I(f["gas"]))
	}
	p := c["priv"].(map[string]any)
	sc.m, sc.v, sc.r = types.ServiceID(vfd.I(p["m"])), types.ServiceID(vfd.I(p["v"])), types.ServiceID(vfd.I(p["r"]))
	for _, x := range p["a"].([]any) {
		sc.a = append(sc.a, types.ServiceID(vfd.I(x)))
	}
	sc.g = uint64(vfd.I(c["g"]))
	return sc
}

const axVictimLen = 9

func (sc *axScenario) delta() types.ServiceAccountState {
	d := types.ServiceAccountState{}
	for _, s := range sc.svcs {
		acc := types.ServiceAccount{PreimageLookup: types.PreimagesMapEntry{}, LookupDict: types.LookupMetaMapEntry{}, StorageDict: types.Storage{}}
		acc.ServiceInfo = types.ServiceInfo{Balance: types.U64(s.bal), MinItemGas: 10, MinMemoGas: 10, CreationSlot: 1}
		if s.code != nil {
			h := types.OpaqueHash(blake2b.Sum256(s.code))
			acc.ServiceInfo.CodeHash = h
			acc.PreimageLookup[h] = append([]byte(nil), s.code...)
			acc.LookupDict[types.LookupMetaMapkey{Hash: h, Length: types.U32(len(s.code))}] = types.TimeSlotSet{1}
			acc.ServiceInfo.Items += 2
			acc.ServiceInfo.Bytes += types.U64(81 + len(s.code))
		}
		for _, tag := range s.sol { // solicited, not yet provided: lookup item with an empty slot list
			b := axBlob(tag)
			acc.LookupDict[types.LookupMetaMapkey{Hash: types.OpaqueHash(blake2b.Sum256(b)), Length: 4}] = types.TimeSlotSet{}
			acc.ServiceInfo.Items += 2
			acc.ServiceInfo.Bytes += 81 + 4
		}
		if s.ejby != 0 { // ejectable: code hash = E32(ejector), exactly one lookup item (h, l) with two old slots, a_o = 81 + l
			var ch types.OpaqueHash
			binary.LittleEndian.PutUint32(ch[:4], uint32(s.ejby))
			acc.ServiceInfo.CodeHash = ch
			var h types.OpaqueHash
			binary.LittleEndian.PutUint32(h[:4], arEjectTag)
			acc.LookupDict = types.LookupMetaMapEntry{types.LookupMetaMapkey{Hash: h, Length: axVictimLen}: types.TimeSlotSet{1, 2}}
			acc.ServiceInfo.Items = 2
			acc.ServiceInfo.Bytes = 81 + axVictimLen
		}
		d[s.id] = acc
	}
	return d
}

func (sc *axScenario) install() *blockchain.ChainState {
	blockchain.ResetInstance()
	cs := blockchain.GetInstance()
	chi := types.Privileges{Bless: sc.m, Assign: append(types.ServiceIDList(nil), sc.a...), Designate: sc.v, CreateAcct: sc.r, AlwaysAccum: sc.free}
	varphi := make(types.AuthQueues, types.CoresCount)
	for i := range varphi {
		varphi[i] = make(types.AuthQueue, types.AuthQueueSize)
	}
	ps := cs.GetPriorStates()
	ps.SetDelta(sc.delta())
	ps.SetChi(chi)
	ps.SetVarphi(varphi)
	ps.SetIota(make(types.ValidatorsData, types.ValidatorsCount))
	ps.SetTau(40)
	ps.SetXi(make(types.AccumulatedQueue, types.EpochLength))
	ps.SetVartheta(make(types.ReadyQueue, types.EpochLength))
	cs.AddBlock(types.Block{Header: types.Header{Slot: 41}})
	po := cs.GetPosteriorStates()
	po.SetTau(41)
	po.SetEta(types.EntropyBuffer{types.Entropy(sha256.Sum256([]byte("verif-x06-eta")))})
	po.SetXi(make(types.AccumulatedQueue, types.EpochLength))
	po.SetVartheta(make(types.ReadyQueue, types.EpochLength))
	cs.GetIntermediateStates().SetAccumulatableWorkReports(sc.reports)
	cs.GetIntermediateStates().SetQueuedWorkReports(types.ReadyQueueItem{})
	return cs
}

// ---------------------------------------------------------------------------- observations

func (sc *axScenario) prior(id types.ServiceID) *axService {
	for i := range sc.svcs {
		if sc.svcs[i].id == id {
			return &sc.svcs[i]
		}
	}
	return nil
}

// provided blobs of an account: 4-octet preimages (code is longer) with the slots of their lookup item
func axProvided(a types.ServiceAccount) []map[string]any {
	out := []map[string]any{}
	for h, b := range a.PreimageLookup {
		if len(b) != 4 || types.OpaqueHash(blake2b.Sum256(b)) != h {
			continue
		}
		slots := []int{}
		for _, t := range a.LookupDict[types.LookupMetaMapkey{Hash: h, Length: 4}] {
			slots = append(slots, int(t))
		}
		out = append(out, map[string]any{"tag": int(binary.LittleEndian.Uint32(b)), "slots": slots})
	}
	sort.Slice(out, func(i, j int) bool { return out[i]["tag"].(int) < out[j]["tag"].(int) })
	return out
}

// solicited-but-unprovided lookup items (empty slot list, 4-octet length) are reported by count only
func axPendingLookups(a types.ServiceAccount) int {
	n := 0
	for k, v := range a.LookupDict {
		if k.Length == 4 && len(v) == 0 {
			n++
		}
	}
	return n
}

func (sc *axScenario) accounts(d types.ServiceAccountState) (acc []map[string]any, news []map[string]any, gone []int) {
	acc, news, gone = []map[string]any{}, []map[string]any{}, []int{}
	ids := make([]types.ServiceID, 0, len(d))
	for id := range d {
		ids = append(ids, id)
	}
	sort.Slice(ids, func(i, j int) bool { return ids[i] < ids[j] })
	for _, id := range ids {
		a := d[id]
		if p := sc.prior(id); p != nil {
			acc = append(acc, map[string]any{"id": int(id), "spent": int(int64(p.bal) - int64(a.ServiceInfo.Balance)), "store": arStore(a),
				"prov": axProvided(a), "pending": axPendingLookups(a), "last": int(a.ServiceInfo.LastAccumulationSlot)})
			continue
		}
		l := -1
		var slots []int
		for k, v := range a.LookupDict {
			if k.Hash == a.ServiceInfo.CodeHash {
				l = int(k.Length)
				slots = []int{}
				for _, t := range v {
					slots = append(slots, int(t))
				}
			}
		}
		lid := int(id) // indices of 2^16 and above do not fit TLC's integers in general: -1 and the four octets
		if id >= 65536 {
			lid = -1
		}
		idb := make([]byte, 4)
		binary.LittleEndian.PutUint32(idb, uint32(id))
		news = append(news, map[string]any{"id": lid, "idb": vfd.B(idb), "parent": int(a.ServiceInfo.ParentService),
			"ctag": int(binary.LittleEndian.Uint32(a.ServiceInfo.CodeHash[:4])), "l": l, "nlook": len(a.LookupDict), "slots": slots,
			"bal": int(a.ServiceInfo.Balance), "slot": int(a.ServiceInfo.CreationSlot), "items": int(a.ServiceInfo.Items),
			"bytes": int(a.ServiceInfo.Bytes), "last": int(a.ServiceInfo.LastAccumulationSlot), "gratis": int(a.ServiceInfo.DepositOffset)})
	}
	for _, s := range sc.svcs {
		if _, ok := d[s.id]; !ok {
			gone = append(gone, int(s.id))
		}
	}
	sort.Ints(gone)
	return
}

func axPriv(m types.ServiceID, a types.ServiceIDList, v, r types.ServiceID, z types.AlwaysAccumulateMap) map[string]any {
	al := []int{}
	for _, x := range a {
		al = append(al, int(x))
	}
	zl := []map[string]any{}
	for id, g := range z {
		zl = append(zl, map[string]any{"id": int(id), "gas": int(g)})
	}
	sort.Slice(zl, func(i, j int) bool { return zl[i]["id"].(int) < zl[j]["id"].(int) })
	return map[string]any{"m": int(m), "a": al, "v": int(v), "r": int(r), "z": zl}
}

func axQueueTags(q types.AuthQueues) []int {
	out := []int{}
	for _, c := range q {
		t := 0
		if len(c) > 0 {
			t = int(binary.LittleEndian.Uint32(c[0][:4]))
		}
		out = append(out, t)
	}
	return out
}

func axIotaTag(v types.ValidatorsData) int {
	if len(v) == 0 {
		return 0
	}
	return int(binary.LittleEndian.Uint32(v[0].Bandersnatch[:4]))
}

func axOutputs(b types.AccumulatedServiceOutput) []map[string]any {
	out := []map[string]any{}
	for x := range b {
		out = append(out, map[string]any{"id": int(x.ServiceID), "h": vfd.B(x.Hash[:8])})
	}
	sort.Slice(out, func(i, j int) bool {
		if out[i]["id"].(int) != out[j]["id"].(int) {
			return out[i]["id"].(int) < out[j]["id"].(int)
		}
		return fmt.Sprint(out[i]["h"]) < fmt.Sprint(out[j]["h"])
	})
	return out
}

func (sc *axScenario) partial(cs *blockchain.ChainState) types.PartialStateSet {
	ps := cs.GetPriorStates()
	chi := ps.GetChi()
	return types.PartialStateSet{ServiceAccounts: ps.GetDelta(), ValidatorKeys: ps.GetIota(), Authorizers: ps.GetVarphi(),
		Bless: chi.Bless, Assign: chi.Assign, Designate: chi.Designate, CreateAcct: chi.CreateAcct, AlwaysAccum: chi.AlwaysAccum}
}

func axRunOuter(sc *axScenario) map[string]any {
	cs := sc.install()
	obs := map[string]any{"err": "", "panic": ""}
	pan, msg := vfd.Guard(func() {
		out, err := OuterAccumulation(OuterAccumulationInput{GasLimit: types.Gas(sc.g), DeferredTransfers: []types.DeferredTransfer{},
			WorkReports: sc.reports, InitPartialStateSet: sc.partial(cs), ServicesWithFreeAccumulation: cs.GetPriorStates().GetChi().AlwaysAccum})
		if err != nil {
			obs["err"] = err.Error()
			return
		}
		obs["n"] = int(out.NumberOfWorkResultsAccumulated)
		u, ug := []int{}, []int{}
		for _, x := range out.ServiceGasUsedList {
			u, ug = append(u, int(x.ServiceID)), append(ug, int(x.Gas))
		}
		obs["u"], obs["ug"] = u, ug
		p := out.PartialStateSet
		obs["acc"], obs["news"], obs["gone"] = sc.accounts(p.ServiceAccounts)
		obs["priv"] = axPriv(p.Bless, p.Assign, p.Designate, p.CreateAcct, p.AlwaysAccum)
		obs["q"], obs["iota"] = axQueueTags(p.Authorizers), axIotaTag(p.ValidatorKeys)
		obs["b"] = axOutputs(out.AccumulatedServiceOutput)
	})
	if pan {
		obs["panic"] = msg
	}
	return obs
}

func axRunSTF(sc *axScenario) map[string]any {
	cs := sc.install()
	obs := map[string]any{"err": "", "panic": ""}
	pan, msg := vfd.Guard(func() {
		if err := DeferredTransfers(); err != nil {
			obs["err"] = err.Error()
			return
		}
		st := cs.GetPosteriorStates().GetState()
		obs["acc"], obs["news"], obs["gone"] = sc.accounts(cs.GetIntermediateStates().GetDeltaDoubleDagger())
		obs["priv"] = axPriv(st.Chi.Bless, st.Chi.Assign, st.Chi.Designate, st.Chi.CreateAcct, st.Chi.AlwaysAccum)
		obs["q"], obs["iota"] = axQueueTags(st.Varphi), axIotaTag(st.Iota)
		theta := []map[string]any{}
		for _, x := range st.Theta {
			theta = append(theta, map[string]any{"id": int(x.ServiceID), "h": vfd.B(x.Hash[:8])})
		}
		obs["theta"] = theta
		stats := cs.GetIntermediateStates().GetAccumulationStatistics()
		sids := make([]types.ServiceID, 0, len(stats))
		for id := range stats {
			sids = append(sids, id)
		}
		sort.Slice(sids, func(i, j int) bool { return sids[i] < sids[j] })
		sl := []map[string]any{}
		for _, id := range sids {
			sl = append(sl, map[string]any{"id": int(id), "gas": int(stats[id].Gas), "n": int(stats[id].NumAccumulatedReports)})
		}
		obs["stats"] = sl
		xi := []int{} // the reports whose package hashes entered the last slot of xi'
		if len(st.Xi) > 0 {
			for _, h := range st.Xi[len(st.Xi)-1] {
				xi = append(xi, sc.hashIx[h])
			}
		}
		sort.Ints(xi)
		obs["xi"] = xi
	})
	if pan {
		obs["panic"] = msg
	}
	return obs
}

func TestAccOuter(t *testing.T) {
	cases := vfd.ReadCases(vfd.Env("VF_CASES", "cases.ndjson"))
	out := vfd.NewOut(vfd.Env("VF_OUT", "trace.ndjson"))
	defer out.Close()
	defer blockchain.ResetInstance()
	runs := vfd.EnvInt("VF_RUNS", 2)
	savedW := types.MaxWorkers
	for _, c := range cases {
		sc := axParse(c)
		rec := map[string]any{"n": vfd.I(c["n"]), "sc": c}
		// VF_RUNS runs on fresh identical prior states under varying GOMAXPROCS / MaxWorkers: "outer" is the first
		// observation, "outer2" the first one that differs from it (if any), else the last one
		first := axRunOuter(sc)
		second := first
		fb, _ := json.Marshal(first)
		for i := 1; i < runs; i++ {
			runtime.GOMAXPROCS(arProcs[i%3])
			types.MaxWorkers = []int{1, 2, 8, 32}[(i/3)%4]
			second = axRunOuter(sc)
			if sb, _ := json.Marshal(second); string(sb) != string(fb) {
				break
			}
		}
		runtime.GOMAXPROCS(runtime.NumCPU())
		types.MaxWorkers = savedW
		rec["outer"], rec["outer2"], rec["runs"] = first, second, runs
		if c["stf"] == true {
			rec["stf"] = []any{axRunSTF(sc)}
		} else {
			rec["stf"] = []any{}
		}
		out.Emit(rec)
	}
}

package accumulation

// X-step driver for C22 (accumulation is deterministic).  In-package for internal/accumulation.
// It only EXECUTES and RECORDS; the expected (unique) result and every verdict are TLC's
// (spec/stf/AccRounds.tla through AccRounds_Trace.tla).
//
// Input (VF_CASES): scenarios from spec/stf/AccRounds_Gen.tla
//   {n, svcs:[{id, code, prog:[{op:"xfer",to,amt,tag,gas}|{op:"rec"}|{op:"yield",tag}|{op:"ckpt"}|{op:"panic"}]}], reports:[[id..]..], free:[id..], priv:id}
// For every scenario the driver ASSEMBLES one real PVM accumulate program per service from its abstract program
// (ecalli transfer / fetch / write / checkpoint, trap), installs the services in a fresh prior state, and runs the
// real accumulation VF_RUNS times on identical prior states under varying GOMAXPROCS and types.MaxWorkers:
//   api "stf": DeferredTransfers()  (OuterAccumulation -> ParallelizedAccumulation -> SingleServiceAccumulation -> Psi_A)
//   api "par": ParallelizedAccumulation() of the first round alone (its transfer sequence t' and gas list u are outputs)
// Every run is reduced to an observation (what each service's storage recorded, balances, the order of the gas list,
// the transfer sequence, theta', statistics, digests of the whole posterior); identical observations are grouped
// (count, first run) - grouping is compression, the verdict "exactly one group, equal to the specification's result"
// is TLC's.

import (
	"bytes"
	"crypto/sha256"
	"encoding/binary"
	"encoding/json"
	"fmt"
	"runtime"
	"sort"
	"testing"

	"github.com/New-JAMneration/JAM-Protocol/internal/blockchain"
	"github.com/New-JAMneration/JAM-Protocol/internal/types"
	"github.com/New-JAMneration/JAM-Protocol/internal/utilities/merklization"
	"github.com/New-JAMneration/JAM-Protocol/internal/verifdrv/vfd"
	"golang.org/x/crypto/blake2b"
)

// ---------------------------------------------------------------------------- a tiny PVM assembler

const (
	arBuf    = 0x20000 // item buffer (rw data zone of a program without ro data)
	arKey    = 0x20400 // storage key buffer
	arMemo   = 0x20800 // transfer memo buffer (128 octets)
	arOut    = 0x20C00 // accumulation output buffer (32 octets)
	arAList  = 0x20D00 // bless: assigners, 4 octets per core
	arZList  = 0x20D40 // bless: always-accumulate entries, 12 octets each
	arHash   = 0x20E00 // 32-octet hash argument (new: code hash, eject: lookup hash)
	arBlob   = 0x20E40 // provide: 4-octet blob
	arBig    = 0x21000 // assign: authorizer queue (32*80 octets); designate: validator keys (336*V octets)
	arRWSize = 8192
)

type arAsm struct {
	code   []byte
	starts []int
	fix    []arFix
	labels map[string]int
}
type arFix struct {
	at, insn int
	label    string
}

func (a *arAsm) ins(b ...byte) { a.starts = append(a.starts, len(a.code)); a.code = append(a.code, b...) }
func arLE32(x uint32) []byte   { b := make([]byte, 4); binary.LittleEndian.PutUint32(b, x); return b }
func arLE64(x uint64) []byte   { b := make([]byte, 8); binary.LittleEndian.PutUint64(b, x); return b }
func (a *arAsm) label(n string) { a.labels[n] = len(a.code) }

func (a *arAsm) loadImm64(r byte, x uint64) { a.ins(append([]byte{20, r}, arLE64(x)...)...) } // load_imm_64
func (a *arAsm) ecalli(n byte)               { a.ins(10, n) }
func (a *arAsm) moveReg(d, s byte)           { a.ins(100, s<<4|d) }
func (a *arAsm) addImm64(d, s byte, x uint32) {
	a.ins(append([]byte{149, s<<4 | d}, arLE32(x)...)...)
}
func (a *arAsm) storeU8(r byte, addr uint32) { a.ins(append([]byte{59, r}, arLE32(addr)...)...) }
func (a *arAsm) storeImmU32(addr, v uint32) { // store_imm_u32: lX = 4, then the address, then the value
	a.ins(append(append([]byte{32, 4}, arLE32(addr)...), arLE32(v)...)...)
}
func (a *arAsm) jump(l string) {
	at := len(a.code)
	a.ins(40, 0, 0, 0, 0)
	a.fix = append(a.fix, arFix{at + 1, at, l})
}
func (a *arAsm) branchEqImmMinus1(r byte, l string) { // branch_eq_imm r, -1, label   (lX = 1)
	at := len(a.code)
	a.ins(81, 1<<4|r, 0xFF, 0, 0, 0, 0)
	a.fix = append(a.fix, arFix{at + 3, at, l})
}
func (a *arAsm) fallthrough_() { a.ins(1) }
func (a *arAsm) trap()         { a.ins(0) }
func (a *arAsm) halt()         { a.loadImm64(8, 0); a.ins(50, 0) } // empty output; jump_ind r0 + 0 (r0 = 2^32 - 2^16)

func arNat(x uint64) []byte { // general natural-number encoding (values < 2^14 are enough here)
	if x < 128 {
		return []byte{byte(x)}
	}
	if x < 1<<14 {
		return []byte{byte(0x80 | x>>8), byte(x)}
	}
	panic("arNat: too large")
}

// program blob: E(|j|) E1(z) E(|c|) j c k   inside   E3(|o|) E3(|w|) E2(z) E3(s) o w E4(|c|) c
func (a *arAsm) blob() []byte {
	for _, f := range a.fix {
		off := int32(a.labels[f.label] - f.insn)
		binary.LittleEndian.PutUint32(a.code[f.at:], uint32(off))
	}
	mask := make([]byte, (len(a.code)+7)/8)
	for _, s := range a.starts {
		mask[s/8] |= 1 << uint(s%8)
	}
	inner := append([]byte{}, arNat(0)...)
	inner = append(inner, 1)
	inner = append(inner, arNat(uint64(len(a.code)))...)
	inner = append(inner, a.code...)
	inner = append(inner, mask...)
	le3 := func(x int) []byte { return []byte{byte(x), byte(x >> 8), byte(x >> 16)} }
	p := append([]byte{}, le3(0)...)
	p = append(p, le3(arRWSize)...)
	p = append(p, 0, 0)
	p = append(p, le3(4096)...)
	p = append(p, make([]byte, arRWSize)...)
	p = append(p, arLE32(uint32(len(inner)))...)
	p = append(p, inner...)
	return p
}

const arEjectTag = 0x000E1EC7

const arXferGas = 3000 // gas limit handed over with every transfer (pays for the receiver recording it)

// assemble the accumulate program of one abstract service
func arAssemble(prog []any) []byte {
	a := &arAsm{labels: map[string]int{}}
	a.label("refine")
	a.jump("refine") // offset 0: never entered (accumulation starts at 5)
	nlab := 0
	for _, raw := range prog {
		op := raw.(map[string]any)
		switch vfd.S(op["op"]) {
		case "xfer": // transfer(d=r7, a=r8, l=r9, o=r10); memo = E4(tag) ++ zeros
			a.storeImmU32(arMemo, uint32(vfd.I(op["tag"])))
			a.loadImm64(7, uint64(vfd.I(op["to"])))
			a.loadImm64(8, uint64(vfd.I(op["amt"])))
			g := uint64(arXferGas)
			if op["gas"] != nil {
				g = uint64(vfd.I(op["gas"]))
			}
			a.loadImm64(9, g)
			a.loadImm64(10, arMemo)
			a.ecalli(20)
		case "yield": // output = [item count of the last rec (r6), tag, 0...]; yield(o = r7)
			a.storeImmU32(arOut, uint32(vfd.I(op["tag"]))<<8)
			a.storeU8(6, arOut)
			a.loadImm64(7, arOut)
			a.ecalli(25)
		case "spin": // endless loop: out of gas
			nlab++
			l := fmt.Sprintf("spin%d", nlab)
			a.fallthrough_()
			a.label(l)
			a.fallthrough_()
			a.jump(l)
		case "bless": // bless(m=r7, a=r8, v=r9, r=r10, o=r11, n=r12)
			for i, x := range op["a"].([]any) {
				a.storeImmU32(arAList+uint32(4*i), uint32(vfd.I(x)))
			}
			z := op["z"].([]any)
			for i, raw := range z {
				e := raw.(map[string]any)
				a.storeImmU32(arZList+uint32(12*i), uint32(vfd.I(e["id"])))
				a.storeImmU32(arZList+uint32(12*i)+4, uint32(vfd.I(e["gas"])))
				a.storeImmU32(arZList+uint32(12*i)+8, 0)
			}
			a.loadImm64(7, uint64(vfd.I(op["m"])))
			a.loadImm64(8, arAList)
			a.loadImm64(9, uint64(vfd.I(op["v"])))
			a.loadImm64(10, uint64(vfd.I(op["r"])))
			a.loadImm64(11, arZList)
			a.loadImm64(12, uint64(len(z)))
			a.ecalli(14)
		case "assign": // assign(c=r7, o=r8, a=r9); the specification counts cores from 1
			a.storeImmU32(arBig, uint32(vfd.I(op["tag"])))
			a.loadImm64(7, uint64(vfd.I(op["c"])-1))
			a.loadImm64(8, arBig)
			a.loadImm64(9, uint64(vfd.I(op["to"])))
			a.ecalli(15)
		case "designate": // designate(o=r7)
			a.storeImmU32(arBig, uint32(vfd.I(op["tag"])))
			a.loadImm64(7, arBig)
			a.ecalli(16)
		case "new": // new(o=r7, l=r8, g=r9, m=r10, f=r11, i=r12)
			a.storeImmU32(arHash, uint32(vfd.I(op["ctag"])))
			a.loadImm64(7, arHash)
			a.loadImm64(8, uint64(vfd.I(op["l"])))
			a.loadImm64(9, 10)
			a.loadImm64(10, 10)
			a.loadImm64(11, 0)
			if rid := vfd.I(op["rid"]); rid >= 0 {
				a.loadImm64(12, uint64(rid))
			} else {
				a.loadImm64(12, 1<<40)
			}
			a.ecalli(18)
		case "provide": // provide(s=r7, o=r8, z=r9)
			a.storeImmU32(arBlob, uint32(vfd.I(op["tag"])))
			a.loadImm64(7, uint64(vfd.I(op["to"])))
			a.loadImm64(8, arBlob)
			a.loadImm64(9, 4)
			a.ecalli(26)
		case "eject": // eject(d=r7, o=r8); the victim's lookup hash is the fixed tag below
			a.storeImmU32(arHash, arEjectTag)
			a.loadImm64(7, uint64(vfd.I(op["v"])))
			a.loadImm64(8, arHash)
			a.ecalli(21)
		case "ckpt":
			a.ecalli(17)
		case "panic":
			a.trap()
		case "rec": // for i = 0..: fetch(item i) -> write(key [i] := item)
			nlab++
			loop, end := fmt.Sprintf("loop%d", nlab), fmt.Sprintf("end%d", nlab)
			a.loadImm64(6, 0)
			a.fallthrough_()
			a.label(loop)
			a.loadImm64(7, arBuf)
			a.loadImm64(8, 0)
			a.loadImm64(9, 512)
			a.loadImm64(10, 15)
			a.moveReg(11, 6)
			a.ecalli(1) // fetch
			a.branchEqImmMinus1(7, end)
			a.moveReg(10, 7) // value length
			a.storeU8(6, arKey)
			a.loadImm64(7, arKey)
			a.loadImm64(8, 1)
			a.loadImm64(9, arBuf)
			a.ecalli(4) // write
			a.addImm64(6, 6, 1)
			a.jump(loop)
			a.label(end)
			a.fallthrough_()
		default:
			panic("arAssemble: unknown op " + vfd.S(op["op"]))
		}
	}
	a.halt()
	return a.blob()
}

// ---------------------------------------------------------------------------- prior state of a scenario

type arScenario struct {
	ids     []types.ServiceID
	codes   map[types.ServiceID][]byte
	reports []types.WorkReport
	free    types.AlwaysAccumulateMap
	priv    types.ServiceID
}

const arBalance = 1_000_000_000

func arParse(c map[string]any) *arScenario {
	sc := &arScenario{codes: map[types.ServiceID][]byte{}, free: types.AlwaysAccumulateMap{}}
	for _, raw := range c["svcs"].([]any) {
		s := raw.(map[string]any)
		id := types.ServiceID(vfd.I(s["id"]))
		sc.ids = append(sc.ids, id)
		if s["code"] == false {
			sc.codes[id] = nil
		} else {
			sc.codes[id] = append([]byte{0}, arAssemble(s["prog"].([]any))...) // E(|meta| = 0) ++ program
		}
	}
	for ri, raw := range c["reports"].([]any) {
		var w types.WorkReport
		w.PackageSpec.Hash = types.WorkPackageHash(sha256.Sum256([]byte(fmt.Sprintf("verif-c22-report-%d", ri))))
		w.CoreIndex = types.CoreIndex(ri % types.CoresCount)
		for _, sid := range raw.([]any) {
			w.Results = append(w.Results, types.WorkResult{ServiceID: types.ServiceID(vfd.I(sid)), AccumulateGas: 1000000,
				Result: types.GetWorkExecResult(types.WorkExecResultOk, []byte{byte(ri)})})
		}
		sc.reports = append(sc.reports, w)
	}
	for _, sid := range c["free"].([]any) {
		sc.free[types.ServiceID(vfd.I(sid))] = 100000
	}
	sc.priv = types.ServiceID(vfd.I(c["priv"]))
	return sc
}

func (sc *arScenario) delta() types.ServiceAccountState {
	d := types.ServiceAccountState{}
	for _, id := range sc.ids {
		acc := types.ServiceAccount{PreimageLookup: types.PreimagesMapEntry{}, LookupDict: types.LookupMetaMapEntry{}, StorageDict: types.Storage{}}
		acc.ServiceInfo = types.ServiceInfo{Balance: arBalance, MinItemGas: 10, MinMemoGas: 10, CreationSlot: 1}
		if code := sc.codes[id]; code != nil {
			h := types.OpaqueHash(blake2b.Sum256(code))
			acc.ServiceInfo.CodeHash = h
			acc.PreimageLookup[h] = append([]byte(nil), code...)
			acc.LookupDict[types.LookupMetaMapkey{Hash: h, Length: types.U32(len(code))}] = types.TimeSlotSet{1}
			acc.ServiceInfo.Items = 2
			acc.ServiceInfo.Bytes = types.U64(81 + len(code))
		}
		d[id] = acc
	}
	return d
}

func (sc *arScenario) install() *blockchain.ChainState {
	blockchain.ResetInstance()
	cs := blockchain.GetInstance()
	assign := make(types.ServiceIDList, types.CoresCount)
	for i := range assign {
		assign[i] = sc.priv
	}
	chi := types.Privileges{Bless: sc.priv, Assign: assign, Designate: sc.priv, CreateAcct: sc.priv, AlwaysAccum: sc.free}
	varphi := make(types.AuthQueues, types.CoresCount)
	for i := range varphi {
		varphi[i] = make(types.AuthQueue, types.AuthQueueSize)
	}
	iota := make(types.ValidatorsData, types.ValidatorsCount)
	ps := cs.GetPriorStates()
	ps.SetDelta(sc.delta())
	ps.SetChi(chi)
	ps.SetVarphi(varphi)
	ps.SetIota(iota)
	ps.SetTau(40)
	ps.SetXi(make(types.AccumulatedQueue, types.EpochLength))
	ps.SetVartheta(make(types.ReadyQueue, types.EpochLength))
	cs.AddBlock(types.Block{Header: types.Header{Slot: 41}})
	po := cs.GetPosteriorStates()
	po.SetTau(41)
	po.SetEta(types.EntropyBuffer{types.Entropy(sha256.Sum256([]byte("verif-c22-eta")))})
	po.SetXi(make(types.AccumulatedQueue, types.EpochLength))
	po.SetVartheta(make(types.ReadyQueue, types.EpochLength))
	cs.GetIntermediateStates().SetAccumulatableWorkReports(sc.reports)
	cs.GetIntermediateStates().SetQueuedWorkReports(types.ReadyQueueItem{})
	return cs
}

// ---------------------------------------------------------------------------- observations

// what a service's storage recorded: key [i] -> encoded item; reduce each to {i, kind, from, tag}
func arStore(acc types.ServiceAccount) []map[string]any {
	keys := make([]string, 0, len(acc.StorageDict))
	for k := range acc.StorageDict {
		keys = append(keys, k)
	}
	sort.Strings(keys)
	out := []map[string]any{}
	for _, k := range keys {
		v := acc.StorageDict[k]
		m := map[string]any{"i": int([]byte(k)[0]), "kind": "?", "from": 0, "tag": 0, "len": len(v)}
		if len(v) >= 1 && v[0] == 1 && len(v) == 1+4+4+8+128+8 { // a deferred transfer
			m["kind"] = "xfer"
			m["from"] = int(binary.LittleEndian.Uint32(v[1:5]))
			m["tag"] = int(binary.LittleEndian.Uint32(v[17:21]))
			m["amt"] = int(binary.LittleEndian.Uint64(v[9:17]))
		} else if len(v) >= 1 && v[0] == 0 {
			m["kind"] = "operand"
		}
		out = append(out, m)
	}
	return out
}

func arAccounts(d types.ServiceAccountState) []map[string]any {
	ids := make([]types.ServiceID, 0, len(d))
	for id := range d {
		ids = append(ids, id)
	}
	sort.Slice(ids, func(i, j int) bool { return ids[i] < ids[j] })
	out := []map[string]any{}
	for _, id := range ids {
		a := d[id]
		out = append(out, map[string]any{"id": int(id), "spent": int(int64(arBalance) - int64(a.ServiceInfo.Balance)), "store": arStore(a),
			"last": int(a.ServiceInfo.LastAccumulationSlot), "items": int(a.ServiceInfo.Items)})
	}
	return out
}

func arTransfers(ts []types.DeferredTransfer) []map[string]any {
	out := []map[string]any{}
	for _, t := range ts {
		out = append(out, map[string]any{"from": int(t.SenderID), "to": int(t.ReceiverID), "amt": int(t.Balance),
			"tag": int(binary.LittleEndian.Uint32(t.Memo[0:4]))})
	}
	return out
}

func arGasList(u types.ServiceGasUsedList) (ids []int, gas [][]int) {
	ids, gas = []int{}, [][]int{}
	for _, x := range u {
		ids = append(ids, int(x.ServiceID))
		gas = append(gas, vfd.U64LE(uint64(x.Gas)))
	}
	return
}

func arDigest(parts ...any) []int {
	h := sha256.New()
	enc := types.NewEncoder()
	for _, p := range parts {
		switch x := p.(type) {
		case []byte:
			h.Write(x)
		default:
			b, err := enc.Encode(p)
			if err != nil {
				b, _ = json.Marshal(p)
			}
			h.Write(b)
		}
		h.Write([]byte{0xA5})
	}
	return vfd.B(h.Sum(nil)[:16])
}

func arSortedKVs(kvs types.StateKeyVals) []byte {
	c := make(types.StateKeyVals, len(kvs))
	copy(c, kvs)
	sort.Slice(c, func(i, j int) bool { return bytes.Compare(c[i].Key[:], c[j].Key[:]) < 0 })
	var out []byte
	for _, kv := range c {
		out = append(out, kv.Key[:]...)
		out = append(out, kv.Value...)
		out = append(out, 0x5A)
	}
	return out
}

// one run of the whole accumulation step
func arRunSTF(sc *arScenario) map[string]any {
	cs := sc.install()
	obs := map[string]any{"err": "", "panic": ""}
	pan, msg := vfd.Guard(func() {
		if err := DeferredTransfers(); err != nil {
			obs["err"] = err.Error()
			return
		}
		dd := cs.GetIntermediateStates().GetDeltaDoubleDagger()
		obs["acc"] = arAccounts(dd)
		st := cs.GetPosteriorStates().GetState()
		st.Delta = dd
		kvs, err := merklization.StateEncoder(st)
		if err != nil {
			obs["err"] = "StateEncoder: " + err.Error()
			return
		}
		root := merklization.MerklizationSerializedState(kvs)
		obs["root"] = vfd.B(root[:])
		theta := []map[string]any{}
		for _, x := range st.Theta {
			theta = append(theta, map[string]any{"id": int(x.ServiceID), "h": vfd.B(x.Hash[:8])})
		}
		obs["theta"] = theta
		stats := cs.GetIntermediateStates().GetAccumulationStatistics()
		sids := make([]types.ServiceID, 0, len(stats))
		for id := range stats {
			sids = append(sids, id)
		}
		sort.Slice(sids, func(i, j int) bool { return sids[i] < sids[j] })
		sl := []map[string]any{}
		for _, id := range sids {
			sl = append(sl, map[string]any{"id": int(id), "gas": vfd.U64LE(uint64(stats[id].Gas)), "n": int(stats[id].NumAccumulatedReports)})
		}
		obs["stats"] = sl
		chi := st.Chi
		obs["rest"] = arDigest(&chi, &st.Varphi, &st.Iota, &st.Xi, &st.Vartheta, arSortedKVs(cs.GetPostStateUnmatchedKeyVals()))
	})
	if pan {
		obs["panic"] = msg
	}
	return obs
}

// one run of the first round alone: the transfer sequence and the gas list are outputs of ParallelizedAccumulation
func arRunPar(sc *arScenario) map[string]any {
	cs := sc.install()
	obs := map[string]any{"err": "", "panic": ""}
	pan, msg := vfd.Guard(func() {
		ps := cs.GetPriorStates()
		chi := ps.GetChi()
		in := ParallelizedAccumulationInput{
			PartialStateSet: types.PartialStateSet{ServiceAccounts: ps.GetDelta(), ValidatorKeys: ps.GetIota(), Authorizers: ps.GetVarphi(),
				Bless: chi.Bless, Assign: chi.Assign, Designate: chi.Designate, CreateAcct: chi.CreateAcct, AlwaysAccum: chi.AlwaysAccum},
			DeferredTransfers: []types.DeferredTransfer{}, WorkReports: sc.reports, AlwaysAccumulateMap: sc.free}
		out, err := ParallelizedAccumulation(in)
		if err != nil {
			obs["err"] = err.Error()
			return
		}
		obs["t"] = arTransfers(out.DeferredTransfers)
		obs["u"], obs["ugas"] = arGasList(out.ServiceGasUsedList)
		obs["acc"] = arAccounts(out.PartialStateSet.ServiceAccounts)
	})
	if pan {
		obs["panic"] = msg
	}
	return obs
}

// one run of the outer accumulation function (all rounds): its gas list and report count are outputs
func arRunOuter(sc *arScenario) map[string]any {
	cs := sc.install()
	obs := map[string]any{"err": "", "panic": ""}
	pan, msg := vfd.Guard(func() {
		ps := cs.GetPriorStates()
		chi := ps.GetChi()
		in := OuterAccumulationInput{GasLimit: calculateMaxGasUsed(chi.AlwaysAccum), DeferredTransfers: []types.DeferredTransfer{},
			WorkReports: sc.reports, ServicesWithFreeAccumulation: chi.AlwaysAccum,
			InitPartialStateSet: types.PartialStateSet{ServiceAccounts: ps.GetDelta(), ValidatorKeys: ps.GetIota(), Authorizers: ps.GetVarphi(),
				Bless: chi.Bless, Assign: chi.Assign, Designate: chi.Designate, CreateAcct: chi.CreateAcct, AlwaysAccum: chi.AlwaysAccum}}
		out, err := OuterAccumulation(in)
		if err != nil {
			obs["err"] = err.Error()
			return
		}
		obs["n"] = int(out.NumberOfWorkResultsAccumulated)
		obs["u"], obs["ugas"] = arGasList(out.ServiceGasUsedList)
		obs["acc"] = arAccounts(out.PartialStateSet.ServiceAccounts)
	})
	if pan {
		obs["panic"] = msg
	}
	return obs
}

// the first round's transfers, as the code emits them (input material for the single-service entry point)
func arFirstRoundTransfers(sc *arScenario) []types.DeferredTransfer {
	cs := sc.install()
	ps := cs.GetPriorStates()
	chi := ps.GetChi()
	var ts []types.DeferredTransfer
	vfd.Guard(func() {
		out, err := ParallelizedAccumulation(ParallelizedAccumulationInput{
			PartialStateSet: types.PartialStateSet{ServiceAccounts: ps.GetDelta(), ValidatorKeys: ps.GetIota(), Authorizers: ps.GetVarphi(),
				Bless: chi.Bless, Assign: chi.Assign, Designate: chi.Designate, CreateAcct: chi.CreateAcct, AlwaysAccum: chi.AlwaysAccum},
			DeferredTransfers: []types.DeferredTransfer{}, WorkReports: sc.reports, AlwaysAccumulateMap: sc.free})
		if err == nil {
			ts = out.DeferredTransfers
		}
	})
	return ts
}

// one run of the single-service accumulation function on a transfer sequence given in an arbitrary order:
// Delta1 takes any sequence t and shows the service its transfers by sender, then by position in t
func arRunSingle(sc *arScenario, tin []types.DeferredTransfer, s types.ServiceID) map[string]any {
	cs := sc.install()
	obs := map[string]any{"err": "", "panic": ""}
	pan, msg := vfd.Guard(func() {
		ps := cs.GetPriorStates()
		chi := ps.GetChi()
		out, err := SingleServiceAccumulation(SingleServiceAccumulationInput{
			PartialStateSet: types.PartialStateSet{ServiceAccounts: ps.GetDelta(), ValidatorKeys: ps.GetIota(), Authorizers: ps.GetVarphi(),
				Bless: chi.Bless, Assign: chi.Assign, Designate: chi.Designate, CreateAcct: chi.CreateAcct, AlwaysAccum: chi.AlwaysAccum},
			DeferredTransfers: append([]types.DeferredTransfer(nil), tin...), WorkReports: nil, AlwaysAccumulateMap: types.AlwaysAccumulateMap{},
			ServiceID: s})
		if err != nil {
			obs["err"] = err.Error()
			return
		}
		acc := out.PartialStateSet.ServiceAccounts[s]
		obs["store"] = arStore(acc)
		obs["spent"] = int(int64(arBalance) - int64(acc.ServiceInfo.Balance))
		obs["t"] = arTransfers(out.DeferredTransfers)
		obs["gas"] = vfd.U64LE(uint64(out.GasUsed))
	})
	if pan {
		obs["panic"] = msg
	}
	return obs
}

func arGroup(n int, run func(i int) map[string]any) []map[string]any {
	groups := []map[string]any{}
	index := map[string]int{}
	for i := 0; i < n; i++ {
		obs := run(i)
		b, _ := json.Marshal(obs)
		if gi, ok := index[string(b)]; ok {
			groups[gi]["count"] = groups[gi]["count"].(int) + 1
			continue
		}
		index[string(b)] = len(groups)
		groups = append(groups, map[string]any{"count": 1, "first": i, "obs": obs})
	}
	return groups
}

var arProcs = []int{1, 2, 16}
var arWorkers = []int{1, 2, 32}

func TestAccRounds(t *testing.T) {
	cases := vfd.ReadCases(vfd.Env("VF_CASES", "cases.ndjson"))
	out := vfd.NewOut(vfd.Env("VF_OUT", "trace.ndjson"))
	defer out.Close()
	runs := vfd.EnvInt("VF_RUNS", 60)
	savedW := types.MaxWorkers
	defer func() { types.MaxWorkers = savedW; runtime.GOMAXPROCS(runtime.NumCPU()); blockchain.ResetInstance() }()
	for _, c := range cases {
		sc := arParse(c)
		sched := func(i int) {
			runtime.GOMAXPROCS(arProcs[i%3])
			types.MaxWorkers = arWorkers[(i/3)%3]
		}
		rec := map[string]any{"n": vfd.I(c["n"]), "sc": c, "runs": runs}
		rec["stf"] = arGroup(runs, func(i int) map[string]any { sched(i); return arRunSTF(sc) })
		rec["par"] = arGroup(runs, func(i int) map[string]any { sched(i); return arRunPar(sc) })
		rec["outer"] = arGroup(runs, func(i int) map[string]any { sched(i); return arRunOuter(sc) })
		// single-service entry point: the first round's transfers in two seeded arbitrary orders, for every receiver
		singles := []map[string]any{}
		base := arFirstRoundTransfers(sc)
		rng := vfd.NewRng(uint64(vfd.EnvInt("VF_SEED", 1))*7919 + uint64(vfd.I(c["n"])))
		for k := 0; k < 2 && len(base) > 0; k++ {
			tin := append([]types.DeferredTransfer(nil), base...)
			for a := len(tin) - 1; a > 0; a-- {
				b := rng.N(a + 1)
				tin[a], tin[b] = tin[b], tin[a]
			}
			seen := map[types.ServiceID]bool{}
			for _, x := range tin {
				if seen[x.ReceiverID] {
					continue
				}
				seen[x.ReceiverID] = true
				s := x.ReceiverID
				singles = append(singles, map[string]any{"s": int(s), "tin": arTransfers(tin),
					"groups": arGroup(max(runs/6, 5), func(i int) map[string]any { sched(i); return arRunSingle(sc, tin, s) })})
			}
		}
		rec["single"] = singles
		out.Emit(rec)
	}
}

// TestProbe: one scenario, verbose (development aid).
func TestProbe(t *testing.T) {
	var c map[string]any
	json.Unmarshal([]byte(vfd.Env("VF_SCENARIO", `{"n":1,"svcs":[{"id":5,"prog":[{"op":"xfer","to":9,"amt":3,"tag":1},{"op":"xfer","to":9,"amt":4,"tag":2}]},{"id":9,"prog":[{"op":"rec"}]}],"reports":[[5]],"free":[],"priv":0}`)), &c)
	sc := arParse(c)
	b, _ := json.Marshal(arRunSTF(sc))
	fmt.Println("STF", string(b))
	b, _ = json.Marshal(arRunPar(sc))
	fmt.Println("PAR", string(b))
}

package auditingdrv

// X-step driver for X08: executes internal/auditing on the cases of Auditing_Gen.  Oracle tables are
// filled with the primitives (VRF through safrole.CreateVRFHandler = the /verif stand-in; BLAKE2b and
// Ed25519 from the standard libraries); terms may contain {"t":"ref","k":name} nodes that are replaced by
// run-time values (report / header encodings, VRF outputs) before the generic evaluator reduces them.
// No expectations are computed here.

import (
	"crypto/ed25519"
	"errors"
	"fmt"
	"testing"

	"golang.org/x/crypto/blake2b"

	"github.com/New-JAMneration/JAM-Protocol/internal/auditing"
	"github.com/New-JAMneration/JAM-Protocol/internal/blockchain"
	"github.com/New-JAMneration/JAM-Protocol/internal/safrole"
	"github.com/New-JAMneration/JAM-Protocol/internal/types"
	"github.com/New-JAMneration/JAM-Protocol/internal/utilities"
	"github.com/New-JAMneration/JAM-Protocol/internal/utilities/hash"
	"github.com/New-JAMneration/JAM-Protocol/internal/verifdrv/vfd"
)

func b2i(b bool) int {
	if b {
		return 1
	}
	return 0
}

func ints(v any) []int {
	out := []int{}
	if v == nil {
		return out
	}
	for _, x := range v.([]any) {
		out = append(out, vfd.I(x))
	}
	return out
}

// replace ref nodes by literals
func resolve(t any, env map[string][]byte) any {
	m, ok := t.(map[string]any)
	if !ok {
		return t
	}
	switch m["t"] {
	case "ref":
		v, ok := env[vfd.S(m["k"])]
		if !ok {
			panic("unresolved reference " + vfd.S(m["k"]))
		}
		return map[string]any{"t": "lit", "b": vfd.B(v)}
	case "cat":
		xs := []any{}
		for _, x := range m["xs"].([]any) {
			xs = append(xs, resolve(x, env))
		}
		return map[string]any{"t": "cat", "xs": xs}
	case "b2b", "kec", "slice", "clr":
		c := map[string]any{}
		for k, v := range m {
			c[k] = v
		}
		c["x"] = resolve(m["x"], env)
		return c
	}
	return t
}

func eval(t any, env map[string][]byte) []byte { return vfd.EvalTerm(resolve(t, env)) }

// the report that carries abstract id (all identifying fields derive from the id)
func mkReport(id int, core int) types.WorkReport {
	var r types.WorkReport
	r.PackageSpec.Hash[0], r.PackageSpec.Hash[1], r.PackageSpec.Hash[2] = byte(id), byte(id>>8), 0xA0
	r.PackageSpec.Length = types.U32(100 + id)
	r.PackageSpec.ErasureRoot[0] = byte(id + 10)
	r.PackageSpec.ExportsRoot[0] = byte(id + 20)
	r.PackageSpec.ExportsCount = 1
	r.CoreIndex = types.CoreIndex(core)
	r.AuthorizerHash[0] = byte(id + 30)
	r.AuthOutput = types.ByteSequence{byte(id)}
	r.AuthGasUsed = types.Gas(id)
	var res types.WorkResult
	res.ServiceID = types.ServiceID(id)
	res.CodeHash[0] = byte(id + 40)
	res.PayloadHash[0] = byte(id + 50)
	res.AccumulateGas = types.Gas(10 + id)
	res.Result = types.GetWorkExecResult(types.WorkExecResultOk, []byte{byte(id)})
	res.RefineLoad = types.RefineLoad{GasUsed: 1, Imports: 1, ExtrinsicCount: 1, ExtrinsicSize: 1, Exports: 1}
	r.Results = []types.WorkResult{res}
	return r
}

func idOf(h types.WorkPackageHash) int {
	if h[2] != 0xA0 {
		return -1
	}
	return int(h[0]) | int(h[1])<<8
}

func encReport(r types.WorkReport) []byte {
	e := types.GetEncoder()
	b, err := e.Encode(&r)
	out := append([]byte(nil), b...)
	types.PutEncoder(e)
	if err != nil {
		panic(err)
	}
	return out
}

var kappa types.ValidatorsData

// fresh chain state: tiny validators, header with the chosen Y(H_v) as the head of its entropy source
func setup(C int, author int, yhv []byte) {
	types.SetTinyMode()
	types.CoresCount = C
	blockchain.ResetInstance()
	cs := blockchain.GetInstance()
	cs.GetPriorStates().SetKappa(kappa)
	var es types.BandersnatchVrfSignature
	copy(es[:], yhv)
	cs.GetProcessingBlockPointer().SetHeader(types.Header{Slot: 100, AuthorIndex: types.ValidatorIndex(author), EntropySource: es})
}

func vrfOut(v int, ctx []byte) []byte {
	h, err := safrole.CreateVRFHandler(kappa[v].Bandersnatch)
	if err != nil {
		panic(err)
	}
	defer h.Free()
	sig, err := h.IETFSign(ctx, []byte(""))
	if err != nil {
		panic(err)
	}
	out, err := h.VRFIetfOutput(sig)
	if err != nil {
		panic(err)
	}
	return out
}

func qOf(ids []int) []*types.WorkReport {
	Q := make([]*types.WorkReport, len(ids))
	for c, id := range ids {
		if id != 0 {
			r := mkReport(id, c)
			Q[c] = &r
		}
	}
	return Q
}

func auditOut(as []types.AuditReport) [][]int {
	out := [][]int{}
	for _, a := range as {
		out = append(out, []int{int(a.CoreID), idOf(a.Report.PackageSpec.Hash), int(a.ValidatorID), b2i(a.AuditResult)})
	}
	return out
}

func pairsMap(v any) map[int][]int {
	m := map[int][]int{}
	if v == nil {
		return m
	}
	for _, p := range v.([]any) {
		q := p.([]any)
		m[vfd.I(q[0])] = ints(q[1])
	}
	return m
}

func keyFrom(k int) ed25519.PrivateKey {
	seed := make([]byte, ed25519.SeedSize)
	seed[0], seed[1] = byte(k), 0x42
	return ed25519.NewKeyFromSeed(seed)
}

type fetcher struct {
	mode string
}

func (f *fetcher) FetchBundle(report types.WorkReport) ([]byte, error) {
	switch f.mode {
	case "fetcherr":
		return nil, errors.New("scripted: bundle unavailable")
	case "empty":
		return []byte{}, nil
	}
	return []byte{1, 2, 3, 4, 5, 6, 7, 8, 9}, nil
}

func TestRun(t *testing.T) {
	var err error
	types.SetTinyMode()
	kappa, err = safrole.LoadTinyValidatorsData()
	if err != nil {
		t.Fatal(err)
	}
	cases := vfd.ReadCases(vfd.Env("VF_CASES", "cases.ndjson"))
	out := vfd.NewOut(vfd.Env("VF_OUT", "trace.ndjson"))
	defer out.Close()
	for ci, c := range cases {
		rec := map[string]any{"ev": vfd.S(c["kind"]), "c": ci}
		p, msg := vfd.Guard(func() { runCase(c, rec) })
		rec["panic"], rec["pmsg"] = b2i(p), msg
		out.Emit(rec)
	}
	types.SetTinyMode()
}

func runCase(c map[string]any, rec map[string]any) {
	switch vfd.S(c["kind"]) {
	case "q":
		rho, avail := ints(c["rho"]), ints(c["avail"])
		setup(len(rho), 0, make([]byte, 32))
		cs := blockchain.GetInstance()
		ra := make(types.AvailabilityAssignments, len(rho))
		for i, id := range rho {
			if id != 0 {
				ra[i] = &types.AvailabilityAssignment{Report: mkReport(id, i), AssignedSlot: 5}
			}
		}
		cs.GetPriorStates().SetRho(ra)
		W := []types.WorkReport{}
		for _, id := range avail {
			W = append(W, mkReport(id, 0))
		}
		cs.GetIntermediateStates().SetAvailableWorkReports(W)
		got := []int{}
		for _, r := range auditing.CollectAuditReportCandidates() {
			if r == nil {
				got = append(got, 0)
			} else {
				got = append(got, idOf(r.PackageSpec.Hash))
			}
		}
		rec["rho"], rec["avail"], rec["got"] = rho, avail, got
	case "a0":
		C, v, author := vfd.I(c["C"]), vfd.I(c["v"]), vfd.I(c["author"])
		yhv := vfd.Bytes(c["yhv"])
		setup(C, author, yhv)
		env := map[string][]byte{}
		env["r"] = vrfOut(v, eval(c["seedctx"], env))
		tab := [][][]int{}
		for _, q := range c["hq"].([]any) {
			in := eval(q, env)
			h := blake2b.Sum256(in)
			tab = append(tab, [][]int{vfd.B(in), vfd.B(h[:])})
		}
		qids := ints(c["Q"])
		a0, err := auditing.ComputeInitialAuditAssignment(qOf(qids), types.ValidatorIndex(v))
		rec["C"], rec["Q"], rec["v"], rec["pat"], rec["r"], rec["tab"] = C, qids, v, vfd.S(c["pat"]), vfd.B(env["r"]), tab
		rec["got"], rec["err"] = auditOut(a0), b2i(err != nil)
	case "an":
		C, v, author, n := vfd.I(c["C"]), vfd.I(c["v"]), vfd.I(c["author"]), vfd.I(c["n"])
		setup(C, author, vfd.Bytes(c["yhv"]))
		types.ValidatorsCount = vfd.I(c["V"])
		qids := ints(c["Q"])
		Q := qOf(qids)
		env := map[string][]byte{}
		for cidx, id := range qids {
			if id != 0 {
				env[fmt.Sprintf("w%d", id)] = encReport(*Q[cidx])
			}
		}
		bytes0 := []any{}
		for _, qr := range c["queries"].([]any) {
			q := qr.(map[string]any)
			bs := []int{}
			for _, ctx := range q["ctxs"].([]any) {
				bs = append(bs, int(vrfOut(v, eval(ctx, env))[0]))
			}
			bytes0 = append(bytes0, map[string]any{"id": vfd.I(q["id"]), "b0": bs})
		}
		prior := map[types.WorkPackageHash][]types.ValidatorIndex{}
		for id, vs := range pairsMap(c["prior"]) {
			h := mkReport(id, 0).PackageSpec.Hash
			prior[h] = []types.ValidatorIndex{}
			for _, x := range vs {
				prior[h] = append(prior[h], types.ValidatorIndex(x))
			}
		}
		pos := map[types.WorkPackageHash]map[types.ValidatorIndex]bool{}
		for id, vs := range pairsMap(c["pos"]) {
			h := mkReport(id, 0).PackageSpec.Hash
			pos[h] = map[types.ValidatorIndex]bool{}
			for _, x := range vs {
				pos[h][types.ValidatorIndex(x)] = true
			}
		}
		an, err := auditing.ComputeAnForValidator(types.U8(n), Q, prior, pos, hash.Blake2bHash, types.ValidatorIndex(v))
		rec["n"], rec["V"], rec["Q"], rec["v"], rec["prior"], rec["pos"], rec["bytes"] = n, vfd.I(c["V"]), qids, v, c["prior"], c["pos"], bytes0
		rec["got"], rec["err"] = auditOut(an), b2i(err != nil)
		types.ValidatorsCount = 6
	case "announce":
		n := vfd.I(c["n"])
		setup(2, vfd.I(c["author"]), make([]byte, 32))
		key := keyFrom(vfd.I(c["key"]))
		env := map[string][]byte{}
		hdr, err := utilities.HeaderSerialization(blockchain.GetInstance().GetProcessingBlockPointer().GetHeader())
		if err != nil {
			panic(err)
		}
		env["hdr"] = hdr
		an := []types.AuditReport{}
		anEcho := [][]int{}
		for _, pr := range c["an"].([]any) {
			pp := ints(pr)
			r := mkReport(pp[1], pp[0])
			env[fmt.Sprintf("w%d", pp[1])] = encReport(r)
			an = append(an, types.AuditReport{CoreID: types.CoreIndex(pp[0]), Report: r, ValidatorID: 2})
			anEcho = append(anEcho, pp)
		}
		sig, err := auditing.BuildAnnouncement(types.U8(n), an, hash.Blake2bHash, 2, key)
		ver := []int{}
		for _, m := range c["msgs"].([]any) {
			ver = append(ver, b2i(ed25519.Verify(key.Public().(ed25519.PublicKey), eval(m, env), sig[:])))
		}
		rec["n"], rec["an"], rec["verifies"], rec["err"] = n, anEcho, ver, b2i(err != nil)
	case "judge":
		setup(2, 0, make([]byte, 32))
		key := keyFrom(vfd.I(c["key"]))
		env := map[string][]byte{}
		items := []types.AuditReport{}
		echo := [][]int{}
		for _, ir := range c["items"].([]any) {
			it := ints(ir)
			r := mkReport(it[1], it[0])
			env[fmt.Sprintf("w%d", it[1])] = encReport(r)
			items = append(items, types.AuditReport{CoreID: types.CoreIndex(it[0]), Report: r, ValidatorID: 3, AuditResult: it[2] == 1})
			echo = append(echo, it)
		}
		signed := auditing.BuildJudgements(0, items, hash.Blake2bHash, key)
		ver := []int{}
		for i, m := range c["msgs"].([]any) {
			ok := false
			if i < len(signed) {
				ok = ed25519.Verify(key.Public().(ed25519.PublicKey), eval(m, env), signed[i].Signature[:])
			}
			ver = append(ver, b2i(ok))
		}
		rec["items"], rec["got"], rec["verifies"] = echo, auditOut(signed), ver
	case "audited":
		setup(2, 0, make([]byte, 32))
		types.ValidatorsCount, types.ValidatorsSuperMajority = vfd.I(c["V"]), vfd.I(c["sm"])
		reports := []types.WorkReport{}
		for _, id := range ints(c["reports"]) {
			reports = append(reports, mkReport(id, 0))
		}
		js := []types.AuditReport{}
		for _, jr := range c["judgments"].([]any) {
			j := ints(jr)
			js = append(js, types.AuditReport{Report: mkReport(j[0], 0), ValidatorID: types.ValidatorIndex(j[1]), AuditResult: j[2] == 1})
		}
		amap := map[types.WorkPackageHash][]types.ValidatorIndex{}
		for id, vs := range pairsMap(c["assigned"]) {
			h := mkReport(id, 0).PackageSpec.Hash
			amap[h] = []types.ValidatorIndex{}
			for _, x := range vs {
				amap[h] = append(amap[h], types.ValidatorIndex(x))
			}
		}
		per := []int{}
		for _, r := range reports {
			per = append(per, b2i(auditing.IsWorkReportAudited(r, auditing.FilterJudgments(js, r.PackageSpec.Hash), auditing.GetAssignedValidators(r, amap))))
		}
		rec["V"], rec["reports"], rec["judgments"], rec["assigned"] = vfd.I(c["V"]), ints(c["reports"]), c["judgments"], c["assigned"]
		rec["per"], rec["block"] = per, b2i(auditing.IsBlockAudited(reports, js, amap))
		types.SetTinyMode()
	case "bus":
		bus := auditing.NewAuditMessageBus()
		asg := map[types.WorkPackageHash][]types.ValidatorIndex{}
		for id, vs := range pairsMap(c["asg0"]) {
			for _, x := range vs {
				h := mkReport(id, 0).PackageSpec.Hash
				asg[h] = append(asg[h], types.ValidatorIndex(x))
			}
		}
		pos := map[types.WorkPackageHash]map[types.ValidatorIndex]bool{}
		for id, vs := range pairsMap(c["pos0"]) {
			h := mkReport(id, 0).PackageSpec.Hash
			pos[h] = map[types.ValidatorIndex]bool{}
			for _, x := range vs {
				pos[h][types.ValidatorIndex(x)] = true
			}
		}
		for _, ar := range c["ann"].([]any) {
			a := ar.([]any)
			msg := auditing.CE144Announcement{Tranche: types.U8(vfd.I(a[1])), ValidatorIndex: types.ValidatorIndex(vfd.I(a[0]))}
			for _, id := range ints(a[2]) {
				msg.WorkReports = append(msg.WorkReports, mkReport(id, 0).PackageSpec.Hash)
			}
			bus.OnAuditAnnouncementReceived(msg)
		}
		for _, jr := range c["jud"].([]any) {
			j := ints(jr)
			bus.OnJudgmentReceived(auditing.CE145Judgment{WorkReportHash: mkReport(j[0], 0).PackageSpec.Hash, ValidatorIndex: types.ValidatorIndex(j[1]), IsValid: j[2] == 1})
		}
		asg = auditing.SyncAssignmentMapFromBus(bus, asg)
		pos = auditing.SyncPositiveJudgersFromBus(bus, pos)
		ao, po := [][]any{}, [][]any{}
		for h, vs := range asg {
			l := []int{}
			for _, x := range vs {
				l = append(l, int(x))
			}
			ao = append(ao, []any{idOf(h), l})
		}
		for h, m := range pos {
			l := []int{}
			for x, ok := range m {
				if ok {
					l = append(l, int(x))
				}
			}
			po = append(po, []any{idOf(h), l})
		}
		rec["asg0"], rec["pos0"], rec["ann"], rec["jud"], rec["asg"], rec["pos"] = c["asg0"], c["pos0"], c["ann"], c["jud"], ao, po
	case "equal":
		a := mkReport(vfd.I(c["a"]), 1)
		b := mkReport(vfd.I(c["a"]), 1)
		switch vfd.S(c["tweak"]) {
		case "hash":
			b.PackageSpec.Hash[31] ^= 1
		case "length":
			b.PackageSpec.Length++
		case "exports_root":
			b.PackageSpec.ExportsRoot[5] ^= 1
		case "erasure_root":
			b.PackageSpec.ErasureRoot[5] ^= 1
		case "exports_count":
			b.PackageSpec.ExportsCount++
		case "core":
			b.CoreIndex++
		case "authorizer":
			b.AuthorizerHash[9] ^= 1
		case "auth_output":
			b.AuthOutput = append(types.ByteSequence{}, 9)
		case "auth_gas":
			b.AuthGasUsed++
		case "result_data":
			b.Results[0].Result.Data = []byte{99}
		case "result_type":
			b.Results[0].Result = types.GetWorkExecResult(types.WorkExecResultPanic, nil)
		case "gas_used":
			b.Results[0].RefineLoad.GasUsed++
		case "lookup":
			b.SegmentRootLookup = types.SegmentRootLookup{{WorkPackageHash: types.WorkPackageHash{1}, SegmentTreeRoot: types.OpaqueHash{2}}}
		case "context":
			b.Context.LookupAnchorSlot++
		case "results_count":
			b.Results = append(b.Results, b.Results[0])
		}
		rec["tweak"], rec["got"], rec["sym"] = vfd.S(c["tweak"]), b2i(auditing.VerifWorkReportsEqual(a, b)), b2i(auditing.VerifWorkReportsEqual(b, a))
	case "thr":
		V, F, m := vfd.I(c["V"]), vfd.I(c["F"]), vfd.I(c["m"])
		got := []int{}
		for b := 0; b < 256; b++ {
			got = append(got, b2i(auditing.VerifIsAssignedByThreshold(byte(b), V, F, m)))
		}
		rec["V"], rec["F"], rec["m"], rec["got"] = V, F, m, got
	case "judgement":
		setup(2, 0, make([]byte, 32))
		old := auditing.DefaultBundleFetcher
		auditing.DefaultBundleFetcher = &fetcher{mode: vfd.S(c["mode"])}
		rec["mode"], rec["got"] = vfd.S(c["mode"]), b2i(auditing.GetJudgement(types.AuditReport{CoreID: 1, Report: mkReport(4, 1), ValidatorID: 1}))
		auditing.DefaultBundleFetcher = old
	}
}

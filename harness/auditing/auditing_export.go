package auditing

import "github.com/New-JAMneration/JAM-Protocol/internal/types"

// Overlay-only shim for the /verif X08 driver (never committed to the repository).
func VerifWorkReportsEqual(a, b types.WorkReport) bool { return workReportsEqual(a, b) }

func VerifIsAssignedByThreshold(b byte, validatorsCount, biasFactor, noShowCount int) bool {
	return isAssignedByThreshold(b, validatorsCount, biasFactor, noShowCount)
}

package safrole

// X-step driver for C23 (ticket accumulator and slot-sealer sequence).  In-package driver of
// internal/safrole, injected by overlay.  It materialises generated block histories on the
// chain-state singleton the way the repository's test-vector runner does
// (jamtests/safrole.SafroleTestCase.Dump + stf.UpdateSafrole = OuterUsedSafrole), builds ticket
// envelopes with the VRF stand-in so that the ticket identifiers are the generated ones, and
// records what the code did.  It only executes and records; spec/stf/Safrole_Trace.tla judges.
//
// Case (one line):
//   {"ev":"Hist","P":{"E","Y","N","V","K"},"U":n,"base":[4 LE bytes],
//    "init":{"tau","ga":[[id,att]..],"gs":{"t":[[id,att]..],"k":[key..]},"eta":[i0..i3],
//            "kappa":[key..],"gammak":[..],"lambda":[..],"iota":[..]},
//    "blocks":[{"slot","ent","ce","rk","tab","adv","off":[key..],"n":[{"id","att","sig"}..]}..]}
//   adv = 1: an accepted block's posterior becomes the next prior; adv = 0: the blocks are
//   alternatives applied to the same prior state.  "live":1 on a history (adv = 1 blocks, no offenders):
//   the prior state is loaded once and then lives in the singleton across the blocks (see vfRunHist).
//   {"ev":"Z","P":{..},"U":n,"s":[[id,att]..]}          OutsideInSequencer
//   {"ev":"F","P":{..},"r":[32 bytes],"kappa":[key..]}   FallbackKeySequence
// Identifiers are ranks (1..U) in the bytewise order of a fixed universe of 32-byte values;
// validator keys are small integers (0 = the null key); entropies are integers expanded by
// SHA-256.  base (a multiple of E) is added to every slot.  Per block the GENERATOR says under
// which prior entropy (ce: index 1 or 2) and for which ring (rk: "g" = prior gamma_k, "i" = iota
// with the offenders `off` nulled) the tickets are signed and whether the oracle table of
// BLAKE2b(eta[ce] ++ E_4(i)), i < E, is to be recorded (tab); the trace specification checks
// those choices against the Gray Paper rule.  (If the code replaces the key sequence although
// tab = 0, the tables for eta[1] and eta[2] are recorded so that the block can be judged.)  sig kinds: ok | eta (signed under the other
// entropy) | att (signed for attempt+1) | ring (another ring) | zero (no tag).

import (
	"bytes"
	"crypto/sha256"
	"encoding/binary"
	"sort"
	"testing"

	"github.com/New-JAMneration/JAM-Protocol/internal/blockchain"
	"github.com/New-JAMneration/JAM-Protocol/internal/types"
	"github.com/New-JAMneration/JAM-Protocol/internal/verifdrv/vfd"
	"github.com/New-JAMneration/JAM-Protocol/logger"
	vrf "github.com/New-JAMneration/JAM-Protocol/pkg/Rust-VRF/vrf-func-ffi/src"
	"golang.org/x/crypto/blake2b"
)

// ---- identifier universe -------------------------------------------------------------------

type vfUniverse struct {
	ids  [][32]byte
	rank map[[32]byte]int
}

var vfUniverses = map[int]*vfUniverse{}

func vfUni(n int) *vfUniverse {
	if u, ok := vfUniverses[n]; ok {
		return u
	}
	seen := map[[32]byte]bool{}
	var ids [][32]byte
	add := func(b [32]byte) {
		if !seen[b] && len(ids) < n {
			seen[b] = true
			ids = append(ids, b)
		}
	}
	var z, one, ff, p1, p2, hi, hi2 [32]byte
	one[31] = 1
	for i := range ff {
		ff[i] = 0xFF
		p1[i] = 0x6D
		p2[i] = 0x6D
	}
	p2[31] = 0x6E     // differs from p1 in the last byte only
	hi[0] = 0x80      // differs from the zero hash in the first byte only
	hi2[0] = 0x7F
	hi2[1] = 0xFF
	for _, b := range [][32]byte{z, one, p1, p2, hi, hi2, ff} {
		add(b)
	}
	for i := 0; len(ids) < n; i++ {
		var s [8]byte
		binary.LittleEndian.PutUint64(s[:], uint64(i))
		add(sha256.Sum256(append([]byte("vf-ticket-id"), s[:]...)))
	}
	sort.Slice(ids, func(a, b int) bool { return bytes.Compare(ids[a][:], ids[b][:]) < 0 })
	u := &vfUniverse{ids: ids, rank: map[[32]byte]int{}}
	for i, b := range ids {
		u.rank[b] = i + 1
	}
	vfUniverses[n] = u
	return u
}

func (u *vfUniverse) id(rank int) types.TicketID {
	if rank >= 1 && rank <= len(u.ids) {
		return types.TicketID(u.ids[rank-1])
	}
	return types.TicketID(sha256.Sum256([]byte{byte(rank), byte(rank >> 8), 'x'}))
}

func (u *vfUniverse) bodies(v any) types.TicketsAccumulator {
	out := types.TicketsAccumulator{}
	if v == nil {
		return out
	}
	for _, x := range v.([]any) {
		p := x.([]any)
		out = append(out, types.TicketBody{ID: u.id(vfd.I(p[0])), Attempt: types.TicketAttempt(vfd.I(p[1]))})
	}
	return out
}

func (u *vfUniverse) pairs(ts []types.TicketBody) [][]int {
	out := [][]int{}
	for _, t := range ts {
		r, ok := u.rank[[32]byte(t.ID)]
		if !ok {
			r = -1
		}
		out = append(out, []int{r, int(t.Attempt)})
	}
	return out
}

// ---- validator keys ------------------------------------------------------------------------

func vfKeyBytes(tag string, k int, n int) []byte {
	out := []byte{}
	for i := 0; len(out) < n; i++ {
		h := sha256.Sum256([]byte{tag[0], tag[1], byte(k), byte(k >> 8), byte(i)})
		out = append(out, h[:]...)
	}
	return out[:n]
}

func vfValidator(k int) types.Validator {
	var v types.Validator
	if k == 0 {
		return v
	}
	copy(v.Bandersnatch[:], vfKeyBytes("bk", k, 32))
	copy(v.Ed25519[:], vfKeyBytes("ek", k, 32))
	copy(v.Bls[:], vfKeyBytes("bl", k, 144))
	copy(v.Metadata[:], vfKeyBytes("md", k, 128))
	return v
}

func vfValidators(v any) types.ValidatorsData {
	out := types.ValidatorsData{}
	if v == nil {
		return out
	}
	for _, x := range v.([]any) {
		out = append(out, vfValidator(vfd.I(x)))
	}
	return out
}

var vfBander = map[types.BandersnatchPublic]int{}
var vfWhole = map[types.Validator]int{}

func vfInitKeys() {
	for k := 0; k < 4200; k++ {
		v := vfValidator(k)
		vfBander[v.Bandersnatch] = k
		vfWhole[v] = k
	}
}

// key id of a whole validator record (all four fields must belong to the same id), else -1
func vfKeyIDs(vs types.ValidatorsData) []int {
	out := []int{}
	for _, v := range vs {
		if k, ok := vfWhole[v]; ok {
			out = append(out, k)
		} else {
			out = append(out, -1)
		}
	}
	return out
}

func vfBanderIDs(ks []types.BandersnatchPublic) []int {
	out := []int{}
	for _, b := range ks {
		if k, ok := vfBander[b]; ok {
			out = append(out, k)
		} else {
			out = append(out, -1)
		}
	}
	return out
}

func vfEntropy(i int) types.Entropy {
	return types.Entropy(sha256.Sum256([]byte{'e', 't', 'a', byte(i), byte(i >> 8), byte(i >> 16)}))
}

func vfRing(vs types.ValidatorsData) []byte {
	ring := []byte{}
	for _, v := range vs {
		ring = append(ring, v.Bandersnatch[:]...)
	}
	return ring
}

func vfNullOffenders(vs types.ValidatorsData, off map[types.Ed25519Public]bool) types.ValidatorsData {
	out := make(types.ValidatorsData, len(vs))
	copy(out, vs)
	for i := range out {
		if off[out[i].Ed25519] {
			out[i] = types.Validator{}
		}
	}
	return out
}

// ---- protocol constants --------------------------------------------------------------------

func vfSetParams(p map[string]any) map[string]int {
	types.EpochLength = vfd.I(p["E"])
	types.SlotSubmissionEnd = vfd.I(p["Y"])
	types.TicketsPerValidator = vfd.I(p["N"])
	types.ValidatorsCount = vfd.I(p["V"])
	types.MaxTicketsPerBlock = vfd.I(p["K"])
	return map[string]int{"E": types.EpochLength, "Y": types.SlotSubmissionEnd, "N": types.TicketsPerValidator,
		"V": types.ValidatorsCount, "K": types.MaxTicketsPerBlock}
}

// The ring verifier is cached process-wide by epoch number only (blockchain.GetVerifier), not by
// ring: blocks of independent chains, alternatives applied to one prior state, or a refused and
// then an accepted block that enter the same epoch with different offenders would be verified
// against a stale ring.  That cache is outside C23; it is evicted before every block so that
// each block is judged on its own (like ResetInstance for the singleton).
func vfEvictVerifierCache() {
	dummy := make(types.ValidatorsData, types.ValidatorsCount)
	_, _ = blockchain.GetVerifier(types.TimeSlot(0xFFFFFFF0), dummy)
}

type vfState struct {
	tau                          uint32
	ga                           types.TicketsAccumulator
	gs                           types.TicketsOrKeys
	eta                          types.EntropyBuffer
	kappa, gammak, lambda, iota_ types.ValidatorsData
}

func vfGsOut(u *vfUniverse, gs types.TicketsOrKeys) map[string]any {
	return map[string]any{"t": u.pairs(gs.Tickets), "k": vfBanderIDs(gs.Keys)}
}

func vfEtaOut(eta types.EntropyBuffer) [][]int {
	out := [][]int{}
	for i := range eta {
		out = append(out, vfd.B(eta[i][:]))
	}
	return out
}

func vfCloneVals(v types.ValidatorsData) types.ValidatorsData {
	out := make(types.ValidatorsData, len(v))
	copy(out, v)
	return out
}

func vfOracle(r types.Entropy, n int) [][][]int {
	tab := [][][]int{}
	for i := 0; i < n; i++ {
		in := append(append([]byte{}, r[:]...), byte(i), byte(i>>8), byte(i>>16), byte(i>>24))
		h := blake2b.Sum256(in)
		tab = append(tab, [][]int{vfd.B(in), vfd.B(h[:])})
	}
	return tab
}

func vfSameKeys(a, b []types.BandersnatchPublic) bool {
	if len(a) != len(b) {
		return false
	}
	for i := range a {
		if a[i] != b[i] {
			return false
		}
	}
	return true
}

func vfRunHist(out *vfd.Out, c map[string]any) {
	par := vfSetParams(c["P"].(map[string]any))
	vfEvictVerifierCache()
	u := vfUni(vfd.I(c["U"]))
	base := uint32(vfd.FromU64LE(c["base"]))
	init := c["init"].(map[string]any)
	st := vfState{tau: base + uint32(vfd.I(init["tau"])), ga: u.bodies(init["ga"])}
	gs := init["gs"].(map[string]any)
	st.gs.Tickets = u.bodies(gs["t"])
	if len(st.gs.Tickets) == 0 {
		st.gs.Tickets = nil
	}
	for _, v := range vfValidators(gs["k"]) {
		st.gs.Keys = append(st.gs.Keys, v.Bandersnatch)
	}
	for i, x := range init["eta"].([]any) {
		st.eta[i] = vfEntropy(vfd.I(x))
	}
	st.kappa, st.gammak, st.lambda, st.iota_ = vfValidators(init["kappa"]), vfValidators(init["gammak"]), vfValidators(init["lambda"]), vfValidators(init["iota"])
	out.Emit(map[string]any{"ev": "Reset", "P": par, "U": vfd.I(c["U"]), "base": c["base"], "tau": vfd.I(init["tau"]),
		"ga": u.pairs(st.ga), "gs": vfGsOut(u, st.gs), "eta": vfEtaOut(st.eta),
		"kappa": vfKeyIDs(st.kappa), "gammak": vfKeyIDs(st.gammak), "lambda": vfKeyIDs(st.lambda), "iota": vfKeyIDs(st.iota_)})

	// live = 1: the history runs on ONE chain-state instance; an accepted block's posterior is committed
	// as the next prior in memory (no reload, no copy) and a refused block is simply followed by the
	// next one, so that anything a block leaves behind in the prior state shows in the later blocks
	live := vfd.I(c["live"]) == 1
	loaded := false
	blocks, _ := c["blocks"].([]any)
	for _, bx := range blocks {
		b := bx.(map[string]any)
		slot := base + uint32(vfd.I(b["slot"]))
		ce := vfd.I(b["ce"])
		offIDs := []int{}
		off := map[types.Ed25519Public]bool{}
		var psiO []types.Ed25519Public
		if b["off"] != nil {
			for _, x := range b["off"].([]any) {
				k := vfd.I(x)
				offIDs = append(offIDs, k)
				ed := vfValidator(k).Ed25519
				off[ed] = true
				psiO = append(psiO, ed)
			}
		}
		ringSet := st.gammak
		if vfd.S(b["rk"]) == "i" {
			ringSet = vfNullOffenders(st.iota_, off)
		}
		ring := vfRing(ringSet)
		otherRing := vfRing(st.lambda)
		var ext types.TicketsExtrinsic
		nIn, _ := b["n"].([]any)
		nEcho := []map[string]any{}
		for _, tx := range nIn {
			t := tx.(map[string]any)
			id := u.id(vfd.I(t["id"]))
			att := vfd.I(t["att"])
			kind := vfd.S(t["sig"])
			ctxEta, ctxAtt, ctxRing := st.eta[ce&3], att, ring
			switch kind {
			case "eta":
				ctxEta = st.eta[(3-ce)&3]
			case "att":
				ctxAtt = att + 1
			case "ring":
				ctxRing = otherRing
			}
			ctx := append(append([]byte("jam_ticket_seal"), ctxEta[:]...), byte(ctxAtt))
			var env types.TicketEnvelope
			env.Attempt = types.TicketAttempt(att)
			if kind == "zero" {
				copy(env.Signature[:32], id[:])
			} else {
				copy(env.Signature[:], vrf.ForgeRing(ctxRing, ctx, []byte{}, id[:]))
			}
			ext = append(ext, env)
			nEcho = append(nEcho, map[string]any{"id": vfd.I(t["id"]), "att": att, "sig": kind})
		}
		var ent [32]byte
		ent = sha256.Sum256([]byte{'e', 'n', 't', byte(vfd.I(b["ent"])), byte(vfd.I(b["ent"]) >> 8)})

		rec := map[string]any{"ev": "Block", "live": vfd.I(c["live"]), "slot": vfd.I(b["slot"]), "ent": vfd.I(b["ent"]), "ce": ce, "rk": vfd.S(b["rk"]),
			"off": offIDs, "n": nEcho, "tab": [][][][]int{}, "adv": vfd.I(b["adv"])}
		if vfd.I(b["tab"]) == 1 {
			rec["tab"] = [][][][]int{vfOracle(st.eta[ce&3], types.EpochLength)}
		}

		// ---- the test-vector runner's route: Dump() then stf.UpdateSafrole()
		var errp *types.ErrorCode
		var cs *blockchain.ChainState
		panicked, msg := vfd.Guard(func() {
			vfEvictVerifierCache()
			if !live || !loaded {
				// per-block mode: every block starts from a prior state rebuilt from the driver's copy;
				// live mode: only the first block of the history does, later blocks find in the singleton
				// whatever the previous blocks (accepted or refused) left there
				blockchain.ResetInstance()
				cs = blockchain.GetInstance()
				cs.GetPriorStates().SetTau(types.TimeSlot(st.tau))
				cs.GetPriorStates().SetEta(st.eta)
				cs.GetPriorStates().SetLambda(vfCloneVals(st.lambda))
				cs.GetPriorStates().SetKappa(vfCloneVals(st.kappa))
				cs.GetPriorStates().SetGammaK(vfCloneVals(st.gammak))
				cs.GetPriorStates().SetIota(vfCloneVals(st.iota_))
				cs.GetPriorStates().SetGammaA(append(types.TicketsAccumulator{}, st.ga...))
				cs.GetPriorStates().SetGammaS(st.gs)
				loaded = true
			} else {
				cs = blockchain.GetInstance()
			}
			cs.GetProcessingBlockPointer().SetSlot(types.TimeSlot(slot))
			cs.GetPosteriorStates().SetTau(types.TimeSlot(slot))
			h := blake2b.Sum256(append(append([]byte{}, st.eta[0][:]...), ent[:]...))
			cs.GetPosteriorStates().SetEta0(types.Entropy(h))
			cs.GetPosteriorStates().SetPsiO(psiO)
			var hdr types.Header
			hdr.Slot = types.TimeSlot(slot)
			copy(hdr.EntropySource[:32], ent[:])
			cs.AddBlock(types.Block{Header: hdr, Extrinsic: types.Extrinsic{Tickets: ext}})
			errp = OuterUsedSafrole()
		})
		if panicked {
			rec["ev"], rec["msg"] = "GoPanic", msg
			out.Emit(rec)
			return
		}
		if errp != nil {
			rec["ok"], rec["err"] = false, int(*errp)
			rec["post"] = map[string]any{"ga": [][]int{}, "gs": map[string]any{"t": [][]int{}, "k": []int{}}, "eta": [][]int{},
				"kappa": []int{}, "gammak": []int{}, "lambda": []int{}}
			rec["tm"] = map[string]any{"has": 0, "t": [][]int{}}
			rec["em"] = map[string]any{"has": 0, "e0": []int{}, "e1": []int{}, "v": []int{}}
			out.Emit(rec)
			if live {
				// a refused block: the working posterior is discarded, the in-memory prior stays as the code left it
				cs.GetPosteriorStates().SetState(blockchain.NewPosteriorStates().GetState())
			}
			continue
		}
		post := cs.GetPosteriorStates()
		nst := vfState{tau: slot, ga: append(types.TicketsAccumulator{}, post.GetGammaA()...), gs: post.GetGammaS(), eta: post.GetEta(),
			kappa: vfCloneVals(post.GetKappa()), gammak: vfCloneVals(post.GetGammaK()), lambda: vfCloneVals(post.GetLambda()), iota_: st.iota_}
		rec["ok"], rec["err"] = true, -1
		if vfd.I(b["tab"]) != 1 && len(nst.gs.Keys) > 0 && !vfSameKeys(nst.gs.Keys, st.gs.Keys) {
			// the code evaluated the fallback although the generator did not expect it to: record
			// the table for both candidate entropies so that the block can still be judged
			rec["tab"] = [][][][]int{vfOracle(st.eta[1], types.EpochLength), vfOracle(st.eta[2], types.EpochLength)}
		}
		rec["post"] = map[string]any{"ga": u.pairs(nst.ga), "gs": vfGsOut(u, nst.gs), "eta": vfEtaOut(nst.eta),
			"kappa": vfKeyIDs(nst.kappa), "gammak": vfKeyIDs(nst.gammak), "lambda": vfKeyIDs(nst.lambda)}
		tm := map[string]any{"has": 0, "t": [][]int{}}
		if p := cs.GetProcessingBlockPointer().GetTicketsMark(); p != nil {
			tm["has"], tm["t"] = 1, u.pairs([]types.TicketBody(*p))
		}
		rec["tm"] = tm
		em := map[string]any{"has": 0, "e0": []int{}, "e1": []int{}, "v": []int{}}
		if p := cs.GetProcessingBlockPointer().GetEpochMark(); p != nil {
			ids := []int{}
			for _, k := range p.Validators {
				a, okA := vfBander[k.Bandersnatch]
				if !okA || vfValidator(a).Ed25519 != k.Ed25519 {
					a = -1
				}
				ids = append(ids, a)
			}
			em["has"], em["e0"], em["e1"], em["v"] = 1, vfd.B(p.Entropy[:]), vfd.B(p.TicketsEntropy[:]), ids
		}
		rec["em"] = em
		out.Emit(rec)
		if vfd.I(b["adv"]) == 1 {
			st = nst // posterior becomes prior (what ChainState.StateCommit does for the whole state)
		}
		if live {
			// commit in memory the way ChainState.StateCommit does: the prior takes over the posterior's
			// values as they are (slices are shared, not copied), then the posterior starts afresh.
			// iota is not touched by Safrole (accumulation owns it) and stays.
			prior := cs.GetPriorStates()
			prior.SetTau(post.GetTau())
			prior.SetEta(post.GetEta())
			prior.SetGammaA(post.GetGammaA())
			prior.SetGammaS(post.GetGammaS())
			prior.SetGammaK(post.GetGammaK())
			prior.SetGammaZ(post.GetGammaZ())
			prior.SetKappa(post.GetKappa())
			prior.SetLambda(post.GetLambda())
			cs.GetPosteriorStates().SetState(blockchain.NewPosteriorStates().GetState())
		}
	}
}

func vfRunZ(out *vfd.Out, c map[string]any) {
	par := vfSetParams(c["P"].(map[string]any))
	u := vfUni(vfd.I(c["U"]))
	s := u.bodies(c["s"])
	rec := map[string]any{"ev": "Z", "P": par, "s": u.pairs(s), "got": [][]int{}, "panic": 0}
	var got types.TicketsAccumulator
	in := append(types.TicketsAccumulator{}, s...)
	if p, _ := vfd.Guard(func() { got = OutsideInSequencer(&in) }); p {
		rec["panic"] = 1
	} else {
		rec["got"] = u.pairs(got)
	}
	out.Emit(rec)
}

func vfRunF(out *vfd.Out, c map[string]any) {
	par := vfSetParams(c["P"].(map[string]any))
	var r types.Entropy
	copy(r[:], vfd.Bytes(c["r"]))
	kappa := vfValidators(c["kappa"])
	rec := map[string]any{"ev": "F", "P": par, "r": vfd.B(r[:]), "kappa": vfKeyIDs(kappa), "got": []int{}, "panic": 0,
		"tab": [][][][]int{vfOracle(r, types.EpochLength)}}
	var got []types.BandersnatchPublic
	if p, _ := vfd.Guard(func() { got = FallbackKeySequence(r, kappa) }); p {
		rec["panic"] = 1
	} else {
		rec["got"] = vfBanderIDs(got)
	}
	out.Emit(rec)
}

func TestVerifSafrole(t *testing.T) {
	logger.ConfigureLogger("main", logger.LoggerConfig{Level: "FATAL", Enabled: false})
	defer types.SetTinyMode()
	vfInitKeys()
	cases := vfd.ReadCases(vfd.Env("VF_CASES", "cases.ndjson"))
	out := vfd.NewOut(vfd.Env("VF_OUT", "trace.ndjson"))
	defer out.Close()
	for _, c := range cases {
		switch vfd.S(c["ev"]) {
		case "Hist":
			vfRunHist(out, c)
		case "Z":
			vfRunZ(out, c)
		case "F":
			vfRunF(out, c)
		}
	}
	blockchain.ResetInstance()
	t.Logf("cases=%d events=%d", len(cases), out.N)
}

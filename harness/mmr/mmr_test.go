package mmrdrv

// X-step driver for C19: replays TLC-generated append behaviours on mmr.MMR and on
// recent_history.AppendAndCommitMmr, comparing with the specification's terms (real Keccak).

import (
	"bytes"
	"testing"

	"github.com/New-JAMneration/JAM-Protocol/internal/recent_history"
	"github.com/New-JAMneration/JAM-Protocol/internal/types"
	"github.com/New-JAMneration/JAM-Protocol/internal/utilities/hash"
	"github.com/New-JAMneration/JAM-Protocol/internal/utilities/mmr"
	"github.com/New-JAMneration/JAM-Protocol/internal/verifdrv/vfd"
)

type kept struct {
	live []types.MmrPeak
	orig [][]byte
}

func snapshot(p []types.MmrPeak) kept {
	k := kept{live: p}
	for _, x := range p {
		if x == nil {
			k.orig = append(k.orig, nil)
		} else {
			k.orig = append(k.orig, append([]byte{}, (*x)[:]...))
		}
	}
	return k
}

func (k kept) changed() bool {
	if len(k.live) != len(k.orig) {
		return true
	}
	for i, x := range k.live {
		if (x == nil) != (k.orig[i] == nil) {
			return true
		}
		if x != nil && !bytes.Equal((*x)[:], k.orig[i]) {
			return true
		}
	}
	return false
}

func peaksOut(p []types.MmrPeak) [][]int {
	out := [][]int{}
	for _, x := range p {
		if x == nil {
			out = append(out, []int{})
		} else {
			out = append(out, vfd.B((*x)[:]))
		}
	}
	return out
}

func termPeaks(v any) ([]types.MmrPeak, [][]int) {
	var ps []types.MmrPeak
	outs := [][]int{}
	for _, t := range v.([]any) {
		b := vfd.EvalTerm(t)
		if len(b) == 0 {
			ps = append(ps, nil)
			outs = append(outs, []int{})
			continue
		}
		var h types.OpaqueHash
		copy(h[:], b)
		ps = append(ps, &h)
		outs = append(outs, vfd.B(b))
	}
	return ps, outs
}

func TestRun(t *testing.T) {
	cases := vfd.ReadCases(vfd.Env("VF_CASES", "cases.ndjson"))
	out := vfd.NewOut(vfd.Env("VF_OUT", "trace.ndjson"))
	defer out.Close()
	for _, c := range cases {
		api := vfd.S(c["api"])
		out.Emit(map[string]any{"ev": "Reset", "api": api})
		var m *mmr.MMR
		var belt types.Mmr
		var keep []kept
		for _, raw := range c["script"].([]any) {
			ev := raw.(map[string]any)
			name := vfd.S(ev["ev"])
			rec := map[string]any{"ev": name}
			p, msg := vfd.Guard(func() {
				switch name {
				case "New":
					m = mmr.NewMMR(hash.KeccakHash)
					belt = types.Mmr{}
				case "Restore":
					ps, _ := termPeaks(ev["peaks"])
					rec["count"] = vfd.I(ev["count"])
					m = mmr.NewMMRFromPeaks(ps, hash.KeccakHash)
					belt = types.Mmr{Peaks: ps}
				case "Super":
					rec["want_super"] = vfd.B(vfd.EvalTerm(ev["want_super"]))
					var got types.OpaqueHash
					if api == "mmr" {
						got = m.SuperPeak(m.Peaks)
					} else {
						got = mmr.NewMMR(hash.KeccakHash).SuperPeak(belt.Peaks)
					}
					rec["got_super"] = vfd.B(got[:])
				case "Append":
					rec["count"] = vfd.I(ev["count"])
					var leaf types.OpaqueHash
					copy(leaf[:], vfd.EvalTerm(ev["leaf"]))
					_, wantPeaks := termPeaks(ev["want_peaks"])
					rec["want_peaks"] = wantPeaks
					rec["want_super"] = vfd.B(vfd.EvalTerm(ev["want_super"]))
					var got []types.MmrPeak
					var sup types.OpaqueHash
					if api == "mmr" {
						got = m.AppendOne(types.MmrPeak(&leaf))
						sup = m.SuperPeak(got)
					} else {
						belt, sup = recent_history.AppendAndCommitMmr(belt, leaf)
						got = belt.Peaks
					}
					rec["got_peaks"] = peaksOut(got)
					rec["got_super"] = vfd.B(sup[:])
					n := 0
					for _, k := range keep {
						if k.changed() {
							n++
						}
					}
					rec["old_changed"] = n
					keep = append(keep, snapshot(got))
				}
			})
			if p {
				rec["panic"] = msg
				rec["old_changed"] = -1
				rec["got_super"] = []int{}
			}
			out.Emit(rec)
		}
	}
}

package PVM

// X-step driver for C06 (in-package: reads Memory.Pages, heapPointer).  It materialises the
// TLC-generated blob and argument, calls DecodeSerializedValues and SingleInitializer, and
// records a projection of what they returned.  No expectation is computed here.

import (
	"bytes"
	"crypto/sha256"
	"encoding/binary"
	"encoding/hex"
	"fmt"
	"os"
	"sort"
	"testing"

	"github.com/New-JAMneration/JAM-Protocol/internal/verifdrv/vfd"
)

// same pattern as StdInit!Pat
func vfPat(sd, i int) byte { return byte(1 + ((i*(2*(sd%50)+1) + sd) % 255)) }

func vfMaterialize(v any) []byte {
	segs, _ := v.([]any)
	out := []byte{}
	for _, s := range segs {
		m := s.(map[string]any)
		if vfd.S(m["k"]) == "lit" {
			out = append(out, vfd.Bytes(m["b"])...)
		} else if vfd.S(m["k"]) == "zero" {
			out = append(out, make([]byte, vfd.I(m["n"]))...)
		} else {
			sd, n := vfd.I(m["sd"]), vfd.I(m["n"])
			seg := make([]byte, n)
			for i := range seg {
				seg[i] = vfPat(sd, i)
			}
			out = append(out, seg...)
		}
	}
	return out
}

var vfZeroPage [ZP]byte

var vfSampleOffs = []int{0, 1, 2, 255, 256, 2047, 2048, 4093, 4094, 4095}

const vfSparseMax = 80

func vfAcc(a MemoryAccess) string {
	switch a {
	case MemoryReadOnly:
		return "R"
	case MemoryReadWrite:
		return "W"
	case MemoryInaccessible:
		return "N"
	}
	return "?"
}

// vfProjectPages: ascending page order; runs of all-zero full-size pages with equal access merged.
func vfProjectPages(mem Memory) []map[string]any {
	keys := make([]uint32, 0, len(mem.Pages))
	for k := range mem.Pages {
		keys = append(keys, k)
	}
	sort.Slice(keys, func(i, j int) bool { return keys[i] < keys[j] })
	out := []map[string]any{}
	var last map[string]any
	var lastEnd uint32
	for _, k := range keys {
		pg := mem.Pages[k]
		rec := map[string]any{"n": int(k), "cnt": 1, "nz": [][]int{}, "zs": []int{}, "smp": []int{}, "fnz": []int{}, "lnz": []int{}}
		if pg == nil {
			rec["acc"], rec["vlen"], rec["nnz"] = "nil", -1, 0
			out = append(out, rec)
			last = nil
			continue
		}
		acc := vfAcc(pg.Access)
		nnz := 0
		if !(len(pg.Value) == ZP && bytes.Equal(pg.Value, vfZeroPage[:])) { // fast path for the many all-zero pages
			for _, b := range pg.Value {
				if b != 0 {
					nnz++
				}
			}
		}
		rec["acc"], rec["vlen"], rec["nnz"] = acc, len(pg.Value), nnz
		if nnz == 0 && len(pg.Value) == ZP {
			if last != nil && lastEnd == k && last["acc"] == acc {
				last["cnt"] = last["cnt"].(int) + 1
				lastEnd = k + 1
				continue
			}
			out = append(out, rec)
			last, lastEnd = rec, k+1
			continue
		}
		last = nil
		if nnz > 0 {
			smp := []int{}
			for _, o := range vfSampleOffs {
				if o < len(pg.Value) {
					smp = append(smp, int(pg.Value[o]))
				}
			}
			rec["smp"] = smp
			first, lastnz := -1, -1
			for i, b := range pg.Value {
				if b != 0 {
					if first < 0 {
						first = i
					}
					lastnz = i
				}
			}
			rec["fnz"] = []int{first, int(pg.Value[first])}
			rec["lnz"] = []int{lastnz, int(pg.Value[lastnz])}
			if nnz <= vfSparseMax {
				nz := [][]int{}
				for i, b := range pg.Value {
					if b != 0 {
						nz = append(nz, []int{i, int(b)})
					}
				}
				rec["nz"] = nz
			} else if len(pg.Value)-nnz <= vfSparseMax {
				zs := []int{}
				for i, b := range pg.Value {
					if b == 0 {
						zs = append(zs, i)
					}
				}
				rec["zs"] = zs
			}
		}
		out = append(out, rec)
	}
	return out
}

// vfMemDigest: SHA-256 over (page number, access, bytes) of every page in ascending order
func vfMemDigest(mem Memory) string {
	keys := make([]uint32, 0, len(mem.Pages))
	for k := range mem.Pages {
		keys = append(keys, k)
	}
	sort.Slice(keys, func(i, j int) bool { return keys[i] < keys[j] })
	h := sha256.New()
	var hdr [8]byte
	for _, k := range keys {
		pg := mem.Pages[k]
		binary.LittleEndian.PutUint32(hdr[:4], k)
		if pg == nil {
			binary.LittleEndian.PutUint32(hdr[4:], 0xFFFFFFFF)
			h.Write(hdr[:])
			continue
		}
		binary.LittleEndian.PutUint32(hdr[4:], uint32(pg.Access))
		h.Write(hdr[:])
		h.Write(pg.Value)
	}
	return hex.EncodeToString(h.Sum(nil))
}

func vfHeadTail(c []byte) ([]int, []int) {
	k := min(8, len(c))
	return vfd.B(c[:k]), vfd.B(c[len(c)-k:])
}

func TestVerifStdInit(t *testing.T) {
	cases := vfd.ReadCases(os.Getenv("VF_CASES"))
	out := vfd.NewOut(os.Getenv("VF_OUT"))
	defer out.Close()
	for i, c := range cases {
		blob := vfMaterialize(c["blob"])
		arg := vfMaterialize(c["arg"])
		rec := map[string]any{"id": i, "tag": c["tag"], "blob": c["blob"], "arg": c["arg"]}

		dec := map[string]any{"ok": false, "panic": "", "ol": 0, "wl": 0, "z": 0, "s": 0, "cl": 0}
		if p, msg := vfd.Guard(func() {
			cc, o, w, z, s, err := DecodeSerializedValues(append([]byte{}, blob...))
			if err == nil {
				dec["ok"], dec["ol"], dec["wl"], dec["z"], dec["s"], dec["cl"] = true, len(o), len(w), int(z), int(s), len(cc)
			}
		}); p {
			dec["panic"] = msg
		}
		rec["dec"] = dec

		res := map[string]any{"ok": false, "panic": "", "regs": [][]int{}, "clen": 0, "chead": []int{}, "ctail": []int{},
			"pages": []map[string]any{}, "hp": []int{}, "hl": []int{},
			"bsame": true, "asame": true, "re": false, "reok": false, "d1": "", "d2": "", "repanic": ""}
		// the caller's buffers, and pristine copies to compare them with afterwards
		blobBuf, argBuf := append([]byte{}, blob...), append([]byte{}, arg...)
		var mem Memory
		if p, msg := vfd.Guard(func() {
			code, regs, m, reason := SingleInitializer(StandardCodeFormat(blobBuf), Argument(argBuf))
			mem = m
			if reason == ExitContinue {
				res["ok"] = true
				rr := make([][]int, 13)
				for j := range regs {
					rr[j] = vfd.U64LE(regs[j])
				}
				res["regs"] = rr
				res["clen"] = len(code)
				res["chead"], res["ctail"] = vfHeadTail(code)
				res["pages"] = vfProjectPages(mem)
				res["hp"], res["hl"] = vfd.U64LE(mem.heapPointer), vfd.U64LE(mem.heapLimit)
			}
		}); p {
			res["panic"] = msg
		}
		// Y is a function of (p, a) and the machine owns its memory: let the "guest" store a marker into every
		// writable page through the Memory API, then look at the caller's buffers again and initialise a second
		// time from the very same buffers.  Skipped above 8192 pages (the 268 MB heap case) for cost.
		if res["ok"] == true && res["panic"] == "" && len(mem.Pages) <= 8192 {
			res["re"] = true
			if p, msg := vfd.Guard(func() {
				res["d1"] = vfMemDigest(mem)
				marker := []byte{0xA5, 0x5A, 0xC3, 0x3C, 0x96, 0x69, 0xF0, 0x0F}
				for pn, pg := range mem.Pages {
					if pg != nil && pg.Access == MemoryReadWrite && len(pg.Value) == ZP {
						mem.Write(uint64(pn)*ZP, marker)
						mem.Write(uint64(pn)*ZP+ZP-8, marker)
						mem.Write(uint64(pn)*ZP+2044, marker)
					}
				}
				res["bsame"], res["asame"] = bytes.Equal(blobBuf, blob), bytes.Equal(argBuf, arg)
				_, regs2, mem2, reason2 := SingleInitializer(StandardCodeFormat(blobBuf), Argument(argBuf))
				res["reok"] = reason2 == ExitContinue
				if reason2 == ExitContinue {
					h := vfMemDigest(mem2)
					rr := res["regs"].([][]int)
					for j := range regs2 {
						if fmt.Sprint(vfd.U64LE(regs2[j])) != fmt.Sprint(rr[j]) {
							h += "+regs"
							break
						}
					}
					res["d2"] = h
				}
			}); p {
				res["repanic"] = msg
			}
		}
		rec["res"] = res
		out.Emit(rec)
	}
}

package griddrv

// X-step driver for C29: executes the grid / preferred-initiator functions of
// internal/networking/validator on the cases produced by Grid_Gen (and seeded cases added by
// checks/c29.py) and records what they returned.  No expectations are computed here.

import (
	"crypto/sha256"
	"encoding/binary"
	"testing"

	"github.com/New-JAMneration/JAM-Protocol/internal/networking/validator"
	"github.com/New-JAMneration/JAM-Protocol/internal/types"
	"github.com/New-JAMneration/JAM-Protocol/internal/verifdrv/vfd"
)

var seed uint64

func fill(dst []byte, tag byte, id int) {
	var in [17]byte
	binary.LittleEndian.PutUint64(in[0:], seed)
	binary.LittleEndian.PutUint64(in[8:], uint64(id))
	in[16] = tag
	ctr := 0
	for off := 0; off < len(dst); off += 32 {
		h := sha256.Sum256(append(in[:], byte(ctr)))
		copy(dst[off:], h[:])
		ctr++
	}
}

// the validator that carries abstract key id (all four fields are functions of the id)
func val(id int) types.Validator {
	var v types.Validator
	fill(v.Ed25519[:], 1, id)
	fill(v.Bandersnatch[:], 2, id)
	fill(v.Bls[:], 3, id)
	fill(v.Metadata[:], 4, id)
	return v
}

func ints(v any) []int {
	out := []int{}
	if v == nil {
		return out
	}
	for _, x := range v.([]any) {
		out = append(out, vfd.I(x))
	}
	return out
}

func b2i(b bool) int {
	if b {
		return 1
	}
	return 0
}

func TestRun(t *testing.T) {
	seed = uint64(vfd.EnvInt("VF_SEED", 1))
	cases := vfd.ReadCases(vfd.Env("VF_CASES", "cases.ndjson"))
	out := vfd.NewOut(vfd.Env("VF_OUT", "trace.ndjson"))
	defer out.Close()
	for ci, c := range cases {
		c["c"] = ci
		switch vfd.S(c["kind"]) {
		case "width":
			n := vfd.I(c["n"])
			got := 0
			p, msg := vfd.Guard(func() { got = validator.ComputeWidth(n) })
			out.Emit(map[string]any{"ev": "width", "c": ci, "n": n, "got": got, "panic": b2i(p), "pmsg": msg})
		case "pi":
			var a, b types.Ed25519Public
			copy(a[:], vfd.Bytes(c["a"]))
			copy(b[:], vfd.Bytes(c["b"]))
			var ab, ba types.Ed25519Public
			p, msg := vfd.Guard(func() {
				ab = validator.PreferredInitiator(a, b)
				ba = validator.PreferredInitiator(b, a)
			})
			out.Emit(map[string]any{"ev": "pi", "c": ci, "a": vfd.B(a[:]), "b": vfd.B(b[:]), "ab": vfd.B(ab[:]), "ba": vfd.B(ba[:]), "panic": b2i(p), "pmsg": msg})
		case "set":
			runSet(out, c)
		}
	}
}

func runSet(out *vfd.Out, c map[string]any) {
	cur, prev, next := ints(c["cur"]), ints(c["prev"]), ints(c["next"])
	u := vfd.I(c["u"])
	back := map[types.Validator]int{}
	mk := func(ids []int) types.ValidatorsData {
		vd := make(types.ValidatorsData, 0, len(ids))
		for _, id := range ids {
			v := val(id)
			back[v] = id
			vd = append(vd, v)
		}
		return vd
	}
	g := &validator.GridMapper{Previous: mk(prev), Current: mk(cur), Next: mk(next)}
	keys := make([]types.Ed25519Public, u)
	for id := 0; id < u; id++ {
		keys[id] = val(id).Ed25519
	}
	V := len(cur)
	out.Emit(map[string]any{"ev": "Set", "c": vfd.I(c["c"]), "tag": vfd.S(c["tag"]), "cur": cur, "prev": prev, "next": next, "u": u})
	if vfd.I(c["matrix"]) == 1 {
		m := [][]int{}
		p, msg := vfd.Guard(func() {
			for a := -1; a <= V; a++ {
				row := []int{}
				for b := -1; b <= V; b++ {
					row = append(row, b2i(g.IsNeighborInEpoch(a, b)))
				}
				m = append(m, row)
			}
		})
		out.Emit(map[string]any{"ev": "matrix", "c": vfd.I(c["c"]), "m": m, "panic": b2i(p), "pmsg": msg})
	}
	// every probe's neighbour list is obtained first and HELD (the returned slices themselves, not copies) while all
	// later calls on the same GridMapper run; each probe record re-reads its held list at the end ("held")
	heldLists := map[int][]int{}
	heldPanic := false
	for _, praw := range c["probes"].([]any) {
		a := vfd.I(praw.(map[string]any)["a"])
		p, _ := vfd.Guard(func() { heldLists[a] = g.NeighborIndicesInEpoch(a) })
		heldPanic = heldPanic || p
	}
	recs := []map[string]any{}
	for _, praw := range c["probes"].([]any) {
		pm := praw.(map[string]any)
		a := vfd.I(pm["a"])
		kq := ints(pm["kq"])
		rec := map[string]any{"ev": "probe", "c": vfd.I(c["c"]), "a": a, "kq": kq}
		isn, idx, all, key := []int{}, []int{}, []int{}, []int{}
		hasx := 0
		p, msg := vfd.Guard(func() {
			for b := -1; b <= V; b++ {
				isn = append(isn, b2i(g.IsNeighborInEpoch(a, b)))
			}
			for _, i := range g.NeighborIndicesInEpoch(a) {
				idx = append(idx, i)
			}
			if a >= 0 && a < V {
				hasx = 1
				for _, v := range g.AllNeighborValidators(a) {
					id, ok := back[v]
					if !ok {
						id = -1
					}
					all = append(all, id)
				}
				vm := &validator.ValidatorManager{Grid: g, SelfIndex: a, SelfKey: g.Current[a].Ed25519}
				for _, id := range kq {
					key = append(key, b2i(vm.IsNeighbor(keys[id])))
				}
				nb := []int{}
				for _, v := range vm.GetNeighbors() {
					id, ok := back[v]
					if !ok {
						id = -1
					}
					nb = append(nb, id)
				}
				rec["getnb"] = nb
			}
		})
		if _, ok := rec["getnb"]; !ok {
			rec["getnb"] = []int{}
		}
		rec["isn"], rec["idx"], rec["hasx"], rec["all"], rec["key"] = isn, idx, hasx, all, key
		rec["panic"], rec["pmsg"] = b2i(p), msg
		recs = append(recs, rec)
	}
	for _, rec := range recs {
		held := []int{}
		for _, i := range heldLists[rec["a"].(int)] {
			held = append(held, i)
		}
		rec["held"] = held
		if heldPanic {
			rec["panic"] = 1
		}
		out.Emit(rec)
	}
}

package preimagedrv

// X-step driver for C31: replays TLC-generated cases on service_account.HistoricalLookup, the refine
// host call historical_lookup (PVM.HostCallFunctions), accumulation.ValidatePreimageExtrinsics,
// accumulation.ProcessPreimageExtrinsics (chain-state singleton) and accumulation.Provide.
// It builds the Go service states from the abstract accounts of the case, executes, and reports the
// resulting accounts in the same abstract form.  No expectation is computed here.
//
// Hash identifiers: {"k":"b","v":blob} = BLAKE2b-256(blob) (computed with x/crypto, independently of
// the repository's hash package); {"k":"x","v":32 bytes} = literal hash.

import (
	"bytes"
	"sort"
	"testing"

	"golang.org/x/crypto/blake2b"

	"github.com/New-JAMneration/JAM-Protocol/PVM"
	"github.com/New-JAMneration/JAM-Protocol/internal/accumulation"
	"github.com/New-JAMneration/JAM-Protocol/internal/blockchain"
	"github.com/New-JAMneration/JAM-Protocol/internal/service_account"
	"github.com/New-JAMneration/JAM-Protocol/internal/types"
	m "github.com/New-JAMneration/JAM-Protocol/internal/utilities/merklization"
	"github.com/New-JAMneration/JAM-Protocol/internal/verifdrv/vfd"
)

type world struct {
	blobOf map[types.OpaqueHash][]byte // hashes introduced as H(blob)
	rawOf  map[types.StateKey]rawRef   // state keys of raw lookup entries introduced by the case
}
type rawRef struct {
	sid uint32
	h   types.OpaqueHash
	n   int
}

func newWorld() *world {
	return &world{blobOf: map[types.OpaqueHash][]byte{}, rawOf: map[types.StateKey]rawRef{}}
}

func (w *world) hashOf(v any) types.OpaqueHash {
	mm := v.(map[string]any)
	b := vfd.Bytes(mm["v"])
	if vfd.S(mm["k"]) == "b" {
		h := types.OpaqueHash(blake2b.Sum256(b))
		w.blobOf[h] = append([]byte{}, b...)
		return h
	}
	var h types.OpaqueHash
	copy(h[:], b)
	return h
}

func (w *world) hashID(h types.OpaqueHash) map[string]any {
	if b, ok := w.blobOf[h]; ok {
		return map[string]any{"k": "b", "v": vfd.B(b)}
	}
	return map[string]any{"k": "x", "v": vfd.B(h[:])}
}

func u32(v any) uint32 { return uint32(vfd.FromU64LE(v)) }
func le4(x uint32) []int {
	return []int{int(byte(x)), int(byte(x >> 8)), int(byte(x >> 16)), int(byte(x >> 24))}
}

// account builds one Go service account (+ raw key-values) from its abstract form
func (w *world) account(j map[string]any) (types.ServiceID, types.ServiceAccount, types.StateKeyVals) {
	sid := types.ServiceID(u32(j["s"]))
	a := types.ServiceAccount{
		PreimageLookup: types.PreimagesMapEntry{},
		LookupDict:     types.LookupMetaMapEntry{},
		StorageDict:    types.Storage{},
	}
	var kvs types.StateKeyVals
	for _, r := range j["p"].([]any) {
		rm := r.(map[string]any)
		a.PreimageLookup[w.hashOf(rm["h"])] = types.ByteSequence(append([]byte{}, vfd.Bytes(rm["blob"])...))
	}
	for _, e := range j["l"].([]any) {
		em := e.(map[string]any)
		key := types.LookupMetaMapkey{Hash: w.hashOf(em["h"]), Length: types.U32(vfd.I(em["len"]))}
		if vfd.I(em["raw"]) == 1 {
			sk := m.EncodeDelta4Key(sid, key)
			w.rawOf[sk] = rawRef{uint32(sid), key.Hash, int(key.Length)}
			kvs = append(kvs, types.StateKeyVal{Key: sk, Value: types.ByteSequence(append([]byte{}, vfd.Bytes(em["val"])...))})
			continue
		}
		slots := types.TimeSlotSet{}
		for _, s := range em["slots"].([]any) {
			slots = append(slots, types.TimeSlot(u32(s)))
		}
		a.LookupDict[key] = slots
	}
	return sid, a, kvs
}

func (w *world) delta(js any) (types.ServiceAccountState, types.StateKeyVals) {
	d := types.ServiceAccountState{}
	var kvs types.StateKeyVals
	for _, j := range js.([]any) {
		sid, a, k := w.account(j.(map[string]any))
		d[sid] = a
		kvs = append(kvs, k...)
	}
	return d, kvs
}

// report renders the Go state back into abstract accounts (sorted for stable output)
func (w *world) report(d types.ServiceAccountState, kvs types.StateKeyVals) []any {
	sids := []int{}
	for s := range d {
		sids = append(sids, int(s))
	}
	sort.Ints(sids)
	rawBy := map[uint32][]any{}
	for _, kv := range kvs {
		if ref, ok := w.rawOf[kv.Key]; ok {
			rawBy[ref.sid] = append(rawBy[ref.sid], map[string]any{"h": w.hashID(ref.h), "len": ref.n, "slots": []any{}, "raw": 1, "val": vfd.B(kv.Value)})
		} else {
			rawBy[0xffffffff] = append(rawBy[0xffffffff], map[string]any{"h": map[string]any{"k": "x", "v": vfd.B(kv.Key[:])}, "len": 0, "slots": []any{}, "raw": 1, "val": vfd.B(kv.Value)})
		}
	}
	out := []any{}
	for _, s := range sids {
		a := d[types.ServiceID(s)]
		ps := []any{}
		hs := []types.OpaqueHash{}
		for h := range a.PreimageLookup {
			hs = append(hs, h)
		}
		sort.Slice(hs, func(i, j int) bool { return bytes.Compare(hs[i][:], hs[j][:]) < 0 })
		for _, h := range hs {
			ps = append(ps, map[string]any{"h": w.hashID(h), "blob": vfd.B(a.PreimageLookup[h])})
		}
		ks := []types.LookupMetaMapkey{}
		for k := range a.LookupDict {
			ks = append(ks, k)
		}
		sort.Slice(ks, func(i, j int) bool {
			if c := bytes.Compare(ks[i].Hash[:], ks[j].Hash[:]); c != 0 {
				return c < 0
			}
			return ks[i].Length < ks[j].Length
		})
		ls := []any{}
		for _, k := range ks {
			slots := []any{}
			for _, t := range a.LookupDict[k] {
				slots = append(slots, le4(uint32(t)))
			}
			ls = append(ls, map[string]any{"h": w.hashID(k.Hash), "len": int(k.Length), "slots": slots, "raw": 0, "val": []int{}})
		}
		ls = append(ls, rawBy[uint32(s)]...)
		out = append(out, map[string]any{"s": le4(uint32(s)), "p": ps, "l": ls})
	}
	if extra := rawBy[0xffffffff]; len(extra) > 0 {
		out = append(out, map[string]any{"s": le4(0xffffffff), "p": []any{}, "l": extra})
	}
	return out
}

func epsOf(v any) types.PreimagesExtrinsic {
	out := types.PreimagesExtrinsic{}
	for _, e := range v.([]any) {
		em := e.(map[string]any)
		out = append(out, types.Preimage{Requester: types.ServiceID(u32(em["s"])), Blob: types.ByteSequence(append([]byte{}, vfd.Bytes(em["blob"])...))})
	}
	return out
}

const (
	hashAddr = 0x20000
	outAddr  = 0x21000
	fill     = 170
)

func hostLookup(w *world, c map[string]any) map[string]any {
	res := map[string]any{"exit": "", "w7": []int{}, "out": []int{}, "panic": ""}
	sid, a, _ := w.account(c["acct"].(map[string]any))
	h := w.hashOf(c["h"])
	p, msg := vfd.Guard(func() {
		d := types.ServiceAccountState{sid: a}
		hp := &PVM.Page{Value: make([]byte, PVM.ZP), Access: PVM.MemoryReadOnly}
		copy(hp.Value, h[:])
		op := &PVM.Page{Value: bytes.Repeat([]byte{fill}, PVM.ZP), Access: PVM.MemoryReadWrite}
		mem := &PVM.Memory{Pages: map[uint32]*PVM.Page{hashAddr / PVM.ZP: hp, outAddr / PVM.ZP: op}}
		var regs PVM.Registers
		switch vfd.I(c["sel"]) {
		case 0:
			regs[7] = ^uint64(0)
		case 1:
			regs[7] = uint64(sid)
		default:
			regs[7] = uint64(sid) + 1000
		}
		regs[8], regs[9] = hashAddr, outAddr
		regs[10], regs[11] = uint64(vfd.I(c["f"])), uint64(vfd.I(c["n"]))
		gas := PVM.Gas(1000)
		own := sid
		in := PVM.OmegaInput{
			Operation: PVM.HistoricalLookupOp,
			VM:        &PVM.VMState{Registers: &regs, Memory: mem, Gas: &gas},
			Addition: PVM.HostCallArgs{
				GeneralArgs: PVM.GeneralArgs{ServiceID: &own, ServiceAccountState: &d, ServiceAccount: &a},
				RefineArgs:  PVM.RefineArgs{TimeSlot: types.TimeSlot(u32(c["t"]))},
			},
			HostCalls: PVM.RefineOmegas,
		}
		o := PVM.HostCallFunctions[PVM.HistoricalLookupOp](in)
		switch o.ExitReason {
		case PVM.ExitContinue:
			res["exit"] = "continue"
		case PVM.ExitPanic:
			res["exit"] = "panic"
		case PVM.ExitOOG:
			res["exit"] = "oog"
		default:
			res["exit"] = "other"
		}
		res["w7"] = vfd.U64LE(regs[7])
		res["out"] = vfd.B(op.Value[:16])
	})
	if p {
		res["panic"] = msg
	}
	return res
}

func TestRun(t *testing.T) {
	cases := vfd.ReadCases(vfd.Env("VF_CASES", "cases.ndjson"))
	out := vfd.NewOut(vfd.Env("VF_OUT", "trace.ndjson"))
	defer out.Close()
	for _, c := range cases {
		w := newWorld()
		res := map[string]any{}
		switch vfd.S(c["ev"]) {
		case "Lookup":
			_, a, _ := w.account(c["acct"].(map[string]any))
			h := w.hashOf(c["h"])
			r := map[string]any{"found": 0, "blob": []int{}, "panic": ""}
			p, msg := vfd.Guard(func() {
				v := service_account.HistoricalLookup(a, types.TimeSlot(u32(c["t"])), h)
				if v != nil {
					r["found"] = 1
					r["blob"] = vfd.B(v)
				}
			})
			if p {
				r["panic"] = msg
			}
			res["fn"] = r
			res["host"] = hostLookup(w, c)
		case "Validate":
			d, kvs := w.delta(c["delta"])
			r := map[string]any{"ok": 0, "err": "", "panic": ""}
			p, msg := vfd.Guard(func() {
				err := accumulation.ValidatePreimageExtrinsics(epsOf(c["eps"]), d, &kvs)
				if err == nil {
					r["ok"] = 1
				} else {
					r["err"] = err.Error()
				}
			})
			if p {
				r["panic"] = msg
			}
			res["validate"] = r
		case "Process":
			d, kvs := w.delta(c["delta"])
			r := map[string]any{"delta": []any{}, "err": "", "panic": ""}
			p, msg := vfd.Guard(func() {
				blockchain.ResetInstance()
				cs := blockchain.GetInstance()
				tau := types.TimeSlot(u32(c["tau"]))
				cs.AddBlock(types.Block{Header: types.Header{Slot: tau}, Extrinsic: types.Extrinsic{Preimages: epsOf(c["eps"])}})
				cs.GetIntermediateStates().SetDeltaDoubleDagger(d)
				cs.GetPosteriorStates().SetTau(tau)
				cs.SetPostStateUnmatchedKeyVals(kvs)
				if err := accumulation.ProcessPreimageExtrinsics(); err != nil {
					r["err"] = err.Error()
					return
				}
				r["delta"] = w.report(cs.GetPosteriorStates().GetDelta(), cs.GetPostStateUnmatchedKeyVals())
			})
			if p {
				r["panic"] = msg
			}
			res["process"] = r
		case "Provide":
			d, kvs := w.delta(c["delta"])
			r := map[string]any{"delta": []any{}, "err": "", "panic": ""}
			p, msg := vfd.Guard(func() {
				blockchain.ResetInstance()
				blockchain.GetInstance().GetPosteriorStates().SetTau(types.TimeSlot(u32(c["tau"])))
				var sb types.ServiceBlobs
				for _, e := range epsOf(c["eps"]) {
					sb = append(sb, types.ServiceBlob{ServiceID: e.Requester, Blob: e.Blob})
				}
				d2, err := accumulation.Provide(d, sb)
				if err != nil {
					r["err"] = err.Error()
					return
				}
				r["delta"] = w.report(d2, kvs)
			})
			if p {
				r["panic"] = msg
			}
			res["provide"] = r
		default:
			continue
		}
		c["res"] = res
		out.Emit(c)
	}
}

package sealingdrv

// X-step driver for X03 (header / sealing / entropy part of the block transition, GP 5.x and
// 6.15-6.24, 6.27, 6.28).  Cross-package driver (overlay-only package internal/verifdrv/sealing).
// It materialises generated block histories: a minimal well-formed full state (after
// harness/nodeimport's synthetic genesis) whose Safrole components come from the case, fully
// sealed blocks built with the VRF stand-in (chosen seal / entropy-source outputs, tickets with
// chosen identifiers), imports each block through stf.RunSTF() on the singleton the way
// FuzzServiceStub.ImportBlock does (prior state decoded from its serialisation, block added,
// RunSTF, posterior serialised) and records the verdict and the posterior Safrole state.  It
// only executes and records; spec/stf/Sealing_Trace.tla judges.
//
// Case (one line):
//   {"ev":"Hist","P":{"E","Y","N","V","K"},"U":n,"base":[4 LE bytes],
//    "init":{"tau","ga":[[id,att]..],"gs":{"t":[[id,att]..],"k":[key..]},"eta":[i0..i3],
//            "kappa":[key..],"gammak":[..],"lambda":[..],"iota":[..]},
//    "blocks":[{"slot","adv","ce","rk","tab","d" (name of the defect, echoed for statistics only),"n":[{"id","att","sig"}..],
//               "hdr":{"author":i|-1|-2,"se":2|3,
//                      "seal":{"mode":"t"|"f","att","so","key":"a"|"o","msg":"ok"|"alt","zero"},
//                      "vs":{"ys":"s"|"o","key":"a"|"o","msg":"ok"|"x","zero","yv"},
//                      "em":{"has","var":"ok"|"e0"|"e1"|"swap"|"short"},
//                      "tm":{"has","var":"ok"|"sorted"},"om":0|1,"xh":0|1,"sr":0|1}}..]}
// author -1 = the validator whose Bandersnatch key the fallback sequence names for the slot
// (worked out here with BLAKE2b, as a block author would; the specification recomputes it from
// the recorded oracle table), -2 = some other validator.  so / yv are chosen VRF outputs: a
// positive number is the ticket identifier of that rank, otherwise a hash of the number.
// The Block record states the facts about what was built (who signed what under which context);
// the specification decides from them whether each clause holds.

import (
	"bytes"
	"crypto/sha256"
	"encoding/binary"
	"sort"
	"testing"

	"github.com/New-JAMneration/JAM-Protocol/internal/blockchain"
	"github.com/New-JAMneration/JAM-Protocol/internal/stf"
	"github.com/New-JAMneration/JAM-Protocol/internal/types"
	"github.com/New-JAMneration/JAM-Protocol/internal/utilities"
	m "github.com/New-JAMneration/JAM-Protocol/internal/utilities/merklization"
	"github.com/New-JAMneration/JAM-Protocol/internal/verifdrv/vfd"
	"github.com/New-JAMneration/JAM-Protocol/logger"
	vrf "github.com/New-JAMneration/JAM-Protocol/pkg/Rust-VRF/vrf-func-ffi/src"
	"golang.org/x/crypto/blake2b"
)

// ---- identifier universe (same construction as harness/safrole) ----------------------------

type universe struct {
	ids  [][32]byte
	rank map[[32]byte]int
}

var universes = map[int]*universe{}

func uni(n int) *universe {
	if u, ok := universes[n]; ok {
		return u
	}
	seen := map[[32]byte]bool{}
	var ids [][32]byte
	add := func(b [32]byte) {
		if !seen[b] && len(ids) < n {
			seen[b] = true
			ids = append(ids, b)
		}
	}
	var z, one, ff, p1, p2, hi, hi2 [32]byte
	one[31] = 1
	for i := range ff {
		ff[i], p1[i], p2[i] = 0xFF, 0x6D, 0x6D
	}
	p2[31], hi[0], hi2[0], hi2[1] = 0x6E, 0x80, 0x7F, 0xFF
	for _, b := range [][32]byte{z, one, p1, p2, hi, hi2, ff} {
		add(b)
	}
	for i := 0; len(ids) < n; i++ {
		var s [8]byte
		binary.LittleEndian.PutUint64(s[:], uint64(i))
		add(sha256.Sum256(append([]byte("vf-ticket-id"), s[:]...)))
	}
	sort.Slice(ids, func(a, b int) bool { return bytes.Compare(ids[a][:], ids[b][:]) < 0 })
	u := &universe{ids: ids, rank: map[[32]byte]int{}}
	for i, b := range ids {
		u.rank[b] = i + 1
	}
	universes[n] = u
	return u
}

// a chosen VRF output: rank >= 1 of the universe, else a hash of the number
func (u *universe) out(k int) [32]byte {
	if k >= 1 && k <= len(u.ids) {
		return u.ids[k-1]
	}
	return sha256.Sum256([]byte{'o', 'u', 't', byte(k), byte(k >> 8), byte(k >> 16)})
}

func (u *universe) bodies(v any) types.TicketsAccumulator {
	out := types.TicketsAccumulator{}
	for _, x := range list(v) {
		p := x.([]any)
		out = append(out, types.TicketBody{ID: types.TicketID(u.out(vfd.I(p[0]))), Attempt: types.TicketAttempt(vfd.I(p[1]))})
	}
	return out
}

func (u *universe) pairs(ts []types.TicketBody) [][]int {
	out := [][]int{}
	for _, t := range ts {
		r, ok := u.rank[[32]byte(t.ID)]
		if !ok {
			r = -1
		}
		out = append(out, []int{r, int(t.Attempt)})
	}
	return out
}

func list(v any) []any {
	if v == nil {
		return nil
	}
	return v.([]any)
}

// ---- validators ----------------------------------------------------------------------------

func keyBytes(tag string, k int, n int) []byte {
	out := []byte{}
	for i := 0; len(out) < n; i++ {
		h := sha256.Sum256([]byte{tag[0], tag[1], byte(k), byte(k >> 8), byte(i)})
		out = append(out, h[:]...)
	}
	return out[:n]
}

func validator(k int) types.Validator {
	var v types.Validator
	if k == 0 {
		return v
	}
	copy(v.Bandersnatch[:], keyBytes("bk", k, 32))
	copy(v.Ed25519[:], keyBytes("ek", k, 32))
	copy(v.Bls[:], keyBytes("bl", k, 144))
	copy(v.Metadata[:], keyBytes("md", k, 128))
	return v
}

func validators(v any) types.ValidatorsData {
	out := types.ValidatorsData{}
	for _, x := range list(v) {
		out = append(out, validator(vfd.I(x)))
	}
	return out
}

var banderID = map[types.BandersnatchPublic]int{}
var wholeID = map[types.Validator]int{}

func initKeys() {
	for k := 0; k < 300; k++ {
		v := validator(k)
		banderID[v.Bandersnatch] = k
		wholeID[v] = k
	}
}

func keyIDs(vs types.ValidatorsData) []int {
	out := []int{}
	for _, v := range vs {
		if k, ok := wholeID[v]; ok {
			out = append(out, k)
		} else {
			out = append(out, -1)
		}
	}
	return out
}

func banderIDs(ks []types.BandersnatchPublic) []int {
	out := []int{}
	for _, b := range ks {
		if k, ok := banderID[b]; ok {
			out = append(out, k)
		} else {
			out = append(out, -1)
		}
	}
	return out
}

func entropy(i int) types.Entropy {
	return types.Entropy(sha256.Sum256([]byte{'e', 't', 'a', byte(i), byte(i >> 8), byte(i >> 16)}))
}

func ringOf(vs types.ValidatorsData) []byte {
	ring := []byte{}
	for _, v := range vs {
		ring = append(ring, v.Bandersnatch[:]...)
	}
	return ring
}

func setParams(p map[string]any) map[string]int {
	types.EpochLength = vfd.I(p["E"])
	types.SlotSubmissionEnd = vfd.I(p["Y"])
	types.TicketsPerValidator = vfd.I(p["N"])
	types.ValidatorsCount = vfd.I(p["V"])
	types.MaxTicketsPerBlock = vfd.I(p["K"])
	types.ValidatorsSuperMajority = types.ValidatorsCount*2/3 + 1
	return map[string]int{"E": types.EpochLength, "Y": types.SlotSubmissionEnd, "N": types.TicketsPerValidator,
		"V": types.ValidatorsCount, "K": types.MaxTicketsPerBlock}
}

// ---- a minimal well-formed state (after harness/nodeimport genesisState) ---------------------

func baseState() types.State {
	st := blockchain.NewPriorStates().GetState()
	for c := range st.Varphi {
		st.Varphi[c] = make(types.AuthQueue, types.AuthQueueSize)
	}
	for c := range st.Alpha {
		st.Alpha[c] = types.AuthPool{}
	}
	st.Pi.ValsCurr = make(types.ValidatorsStatistics, types.ValidatorsCount)
	st.Pi.ValsLast = make(types.ValidatorsStatistics, types.ValidatorsCount)
	st.Pi.Cores = make(types.CoresStatistics, types.CoresCount)
	st.Pi.Services = types.ServicesStatistics{}
	st.Chi.AlwaysAccum = types.AlwaysAccumulateMap{}
	st.Beta.History = types.BlocksHistory{}
	st.Gamma.GammaA = types.TicketsAccumulator{}
	return st
}

func oracle(r types.Entropy, n int) [][][]int {
	tab := [][][]int{}
	for i := 0; i < n; i++ {
		in := append(append([]byte{}, r[:]...), byte(i), byte(i>>8), byte(i>>16), byte(i>>24))
		h := blake2b.Sum256(in)
		tab = append(tab, [][]int{vfd.B(in), vfd.B(h[:])})
	}
	return tab
}

// the fallback sequence F(r, k) restated for building blocks (GP 6.26); not the oracle
func fallbackKeys(r types.Entropy, vs types.ValidatorsData) []types.BandersnatchPublic {
	keys := make([]types.BandersnatchPublic, types.EpochLength)
	for i := range keys {
		in := append(append([]byte{}, r[:]...), byte(i), byte(i>>8), byte(i>>16), byte(i>>24))
		d := blake2b.Sum256(in)
		idx := binary.LittleEndian.Uint32(d[:4]) % uint32(len(vs))
		keys[i] = vs[idx].Bandersnatch
	}
	return keys
}

func outsideIn(s types.TicketsAccumulator) []types.TicketBody {
	out := make([]types.TicketBody, 0, len(s))
	for i, j := 0, len(s)-1; i <= j; i, j = i+1, j-1 {
		out = append(out, s[i])
		if i != j {
			out = append(out, s[j])
		}
	}
	return out
}

func gsOut(u *universe, gs types.TicketsOrKeys) map[string]any {
	return map[string]any{"t": u.pairs(gs.Tickets), "k": banderIDs(gs.Keys)}
}

func etaOut(eta types.EntropyBuffer) [][]int {
	out := [][]int{}
	for i := range eta {
		out = append(out, vfd.B(eta[i][:]))
	}
	return out
}

func stateOut(u *universe, st *types.State) map[string]any {
	return map[string]any{"ga": u.pairs(st.Gamma.GammaA), "gs": gsOut(u, st.Gamma.GammaS), "eta": etaOut(st.Eta),
		"kappa": keyIDs(st.Kappa), "gammak": keyIDs(st.Gamma.GammaK), "lambda": keyIDs(st.Lambda)}
}

func runHist(out *vfd.Out, c map[string]any) {
	par := setParams(c["P"].(map[string]any))
	u := uni(vfd.I(c["U"]))
	base := uint32(vfd.FromU64LE(c["base"]))
	init := c["init"].(map[string]any)
	st := baseState()
	st.Tau = types.TimeSlot(base + uint32(vfd.I(init["tau"])))
	st.Gamma.GammaA = u.bodies(init["ga"])
	gs := init["gs"].(map[string]any)
	if t := u.bodies(gs["t"]); len(t) > 0 {
		st.Gamma.GammaS.Tickets = t
	}
	for _, v := range validators(gs["k"]) {
		st.Gamma.GammaS.Keys = append(st.Gamma.GammaS.Keys, v.Bandersnatch)
	}
	for i, x := range list(init["eta"]) {
		st.Eta[i] = entropy(vfd.I(x))
	}
	st.Kappa, st.Gamma.GammaK, st.Lambda, st.Iota = validators(init["kappa"]), validators(init["gammak"]), validators(init["lambda"]), validators(init["iota"])
	copy(st.Gamma.GammaZ[:], vrf.Commitment(ringOf(st.Gamma.GammaK)))
	kv, err := m.StateEncoder(st)
	if err != nil {
		panic(err)
	}
	{
		ps, _, err := m.StateKeyValsToState(kv.DeepCopy())
		if err != nil {
			panic(err)
		}
		rec := stateOut(u, &ps)
		rec["ev"], rec["P"], rec["U"], rec["base"], rec["tau"], rec["iota"] = "Reset", par, vfd.I(c["U"]), c["base"], vfd.I(init["tau"]), keyIDs(ps.Iota)
		out.Emit(rec)
	}
	parent := types.HeaderHash(sha256.Sum256([]byte("verif-x03-parent")))

	for bi, bx := range list(c["blocks"]) {
		b := bx.(map[string]any)
		hdesc := b["hdr"].(map[string]any)
		ps, unmatched, err := m.StateKeyValsToState(kv.DeepCopy())
		if err != nil {
			panic(err)
		}
		slot := base + uint32(vfd.I(b["slot"]))
		ce, se := vfd.I(b["ce"]), vfd.I(hdesc["se"])

		// ---- tickets extrinsic (as harness/safrole)
		ringSet := ps.Gamma.GammaK
		if vfd.S(b["rk"]) == "i" {
			ringSet = ps.Iota
		}
		var ext types.Extrinsic
		nEcho := []map[string]any{}
		for _, tx := range list(b["n"]) {
			t := tx.(map[string]any)
			id := u.out(vfd.I(t["id"]))
			att := vfd.I(t["att"])
			ctx := append(append([]byte("jam_ticket_seal"), ps.Eta[ce&3][:]...), byte(att))
			var env types.TicketEnvelope
			env.Attempt = types.TicketAttempt(att)
			copy(env.Signature[:], vrf.ForgeRing(ringOf(ringSet), ctx, []byte{}, id[:]))
			ext.Tickets = append(ext.Tickets, env)
			nEcho = append(nEcho, map[string]any{"id": vfd.I(t["id"]), "att": att, "sig": "ok"})
		}

		// ---- header
		var hd types.Header
		hd.Parent = parent
		hd.Slot = types.TimeSlot(slot)
		hd.OffendersMark = types.OffendersMark{}
		if vfd.I(hdesc["om"]) == 1 {
			hd.OffendersMark = types.OffendersMark{validator(200).Ed25519}
		}
		hd.ParentStateRoot = m.MerklizationSerializedState(kv.DeepCopy())
		if vfd.I(hdesc["sr"]) == 1 {
			hd.ParentStateRoot[31] ^= 1
		}
		xh, err := utilities.CreateExtrinsicHash(ext)
		if err != nil {
			panic(err)
		}
		hd.ExtrinsicHash = xh
		if vfd.I(hdesc["xh"]) == 1 {
			hd.ExtrinsicHash[0] ^= 0x80
		}
		// epoch mark
		emd := hdesc["em"].(map[string]any)
		emRec := map[string]any{"has": 0, "e0": []int{}, "e1": []int{}, "v": []int{}}
		if vfd.I(emd["has"]) == 1 {
			em := &types.EpochMark{Entropy: ps.Eta[0], TicketsEntropy: ps.Eta[1]}
			vs := append(types.ValidatorsData{}, ps.Iota...)
			switch vfd.S(emd["var"]) {
			case "e0":
				em.Entropy = ps.Eta[1]
			case "e1":
				em.TicketsEntropy = ps.Eta[2]
			case "swap":
				vs[0], vs[1] = vs[1], vs[0]
			case "short":
				vs = vs[:len(vs)-1]
			}
			for _, k := range vs {
				em.Validators = append(em.Validators, types.EpochMarkValidatorKeys{Bandersnatch: k.Bandersnatch, Ed25519: k.Ed25519})
			}
			hd.EpochMark = em
			emRec = map[string]any{"has": 1, "e0": vfd.B(em.Entropy[:]), "e1": vfd.B(em.TicketsEntropy[:]), "v": keyIDs(vs)}
		}
		// tickets mark
		tmd := hdesc["tm"].(map[string]any)
		tmRec := map[string]any{"has": 0, "t": [][]int{}}
		if vfd.I(tmd["has"]) == 1 {
			var tm types.TicketsMark
			if vfd.S(tmd["var"]) == "sorted" {
				tm = append(types.TicketsMark{}, ps.Gamma.GammaA...)
			} else {
				tm = types.TicketsMark(outsideIn(ps.Gamma.GammaA))
			}
			// the header codec carries exactly E entries: pad / cut a mark built from a part-filled accumulator
			for i := 0; len(tm) < types.EpochLength; i++ {
				tm = append(tm, types.TicketBody{ID: types.TicketID(u.out(-50 - i))})
			}
			tm = tm[:types.EpochLength]
			hd.TicketsMark = &tm
			tmRec = map[string]any{"has": 1, "t": u.pairs(tm)}
		}
		// who would rightfully author this slot under the fallback sequence (a block author's own computation)
		epochChange := slot/uint32(types.EpochLength) > uint32(ps.Tau)/uint32(types.EpochLength)
		kappa2 := ps.Kappa
		if epochChange {
			kappa2 = ps.Gamma.GammaK
		}
		author := vfd.I(hdesc["author"])
		if author < 0 {
			keys := ps.Gamma.GammaS.Keys
			if epochChange {
				keys = fallbackKeys(ps.Eta[1], kappa2)
			}
			rightful, other := 0, 0
			if len(keys) == types.EpochLength {
				want := keys[slot%uint32(types.EpochLength)]
				for i, k := range kappa2 {
					if k.Bandersnatch == want {
						rightful = i
					} else {
						other = i
					}
				}
			}
			if author == -1 {
				author = rightful
			} else {
				author = other
			}
		}
		hd.AuthorIndex = types.ValidatorIndex(author)
		signer := func(which string) (types.BandersnatchPublic, int) {
			i := author
			if i >= len(kappa2) {
				i = 0
			}
			if which == "o" {
				i = (i + 1) % len(kappa2)
			}
			return kappa2[i].Bandersnatch, banderID[kappa2[i].Bandersnatch]
		}
		// seal output and context; the entropy source signs over Y(H_s), so it is made first
		sd := hdesc["seal"].(map[string]any)
		vd := hdesc["vs"].(map[string]any)
		so := vfd.I(sd["so"])
		sout := u.out(so)
		var sctx []byte
		sealRec := map[string]any{"str": vfd.S(sd["mode"]), "eta": vfd.B(ps.Eta[se&3][:]), "att": -1, "so": so, "msg": 1, "key": -1}
		if vfd.S(sd["mode"]) == "t" {
			sctx = append(append([]byte("jam_ticket_seal"), ps.Eta[se&3][:]...), byte(vfd.I(sd["att"])))
			sealRec["att"] = vfd.I(sd["att"])
		} else {
			sctx = append([]byte("jam_fallback_seal"), ps.Eta[se&3][:]...)
		}
		vsRec := map[string]any{"key": -1, "ys": so, "msg": 1, "yv": vfd.I(vd["yv"])}
		yv := u.out(-1000 - vfd.I(vd["yv"]))
		if vfd.I(vd["zero"]) == 1 {
			yv = [32]byte{}
		} else {
			ys := sout
			if vfd.S(vd["ys"]) == "o" {
				ys = u.out(-7)
				vsRec["ys"] = -7
			}
			vk, vkid := signer(vfd.S(vd["key"]))
			vsRec["key"] = vkid
			var vmsg []byte
			if vfd.S(vd["msg"]) == "x" {
				vmsg = []byte{1}
				vsRec["msg"] = 0
			}
			copy(hd.EntropySource[:], vrf.ForgeIETF(vk[:], append([]byte("jam_entropy"), ys[:]...), vmsg, yv[:]))
		}
		vsRec["yvb"] = vfd.B(yv[:])
		if vfd.I(sd["zero"]) == 1 {
			sealRec["so"], sealRec["zero"] = 1, 1 // Y of an all-zero seal is the zero hash (identifier rank 1)
			if vfd.I(vd["zero"]) != 1 && vfd.S(vd["ys"]) != "o" {
				// keep the entropy source consistent with the seal actually carried
				vk, _ := signer(vfd.S(vd["key"]))
				var z [32]byte
				copy(hd.EntropySource[:], vrf.ForgeIETF(vk[:], append([]byte("jam_entropy"), z[:]...), nil, yv[:]))
				vsRec["ys"] = 1
			}
		} else {
			sk, skid := signer(vfd.S(sd["key"]))
			sealRec["key"] = skid
			msg, err := utilities.HeaderUSerialization(hd)
			if err != nil {
				panic(err)
			}
			copy(hd.Seal[:], vrf.ForgeIETF(sk[:], sctx, msg, sout[:]))
			if vfd.S(sd["msg"]) == "alt" {
				hd.Parent[5] ^= 1 // the header changes after it was sealed
				sealRec["msg"] = 0
			}
		}
		h0in := append(append([]byte{}, ps.Eta[0][:]...), yv[:]...)
		h0 := blake2b.Sum256(h0in)

		rec := map[string]any{"ev": "Block", "d": vfd.S(b["d"]), "slot": vfd.I(b["slot"]), "adv": vfd.I(b["adv"]), "ce": ce, "rk": vfd.S(b["rk"]), "off": []int{}, "n": nEcho,
			"author": author, "seal": sealRec, "vs": vsRec, "emh": emRec, "tmh": tmRec, "om": vfd.I(hdesc["om"]), "xh": 1 - vfd.I(hdesc["xh"]), "sr": 1 - vfd.I(hdesc["sr"]),
			"h0": [][]int{vfd.B(h0in), vfd.B(h0[:])}, "tab": [][][][]int{}}
		if vfd.I(b["tab"]) == 1 {
			rec["tab"] = [][][][]int{oracle(ps.Eta[ce&3], types.EpochLength)}
		}

		// ---- import: what FuzzServiceStub.ImportBlock does around stf.RunSTF()
		var cs *blockchain.ChainState
		var protoErr bool
		var rerr error
		panicked, msg := vfd.Guard(func() {
			blockchain.ClearVerifierCache()
			blockchain.ResetInstance()
			cs = blockchain.GetInstance()
			cs.GetPriorStates().SetState(ps)
			cs.SetPriorStateUnmatchedKeyVals(unmatched)
			cs.SetPostStateUnmatchedKeyVals(unmatched.DeepCopy())
			cs.AddBlock(types.Block{Header: hd, Extrinsic: ext})
			protoErr, rerr = stf.RunSTF()
		})
		empty := map[string]any{"ga": [][]int{}, "gs": map[string]any{"t": [][]int{}, "k": []int{}}, "eta": [][]int{}, "kappa": []int{}, "gammak": []int{}, "lambda": []int{}}
		if panicked {
			rec["ev"], rec["msg"] = "GoPanic", msg
			rec["ok"], rec["err"], rec["post"] = false, "panic", empty
			out.Emit(rec)
			continue
		}
		if rerr != nil {
			rec["ok"], rec["err"], rec["proto"], rec["post"] = false, rerr.Error(), protoErr, empty
			out.Emit(rec)
			continue
		}
		post := cs.GetPosteriorStates().GetState()
		pkv, err := m.StateEncoder(post)
		if err != nil {
			panic(err)
		}
		pkv = append(pkv, cs.GetPostStateUnmatchedKeyValsRef()...)
		dec, _, err := m.StateKeyValsToState(pkv.DeepCopy())
		if err != nil {
			panic(err)
		}
		rec["ok"], rec["err"], rec["proto"] = true, "", false
		rec["post"] = stateOut(u, &dec)
		if len(rec["tab"].([][][][]int)) == 0 && len(dec.Gamma.GammaS.Keys) > 0 && !sameKeys(dec.Gamma.GammaS.Keys, ps.Gamma.GammaS.Keys) {
			rec["tab"] = [][][][]int{oracle(ps.Eta[1], types.EpochLength), oracle(ps.Eta[2], types.EpochLength)}
		}
		out.Emit(rec)
		if vfd.I(b["adv"]) == 1 {
			kv = pkv
			parent = types.HeaderHash(sha256.Sum256([]byte{byte(bi), byte(slot), byte(slot >> 8), 'p'}))
		}
	}
}

func sameKeys(a, b []types.BandersnatchPublic) bool {
	if len(a) != len(b) {
		return false
	}
	for i := range a {
		if a[i] != b[i] {
			return false
		}
	}
	return true
}

func TestVerifSealing(t *testing.T) {
	logger.ConfigureLogger("main", logger.LoggerConfig{Level: "FATAL", Enabled: false})
	defer types.SetTinyMode()
	initKeys()
	cases := vfd.ReadCases(vfd.Env("VF_CASES", "cases.ndjson"))
	out := vfd.NewOut(vfd.Env("VF_OUT", "trace.ndjson"))
	defer out.Close()
	for _, c := range cases {
		if vfd.S(c["ev"]) == "Hist" {
			runHist(out, c)
		}
	}
	blockchain.ResetInstance()
	t.Logf("cases=%d events=%d", len(cases), out.N)
}

package merkledrv

// X-step driver for C18: evaluates the specification's terms with the real hash functions and
// compares with merkle_tree.N/Mb/M/C/T/Jx/Lx, VerifyMerkleProof, PagedProofs and the CE-140 co-path.

import (
	"testing"

	"github.com/New-JAMneration/JAM-Protocol/internal/networking/handler/ce"
	"github.com/New-JAMneration/JAM-Protocol/internal/types"
	"github.com/New-JAMneration/JAM-Protocol/internal/utilities/hash"
	mt "github.com/New-JAMneration/JAM-Protocol/internal/utilities/merkle_tree"
	"github.com/New-JAMneration/JAM-Protocol/internal/verifdrv/vfd"
	"github.com/New-JAMneration/JAM-Protocol/internal/work_package"
)

type cmp struct {
	F    string `json:"f"`
	Want any    `json:"want"`
	Got  any    `json:"got"`
}

func elements(v any) []types.ByteSequence {
	var out []types.ByteSequence
	for _, raw := range v.([]any) {
		m := raw.(map[string]any)
		switch vfd.S(m["kind"]) {
		case "nil":
			out = append(out, nil)
		case "empty":
			out = append(out, types.ByteSequence{})
		default:
			out = append(out, types.ByteSequence(vfd.Bytes(m["b"])))
		}
	}
	return out
}

func termSeq(v any) [][]int {
	out := [][]int{}
	for _, t := range v.([]any) {
		out = append(out, vfd.B(vfd.EvalTerm(t)))
	}
	return out
}

func hashSeq(hs []types.OpaqueHash) [][]int {
	out := [][]int{}
	for _, h := range hs {
		out = append(out, vfd.B(h[:]))
	}
	return out
}

func TestRun(t *testing.T) {
	cases := vfd.ReadCases(vfd.Env("VF_CASES", "cases.ndjson"))
	out := vfd.NewOut(vfd.Env("VF_OUT", "trace.ndjson"))
	defer out.Close()
	for _, c := range cases {
		kind := vfd.S(c["kind"])
		els := elements(c["els"])
		hf := hash.Blake2bHash
		if vfd.S(c["h"]) == "kec" {
			hf = hash.KeccakHash
		}
		rec := map[string]any{"kind": kind, "n": vfd.I(c["n"]), "pat": vfd.S(c["pat"]), "h": vfd.S(c["h"]), "idx": vfd.I(c["idx"]), "x": vfd.I(c["x"]), "verify": -1}
		var cs []cmp
		p, msg := vfd.Guard(func() {
			switch kind {
			case "roots":
				w := c["want"].(map[string]any)
				cs = append(cs, cmp{"N", vfd.B(vfd.EvalTerm(w["N"])), vfd.B(mt.N(els, hf))})
				mb := mt.Mb(els, hf)
				cs = append(cs, cmp{"Mb", vfd.B(vfd.EvalTerm(w["Mb"])), vfd.B(mb[:])})
				m := mt.M(els, hf)
				cs = append(cs, cmp{"M", vfd.B(vfd.EvalTerm(w["M"])), vfd.B(m[:])})
				cs = append(cs, cmp{"C", termSeq(c["wantC"]), hashSeq(mt.C(els, hf))})
			case "trace":
				idx := vfd.I(c["idx"])
				got := [][]int{}
				for _, b := range mt.T(els, types.U32(idx), hf) {
					got = append(got, vfd.B(b))
				}
				cs = append(cs, cmp{"T", termSeq(c["wantT"]), got})
				// the CE-140 co-path is T over the same sequence, each entry prefixed with 0x00
				raw := make([][]byte, len(els))
				for i := range els {
					raw[i] = els[i]
				}
				co, err := ce.VerifConstructMerkleCoPath(raw, uint16(idx))
				want := []int{}
				for _, t := range c["wantT"].([]any) {
					want = append(want, 0)
					want = append(want, vfd.B(vfd.EvalTerm(t))...)
				}
				if err != nil {
					co = []byte("error: " + err.Error())
				}
				cs = append(cs, cmp{"ce140.constructMerkleCoPath", want, vfd.B(co)})
			case "pagecount":
				segs := make([]types.ExportSegment, vfd.I(c["n"]))
				for i := range segs {
					segs[i][0], segs[i][1], segs[i][4103] = byte(i), byte(i>>8), 1
				}
				pages, err := work_package.PagedProofs(segs)
				got := len(pages)
				if err != nil {
					got = -1
				}
				cs = append(cs, cmp{"PagedProofs.pages", vfd.I(c["wantPages"]), got})
			case "page":
				idx, x := vfd.I(c["idx"]), vfd.I(c["x"])
				j := mt.Jx(types.U8(x), els, types.U32(idx), hf)
				cs = append(cs, cmp{"Jx", termSeq(c["wantJ"]), hashSeq(j)})
				cs = append(cs, cmp{"Lx", termSeq(c["wantL"]), hashSeq(mt.Lx(types.U8(x), els, types.U32(idx), hf))})
				if x == 0 && idx < len(els) {
					root := mt.M(els, hf)
					if mt.VerifyMerkleProof(els[idx], j, idx, hf, root) {
						rec["verify"] = 1
					} else {
						rec["verify"] = 0
					}
				}
			}
		})
		if p {
			cs = append(cs, cmp{"panic:" + msg, 0, 1})
		}
		rec["cmp"] = cs
		out.Emit(rec)
	}
}

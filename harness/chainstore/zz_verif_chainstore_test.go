package fuzz

// X-step driver for X07 (persistence of blocks and states).  In-package for internal/fuzz so that it
// can reuse the block builder of harness/nodeimport (real sealed blocks and their real posterior
// states); the ChainState under test is created over databases chosen here through the overlay-only
// shim blockchain.VerifInstallChainState.  The driver executes and records; spec/node/ChainStore_Trace.tla
// judges.
//
// A case: {"id", "n", "parent":[..], "ckind":[..], "tau0", "gap", "gapat", "provider":"memory"|"pebble",
//          "fuzz":0|1, "ops":[["commit",x,f] | ["add",x] | ["restore",x] | ["restart"]]}
//   add x      : AddBlock(x) alone, as ImportBlock does before the STF runs (a block that is never committed)
//   commit x f : what the tail of ImportBlock (x >= 1) / SetState (x = 0) does for block x and its posterior
//                state: AddBlock, install the posterior state, StateCommitWithPreComputedState + PruneOldData
//                (fuzz mode) / StateCommit; f > 0: the f-th database Put issued during it fails (injected)
//   restore x  : RestoreBlockAndState(hash of x)        (x = n+1: a hash nobody ever stored)
//   restart    : a new ChainState over the same persistent database (new in-memory repository; in fuzz
//                mode, where there is only the in-memory database, over a new one)
// After every operation the driver reads, for every block 0..n and for an unknown hash: GetStateByBlockHash,
// GetStateRootByBlockHash, GetBlockByHash, and it records the working prior state and the tip of the block
// list.  Values are named by the block they belong to (the builder knows every block's true state): kv = x
// means "exactly the key-values of block x's posterior state", -2 "something else".

import (
	"bytes"
	"errors"
	"fmt"
	"os"
	"testing"

	"github.com/New-JAMneration/JAM-Protocol/internal/blockchain"
	"github.com/New-JAMneration/JAM-Protocol/internal/database"
	"github.com/New-JAMneration/JAM-Protocol/internal/database/provider/memory"
	pebbledb "github.com/New-JAMneration/JAM-Protocol/internal/database/provider/pebble"
	"github.com/New-JAMneration/JAM-Protocol/internal/types"
	m "github.com/New-JAMneration/JAM-Protocol/internal/utilities/merklization"
	"github.com/New-JAMneration/JAM-Protocol/internal/verifdrv/vfd"
	"github.com/New-JAMneration/JAM-Protocol/logger"
)

// failDB passes everything through; while a jointCounter is installed every Put (and batch Commit) of
// every failDB is numbered in issue order and the chosen one fails
type failDB struct {
	database.Database
}

var errInjected = errors.New("verif: injected write failure")

func (f *failDB) Put(k, v []byte) error {
	if activeJoint != nil && activeJoint.next() {
		return errInjected
	}
	return f.Database.Put(k, v)
}
func (f *failDB) NewBatch() database.Batch { return &failBatch{Batch: f.Database.NewBatch()} }

type failBatch struct {
	database.Batch
}

func (b *failBatch) Commit() error {
	if activeJoint != nil && activeJoint.next() {
		return errInjected
	}
	return b.Batch.Commit()
}

func openProvider(name string) database.Database {
	if name == "pebble" {
		db, err := pebbledb.NewTestDatabase()
		if err != nil {
			panic(err)
		}
		return db
	}
	return memory.NewDatabase()
}

type csWorld struct {
	*world
	state    []types.StateKeyVals // true posterior key-values per block (0 = genesis)
	digest   []string
	roots    []types.StateRoot
	unknown  types.HeaderHash
	provider string
	fuzz     bool
	disk     *failDB
	mem      *failDB
	cs       *blockchain.ChainState
}

func (w *csWorld) nameKV(kv types.StateKeyVals) int {
	d := kvDigest(kv)
	for x, dx := range w.digest {
		if dx == d {
			return x
		}
	}
	return -2
}

func (w *csWorld) nameRoot(r types.StateRoot) int {
	for x, rx := range w.roots {
		if rx == r {
			return x
		}
	}
	return -2
}

func (w *csWorld) nameHash(h types.HeaderHash) int {
	for x, hx := range w.hashes {
		if hx == h {
			return x
		}
	}
	if h == (types.HeaderHash{}) {
		return -1
	}
	return -2
}

func (w *csWorld) open(restart bool) {
	if w.fuzz {
		os.Setenv("JAM_FUZZ", "1")
		if w.mem != nil {
			w.mem.Database.Close()
		}
		w.mem = &failDB{Database: openProvider(w.provider)} // one database serves as both repositories
		w.disk = w.mem
	} else {
		os.Setenv("JAM_FUZZ", "0")
		w.mem = &failDB{Database: memory.NewDatabase()}
		if !restart || w.disk == nil {
			w.disk = &failDB{Database: openProvider(w.provider)}
		}
	}
	w.cs = blockchain.VerifInstallChainState(w.mem, w.disk)
}

func (w *csWorld) block(x int) types.Block {
	if x == 0 {
		return types.Block{Header: genesisHeader(w.tau0)}
	}
	return w.blocks[x]
}

func (w *csWorld) commit(x, f int) (fired bool, puts int) {
	cs := w.cs
	st, un, err := m.StateKeyValsToState(w.state[x].DeepCopy())
	if err != nil {
		panic(err)
	}
	joint := &jointCounter{k: f}
	activeJoint = joint
	defer func() { activeJoint = nil }()
	cs.AddBlock(w.block(x))
	cs.SetPostStateUnmatchedKeyVals(un.DeepCopy())
	cs.GetPosteriorStates().SetState(st)
	if x == 0 {
		cs.StateCommit()
	} else {
		ser, err := m.StateEncoder(cs.GetPosteriorStates().GetState())
		if err != nil {
			panic(err)
		}
		combined := append(append(types.StateKeyVals{}, cs.GetPostStateUnmatchedKeyValsRef()...), ser...)
		root := cs.ComputeStateRootWithCache(combined)
		cs.StateCommitWithPreComputedState(w.hashes[x], root, combined)
		if w.fuzz {
			cs.PruneOldData(root, w.hashes[x], w.slots[x])
		}
	}
	return joint.fired, joint.n
}

// jointCounter numbers the Puts of both databases in the order they are issued
type jointCounter struct {
	k, n  int
	fired bool
}

var activeJoint *jointCounter

// next is called by every Put / batch Commit; true = fail this one
func (j *jointCounter) next() bool {
	j.n++
	if j.k > 0 && j.n == j.k {
		j.fired = true
		return true
	}
	return false
}

func (w *csWorld) observe(rec map[string]any) {
	cs := w.cs
	gets := []map[string]any{}
	for x := 0; x <= w.n+1; x++ {
		h := w.unknown
		if x <= w.n {
			h = w.hashes[x]
		}
		g := map[string]any{"x": x, "sfound": false, "kv": -1, "rfound": false, "root": -1, "bfound": false, "blk": -1, "parent": -1, "slot": -1}
		if kv, err := cs.GetStateByBlockHash(h); err == nil {
			g["sfound"], g["kv"] = true, w.nameKV(kv)
		}
		if r, err := cs.GetStateRootByBlockHash(h); err == nil {
			g["rfound"], g["root"] = true, w.nameRoot(r)
		}
		if b, err := cs.GetBlockByHash(h); err == nil {
			g["bfound"], g["blk"], g["parent"], g["slot"] = true, w.nameHash(hh(b.Header)), w.nameHash(b.Header.Parent), int(b.Header.Slot)
			if !bytes.Equal(mustEnc(&b.Extrinsic), mustEnc(&w.blockRef(x).Extrinsic)) {
				g["blk"] = -2
			}
		}
		gets = append(gets, g)
	}
	rec["gets"] = gets
	rec["prior"], rec["tip"] = -1, -1
	if blocks := cs.GetBlocks(); len(blocks) > 0 {
		rec["tip"] = w.nameHash(hh(cs.GetLatestBlock().Header))
	}
	if ser, err := m.StateEncoder(cs.GetPriorStates().GetState()); err == nil {
		rec["prior"] = w.nameKV(append(ser, cs.GetPriorStateUnmatchedKeyVals()...))
	}
}

func (w *csWorld) blockRef(x int) *types.Block {
	if x > w.n {
		return &types.Block{}
	}
	b := w.block(x)
	return &b
}

func mustEnc(v any) []byte {
	b, err := types.NewEncoder().Encode(v)
	if err != nil {
		return []byte(err.Error())
	}
	return b
}

func TestChainStore(t *testing.T) {
	types.SetTinyMode()
	logger.ConfigureLogger("main", logger.LoggerConfig{Enabled: false})
	cases := vfd.ReadCases(vfd.Env("VF_CASES", "cases.ndjson"))
	out := vfd.NewOut(vfd.Env("VF_OUT", "trace.ndjson"))
	defer out.Close()
	for _, c := range cases {
		os.Setenv("JAM_FUZZ", "1")
		head := map[string]any{"ev": "Scenario", "id": vfd.I(c["id"]), "n": vfd.I(c["n"]), "parent": intsOf(c["parent"]), "ckind": strsOf(c["ckind"]),
			"tau0": vfd.I(c["tau0"]), "gap": vfd.I(c["gap"]), "gapat": vfd.I(c["gapat"]), "provider": vfd.S(c["provider"]), "fuzz": vfd.I(c["fuzz"]),
			"ops": c["ops"], "built": true, "why": ""}
		bw, err := build(c)
		if err != nil {
			head["built"], head["why"] = false, err.Error()
			out.Emit(head)
			continue
		}
		w := &csWorld{world: bw, provider: vfd.S(c["provider"]), fuzz: vfd.I(c["fuzz"]) != 0, unknown: types.HeaderHash(h32([]byte("verif-unknown")))}
		// the builder kept every block's true posterior state
		w.state, w.digest, w.roots = make([]types.StateKeyVals, w.n+1), make([]string, w.n+1), make([]types.StateRoot, w.n+1)
		okBuilt := true
		for x := 0; x <= w.n; x++ {
			if x >= len(bw.states) || bw.states[x] == nil {
				okBuilt = false
				head["built"], head["why"] = false, fmt.Sprintf("no state for block %d", x)
				break
			}
			kv := bw.states[x]
			w.state[x], w.digest[x], w.roots[x] = kv, kvDigest(kv), m.MerklizationSerializedState(kv.DeepCopy())
		}
		slots := make([]int, w.n+1)
		for x := 0; x <= w.n; x++ {
			slots[x] = int(w.slots[x])
		}
		head["slots"] = slots
		out.Emit(head)
		if !okBuilt {
			continue
		}
		w.open(false)
		rec := map[string]any{"ev": "Open"}
		w.observe(rec)
		out.Emit(rec)
		for _, raw := range c["ops"].([]any) {
			op := raw.([]any)
			name := vfd.S(op[0])
			rec := map[string]any{"ev": name}
			panicked, msg := vfd.Guard(func() {
				switch name {
				case "commit":
					x, f := vfd.I(op[1]), vfd.I(op[2])
					fired, puts := w.commit(x, f)
					rec["x"], rec["f"], rec["failed"], rec["puts"] = x, f, fired, puts
				case "add":
					x := vfd.I(op[1])
					w.cs.AddBlock(w.block(x))
					rec["x"] = x
				case "restore":
					x := vfd.I(op[1])
					h := w.unknown
					if x <= w.n {
						h = w.hashes[x]
					}
					err := w.cs.RestoreBlockAndState(h)
					rec["x"], rec["ok"] = x, err == nil
				case "restart":
					w.open(true)
				}
			})
			rec["panic"] = panicked
			if panicked {
				rec["msg"] = msg
			}
			w.observe(rec)
			out.Emit(rec)
		}
		if w.disk != nil {
			w.disk.Database.Close()
		}
	}
	os.Setenv("JAM_FUZZ", "1")
}

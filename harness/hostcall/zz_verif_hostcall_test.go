package PVM

// X-step driver for C07 / C08 / C09 (in-package: Memory internals, unexported Omega functions).
// It only executes and records.  Every expected value comes from spec/host/*.tla through TLC.
//
// A case:
//   {"id":n, "grp":"...", "tab":"acc"|"ref"|"auth"|"dacc"|"dref"|"dauth",
//    "fresh":bool (every step restarts from the initial memory and context; otherwise the steps form one history),
//    "acc":[[page,"R"|"W"|"N"],..], "data":[[page,off,byte],..], "ctx":{...}, "steps":[{"id":[8],"regs":[[8]x13],"gas":[8]},..]}
// tab acc/ref/auth: the entry of AccumulateOmegas / RefineOmegas / IsAuthorizedOmegas is called on a fresh
// OmegaInput; tab d*: the two-instruction program `ecalli id; trap` is run by Host.HostCall with that table,
// so unknown identifiers take the real dispatch path (getOmega, hostCallException).
// ctx.fx (optional) describes what fetch can see: {"n":[32]|[], "r":{"has","v"}, "i":{"has","v"}, "x":[[blob..]..] (extrinsic
// data per work item), "imp":[[pattern id..]..] (import segments per item: byte j of a segment = (7 j + id) mod 251),
// "p":{"has","host","u","t","j","f","items":[{"s","h","g","a","e","ni","y"}..]}}; a step may carry "probe":[[addr(8), len, kind]..]:
// before the call the driver records FNV-1a ("fnv") or BLAKE2b ("b2b") of those guest ranges (hash primitives only).
// One trace record per step: identifiers, the full state before the call and the full state after it.

import (
	"bytes"
	"encoding/binary"
	"encoding/json"
	"sort"
	"testing"

	"github.com/New-JAMneration/JAM-Protocol/internal/service_account"
	"github.com/New-JAMneration/JAM-Protocol/internal/types"
	"github.com/New-JAMneration/JAM-Protocol/internal/utilities/hash"
	"github.com/New-JAMneration/JAM-Protocol/internal/utilities/merklization"
	"github.com/New-JAMneration/JAM-Protocol/internal/verifdrv/vfd"
)

func hcU32(v any) uint32 { return uint32(vfd.FromU64LE(v)) }
func hcLE4(x uint32) []int {
	return []int{int(byte(x)), int(byte(x >> 8)), int(byte(x >> 16)), int(byte(x >> 24))}
}
func hcList(v any) []any {
	if v == nil {
		return nil
	}
	return v.([]any)
}
func hcListOrEmpty(v any) []any {
	if l := hcList(v); l != nil {
		return l
	}
	return []any{}
}
func hcObj(v any) map[string]any {
	if v == nil {
		return map[string]any{}
	}
	return v.(map[string]any)
}

func hcFNV(parts ...[]byte) []int {
	h := uint64(14695981039346656037)
	for _, p := range parts {
		for _, b := range p {
			h ^= uint64(b)
			h *= 1099511628211
		}
		h ^= 0xff
		h *= 1099511628211
	}
	return vfd.U64LE(h)
}

// ---------------------------------------------------------------- memory

func hcBuildMem(accJ, dataJ any) *Memory {
	m := &Memory{Pages: map[uint32]*Page{}}
	for _, a := range hcList(accJ) {
		pa := a.([]any)
		acc := MemoryReadOnly
		switch vfd.S(pa[1]) {
		case "W":
			acc = MemoryReadWrite
		case "N":
			acc = MemoryInaccessible
		}
		m.Pages[uint32(vfd.I(pa[0]))] = &Page{Value: make([]byte, ZP), Access: acc}
	}
	for _, d := range hcList(dataJ) {
		t := d.([]any)
		if pg := m.Pages[uint32(vfd.I(t[0]))]; pg != nil {
			pg.Value[vfd.I(t[1])] = byte(vfd.I(t[2]))
		}
	}
	return m
}

type hcMemSnap struct {
	acc   [][]any
	pages map[uint32][]byte
}

func hcSnapMem(m *Memory) hcMemSnap {
	s := hcMemSnap{acc: [][]any{}, pages: map[uint32][]byte{}}
	keys := make([]int, 0, len(m.Pages))
	for k := range m.Pages {
		keys = append(keys, int(k))
	}
	sort.Ints(keys)
	for _, k := range keys {
		p := m.Pages[uint32(k)]
		a := "N"
		if p == nil {
			s.acc = append(s.acc, []any{k, "nil"})
			continue
		}
		if p.Access == MemoryReadOnly {
			a = "R"
		} else if p.Access == MemoryReadWrite {
			a = "W"
		}
		s.acc = append(s.acc, []any{k, a})
		s.pages[uint32(k)] = append([]byte(nil), p.Value...)
	}
	return s
}

func (s hcMemSnap) data() [][]int {
	out := [][]int{}
	for _, a := range s.acc {
		k := uint32(a[0].(int))
		for off, b := range s.pages[k] {
			if b != 0 {
				out = append(out, []int{int(k), off, int(b)})
			}
		}
	}
	return out
}

// bytes of `post` that differ from `pre` (pages present in both), plus a flag for page-size changes
func hcDiff(pre, post hcMemSnap) [][]int {
	out := [][]int{}
	for _, a := range post.acc {
		k := uint32(a[0].(int))
		pp, ok := pre.pages[k]
		np := post.pages[k]
		if !ok {
			for off, b := range np {
				if b != 0 {
					out = append(out, []int{int(k), off, int(b)})
				}
			}
			continue
		}
		for off := range np {
			if off >= len(pp) || pp[off] != np[off] {
				out = append(out, []int{int(k), off, int(np[off])})
			}
		}
	}
	return out
}

// ---------------------------------------------------------------- context

func hcAccount(j map[string]any) (types.ServiceID, types.ServiceAccount) {
	a := types.ServiceAccount{
		ServiceInfo: types.ServiceInfo{
			Balance:              types.U64(vfd.FromU64LE(j["bal"])),
			MinItemGas:           types.Gas(vfd.FromU64LE(j["g"])),
			MinMemoGas:           types.Gas(vfd.FromU64LE(j["m"])),
			Bytes:                types.U64(vfd.FromU64LE(j["oct"])),
			DepositOffset:        types.U64(vfd.FromU64LE(j["gratis"])),
			Items:                types.U32(hcU32(j["items"])),
			CreationSlot:         types.TimeSlot(hcU32(j["created"])),
			LastAccumulationSlot: types.TimeSlot(hcU32(j["last"])),
			ParentService:        types.ServiceID(hcU32(j["parent"])),
		},
		PreimageLookup: types.PreimagesMapEntry{},
		LookupDict:     types.LookupMetaMapEntry{},
		StorageDict:    types.Storage{},
	}
	copy(a.ServiceInfo.CodeHash[:], vfd.Bytes(j["code"]))
	for _, e := range hcList(j["st"]) {
		kv := e.([]any)
		a.StorageDict[string(vfd.Bytes(kv[0]))] = types.ByteSequence(vfd.Bytes(kv[1]))
	}
	for _, e := range hcList(j["lk"]) {
		o := e.(map[string]any)
		var k types.LookupMetaMapkey
		copy(k.Hash[:], vfd.Bytes(o["h"]))
		k.Length = types.U32(hcU32(o["z"]))
		ss := types.TimeSlotSet{}
		if vfd.I(o["nil"]) == 1 { // an empty list as the codec leaves it: a nil slice
			ss = nil
		}
		for _, s := range hcList(o["slots"]) {
			ss = append(ss, types.TimeSlot(hcU32(s)))
		}
		a.LookupDict[k] = ss
	}
	for _, e := range hcList(j["pre"]) {
		o := e.(map[string]any)
		var h types.OpaqueHash
		copy(h[:], vfd.Bytes(o["h"]))
		a.PreimageLookup[h] = types.ByteSequence(vfd.Bytes(o["blob"]))
	}
	return types.ServiceID(hcU32(j["id"])), a
}

func hcProjAccount(id types.ServiceID, a types.ServiceAccount) map[string]any {
	st := [][]any{}
	keys := make([]string, 0, len(a.StorageDict))
	for k := range a.StorageDict {
		keys = append(keys, k)
	}
	sort.Strings(keys)
	for _, k := range keys {
		st = append(st, []any{vfd.B([]byte(k)), vfd.B(a.StorageDict[k])})
	}
	lks := make([]types.LookupMetaMapkey, 0, len(a.LookupDict))
	for k := range a.LookupDict {
		lks = append(lks, k)
	}
	sort.Slice(lks, func(i, j int) bool {
		if c := bytes.Compare(lks[i].Hash[:], lks[j].Hash[:]); c != 0 {
			return c < 0
		}
		return lks[i].Length < lks[j].Length
	})
	lk := []any{}
	for _, k := range lks {
		ss := [][]int{}
		for _, s := range a.LookupDict[k] {
			ss = append(ss, hcLE4(uint32(s)))
		}
		lk = append(lk, map[string]any{"h": vfd.B(k.Hash[:]), "z": hcLE4(uint32(k.Length)), "slots": ss})
	}
	phs := make([]types.OpaqueHash, 0, len(a.PreimageLookup))
	for h := range a.PreimageLookup {
		phs = append(phs, h)
	}
	sort.Slice(phs, func(i, j int) bool { return bytes.Compare(phs[i][:], phs[j][:]) < 0 })
	pre := []any{}
	for _, h := range phs {
		pre = append(pre, map[string]any{"h": vfd.B(h[:]), "blob": vfd.B(a.PreimageLookup[h])})
	}
	i := a.ServiceInfo
	return map[string]any{
		"id": hcLE4(uint32(id)), "code": vfd.B(i.CodeHash[:]), "bal": vfd.U64LE(uint64(i.Balance)),
		"g": vfd.U64LE(uint64(i.MinItemGas)), "m": vfd.U64LE(uint64(i.MinMemoGas)),
		"oct": vfd.U64LE(uint64(i.Bytes)), "gratis": vfd.U64LE(uint64(i.DepositOffset)), "items": hcLE4(uint32(i.Items)),
		"created": hcLE4(uint32(i.CreationSlot)), "last": hcLE4(uint32(i.LastAccumulationSlot)),
		"parent": hcLE4(uint32(i.ParentService)), "st": st, "lk": lk, "pre": pre,
	}
}

func hcProjAccounts(m types.ServiceAccountState) []any {
	ids := make([]int, 0, len(m))
	for id := range m {
		ids = append(ids, int(id))
	}
	sort.Ints(ids)
	out := []any{}
	for _, id := range ids {
		out = append(out, hcProjAccount(types.ServiceID(id), m[types.ServiceID(id)]))
	}
	return out
}

type hcEnv struct {
	tab  string
	add  HostCallArgs
	self types.ServiceID
	// raw ("unmatched") storage key-values the driver installed: state key -> (service, storage key), so the pool can be
	// logged by service and storage key (the state-key construction itself is C15/C17's business)
	kvAttr map[types.StateKey][2][]byte
	// the same for raw lookup entries: state key -> (service, hash, length)
	kvlAttr map[types.StateKey][3][]byte
}

var regs7 uint64

func hcBuildCtx(tab string, j map[string]any) *hcEnv {
	env := &hcEnv{tab: tab}
	accounts := types.ServiceAccountState{}
	for _, s := range hcList(j["svcs"]) {
		id, a := hcAccount(s.(map[string]any))
		accounts[id] = a
	}
	self := types.ServiceID(hcU32(j["self"]))
	env.self = self
	skv := types.StateKeyVals{}
	env.kvAttr = map[types.StateKey][2][]byte{}
	for _, e := range hcList(j["kv"]) { // [service(4), storage key, value]: storage entries that live only in the raw key-value pool
		t := e.([]any)
		kvp := merklization.WrapEncodeDelta2KeyVal(types.ServiceID(hcU32(t[0])), types.ByteSequence(vfd.Bytes(t[1])), types.ByteSequence(vfd.Bytes(t[2])))
		skv = append(skv, kvp)
		env.kvAttr[kvp.Key] = [2][]byte{vfd.Bytes(t[0]), vfd.Bytes(t[1])}
	}
	env.kvlAttr = map[types.StateKey][3][]byte{}
	for _, e := range hcList(j["kvl"]) { // [service(4), hash(32), length(4), slots]: lookup entries that live only in the raw pool
		t := e.([]any)
		var lk types.LookupMetaMapkey
		copy(lk.Hash[:], vfd.Bytes(t[1]))
		lk.Length = types.U32(hcU32(t[2]))
		ss := types.TimeSlotSet{}
		for _, x := range hcList(t[3]) {
			ss = append(ss, types.TimeSlot(hcU32(x)))
		}
		kvp := merklization.EncodeDelta4KeyVal(types.ServiceID(hcU32(t[0])), lk, ss)
		skv = append(skv, kvp)
		env.kvlAttr[kvp.Key] = [3][]byte{vfd.Bytes(t[0]), vfd.Bytes(t[1]), vfd.Bytes(t[2])}
	}
	mode := tab
	if len(mode) > 0 && mode[0] == 'd' {
		mode = mode[1:]
	}
	eta := types.Entropy{}
	for i := range eta {
		eta[i] = byte(0xE0 + i%16)
	}
	switch mode {
	case "acc":
		pj := hcObj(j["priv"])
		ps := types.PartialStateSet{
			ServiceAccounts: accounts,
			ValidatorKeys:   make(types.ValidatorsData, types.ValidatorsCount),
			Authorizers:     make(types.AuthQueues, types.CoresCount),
			Bless:           types.ServiceID(hcU32(pj["bless"])),
			Designate:       types.ServiceID(hcU32(pj["designate"])),
			CreateAcct:      types.ServiceID(hcU32(pj["create"])),
			Assign:          make(types.ServiceIDList, types.CoresCount),
			AlwaysAccum:     types.AlwaysAccumulateMap{},
		}
		for c := range ps.Authorizers {
			ps.Authorizers[c] = make(types.AuthQueue, types.AuthQueueSize)
			for q := range ps.Authorizers[c] {
				ps.Authorizers[c][q][0], ps.Authorizers[c][q][31] = byte(c+1), byte(q+1) // distinct from anything a guest supplies
			}
		}
		for v := range ps.ValidatorKeys {
			ps.ValidatorKeys[v].Ed25519[0] = byte(v + 1)
		}
		for c, a := range hcList(pj["assign"]) {
			if c < len(ps.Assign) {
				ps.Assign[c] = types.ServiceID(hcU32(a))
			}
		}
		for _, e := range hcList(pj["always"]) {
			p := e.([]any)
			ps.AlwaysAccum[types.ServiceID(hcU32(p[0]))] = types.Gas(vfd.FromU64LE(p[1]))
		}
		x := ResultContext{
			ServiceID:         self,
			PartialState:      ps,
			ImportServiceID:   types.ServiceID(hcU32(j["nextid"])),
			DeferredTransfers: []types.DeferredTransfer{},
			ServiceBlobs:      map[types.OpaqueHash]types.ServiceBlob{},
			StorageKeyVal:     &skv,
		}
		for _, e := range hcList(j["xfers"]) {
			o := e.(map[string]any)
			t := types.DeferredTransfer{SenderID: types.ServiceID(hcU32(o["from"])), ReceiverID: types.ServiceID(hcU32(o["to"])),
				Balance: types.U64(vfd.FromU64LE(o["amt"])), GasLimit: types.Gas(vfd.FromU64LE(o["gas"]))}
			copy(t.Memo[:], vfd.Bytes(o["memo"]))
			x.DeferredTransfers = append(x.DeferredTransfers, t)
		}
		if y := vfd.Bytes(j["yield"]); len(y) == 32 {
			var h types.OpaqueHash
			copy(h[:], y)
			x.Exception = &h
		}
		y := x.DeepCopy()
		sa := ps.ServiceAccounts[self]
		selfCopy := self
		ops := []types.OperandOrDeferredTransfer{}
		fx := hcObj(j["fx"])
		for k := 0; k < vfd.I(fx["o"]); k++ {
			if k%2 == 0 {
				ops = append(ops, types.OperandOrDeferredTransfer{DeferredTransfer: &types.DeferredTransfer{SenderID: 7, ReceiverID: self, Balance: types.U64(5 + k), GasLimit: 9}})
			} else {
				ops = append(ops, types.OperandOrDeferredTransfer{Operand: &types.Operand{GasLimit: types.Gas(k), Result: types.WorkExecResult{Type: types.WorkExecResultOk, Data: []byte{1, 2, 3}}, AuthOutput: types.ByteSequence{9}}})
			}
		}
		eta = types.Entropy{}
		copy(eta[:], vfd.Bytes(fx["n"]))
		env.add = HostCallArgs{
			GeneralArgs: GeneralArgs{ServiceAccount: &sa, ServiceID: &selfCopy, ServiceAccountState: &x.PartialState.ServiceAccounts, StorageKeyVal: &skv},
			AccumulateArgs: AccumulateArgs{ResultContextX: x, ResultContextY: y, Timeslot: types.TimeSlot(hcU32(j["t"])), Eta: eta,
				OperandOrDeferredTransfers: ops},
		}
	case "ref":
		selfCopy := self
		core := types.CoreIndex(0)
		m := IntegratedPVMMap{}
		fx := hcObj(j["fx"])
		var idxp *uint
		if io := hcObj(fx["i"]); vfd.I(io["has"]) == 1 {
			idx := uint(vfd.I(io["v"]))
			idxp = &idx
		}
		var authp *types.ByteSequence
		if ro := hcObj(fx["r"]); vfd.I(ro["has"]) == 1 {
			auth := types.ByteSequence(vfd.Bytes(ro["v"]))
			authp = &auth
		}
		xspecs, xmap := [][]types.ExtrinsicSpec{}, ExtrinsicDataMap{}
		for _, it := range hcList(fx["x"]) {
			row := []types.ExtrinsicSpec{}
			for _, b := range hcList(it) {
				blob := vfd.Bytes(b)
				h := hash.Blake2bHash(blob)
				row = append(row, types.ExtrinsicSpec{Hash: h, Len: types.U32(len(blob))})
				xmap[h] = ExtrinsicData(blob)
			}
			xspecs = append(xspecs, row)
		}
		imps := [][]types.ExportSegment{}
		for _, it := range hcList(fx["imp"]) {
			row := []types.ExportSegment{}
			for _, pid := range hcList(it) {
				var sg types.ExportSegment
				for q := range sg {
					sg[q] = byte((7*(q+1) + vfd.I(pid)) % 251)
				}
				row = append(row, sg)
			}
			imps = append(imps, row)
		}
		wp := hcWorkPackage(hcObj(fx["p"]), xspecs)
		exp := []types.ExportSegment{}
		for i := 0; i < vfd.I(j["nexp"]); i++ {
			var s types.ExportSegment
			s[0] = byte(i + 1)
			exp = append(exp, s)
		}
		env.add = HostCallArgs{
			GeneralArgs: GeneralArgs{ServiceID: &selfCopy, ServiceAccountState: &accounts, CoreID: &core},
			RefineArgs: RefineArgs{WorkItemIndex: idxp, WorkPackage: wp, AuthOutput: authp, ImportSegments: imps,
				ExportSegmentOffset: uint(vfd.I(j["expoff"])), ExtrinsicDataMap: xmap, IntegratedPVMMap: m,
				ExportSegment: exp, TimeSlot: types.TimeSlot(hcU32(j["t"])), Extrinsics: xspecs},
		}
		// inner machines are created by the code under test (machine, then pages), so the driver does not
		// depend on how IntegratedPVMType is laid out: machine k of the list gets index k
		for _, e := range hcList(j["machines"]) {
			o := e.(map[string]any)
			code := vfd.Bytes(o["code"])
			vfd.Guard(func() {
				tmp := &Memory{Pages: map[uint32]*Page{16: {Value: make([]byte, ZP), Access: MemoryReadWrite}}}
				copy(tmp.Pages[16].Value, code)
				call := func(id OperationType, r7, r8, r9, r10 uint64) {
					var regs Registers
					regs[7], regs[8], regs[9], regs[10] = r7, r8, r9, r10
					gas := Gas(1000)
					out := RefineOmegas[id](OmegaInput{Operation: id, VM: &VMState{Registers: &regs, Memory: tmp, Gas: &gas}, Addition: env.add, HostCalls: RefineOmegas})
					env.add = out.Addition
					regs7 = regs[7]
				}
				call(MachineOp, 16*ZP, uint64(len(code)), vfd.FromU64LE(o["pc"]), 0)
				n := regs7
				for _, a := range hcList(o["acc"]) {
					pa := a.([]any)
					mode := uint64(1)
					if vfd.S(pa[1]) == "W" {
						mode = 2
					}
					call(PagesOp, n, uint64(vfd.I(pa[0])), 1, mode)
				}
			})
		}
	default: // auth: the work package is all an is-authorized invocation can fetch besides the constants
		env.add = HostCallArgs{RefineArgs: RefineArgs{WorkPackage: hcWorkPackage(hcObj(hcObj(j["fx"])["p"]), nil)}}
	}
	// a (never executed) outer program, as Psi_M installs one
	p, _ := DeBlobProgramCode([]byte{0, 0, 1, 0, 1})
	env.add.Program = &p
	return env
}

func hcWorkPackage(p map[string]any, xspecs [][]types.ExtrinsicSpec) *types.WorkPackage {
	if vfd.I(p["has"]) != 1 {
		return nil
	}
	wp := &types.WorkPackage{AuthCodeHost: types.ServiceID(hcU32(p["host"])), Authorization: types.ByteSequence(vfd.Bytes(p["j"])),
		AuthorizerConfig: types.ByteSequence(vfd.Bytes(p["f"])), Items: []types.WorkItem{}}
	copy(wp.AuthCodeHash[:], vfd.Bytes(p["u"]))
	wp.Context.LookupAnchorSlot = types.TimeSlot(hcU32(p["t"]))
	wp.Context.Anchor[0], wp.Context.StateRoot[0], wp.Context.BeefyRoot[0], wp.Context.LookupAnchor[0] = 1, 2, 3, 4
	wp.Context.Prerequisites = []types.OpaqueHash{}
	for k, it := range hcList(p["items"]) {
		o := it.(map[string]any)
		w := types.WorkItem{Service: types.ServiceID(hcU32(o["s"])), RefineGasLimit: types.Gas(vfd.FromU64LE(o["g"])),
			AccumulateGasLimit: types.Gas(vfd.FromU64LE(o["a"])), ExportCount: types.U16(vfd.I(o["e"])), Payload: types.ByteSequence(vfd.Bytes(o["y"])),
			ImportSegments: make([]types.ImportSpec, vfd.I(o["ni"])), Extrinsic: []types.ExtrinsicSpec{}}
		copy(w.CodeHash[:], vfd.Bytes(o["h"]))
		if k < len(xspecs) {
			w.Extrinsic = xspecs[k]
		}
		wp.Items = append(wp.Items, w)
	}
	return wp
}

// encodings of fetch's structured values by the repository's codec (a primitive here: the codec itself is C11's business)
func (e *hcEnv) fetchAux() map[string]any {
	aux := map[string]any{"consts": vfd.B(getFetchConstantsData()), "encp": []int{}, "encx": []int{}, "oall": []int{}, "oeach": []any{}}
	enc := types.NewEncoder()
	if wp := e.add.RefineArgs.WorkPackage; wp != nil {
		if b, err := enc.Encode(wp); err == nil {
			aux["encp"] = vfd.B(b)
		}
		if b, err := types.NewEncoder().Encode(&wp.Context); err == nil {
			aux["encx"] = vfd.B(b)
		}
	}
	if os := e.add.AccumulateArgs.OperandOrDeferredTransfers; len(os) > 0 {
		all, _ := types.NewEncoder().EncodeUint(uint64(len(os)))
		each := []any{}
		for i := range os {
			b, err := types.NewEncoder().Encode(&os[i])
			if err != nil {
				b = nil
			}
			all = append(all, b...)
			each = append(each, vfd.B(b))
		}
		aux["oall"], aux["oeach"] = vfd.B(all), each
	}
	return aux
}

func hcProbe(mem *Memory, probes []any) []any {
	out := []any{}
	for _, pj := range probes {
		p := pj.([]any)
		a, n := vfd.FromU64LE(p[0]), uint64(vfd.I(p[1]))
		if !isReadable(a, n, *mem) {
			out = append(out, []int{})
			continue
		}
		b := mem.Read(a, n)
		if vfd.S(p[2]) == "b2b" {
			h := hash.Blake2bHash(b)
			out = append(out, vfd.B(h[:]))
		} else {
			out = append(out, hcFNV(b))
		}
	}
	return out
}

func hcProjMachines(m IntegratedPVMMap) []any {
	ns := make([]uint64, 0, len(m))
	for n := range m {
		ns = append(ns, n)
	}
	sort.Slice(ns, func(i, j int) bool { return ns[i] < ns[j] })
	out := []any{}
	for _, n := range ns {
		v := m[n]
		s := hcSnapMem(&v.Memory)
		var content []byte
		for _, a := range s.acc {
			var kb [4]byte
			binary.LittleEndian.PutUint32(kb[:], uint32(a[0].(int)))
			content = append(content, kb[:]...)
			content = append(content, s.pages[uint32(a[0].(int))]...)
		}
		out = append(out, map[string]any{"n": vfd.U64LE(n), "pc": vfd.U64LE(uint64(v.PC)), "cd": hcFNV(v.ProgramCode),
			"clen": len(v.ProgramCode), "acc": s.acc, "md": hcFNV(content)})
	}
	return out
}

// raw lookup entries of the pool: [service, hash, length, encoded slot list], sorted
func hcProjPoolLk(kv *types.StateKeyVals, attr map[types.StateKey][3][]byte) []any {
	rows := [][4][]byte{}
	if kv != nil {
		for _, e := range *kv {
			if a, ok := attr[e.Key]; ok {
				rows = append(rows, [4][]byte{a[0], a[1], a[2], e.Value})
			}
		}
	}
	sort.Slice(rows, func(i, j int) bool {
		for k := 0; k < 3; k++ {
			if c := bytes.Compare(rows[i][k], rows[j][k]); c != 0 {
				return c < 0
			}
		}
		return false
	})
	out := []any{}
	for _, r := range rows {
		out = append(out, []any{vfd.B(r[0]), vfd.B(r[1]), vfd.B(r[2]), vfd.B(r[3])})
	}
	return out
}

func hcProjPool(kv *types.StateKeyVals, attr map[types.StateKey][2][]byte, lattr map[types.StateKey][3][]byte) []any {
	type ent struct{ svc, key, val []byte }
	es := []ent{}
	if kv != nil {
		for _, e := range *kv {
			if _, isLk := lattr[e.Key]; isLk {
				continue
			}
			if a, ok := attr[e.Key]; ok {
				es = append(es, ent{a[0], a[1], e.Value})
			} else {
				es = append(es, ent{[]byte{}, e.Key[:], e.Value})
			}
		}
	}
	sort.Slice(es, func(i, j int) bool {
		if c := bytes.Compare(es[i].svc, es[j].svc); c != 0 {
			return c < 0
		}
		return bytes.Compare(es[i].key, es[j].key) < 0
	})
	out := []any{}
	for _, e := range es {
		out = append(out, []any{vfd.B(e.svc), vfd.B(e.key), vfd.B(e.val)})
	}
	return out
}

func hcProjResultContext(rc *ResultContext, ts types.TimeSlot, attr map[types.StateKey][2][]byte, lattr map[types.StateKey][3][]byte) map[string]any {
	ps := rc.PartialState
	xf := []any{}
	for _, t := range rc.DeferredTransfers {
		xf = append(xf, map[string]any{"from": hcLE4(uint32(t.SenderID)), "to": hcLE4(uint32(t.ReceiverID)),
			"amt": vfd.U64LE(uint64(t.Balance)), "memo": vfd.B(t.Memo[:]), "gas": vfd.U64LE(uint64(t.GasLimit))})
	}
	assign := [][]int{}
	for _, a := range ps.Assign {
		assign = append(assign, hcLE4(uint32(a)))
	}
	aids := make([]int, 0, len(ps.AlwaysAccum))
	for id := range ps.AlwaysAccum {
		aids = append(aids, int(id))
	}
	sort.Ints(aids)
	always := [][]any{}
	for _, id := range aids {
		always = append(always, []any{hcLE4(uint32(id)), vfd.U64LE(uint64(ps.AlwaysAccum[types.ServiceID(id)]))})
	}
	yield := []int{}
	if rc.Exception != nil {
		yield = vfd.B(rc.Exception[:])
	}
	type pb struct {
		id   uint32
		blob []byte
	}
	pbs := []pb{}
	for _, b := range rc.ServiceBlobs {
		pbs = append(pbs, pb{uint32(b.ServiceID), b.Blob})
	}
	sort.Slice(pbs, func(i, j int) bool {
		if pbs[i].id != pbs[j].id {
			return pbs[i].id < pbs[j].id
		}
		return bytes.Compare(pbs[i].blob, pbs[j].blob) < 0
	})
	prov := [][]any{}
	for _, b := range pbs {
		prov = append(prov, []any{hcLE4(b.id), vfd.B(b.blob)})
	}
	var vk []byte
	for _, v := range ps.ValidatorKeys {
		vk = append(vk, v.Bandersnatch[:]...)
		vk = append(vk, v.Ed25519[:]...)
		vk = append(vk, v.Bls[:]...)
		vk = append(vk, v.Metadata[:]...)
	}
	aq := [][]int{}
	for _, q := range ps.Authorizers {
		var qb []byte
		for _, h := range q {
			qb = append(qb, h[:]...)
		}
		aq = append(aq, hcFNV(qb))
	}
	return map[string]any{
		"self": hcLE4(uint32(rc.ServiceID)), "nextid": hcLE4(uint32(rc.ImportServiceID)), "t": hcLE4(uint32(ts)),
		"svcs": hcProjAccounts(ps.ServiceAccounts), "xfers": xf,
		"priv":  map[string]any{"bless": hcLE4(uint32(ps.Bless)), "assign": assign, "designate": hcLE4(uint32(ps.Designate)), "create": hcLE4(uint32(ps.CreateAcct)), "always": always},
		"yield": yield, "prov": prov, "vk": hcFNV(vk), "aq": aq, "kv": hcProjPool(rc.StorageKeyVal, attr, lattr), "kvl": hcProjPoolLk(rc.StorageKeyVal, lattr),
		"machines": []any{}, "nexp": 0, "expd": []any{}, "expoff": 0,
	}
}

func (e *hcEnv) project() map[string]any {
	mode := e.tab
	if mode[0] == 'd' {
		mode = mode[1:]
	}
	switch mode {
	case "acc":
		return hcProjResultContext(&e.add.AccumulateArgs.ResultContextX, e.add.AccumulateArgs.Timeslot, e.kvAttr, e.kvlAttr)
	case "ref":
		expd := []any{}
		for _, s := range e.add.RefineArgs.ExportSegment {
			expd = append(expd, hcFNV(s[:]))
		}
		return map[string]any{
			"self": hcLE4(uint32(e.self)), "nextid": hcLE4(0), "t": hcLE4(uint32(e.add.RefineArgs.TimeSlot)),
			"svcs": hcProjAccounts(*e.add.GeneralArgs.ServiceAccountState), "xfers": []any{},
			"priv":  map[string]any{"bless": hcLE4(0), "assign": []any{}, "designate": hcLE4(0), "create": hcLE4(0), "always": []any{}},
			"yield": []int{}, "prov": []any{}, "vk": hcFNV(), "aq": []any{}, "kv": []any{}, "kvl": []any{},
			"machines": hcProjMachines(e.add.RefineArgs.IntegratedPVMMap), "nexp": len(e.add.RefineArgs.ExportSegment),
			"expd": expd, "expoff": int(e.add.RefineArgs.ExportSegmentOffset),
		}
	}
	return map[string]any{"self": hcLE4(0), "nextid": hcLE4(0), "t": hcLE4(0), "svcs": []any{}, "xfers": []any{},
		"priv":  map[string]any{"bless": hcLE4(0), "assign": []any{}, "designate": hcLE4(0), "create": hcLE4(0), "always": []any{}},
		"yield": []int{}, "prov": []any{}, "vk": hcFNV(), "aq": []any{}, "kv": []any{}, "kvl": []any{}, "machines": []any{}, "nexp": 0, "expd": []any{}, "expoff": 0}
}

// canonical projection of the checkpoint context Y (accumulate only); "" otherwise
func (e *hcEnv) projectY() []byte {
	if e.tab != "acc" && e.tab != "dacc" {
		return nil
	}
	return hcJSON(hcProjResultContext(&e.add.AccumulateArgs.ResultContextY, e.add.AccumulateArgs.Timeslot, e.kvAttr, e.kvlAttr))
}

// the two general-argument views of the accumulating service against the context X
func (e *hcEnv) views() (selfEq, stateEq bool) {
	if e.tab != "acc" && e.tab != "dacc" {
		return true, true
	}
	x := e.add.AccumulateArgs.ResultContextX.PartialState.ServiceAccounts
	xs, ok := x[e.self]
	selfEq = !ok || bytes.Equal(hcJSON(hcProjAccount(e.self, xs)), hcJSON(hcProjAccount(e.self, *e.add.GeneralArgs.ServiceAccount)))
	stateEq = bytes.Equal(hcJSON(hcProjAccounts(x)), hcJSON(hcProjAccounts(*e.add.GeneralArgs.ServiceAccountState)))
	return
}

// the manager named by the checkpoint context (permissive clause P-manager of HostAccumulate.tla)
func (e *hcEnv) ybless() []int {
	if e.tab != "acc" && e.tab != "dacc" {
		return hcLE4(0)
	}
	return hcLE4(uint32(e.add.AccumulateArgs.ResultContextY.PartialState.Bless))
}

func hcJSON(v any) []byte {
	b, err := json.Marshal(v)
	if err != nil {
		panic(err)
	}
	return b
}

func (e *hcEnv) table() Omegas {
	switch e.tab {
	case "acc", "dacc":
		return AccumulateOmegas
	case "ref", "dref":
		return RefineOmegas
	}
	return IsAuthorizedOmegas
}

func hcExit(r ExitReason) string {
	switch r.GetReasonType() {
	case CONTINUE:
		return "cont"
	case HALT:
		return "halt"
	case PANIC:
		return "panic"
	case OUT_OF_GAS:
		return "oog"
	case PAGE_FAULT:
		return "fault"
	case HOST_CALL:
		return "host"
	}
	return "other"
}

// ecalli with a 0..4-byte little-endian immediate (sign-extended by the machine), then trap
func hcEcalliProgram(id uint64) Program {
	imm := []byte{}
	v := int64(id)
	switch {
	case v == 0:
	case v >= -128 && v < 128:
		imm = []byte{byte(id)}
	case v >= -32768 && v < 32768:
		imm = []byte{byte(id), byte(id >> 8)}
	case v >= -(1<<23) && v < 1<<23:
		imm = []byte{byte(id), byte(id >> 8), byte(id >> 16)}
	default:
		imm = []byte{byte(id), byte(id >> 8), byte(id >> 16), byte(id >> 24)}
	}
	code := append([]byte{10}, imm...)
	code = append(code, 0)
	mask := make([]byte, (len(code)+7)/8)
	mask[0] |= 1
	mask[(len(code)-1)/8] |= 1 << ((len(code) - 1) % 8)
	blob := []byte{0, 0, byte(len(code))}
	blob = append(blob, code...)
	blob = append(blob, mask...)
	p, er := DeBlobProgramCode(blob)
	if er != ExitContinue {
		panic("driver: ecalli program rejected")
	}
	return p
}

func hcRegs(r Registers) [][]int {
	out := make([][]int, 13)
	for i := range r {
		out[i] = vfd.U64LE(r[i])
	}
	return out
}

func TestHostCalls(t *testing.T) {
	cases := vfd.ReadCases(vfd.Env("VF_CASES", "cases.ndjson"))
	out := vfd.NewOut(vfd.Env("VF_OUT", "trace.ndjson"))
	defer out.Close()
	for _, c := range cases {
		tab := vfd.S(c["tab"])
		mem := hcBuildMem(c["acc"], c["data"])
		env := hcBuildCtx(tab, hcObj(c["ctx"]))
		fresh, _ := c["fresh"].(bool)
		for k, sj := range hcList(c["steps"]) {
			st := sj.(map[string]any)
			if fresh && k > 0 { // every step of a "fresh" scenario starts from the initial memory and context
				mem = hcBuildMem(c["acc"], c["data"])
				env = hcBuildCtx(tab, hcObj(c["ctx"]))
			}
			id := vfd.FromU64LE(st["id"])
			var regs Registers
			for i, r := range hcList(st["regs"]) {
				regs[i] = vfd.FromU64LE(r)
			}
			gas := Gas(int64(vfd.FromU64LE(st["gas"])))
			preMem := hcSnapMem(mem)
			preCtx := env.project()
			preY := env.projectY()
			rec := map[string]any{"ev": "Call", "case": c["id"], "k": k, "grp": c["grp"], "tab": tab, "id": vfd.U64LE(id),
				"pre": map[string]any{"regs": hcRegs(regs), "gas": vfd.U64LE(uint64(gas)), "acc": preMem.acc, "data": preMem.data(), "ctx": preCtx, "ybless": env.ybless(),
					"probe": hcListOrEmpty(st["probe"]), "probed": hcProbe(mem, hcList(st["probe"]))}}
			if id == 1 {
				pre := rec["pre"].(map[string]any)
				pre["fx"], pre["aux"] = hcObj(c["ctx"])["fx"], env.fetchAux()
			}
			exit := ""
			panicked, msg := vfd.Guard(func() {
				if tab[0] == 'd' {
					prog := hcEcalliProgram(id)
					env.add.Program = &prog
					h := NewHost(&prog, regs, mem, gas, env.add, env.table())
					res := h.HostCall(0, 0)
					regs, gas = h.Interpreter.Registers, h.Interpreter.Gas
					env.add = res.Addition
					exit = hcExit(res.ExitReason)
					return
				}
				var omega Omega
				if id < uint64(len(env.table())) {
					omega = env.table()[id]
				}
				if omega == nil {
					exit = "absent"
					return
				}
				o := omega(OmegaInput{Operation: OperationType(id), VM: &VMState{Registers: &regs, Memory: mem, Gas: &gas}, Addition: env.add, HostCalls: env.table()})
				env.add = o.Addition
				exit = hcExit(o.ExitReason)
			})
			if panicked {
				exit = "gopanic"
			}
			postMem := hcSnapMem(mem)
			postY := env.projectY()
			selfEq, stateEq := true, true
			vfd.Guard(func() { selfEq, stateEq = env.views() })
			var postCtx map[string]any
			if p2, m2 := vfd.Guard(func() { postCtx = env.project() }); p2 {
				postCtx = preCtx
				msg += " | projection: " + m2
				exit = "gopanic"
			}
			rec["post"] = map[string]any{"exit": exit, "regs": hcRegs(regs), "gas": vfd.U64LE(uint64(gas)), "acc": postMem.acc,
				"diff": hcDiff(preMem, postMem), "ctx": postCtx, "ychg": !bytes.Equal(preY, postY),
				"yx": bytes.Equal(postY, hcJSON(postCtx)), "selfeq": selfEq, "stateeq": stateEq}
			rec["gopanic"] = msg
			out.Emit(rec)
			if panicked && !fresh {
				break
			}
		}
	}
}

// ---- C09: the threshold as a function, and the derived footprint of explicit accounts
// case: {"id","items":[4],"oct":[8],"gratis":[8]} -> {"ev":"Thr",...,"res":[8]}
// case: {"id","acct":{...}} -> {"ev":"Derive","acct","items":[4],"oct":[8],"thr":[8]}
func TestThreshold(t *testing.T) {
	cases := vfd.ReadCases(vfd.Env("VF_CASES", "cases.ndjson"))
	out := vfd.NewOut(vfd.Env("VF_OUT", "trace.ndjson"))
	defer out.Close()
	for _, c := range cases {
		if a, ok := c["acct"]; ok {
			id, acct := hcAccount(a.(map[string]any))
			rec := map[string]any{"ev": "Derive", "id": c["id"], "acct": hcProjAccount(id, acct), "gopanic": ""}
			var d types.ServiceAccountDerivatives
			p, msg := vfd.Guard(func() { d = service_account.GetServiceAccountDerivatives(acct) })
			rec["items"], rec["oct"], rec["thr"] = hcLE4(uint32(d.Items)), vfd.U64LE(uint64(d.Bytes)), vfd.U64LE(uint64(d.Minbalance))
			if p {
				rec["gopanic"] = msg
			}
			out.Emit(rec)
			continue
		}
		rec := map[string]any{"ev": "Thr", "id": c["id"], "items": c["items"], "oct": c["oct"], "gratis": c["gratis"], "gopanic": ""}
		var r types.U64
		p, msg := vfd.Guard(func() {
			r = service_account.CalcThresholdBalance(types.U32(hcU32(c["items"])), types.U64(vfd.FromU64LE(c["oct"])), types.U64(vfd.FromU64LE(c["gratis"])))
		})
		rec["res"] = vfd.U64LE(uint64(r))
		if p {
			rec["gopanic"] = msg
		}
		out.Emit(rec)
	}
}

// =====================================================================================================================
// X05: the invocation wrappers Psi_I, RefineInvoke (Psi_R), Psi_A run on tiny assembled programs.
// A case describes a SCRIPT; the driver assembles it into a standard program blob, installs it (authorizer code /
// service code preimage), runs the real wrapper and records what came back.  The program's output is the
// concatenation of one "slot" per script op:
//   fetch  {sel,a,b,f,cap}        slot = E_8(w7 after the call) ++ cap bytes (the window fetch wrote; zero beyond it)
//   call   {id, regs:[6 x 8]}     slot = E_8(w7 after the call)                       (any host-call identifier)
//   hist   {svc(8), h(32), f, cap} slot = E_8(w7') ++ cap bytes                       (historical_lookup, refine)
//   export {data}                 slot = E_8(w7')                                      (refine)
//   info   {}                     slot = E_8(w7') ++ 96 bytes                          (accumulate: info on the caller)
//   xfer   {to, amt, l}           slot = E_8(w7')                                      (accumulate: transfer)
//   ckpt   {}                     slot = E_8(w7')                                      (accumulate: checkpoint)
// endings: halt (output = all slots), halt0 (empty output), echo (halt at once: output = the argument), trap, spin (runs out of gas), badblob (the standard-program
// header is cut short: Y(p) is undefined).  Accumulate programs first store their invocation argument under storage key
// "a" and, before halting, the slots under key "o" (Psi_A hands back no output blob).
// The record carries the case, the result and `aux` (codec encodings and hashes, primitives) and the assembled program's
// instruction and host-call counts.

type ivAsm struct {
	code, mask, data []byte
	ninstr, ncalls   int
}

const ivDataAt = uint64(0x20000)

func (a *ivAsm) ins(b ...byte) {
	a.code = append(a.code, b...)
	a.mask = append(a.mask, 1)
	for i := 1; i < len(b); i++ {
		a.mask = append(a.mask, 0)
	}
	a.ninstr++
}
func (a *ivAsm) load(reg int, v uint64) {
	b := []byte{20, byte(reg)}
	for i := 0; i < 8; i++ {
		b = append(b, byte(v>>(8*i)))
	}
	a.ins(b...)
}
func (a *ivAsm) put(b []byte) uint64 {
	at := ivDataAt + uint64(len(a.data))
	a.data = append(a.data, b...)
	return at
}
func (a *ivAsm) ecalli(id uint64) {
	a.ins(10, byte(id), byte(id>>8), byte(id>>16), byte(id>>24))
	a.ncalls++
}

// store_u64 reg -> [addr]
func (a *ivAsm) store(reg int, addr uint64) {
	a.ins(62, byte(reg), byte(addr), byte(addr>>8), byte(addr>>16), byte(addr>>24))
}
func (a *ivAsm) move(dst, src int) { a.ins(100, byte(src<<4|dst)) }
func ivNat(x int) []byte {
	switch {
	case x < 1<<7:
		return []byte{byte(x)}
	case x < 1<<14:
		return []byte{byte(0x80 | x>>8), byte(x)}
	case x < 1<<21:
		return []byte{byte(0xC0 | x>>16), byte(x), byte(x >> 8)}
	}
	panic("driver: program too long")
}
func (a *ivAsm) blob() []byte {
	inner := []byte{0, 0}
	inner = append(inner, ivNat(len(a.code))...)
	inner = append(inner, a.code...)
	k := make([]byte, (len(a.code)+7)/8)
	for i, m := range a.mask {
		if m == 1 {
			k[i/8] |= 1 << (i % 8)
		}
	}
	inner = append(inner, k...)
	w := len(a.data)
	out := []byte{0, 0, 0, byte(w), byte(w >> 8), byte(w >> 16), 0, 0, 0, 0, 0}
	out = append(out, a.data...)
	out = append(out, byte(len(inner)), byte(len(inner)>>8), byte(len(inner)>>16), byte(len(inner)>>24))
	return append(out, inner...)
}

// assemble a script; returns the blob and the total size of the slots
func ivAssemble(kind string, script []any, end string) (*ivAsm, []byte) {
	a := &ivAsm{}
	// the slots live at the start of the read-write segment
	total := 0
	for _, oj := range script {
		o := oj.(map[string]any)
		switch vfd.S(o["op"]) {
		case "fetch", "hist":
			total += 8 + vfd.I(o["cap"])
		case "info":
			total += 8 + 96
		default:
			total += 8
		}
	}
	a.data = make([]byte, total)
	if kind == "A" { // accumulation enters at instruction counter 5: a 5-byte jump (never executed) fills 0..4
		a.ins(40, 5, 0, 0, 0)
		a.ninstr--
		// keep the argument: write(key "a", value = [w7, w7+w8))
		a.move(9, 7)
		a.move(10, 8)
		a.load(7, a.put([]byte("a")))
		a.load(8, 1)
		a.ecalli(uint64(WriteOp))
	}
	at := ivDataAt
	for _, oj := range script {
		o := oj.(map[string]any)
		switch vfd.S(o["op"]) {
		case "fetch":
			a.load(7, at+8)
			a.load(8, vfd.FromU64LE(o["f"]))
			a.load(9, uint64(vfd.I(o["cap"])))
			a.load(10, vfd.FromU64LE(o["sel"]))
			a.load(11, vfd.FromU64LE(o["a"]))
			a.load(12, vfd.FromU64LE(o["b"]))
			a.ecalli(uint64(FetchOp))
			a.store(7, at)
			at += 8 + uint64(vfd.I(o["cap"]))
		case "call":
			for i, r := range hcList(o["regs"]) {
				a.load(7+i, vfd.FromU64LE(r))
			}
			a.ecalli(vfd.FromU64LE(o["id"]))
			a.store(7, at)
			at += 8
		case "hist":
			a.load(7, vfd.FromU64LE(o["svc"]))
			a.load(8, a.put(vfd.Bytes(o["h"])))
			a.load(9, at+8)
			a.load(10, vfd.FromU64LE(o["f"]))
			a.load(11, uint64(vfd.I(o["cap"])))
			a.ecalli(uint64(HistoricalLookupOp))
			a.store(7, at)
			at += 8 + uint64(vfd.I(o["cap"]))
		case "export":
			d := vfd.Bytes(o["data"])
			a.load(7, a.put(d))
			a.load(8, uint64(len(d)))
			a.ecalli(uint64(ExportOp))
			a.store(7, at)
			at += 8
		case "xfer": // transfer {to(8), amt(8), l(8)}: slot = E_8(w7')
			a.load(7, vfd.FromU64LE(o["to"]))
			a.load(8, vfd.FromU64LE(o["amt"]))
			a.load(9, vfd.FromU64LE(o["l"]))
			a.load(10, a.put(make([]byte, types.TransferMemoSize)))
			a.ecalli(uint64(TransferOp))
			a.store(7, at)
			at += 8
		case "ckpt": // checkpoint: slot = E_8(w7') (the remaining gas)
			a.ecalli(uint64(CheckpointOp))
			a.store(7, at)
			at += 8
		case "info":
			a.load(7, ^uint64(0))
			a.load(8, at+8)
			a.load(9, 0)
			a.load(10, 96)
			a.ecalli(uint64(InfoOp))
			a.store(7, at)
			at += 8 + 96
		default:
			panic("driver: unknown script op " + vfd.S(o["op"]))
		}
	}
	if kind == "A" && (end == "halt" || end == "halt0" || end == "echo") { // hand the slots back through storage key "o"
		a.load(7, a.put([]byte("o")))
		a.load(8, 1)
		a.load(9, ivDataAt)
		a.load(10, uint64(total))
		a.ecalli(uint64(WriteOp))
	}
	switch end {
	case "halt":
		a.load(7, ivDataAt)
		a.load(8, uint64(total))
		a.ins(50, 0)
	case "halt0":
		a.load(7, ivDataAt)
		a.load(8, 0)
		a.ins(50, 0)
	case "echo": // halt at once: registers 7 and 8 still name the invocation's argument
		a.ins(50, 0)
	case "trap", "badblob":
		a.ins(0)
	case "spin": // fallthrough ends the block, so the jump sits at a block start and may target itself
		a.ins(1)
		a.ins(40, 0)
	default:
		panic("driver: unknown ending " + end)
	}
	b := a.blob()
	if end == "badblob" {
		b = b[:7] // the header announces more than there is
	}
	return a, b
}

func ivTrim(b []byte) []int {
	n := len(b)
	for n > 0 && b[n-1] == 0 {
		n--
	}
	return vfd.B(b[:n])
}

func ivResult(t types.WorkExecResultType) string {
	switch t {
	case types.WorkExecResultOk:
		return "ok"
	case types.WorkExecResultOutOfGas:
		return "oog"
	case types.WorkExecResultPanic:
		return "panic"
	case types.WorkExecResultBadCode:
		return "bad"
	case types.WorkExecResultCodeOversize:
		return "big"
	}
	return "other"
}

func TestInvocations(t *testing.T) {
	cases := vfd.ReadCases(vfd.Env("VF_CASES", "cases.ndjson"))
	out := vfd.NewOut(vfd.Env("VF_OUT", "trace.ndjson"))
	defer out.Close()
	for _, c := range cases {
		kind := vfd.S(c["kind"])
		asm, blob := ivAssemble(kind, hcList(c["script"]), vfd.S(c["end"]))
		codecase := vfd.S(c["codecase"])
		rec := map[string]any{"ev": "Inv", "case": c, "ninstr": asm.ninstr, "ncalls": asm.ncalls, "gopanic": "",
			"res": "", "out": []int{}, "used": vfd.U64LE(0), "exports": []any{}, "bal": vfd.U64LE(0), "sta": []int{}, "sto": []int{}, "hasa": false, "haso": false, "xfers": []any{}, "bals": []any{}}
		fx := hcObj(c["fx"])
		// the work package and the extrinsic data, as fetch's environment describes them
		xspecs, xmap := [][]types.ExtrinsicSpec{}, ExtrinsicDataMap{}
		for _, it := range hcList(fx["x"]) {
			row := []types.ExtrinsicSpec{}
			for _, b := range hcList(it) {
				blobx := vfd.Bytes(b)
				h := hash.Blake2bHash(blobx)
				row = append(row, types.ExtrinsicSpec{Hash: h, Len: types.U32(len(blobx))})
				xmap[h] = ExtrinsicData(blobx)
			}
			xspecs = append(xspecs, row)
		}
		wp := hcWorkPackage(hcObj(fx["p"]), xspecs)
		hnil := hash.Blake2bHash(nil)
		aux := map[string]any{"consts": vfd.B(getFetchConstantsData()), "encp": []int{}, "encx": []int{}, "hp": []int{}, "hnil": vfd.B(hnil[:]), "oall": []int{}, "oeach": []any{}}
		if wp != nil {
			enc := types.NewEncoder()
			enc.SetHashSegmentMap(types.HashSegmentMap{}) // the driver's import specifications name plain segment roots
			if b, err := enc.Encode(wp); err == nil {
				aux["encp"] = vfd.B(b)
				h := hash.Blake2bHash(b)
				aux["hp"] = vfd.B(h[:])
			}
			if b, err := types.NewEncoder().Encode(&wp.Context); err == nil {
				aux["encx"] = vfd.B(b)
			}
		}
		accounts := types.ServiceAccountState{}
		for _, s := range hcList(c["svcs"]) {
			id, a := hcAccount(s.(map[string]any))
			accounts[id] = a
		}
		// install the code of the service that runs (refine: the item's service; accumulate: the accumulating one)
		install := func(sid types.ServiceID, codeHash types.OpaqueHash) {
			a, ok := accounts[sid]
			if !ok || codecase == "nopre" {
				return
			}
			meta := []byte{0}
			if codecase == "big" {
				meta = append([]byte{0xE0, 0x40, 0x42, 0x0f}, make([]byte, 1000000)...) // E(1 000 000) ++ metadata: the blob exceeds W_C with the padding below
			}
			full := append(append([]byte{}, meta...), blob...)
			if codecase == "big" {
				full = append(full, make([]byte, types.MaxServiceCodeSize)...)
			}
			a.PreimageLookup[codeHash] = full
			n := len(full)
			if codecase == "wronglen" {
				n++
			}
			ss := types.TimeSlotSet{}
			for _, s := range hcList(c["slots"]) {
				ss = append(ss, types.TimeSlot(hcU32(s)))
			}
			a.LookupDict[types.LookupMetaMapkey{Hash: codeHash, Length: types.U32(n)}] = ss
			accounts[sid] = a
		}
		panicked, msg := vfd.Guard(func() {
			switch kind {
			case "I":
				code := blob
				if codecase == "nopre" {
					code = nil
				} else if codecase == "big" {
					code = append(append([]byte{}, blob...), make([]byte, types.MaxIsAuthorizedCodeSize)...)
				}
				r := Psi_I(*wp, types.CoreIndex(vfd.I(c["core"])), code)
				rec["res"], rec["out"], rec["used"] = ivResult(r.WorkExecResult), vfd.B(r.WorkOutput), vfd.U64LE(uint64(r.Gas))
			case "R":
				idx := uint(vfd.I(hcObj(fx["i"])["v"]))
				item := wp.Items[idx]
				if codecase != "noservice" {
					install(item.Service, item.CodeHash)
				} else {
					delete(accounts, item.Service)
				}
				imps := [][]types.ExportSegment{}
				for _, it := range hcList(fx["imp"]) {
					row := []types.ExportSegment{}
					for _, pid := range hcList(it) {
						var sg types.ExportSegment
						for q := range sg {
							sg[q] = byte((7*(q+1) + vfd.I(pid)) % 251)
						}
						row = append(row, sg)
					}
					imps = append(imps, row)
				}
				r := RefineInvoke(RefineInput{CoreIndex: types.CoreIndex(vfd.I(c["core"])), WorkItemIndex: idx, WorkPackage: *wp,
					AuthOutput: types.ByteSequence(vfd.Bytes(hcObj(fx["r"])["v"])), ImportSegments: imps, ExportSegmentOffset: uint(vfd.I(c["zeta"])),
					ServiceAccounts: accounts, ExtrinsicDataMap: xmap})
				rec["res"], rec["out"], rec["used"] = ivResult(r.WorkResult), vfd.B(r.RefineOutput), vfd.U64LE(uint64(r.Gas))
				ex := []any{}
				for _, s := range r.ExportSegment {
					ex = append(ex, ivTrim(s[:]))
				}
				rec["exports"] = ex
			case "A":
				self := types.ServiceID(hcU32(c["self"]))
				if a, ok := accounts[self]; ok {
					install(self, a.ServiceInfo.CodeHash)
				}
				ops := []types.OperandOrDeferredTransfer{}
				for k, ij := range hcList(c["inputs"]) {
					io := ij.(map[string]any)
					if vfd.S(io["k"]) == "x" {
						ops = append(ops, types.OperandOrDeferredTransfer{DeferredTransfer: &types.DeferredTransfer{SenderID: 7, ReceiverID: self,
							Balance: types.U64(vfd.FromU64LE(io["amt"])), GasLimit: 9}})
					} else {
						ops = append(ops, types.OperandOrDeferredTransfer{Operand: &types.Operand{GasLimit: types.Gas(k), Result: types.WorkExecResult{Type: types.WorkExecResultOk, Data: []byte{1, 2, 3}}, AuthOutput: types.ByteSequence{9}}})
					}
				}
				if len(ops) > 0 {
					all, _ := types.NewEncoder().EncodeUint(uint64(len(ops)))
					each := []any{}
					for i := range ops {
						b, _ := types.NewEncoder().Encode(&ops[i])
						all = append(all, b...)
						each = append(each, vfd.B(b))
					}
					aux["oall"], aux["oeach"] = vfd.B(all), each
				}
				eta := types.Entropy{}
				copy(eta[:], vfd.Bytes(fx["n"]))
				ps := types.PartialStateSet{ServiceAccounts: accounts, ValidatorKeys: make(types.ValidatorsData, types.ValidatorsCount),
					Authorizers: make(types.AuthQueues, types.CoresCount), Assign: make(types.ServiceIDList, types.CoresCount), AlwaysAccum: types.AlwaysAccumulateMap{}}
				r := Psi_A(ps, types.TimeSlot(hcU32(c["t"])), self, types.Gas(vfd.FromU64LE(c["gas"])), ops, eta, types.StateKeyVals{})
				rec["used"] = vfd.U64LE(uint64(r.Gas))
				rec["res"] = "ran"
				xf := []any{}
				for _, t := range r.DeferredTransfers {
					xf = append(xf, []any{hcLE4(uint32(t.SenderID)), hcLE4(uint32(t.ReceiverID)), vfd.U64LE(uint64(t.Balance))})
				}
				rec["xfers"] = xf
				ids := make([]int, 0, len(r.PartialStateSet.ServiceAccounts))
				for id := range r.PartialStateSet.ServiceAccounts {
					ids = append(ids, int(id))
				}
				sort.Ints(ids)
				bals := []any{}
				for _, id := range ids {
					bals = append(bals, []any{hcLE4(uint32(id)), vfd.U64LE(uint64(r.PartialStateSet.ServiceAccounts[types.ServiceID(id)].ServiceInfo.Balance))})
				}
				rec["bals"] = bals
				if a, ok := r.PartialStateSet.ServiceAccounts[self]; ok {
					rec["bal"] = vfd.U64LE(uint64(a.ServiceInfo.Balance))
					if v, ok := a.StorageDict["a"]; ok {
						rec["sta"], rec["hasa"] = vfd.B(v), true
					}
					if v, ok := a.StorageDict["o"]; ok {
						rec["sto"], rec["haso"] = vfd.B(v), true
					}
				} else {
					rec["res"] = "gone"
				}
			}
		})
		if panicked {
			rec["gopanic"], rec["res"] = msg, "gopanic"
		}
		rec["aux"] = aux
		out.Emit(rec)
	}
}

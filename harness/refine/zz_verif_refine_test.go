package PVM

// X-step driver for C33 (inner PVM machines of the refine invocation), in-package.
// It only executes and records: every expected value comes from spec/host/HostRefine.tla through TLC.
//
// A case: {"id","tag","outer":{"acc":[[page,"R"|"W"],..],"data":[[page,off,byte],..]},"gas":n,
//          ("outer" may be the name of a memory defined by an earlier line {"def":name,"outer":{..}})
//          "ops":[{"call":"machine|peek|poke|pages|invoke|expunge","w":[[8]x6]  (omega7..omega12),
//                  "set":[[addr,[bytes]],..]   outer memory bytes written directly before the call (program
//                                              blobs, invoke buffers: the guest's own stores),
//                  "gas":n                     optional: outer gas set before the call}, ..]}
// All calls of a case act on ONE RefineArgs (machine map) and one outer memory, as one refine invocation does.
// One trace record per call: the complete projected state before and after it.

import (
	"sort"
	"testing"

	"github.com/New-JAMneration/JAM-Protocol/internal/verifdrv/vfd"
)

type vfrMach struct {
	N    int     `json:"n"`
	Blob []int   `json:"blob"`
	Pc   []int   `json:"pc"`
	Acc  [][]any `json:"acc"`
	Data [][]int `json:"data"`
}

type vfrState struct {
	Exit    string    `json:"exit"`
	GoPanic string    `json:"gopanic"`
	Regs    [][]int   `json:"regs"`
	Gas     int       `json:"gas"`
	GasNeg  bool      `json:"gasneg"`
	Acc     [][]any   `json:"acc"`
	Data    [][]int   `json:"data"`
	M       []vfrMach `json:"m"`
}

func vfrSnapMem(m *Memory) (acc [][]any, data [][]int) {
	acc, data = [][]any{}, [][]int{}
	if m == nil || m.Pages == nil {
		return
	}
	keys := make([]int, 0, len(m.Pages))
	for k := range m.Pages {
		keys = append(keys, int(k))
	}
	sort.Ints(keys)
	for _, k := range keys {
		p := m.Pages[uint32(k)]
		if p == nil {
			acc = append(acc, []any{k, "nil"})
			continue
		}
		a := "N"
		if p.Access == MemoryReadOnly {
			a = "R"
		} else if p.Access == MemoryReadWrite {
			a = "W"
		}
		acc = append(acc, []any{k, a})
		for off, b := range p.Value {
			if b != 0 {
				data = append(data, []int{k, off, int(b)})
			}
		}
	}
	return
}

func vfrRegs(r *Registers) [][]int {
	out := make([][]int, 13)
	for i := range r {
		out[i] = vfd.U64LE(r[i])
	}
	return out
}

func vfrSnap(regs *Registers, gas Gas, outer *Memory, mm IntegratedPVMMap) vfrState {
	var s vfrState
	s.Regs = vfrRegs(regs)
	if gas < 0 {
		s.GasNeg = true
	} else if gas > 1<<30 {
		s.Gas = 1 << 30
	} else {
		s.Gas = int(gas)
	}
	s.Acc, s.Data = vfrSnapMem(outer)
	ids := make([]uint64, 0, len(mm))
	for k := range mm {
		ids = append(ids, k)
	}
	sort.Slice(ids, func(i, j int) bool { return ids[i] < ids[j] })
	s.M = []vfrMach{}
	for _, k := range ids {
		v := mm[k]
		mem := v.Memory
		x := vfrMach{N: int(k & 0x3fffffff), Blob: vfd.B([]byte(v.ProgramCode)), Pc: vfd.U64LE(uint64(v.PC))}
		if k > 0x3fffffff {
			x.N = -1
		}
		x.Acc, x.Data = vfrSnapMem(&mem)
		s.M = append(s.M, x)
	}
	return s
}

var vfrOps = map[string]OperationType{"machine": MachineOp, "peek": PeekOp, "poke": PokeOp, "pages": PagesOp, "invoke": InvokeOp, "expunge": ExpungeOp}

// the outer program of the refine invocation: 40 fallthrough instructions, every byte an instruction start
// (its bitmask differs from every inner program's, so a resume point computed from it is visible)
func vfrOuterProgram() *Program {
	blob := []byte{0, 0, 40}
	for i := 0; i < 40; i++ {
		blob = append(blob, 1)
	}
	blob = append(blob, 0xff, 0xff, 0xff, 0xff, 0xff)
	p, er := DeBlobProgramCode(blob)
	if er != ExitContinue {
		panic("driver: outer program refused")
	}
	return &p
}

func vfrExit(e ExitReason) string {
	switch e.GetReasonType() {
	case CONTINUE:
		return "continue"
	case PANIC:
		return "panic"
	case OUT_OF_GAS:
		return "oog"
	case HALT:
		return "halt"
	case PAGE_FAULT:
		return "fault"
	case HOST_CALL:
		return "host"
	}
	return "unknown"
}

func vfrRunCase(c map[string]any, defs map[string]map[string]any, out *vfd.Out) {
	var outerJ map[string]any
	if name, ok := c["outer"].(string); ok {
		outerJ = defs[name] // a shared initial outer memory defined by an earlier {"def":name,"outer":{..}} line
	} else {
		outerJ = c["outer"].(map[string]any)
	}
	outer := &Memory{Pages: map[uint32]*Page{}}
	for _, a := range outerJ["acc"].([]any) {
		pa := a.([]any)
		acc := MemoryReadOnly
		if vfd.S(pa[1]) == "W" {
			acc = MemoryReadWrite
		}
		outer.Pages[uint32(vfd.I(pa[0]))] = &Page{Value: make([]byte, ZP), Access: acc}
	}
	for _, d := range outerJ["data"].([]any) {
		t := d.([]any)
		if pg := outer.Pages[uint32(vfd.I(t[0]))]; pg != nil {
			pg.Value[vfd.I(t[1])] = byte(vfd.I(t[2]))
		}
	}
	var regs Registers
	if rj, ok := c["regs"].([]any); ok {
		for i, r := range rj {
			regs[i] = vfd.FromU64LE(r)
		}
	}
	gas := Gas(vfd.I(c["gas"]))
	add := HostCallArgs{RefineArgs: RefineArgs{IntegratedPVMMap: IntegratedPVMMap{}}, Program: vfrOuterProgram()}
	for seq, oj := range c["ops"].([]any) {
		op := oj.(map[string]any)
		if sets, ok := op["set"].([]any); ok {
			for _, sj := range sets {
				s := sj.([]any)
				addr := vfd.I(s[0])
				for i, b := range vfd.Bytes(s[1]) {
					a := addr + i
					if pg := outer.Pages[uint32(a/ZP)]; pg != nil {
						pg.Value[a%ZP] = b
					}
				}
			}
		}
		if g, ok := op["gas"]; ok {
			gas = Gas(vfd.I(g))
		}
		for i, r := range op["w"].([]any) {
			regs[7+i] = vfd.FromU64LE(r)
		}
		call := vfd.S(op["call"])
		pre := vfrSnap(&regs, gas, outer, add.IntegratedPVMMap)
		var res OmegaOutput
		in := OmegaInput{Operation: vfrOps[call], VM: &VMState{Registers: &regs, Memory: outer, Gas: &gas}, Addition: add, HostCalls: RefineOmegas}
		panicked, msg := vfd.Guard(func() { res = RefineOmegas[vfrOps[call]](in) })
		var post vfrState
		if panicked {
			post = vfrSnap(&regs, gas, outer, add.IntegratedPVMMap)
			post.Exit, post.GoPanic = "gopanic", msg
		} else {
			add = res.Addition
			post = vfrSnap(&regs, gas, outer, add.IntegratedPVMMap)
			post.Exit = vfrExit(res.ExitReason)
		}
		out.Emit(map[string]any{"id": c["id"], "tag": c["tag"], "seq": seq, "call": call, "pre": pre, "post": post})
		if post.Exit != "continue" {
			return // the outer invocation is over
		}
	}
}

func TestRefine(t *testing.T) {
	cases := vfd.ReadCases(vfd.Env("VF_CASES", "cases.ndjson"))
	out := vfd.NewOut(vfd.Env("VF_OUT", "trace.ndjson"))
	defer out.Close()
	defs := map[string]map[string]any{}
	for _, c := range cases {
		if name, ok := c["def"].(string); ok {
			defs[name] = c["outer"].(map[string]any)
			continue
		}
		vfrRunCase(c, defs, out)
	}
}

package PVM

// X-step driver for C33 (inner PVM machines of the refine invocation), in-package.
// It only executes and records: every expected value comes from spec/host/HostRefine.tla through TLC.
//
// A case: {"id","tag","outer":{"acc":[[page,"R"|"W"],..],"data":[[page,off,byte],..]},"gas":n,
//          ("outer" may be the name of a memory defined by an earlier line {"def":name,"outer":{..}})
//          "ops":[{"call":"machine|peek|poke|pages|invoke|expunge","w":[[8]x6]  (omega7..omega12),
//                  "set":[[addr,[bytes]],..]   outer memory bytes written directly before the call (program
//                                              blobs, invoke buffers: the guest's own stores),
//                  "gas":n                     optional: outer gas set before the call}, ..]}
// All calls of a case act on ONE RefineArgs (machine map) and one outer memory, as one refine invocation does.
// One trace record per call: the complete projected state before and after it; when the guest stored bytes
// before the call (`set`), also the state before those stores (`pre0`).

import (
	"sort"
	"testing"

	"github.com/New-JAMneration/JAM-Protocol/internal/verifdrv/vfd"
)

type vfrMach struct {
	N    int     `json:"n"`
	Blob []int   `json:"blob"`
	Pc   []int   `json:"pc"`
	Acc  [][]any `json:"acc"`
	Data [][]int `json:"data"`
}

type vfrState struct {
	Exit    string    `json:"exit"`
	GoPanic string    `json:"gopanic"`
	Regs    [][]int   `json:"regs"`
	Gas     int       `json:"gas"`
	GasNeg  bool      `json:"gasneg"`
	Acc     [][]any   `json:"acc"`
	Data    [][]int   `json:"data"`
	M       []vfrMach `json:"m"`
}

func vfrSnapMem(m *Memory) (acc [][]any, data [][]int) {
	acc, data = [][]any{}, [][]int{}
	if m == nil || m.Pages == nil {
		return
	}
	keys := make([]int, 0, len(m.Pages))
	for k := range m.Pages {
		keys = append(keys, int(k))
	}
	sort.Ints(keys)
	for _, k := range keys {
		p := m.Pages[uint32(k)]
		if p == nil {
			acc = append(acc, []any{k, "nil"})
			continue
		}
		a := "N"
		if p.Access == MemoryReadOnly {
			a = "R"
		} else if p.Access == MemoryReadWrite {
			a = "W"
		}
		acc = append(acc, []any{k, a})
		for off, b := range p.Value {
			if b != 0 {
				data = append(data, []int{k, off, int(b)})
			}
		}
	}
	return
}

func vfrRegs(r *Registers) [][]int {
	out := make([][]int, 13)
	for i := range r {
		out[i] = vfd.U64LE(r[i])
	}
	return out
}

func vfrSnap(regs *Registers, gas Gas, outer *Memory, mm IntegratedPVMMap) vfrState {
	var s vfrState
	s.Regs = vfrRegs(regs)
	if gas < 0 {
		s.GasNeg = true
	} else if gas > 1<<30 {
		s.Gas = 1 << 30
	} else {
		s.Gas = int(gas)
	}
	s.Acc, s.Data = vfrSnapMem(outer)
	ids := make([]uint64, 0, len(mm))
	for k := range mm {
		ids = append(ids, k)
	}
	sort.Slice(ids, func(i, j int) bool { return ids[i] < ids[j] })
	s.M = []vfrMach{}
	for _, k := range ids {
		v := mm[k]
		mem := v.Memory
		x := vfrMach{N: int(k & 0x3fffffff), Blob: vfd.B([]byte(v.ProgramCode)), Pc: vfd.U64LE(uint64(v.PC))}
		if k > 0x3fffffff {
			x.N = -1
		}
		x.Acc, x.Data = vfrSnapMem(&mem)
		s.M = append(s.M, x)
	}
	return s
}

var vfrOps = map[string]OperationType{"machine": MachineOp, "peek": PeekOp, "poke": PokeOp, "pages": PagesOp, "invoke": InvokeOp, "expunge": ExpungeOp}

// the outer program of the refine invocation: 40 fallthrough instructions, every byte an instruction start
// (its bitmask differs from every inner program's, so a resume point computed from it is visible)
func vfrOuterProgram() *Program {
	blob := []byte{0, 0, 40}
	for i := 0; i < 40; i++ {
		blob = append(blob, 1)
	}
	blob = append(blob, 0xff, 0xff, 0xff, 0xff, 0xff)
	p, er := DeBlobProgramCode(blob)
	if er != ExitContinue {
		panic("driver: outer program refused")
	}
	return &p
}

func vfrExit(e ExitReason) string {
	switch e.GetReasonType() {
	case CONTINUE:
		return "continue"
	case PANIC:
		return "panic"
	case OUT_OF_GAS:
		return "oog"
	case HALT:
		return "halt"
	case PAGE_FAULT:
		return "fault"
	case HOST_CALL:
		return "host"
	}
	return "unknown"
}

func vfrRunCase(c map[string]any, defs map[string]map[string]any, out *vfd.Out) {
	var outerJ map[string]any
	if name, ok := c["outer"].(string); ok {
		outerJ = defs[name] // a shared initial outer memory defined by an earlier {"def":name,"outer":{..}} line
	} else {
		outerJ = c["outer"].(map[string]any)
	}
	outer := &Memory{Pages: map[uint32]*Page{}}
	for _, a := range outerJ["acc"].([]any) {
		pa := a.([]any)
		acc := MemoryReadOnly
		if vfd.S(pa[1]) == "W" {
			acc = MemoryReadWrite
		}
		outer.Pages[uint32(vfd.I(pa[0]))] = &Page{Value: make([]byte, ZP), Access: acc}
	}
	for _, d := range outerJ["data"].([]any) {
		t := d.([]any)
		if pg := outer.Pages[uint32(vfd.I(t[0]))]; pg != nil {
			pg.Value[vfd.I(t[1])] = byte(vfd.I(t[2]))
		}
	}
	var regs Registers
	if rj, ok := c["regs"].([]any); ok {
		for i, r := range rj {
			regs[i] = vfd.FromU64LE(r)
		}
	}
	gas := Gas(vfd.I(c["gas"]))
	add := HostCallArgs{RefineArgs: RefineArgs{IntegratedPVMMap: IntegratedPVMMap{}}, Program: vfrOuterProgram()}
	for seq, oj := range c["ops"].([]any) {
		op := oj.(map[string]any)
		var pre0 *vfrState // the state before the guest's own stores, recorded when there are any
		if sets, ok := op["set"].([]any); ok && len(sets) > 0 {
			st0 := vfrSnap(&regs, gas, outer, add.IntegratedPVMMap)
			pre0 = &st0
		}
		if sets, ok := op["set"].([]any); ok {
			for _, sj := range sets {
				s := sj.([]any)
				addr := vfd.I(s[0])
				for i, b := range vfd.Bytes(s[1]) {
					a := addr + i
					if pg := outer.Pages[uint32(a/ZP)]; pg != nil {
						pg.Value[a%ZP] = b
					}
				}
			}
		}
		if g, ok := op["gas"]; ok {
			gas = Gas(vfd.I(g))
		}
		for i, r := range op["w"].([]any) {
			regs[7+i] = vfd.FromU64LE(r)
		}
		call := vfd.S(op["call"])
		pre := vfrSnap(&regs, gas, outer, add.IntegratedPVMMap)
		var res OmegaOutput
		in := OmegaInput{Operation: vfrOps[call], VM: &VMState{Registers: &regs, Memory: outer, Gas: &gas}, Addition: add, HostCalls: RefineOmegas}
		panicked, msg := vfd.Guard(func() { res = RefineOmegas[vfrOps[call]](in) })
		var post vfrState
		if panicked {
			post = vfrSnap(&regs, gas, outer, add.IntegratedPVMMap)
			post.Exit, post.GoPanic = "gopanic", msg
		} else {
			add = res.Addition
			post = vfrSnap(&regs, gas, outer, add.IntegratedPVMMap)
			post.Exit = vfrExit(res.ExitReason)
		}
		rec := map[string]any{"id": c["id"], "tag": c["tag"], "seq": seq, "call": call, "pre": pre, "post": post}
		if pre0 != nil { // stores of the OUTER machine: they must change the outer bytes written and nothing else
			rec["pre0"], rec["set"] = *pre0, op["set"]
		}
		out.Emit(rec)
		if post.Exit != "continue" {
			return // the outer invocation is over
		}
	}
}

// ---- end-to-end: the same calls issued by a real outer program through Psi_M
//
// case: {"id","tag","e2e":true,"ro":[bytes of the read-only segment],"rw":[bytes of the read-write segment],
//        "log":address of the result log inside the read-write segment,
//        "ops":[{"call","w":[[8]x6],"set":[[addr,[bytes, a multiple of 8]],..]},..]}
// The program: for every op the guest's stores (`set`), omega7..12 := w, ecalli, then omega7 and omega8 are stored
// to the log; at the end it halts returning the log.  Entry point 0, gas 10^6, RefineOmegas, an empty machine map.

type vfrAsm struct {
	code []byte
	mask []byte
}

func (a *vfrAsm) ins(b ...byte) {
	a.code = append(a.code, b...)
	a.mask = append(a.mask, 1)
	for i := 1; i < len(b); i++ {
		a.mask = append(a.mask, 0)
	}
}

func (a *vfrAsm) loadImm64(reg int, v uint64) {
	b := []byte{20, byte(reg)}
	for i := 0; i < 8; i++ {
		b = append(b, byte(v>>(8*i)))
	}
	a.ins(b...)
}

// store_u64 [addr] := reg
func (a *vfrAsm) storeU64(reg int, addr uint32) {
	a.ins(62, byte(reg), byte(addr), byte(addr>>8), byte(addr>>16), byte(addr>>24))
}

func vfrNat(x int) []byte {
	if x < 128 {
		return []byte{byte(x)}
	}
	if x < 1<<14 {
		return []byte{byte(0x80 | (x >> 8)), byte(x)}
	}
	if x < 1<<21 {
		return []byte{byte(0xc0 | (x >> 16)), byte(x), byte(x >> 8)}
	}
	panic("driver: program too long")
}

func vfrStdBlob(a *vfrAsm, ro, rw []byte) []byte {
	inner := []byte{0, 0}
	inner = append(inner, vfrNat(len(a.code))...)
	inner = append(inner, a.code...)
	k := make([]byte, (len(a.code)+7)/8)
	for i, m := range a.mask {
		if m == 1 {
			k[i/8] |= 1 << (i % 8)
		}
	}
	inner = append(inner, k...)
	o, w := len(ro), len(rw)
	out := []byte{byte(o), byte(o >> 8), byte(o >> 16), byte(w), byte(w >> 8), byte(w >> 16), 0, 0, 0, 0, 0}
	out = append(out, ro...)
	out = append(out, rw...)
	out = append(out, byte(len(inner)), byte(len(inner)>>8), byte(len(inner)>>16), byte(len(inner)>>24))
	return append(out, inner...)
}

func vfrRunE2E(c map[string]any, out *vfd.Out) {
	ro, rw := vfd.Bytes(c["ro"]), vfd.Bytes(c["rw"])
	logAt := uint32(vfd.I(c["log"]))
	ops := c["ops"].([]any)
	a := &vfrAsm{}
	for i, oj := range ops {
		op := oj.(map[string]any)
		if sets, ok := op["set"].([]any); ok {
			for _, sj := range sets {
				st := sj.([]any)
				addr, bs := uint32(vfd.I(st[0])), vfd.Bytes(st[1])
				for j := 0; j+8 <= len(bs); j += 8 {
					var v uint64
					for b := 0; b < 8; b++ {
						v |= uint64(bs[j+b]) << (8 * b)
					}
					a.loadImm64(5, v)
					a.storeU64(5, addr+uint32(j))
				}
			}
		}
		for r, w := range op["w"].([]any) {
			a.loadImm64(7+r, vfd.FromU64LE(w))
		}
		a.ins(10, byte(vfrOps[vfd.S(op["call"])]))
		a.storeU64(7, logAt+uint32(16*i))
		a.storeU64(8, logAt+uint32(16*i)+8)
	}
	a.loadImm64(7, uint64(logAt))
	a.loadImm64(8, uint64(16*len(ops)))
	a.ins(50, 0) // jump_ind r0 + 0: halt
	blob := vfrStdBlob(a, ro, rw)
	// the memory the program starts with, as the node builds it
	image := map[string]any{"acc": [][]any{}, "data": [][]int{}}
	if _, _, mem, er := SingleInitializer(StandardCodeFormat(append([]byte(nil), blob...)), Argument{}); er == ExitContinue {
		acc, data := vfrSnapMem(&mem)
		image = map[string]any{"acc": acc, "data": data}
	}
	res := map[string]any{"kind": "none", "out": []int{}, "m": []vfrMach{}, "used": 0}
	var r Psi_M_ReturnType
	panicked, msg := vfd.Guard(func() {
		r = Psi_M(StandardCodeFormat(blob), 0, 1000000, Argument{}, RefineOmegas, HostCallArgs{RefineArgs: RefineArgs{IntegratedPVMMap: IntegratedPVMMap{}}})
	})
	if panicked {
		res["kind"], res["gopanic"] = "gopanic", msg
	} else {
		switch v := r.ReasonOrBytes.(type) {
		case []byte:
			res["kind"], res["out"] = "halt", vfd.B(v)
		case nil:
			res["kind"] = "halt"
		case ExitReasonType:
			if v == OUT_OF_GAS {
				res["kind"] = "oog"
			} else {
				res["kind"] = "panic"
			}
		default:
			res["kind"] = "panic"
		}
		var regs Registers
		st := vfrSnap(&regs, 0, nil, r.Addition.IntegratedPVMMap)
		res["m"] = st.M
		res["used"] = int(min(uint64(r.Gas), 1<<30))
	}
	out.Emit(map[string]any{"k": "e2e", "id": c["id"], "tag": c["tag"], "log": int(logAt), "ops": ops, "image": image, "res": res})
}

func TestRefine(t *testing.T) {
	cases := vfd.ReadCases(vfd.Env("VF_CASES", "cases.ndjson"))
	out := vfd.NewOut(vfd.Env("VF_OUT", "trace.ndjson"))
	defer out.Close()
	defs := map[string]map[string]any{}
	for _, c := range cases {
		if name, ok := c["def"].(string); ok {
			defs[name] = c["outer"].(map[string]any)
			continue
		}
		if e, ok := c["e2e"].(bool); ok && e {
			vfrRunE2E(c, out)
			continue
		}
		vfrRunCase(c, defs, out)
	}
}

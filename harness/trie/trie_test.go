package trie

// X-step drivers for C15 (state trie root vs the specification's hash term) and C16 (root through
// the per-key leaf cache vs root from scratch).

import (
	"testing"

	"github.com/New-JAMneration/JAM-Protocol/internal/blockchain"
	"github.com/New-JAMneration/JAM-Protocol/internal/types"
	"github.com/New-JAMneration/JAM-Protocol/internal/utilities/merklization"
	"github.com/New-JAMneration/JAM-Protocol/internal/verifdrv/vfd"
)

func kvs(v any) types.StateKeyVals {
	var out types.StateKeyVals
	for _, raw := range v.([]any) {
		m := raw.(map[string]any)
		var k types.StateKey
		copy(k[:], vfd.Bytes(m["k"]))
		out = append(out, types.StateKeyVal{Key: k, Value: types.ByteSequence(vfd.Bytes(m["v"]))})
	}
	return out
}

func permute(r *vfd.Rng, in types.StateKeyVals) types.StateKeyVals {
	out := make(types.StateKeyVals, len(in))
	copy(out, in)
	for i := len(out) - 1; i > 0; i-- {
		j := r.N(i + 1)
		out[i], out[j] = out[j], out[i]
	}
	return out
}

// TestTrie: cases {id, entries, want(term)}.
func TestTrie(t *testing.T) {
	cases := vfd.ReadCases(vfd.Env("VF_CASES", "cases.ndjson"))
	out := vfd.NewOut(vfd.Env("VF_OUT", "trace.ndjson"))
	defer out.Close()
	r := vfd.NewRng(uint64(vfd.EnvInt("VF_SEED", 1)))
	for _, c := range cases {
		entries := kvs(c["entries"])
		want := vfd.EvalTerm(c["want"])
		got := [][]int{}
		rec := map[string]any{"id": vfd.I(c["id"]), "n": len(entries), "want": vfd.B(want), "entries": c["entries"]}
		p, msg := vfd.Guard(func() {
			root := merklization.MerklizationSerializedState(entries)
			got = append(got, vfd.B(root[:]))
			rev := make(types.StateKeyVals, len(entries))
			for i := range entries {
				rev[len(entries)-1-i] = entries[i]
			}
			root = merklization.MerklizationSerializedState(rev)
			got = append(got, vfd.B(root[:]))
			for i := 0; i < 3; i++ {
				root = merklization.MerklizationSerializedState(permute(r, entries))
				got = append(got, vfd.B(root[:]))
			}
			root = merklization.MerklizationSerializedStateWithCache(permute(r, entries), nil)
			got = append(got, vfd.B(root[:]))
		})
		if p {
			rec["panic"] = msg
			got = append(got, []int{})
		}
		rec["got"] = got
		out.Emit(rec)
	}
}

// TestCache: cases {script:[{ev:Clear}|{ev:Compute,entries}|{ev:Reset}]}; MaxKeyLevelCacheSize = VF_CAP.
func TestCache(t *testing.T) {
	cases := vfd.ReadCases(vfd.Env("VF_CASES", "cases.ndjson"))
	out := vfd.NewOut(vfd.Env("VF_OUT", "trace.ndjson"))
	defer out.Close()
	types.MaxKeyLevelCacheSize = vfd.EnvInt("VF_CAP", 2)
	r := vfd.NewRng(uint64(vfd.EnvInt("VF_SEED", 1)))
	for _, c := range cases {
		blockchain.ResetInstance()
		cs := blockchain.GetInstance()
		out.Emit(map[string]any{"ev": "Reset"})
		// a caller that re-encodes a value of unchanged length into the buffer it handed over before:
		// the entries of one history share one backing array per key while the length stays the same
		bufs := map[types.StateKey][]byte{}
		for _, raw := range c["script"].([]any) {
			ev := raw.(map[string]any)
			switch vfd.S(ev["ev"]) {
			case "Reset":
				blockchain.ResetInstance()
				cs = blockchain.GetInstance()
				out.Emit(map[string]any{"ev": "Reset"})
			case "Clear":
				cs.ClearKeyLevelCache()
				out.Emit(map[string]any{"ev": "Clear"})
			case "Compute":
				entries := kvs(ev["entries"])
				for i := range entries {
					if b, ok := bufs[entries[i].Key]; ok && len(b) == len(entries[i].Value) {
						copy(b, entries[i].Value)
						entries[i].Value = b
					} else {
						bufs[entries[i].Key] = entries[i].Value
					}
				}
				rec := map[string]any{"ev": "Compute", "entries": ev["entries"]}
				p, msg := vfd.Guard(func() {
					cached := cs.ComputeStateRootWithCache(permute(r, entries))
					uncached := merklization.MerklizationSerializedState(permute(r, entries))
					rec["cached"], rec["uncached"] = vfd.B(cached[:]), vfd.B(uncached[:])
				})
				if p {
					rec["panic"] = msg
					rec["cached"], rec["uncached"] = []int{}, []int{0}
				}
				out.Emit(rec)
			}
		}
	}
}

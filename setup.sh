#!/bin/bash
# Run once after a fresh restore, offline: parse every spec, warm the Go build cache.
set -e
cd "$(dirname "$0")"
python3 - <<'PY'
import sys
sys.path.insert(0, "lib")
import vf
mods, bad = vf.sany_all()
print("SANY: %d modules, %d with errors" % (len(mods), len(bad)))
for fn, out in bad:
    print("----", fn); print(out)
sys.exit(1 if bad else 0)
PY
. tools/goenv.sh
( cd /repo && go build ./internal/types/... ./internal/utilities/... ./PVM/... >/dev/null 2>&1 || true )
echo "setup ok"

"""Shared machinery for /verif checks (DESIGN.md sections 3 and 4).

Pipelines:  MC  = tlc(...) on a model config
            G   = tlc(...) on a *_Gen module that writes cases with ndJsonSerialize
            X   = build_driver(...) + run_driver(...)  (Go test binary built from /repo's live tree)
            V   = validate_trace(...)  (TLC judges the recorded ndjson trace, sharded)
Exit codes: 0 held / only known findings, 1 violation, 2 infrastructure problem.
"""
import concurrent.futures as cf
import hashlib
import json
import os
import re
import shutil
import subprocess
import sys
import tempfile
import time

VERIF = os.path.dirname(os.path.dirname(os.path.abspath(__file__)))
REPO = os.environ.get("VERIF_REPO", "/repo")
SPEC = os.path.join(VERIF, "spec")
HARNESS = os.path.join(VERIF, "harness")
TLA_CP = "/opt/veriftools/tla/tla2tools.jar:/opt/veriftools/tla/CommunityModules-deps.jar"
GO125 = "/root/go/pkg/mod/golang.org/toolchain@v0.0.1-go1.25.5.linux-amd64/bin"
MODULE = "github.com/New-JAMneration/JAM-Protocol"


class Infra(Exception):
    """Infrastructure failure: exit 2, never a violation."""


def log(*a):
    print(*a, flush=True)


# --------------------------------------------------------------------------- context

class Ctx:
    def __init__(self, pid, tier, seed, replay=None):
        self.pid, self.tier, self.seed, self.replay = pid, tier, int(seed), replay
        self.t0 = time.time()
        self.tmp = tempfile.mkdtemp(prefix="vf-%s-" % pid)
        self.cov = {"states": 0, "transitions": 0, "traces_validated_against_impl": 0,
                    "evaluations": 0, "distinct_nontrivial": 0, "samples": [], "rule": "",
                    "actions": {}, "mc_runs": []}
        self.assumptions = []
        self.violations = []      # list of (what, replay_path)
        self.known = {}           # slug -> count
        self.level = "model_checking"
        self.kf = load_known_findings()
        self.quick = tier == "quick"

    def sub(self, name):
        d = os.path.join(self.tmp, name)
        os.makedirs(d, exist_ok=True)
        return d

    def known_slugs(self):
        return sorted(e["slug"] for e in self.kf if e.get("property") == self.pid and e.get("status") == "open")

    def cleanup(self):
        shutil.rmtree(self.tmp, ignore_errors=True)

    # ---- verdict bookkeeping
    def violation(self, what, lines):
        d = os.path.join(VERIF, "replays", self.pid)
        os.makedirs(d, exist_ok=True)
        h = hashlib.sha1(("\n".join(lines)).encode()).hexdigest()[:12]
        p = os.path.join(d, "%s-%s.ndjson" % (self.tier, h))
        with open(p, "w") as f:
            for ln in lines:
                f.write(ln.rstrip("\n") + "\n")
        self.violations.append((what, p))
        return p

    def finish(self):
        wall = time.time() - self.t0
        cov = dict(self.cov)
        cov["samples"] = cov["samples"][:5] or ["(none)"]
        if self.level == "model_checking":
            cov["states"] = max(cov["states"], 1)
            cov["transitions"] = max(cov["transitions"], 1)
        cov["known_findings_seen"] = self.known
        ev = {"property_id": self.pid, "tier": self.tier, "seed": self.seed, "level": self.level,
              "coverage": cov, "assumptions": self.assumptions, "wall_s": round(wall, 2),
              "violations": len(self.violations)}
        os.makedirs(os.path.join(VERIF, "evidence"), exist_ok=True)
        with open(os.path.join(VERIF, "evidence", self.pid + ".json"), "w") as f:
            json.dump(ev, f, indent=1, sort_keys=True)
            f.write("\n")
        by_slug = {e["slug"]: e for e in self.kf}
        for slug, n in sorted(self.known.items()):
            e = by_slug.get(slug, {})
            log("KNOWN-FINDING: property=%s %s [%s] (%d cases this run)" % (self.pid, e.get("what", slug), slug, n))
        for what, p in self.violations[:20]:
            log("VIOLATION property=%s replay=%s  -- %s" % (self.pid, p, what))
        log("%s %s seed=%d: %s in %.1fs (states=%d evals=%d traces=%d)" % (
            self.pid, self.tier, self.seed, "VIOLATED" if self.violations else "held", wall,
            cov["states"], cov["evaluations"], cov["traces_validated_against_impl"]))
        self.cleanup()
        return 1 if self.violations else 0


def load_known_findings():
    p = os.path.join(VERIF, "known_findings.json")
    out = []
    if os.path.exists(p):
        out = list(json.load(open(p)).get("findings", []))
    # builders park entries here until the coordinator folds them into known_findings.json
    pd = os.path.join(VERIF, "pending")
    if os.path.isdir(pd):
        for fn in sorted(os.listdir(pd)):
            if fn.endswith(".findings.json"):
                try:
                    j = json.load(open(os.path.join(pd, fn)))
                    out += j if isinstance(j, list) else j.get("findings", [])
                except Exception:
                    pass
    return out


# --------------------------------------------------------------------------- Go side

def go_env():
    env = dict(os.environ)
    env["GOFLAGS"] = "-mod=mod"
    env["GOPROXY"] = "off"
    env.pop("GOSUMDB", None)
    env.pop("GOTOOLCHAIN", None)
    if os.path.exists(os.path.join(GO125, "go")):
        env["PATH"] = GO125 + ":" + env["PATH"]
        env["GOTOOLCHAIN"] = "local"
    env.setdefault("GOCACHE", os.path.expanduser("~/.cache/go-build"))
    return env


def _walk(d):
    for root, _, files in os.walk(d):
        for fn in files:
            yield os.path.join(root, fn)


def overlay_map(extra):
    """extra: {repo-relative path -> absolute harness path}.  Stand-ins are always included."""
    m = {}
    vrf_dir = os.path.join(HARNESS, "standin", "vrf")
    for p in _walk(vrf_dir):
        m[os.path.join(REPO, "pkg/Rust-VRF/vrf-func-ffi/src", os.path.relpath(p, vrf_dir))] = p
    m[os.path.join(REPO, "pkg/erasure_coding/erasure_coding.go")] = os.path.join(HARNESS, "standin/erasure/erasure_coding.go")
    for rel, src in extra.items():
        m[os.path.join(REPO, rel)] = src
    return m


def build_driver(ctx, name, pkg, files, tags="verif", race=False):
    """Build `go test -c` of repo package `pkg` (e.g. ./internal/verifdrv/kv) with harness files
    overlaid.  files: {repo-relative path -> path under /verif/harness}.  Returns binary path."""
    extra = {rel: (src if os.path.isabs(src) else os.path.join(HARNESS, src)) for rel, src in files.items()}
    for src in extra.values():
        if not os.path.exists(src):
            raise Infra("missing harness file " + src)
    ov = os.path.join(ctx.tmp, "overlay-%s.json" % name)
    json.dump({"Replace": overlay_map(extra)}, open(ov, "w"))
    out = os.path.join(ctx.tmp, name + ".test")
    cmd = ["go", "test", "-c", "-vet=off", "-overlay", ov, "-o", out]
    if tags:
        cmd += ["-tags", tags]
    if race:
        cmd += ["-race"]
    cmd += [pkg]
    t = time.time()
    r = subprocess.run(cmd, cwd=REPO, env=go_env(), capture_output=True, text=True, timeout=1500)
    if r.returncode != 0 or not os.path.exists(out):
        raise Infra("driver build failed (%s):\n%s\n%s" % (" ".join(cmd), r.stdout[-4000:], r.stderr[-4000:]))
    log("  built driver %s in %.1fs" % (name, time.time() - t))
    return out


def run_driver(ctx, binary, testname, env=None, timeout=1200, cwd=None, allow_fail=False):
    """Run one Test function of the driver binary; env carries VF_* parameters."""
    e = go_env()
    e.setdefault("JAM_FUZZ", "1")     # in-memory repositories only (internal/fuzzenv)
    e.update({k: str(v) for k, v in (env or {}).items()})
    cmd = [binary, "-test.run", "^%s$" % testname, "-test.v", "-test.timeout", "%ds" % timeout]
    try:
        t = time.time()
        r = subprocess.run(cmd, cwd=cwd or ctx.tmp, env=e, capture_output=True, text=True, errors="replace", timeout=timeout + 30)
        log("  X %s: driver ran in %.1fs" % (testname, time.time() - t))
    except subprocess.TimeoutExpired:
        raise Infra("driver %s timed out after %ds" % (testname, timeout))
    if r.returncode != 0 and not allow_fail:
        raise Infra("driver %s failed rc=%d:\n%s\n%s" % (testname, r.returncode, r.stdout[-6000:], r.stderr[-3000:]))
    return r


# --------------------------------------------------------------------------- TLC side

def stage_specs(dst, subdirs=None):
    """Copy every .tla under /verif/spec (flattened) into dst."""
    for root, _, files in os.walk(SPEC):
        for fn in files:
            if fn.endswith(".tla"):
                shutil.copy(os.path.join(root, fn), os.path.join(dst, fn))


def cfg_text(constants=None, spec="Spec", init=None, next_=None, invariants=(), properties=(),
             constraint=None, view=None, postcondition=None, deadlock=False, symmetry=None, raw=""):
    out = []
    if spec and not init:
        out.append("SPECIFICATION %s" % spec)
    if init:
        out.append("INIT %s\nNEXT %s" % (init, next_))
    if constants:
        out.append("CONSTANTS")
        for k, v in constants.items():
            out.append("  %s = %s" % (k, v))
    for i in invariants:
        out.append("INVARIANT %s" % i)
    for p in properties:
        out.append("PROPERTY %s" % p)
    if constraint:
        out.append("CONSTRAINT %s" % constraint)
    if view:
        out.append("VIEW %s" % view)
    if symmetry:
        out.append("SYMMETRY %s" % symmetry)
    if postcondition:
        out.append("POSTCONDITION %s" % postcondition)
    out.append("CHECK_DEADLOCK %s" % ("TRUE" if deadlock else "FALSE"))
    if raw:
        out.append(raw)
    return "\n".join(out) + "\n"


def tla_set(strs):
    return "{" + ", ".join('"%s"' % s for s in strs) + "}"


class TLCResult:
    def __init__(self, rc, out, wall):
        self.rc, self.out, self.wall = rc, out, wall
        m = re.findall(r"(\d+) states generated, (\d+) distinct states found", out)
        self.generated = int(m[-1][0]) if m else 0
        self.distinct = int(m[-1][1]) if m else 0
        m = re.search(r"The depth of the complete state graph search is (\d+)", out)
        self.depth = int(m.group(1)) if m else 0
        self.ok = rc == 0 and "Model checking completed. No error has been found" in out
        self.inv_violated = re.findall(r"Invariant (\S+) is violated", out)
        self.prop_violated = "Temporal properties were violated" in out or bool(
            re.findall(r"Action property (\S+) is violated", out))
        self.coverage = {}
        for m in re.finditer(r"<(\w+) line \d+, col \d+ to line \d+, col \d+ of module (\w+)>: (\d+):(\d+)", out):
            self.coverage[m.group(1)] = self.coverage.get(m.group(1), 0) + int(m.group(4))

    def tail(self, n=60):
        return "\n".join(self.out.splitlines()[-n:])


def tlc(ctx, workdir, module, cfg, workers=4, timeout=600, heap="4g", extra=(), coverage=False, dfs=False, stack="512m"):
    """Run TLC on `module` in workdir (specs must be staged there); cfg is text."""
    cfgp = os.path.join(workdir, module + ("_%d" % (abs(hash(cfg)) % 10**8)) + ".cfg")
    with open(cfgp, "w") as f:
        f.write(cfg)
    meta = tempfile.mkdtemp(prefix="meta-", dir=workdir)
    cmd = ["timeout", str(timeout), "java", "-XX:+UseParallelGC", "-Xmx" + heap, "-Xss" + stack]
    if dfs:
        cmd.append("-Dtlc2.tool.queue.IStateQueue=StateDeque")
    cmd += ["-cp", TLA_CP, "tlc2.TLC", "-metadir", meta, "-workers", str(workers), "-config", cfgp]
    if coverage:
        cmd += ["-coverage", "1"]
    cmd += list(extra) + [module]
    t = time.time()
    r = subprocess.run(cmd, cwd=workdir, capture_output=True, text=True)
    shutil.rmtree(meta, ignore_errors=True)
    res = TLCResult(r.returncode, r.stdout + r.stderr, time.time() - t)
    if r.returncode == 124:
        raise Infra("TLC timeout (%ds) on %s" % (timeout, module))
    return res


def sany_all():
    d = tempfile.mkdtemp(prefix="sany-")
    try:
        stage_specs(d)
        bad = []
        mods = sorted(f for f in os.listdir(d) if f.endswith(".tla"))

        def one(fn):
            r = subprocess.run(["java", "-cp", TLA_CP, "tla2sany.SANY", fn], cwd=d, capture_output=True, text=True)
            okk = r.returncode == 0 and "Semantic errors" not in r.stdout and "***Parse Error***" not in r.stdout and "Fatal errors" not in r.stdout
            return fn, okk, r.stdout[-1500:]
        with cf.ThreadPoolExecutor(8) as ex:
            for fn, okk, out in ex.map(one, mods):
                if not okk:
                    bad.append((fn, out))
        return mods, bad
    finally:
        shutil.rmtree(d, ignore_errors=True)


def mc(ctx, module, cfg, workers=8, timeout=900, heap="8g", coverage=False, expect_ok=True, label=None):
    """Model-check a design module; accumulate states/transitions into the evidence."""
    wd = ctx.sub("mc-" + (label or module))
    stage_specs(wd)
    res = tlc(ctx, wd, module, cfg, workers=workers, timeout=timeout, heap=heap, coverage=coverage)
    ctx.cov["states"] += res.distinct
    ctx.cov["transitions"] += res.generated
    ctx.cov["mc_runs"].append({"module": module, "label": label or module, "distinct": res.distinct,
                               "generated": res.generated, "depth": res.depth, "wall_s": round(res.wall, 1),
                               "ok": res.ok})
    if coverage:
        for k, v in res.coverage.items():
            ctx.cov["actions"][k] = ctx.cov["actions"].get(k, 0) + v
    if expect_ok and not res.ok:
        # A counterexample in the model alone is not a verdict on the code (DESIGN 4.1).
        raise Infra("model check of %s did not complete cleanly:\n%s" % (module, res.tail(80)))
    log("  MC %s: %d distinct / %d generated states, depth %d, %.1fs" % (label or module, res.distinct, res.generated, res.depth, res.wall))
    return res


def gen_cases(ctx, module, constants, outfile="cases.ndjson", timeout=600, heap="4g", raw="", tag=""):
    """Run a *_Gen module whose ASSUME writes `OutFile` with ndJsonSerialize; returns list of cases."""
    wd = ctx.sub("gen-" + module + tag)
    stage_specs(wd)
    outp = os.path.join(wd, outfile)
    c = dict(constants)
    c["OutFile"] = '"%s"' % outp
    cfg = cfg_text(constants=c, spec=None, init="GenInit", next_="GenNext", raw=raw)
    res = tlc(ctx, wd, module, cfg, workers=1, timeout=timeout, heap=heap)
    if not os.path.exists(outp):
        raise Infra("generator %s wrote nothing:\n%s" % (module, res.tail(60)))
    log("  G %s: cases written in %.1fs" % (module, res.wall))
    return outp


def _validate_shard(args):
    (wd, module, cfgtxt, idx, timeout, heap, dfs) = args
    cfgp = os.path.join(wd, "shard.cfg")
    open(cfgp, "w").write(cfgtxt)
    meta = os.path.join(wd, "meta")
    cmd = ["timeout", str(timeout), "java", "-XX:+UseParallelGC", "-Xmx" + heap, "-Xss512m"]
    if dfs:
        cmd.append("-Dtlc2.tool.queue.IStateQueue=StateDeque")
    cmd += ["-cp", TLA_CP, "tlc2.TLC", "-metadir", meta, "-workers", "1", "-config", cfgp, module]
    t = time.time()
    r = subprocess.run(cmd, cwd=wd, capture_output=True, text=True)
    return idx, r.returncode, r.stdout + r.stderr, time.time() - t


def validate_trace(ctx, module, lines, constants=None, shard=4000, timeout=900, heap="3g",
                   stateful=False, invariants=(), par=14, dfs=False, what="trace line rejected"):
    """V-step.  `lines`: list of ndjson strings (one trace record each).  The trace module must
    define Spec over variables including l, and an invariant `Report` that, at the end of the
    trace, JsonSerialize()s [n, devs, bad] to ResultFile.  For stateless (function-like) traces
    every line is judged independently and `bad` lists failing line numbers; for stateful traces
    the spec gets stuck at the first rejected line (no result file => prefix from state count).
    Stateful traces are sharded only at records with "ev":"Reset" boundaries by the caller."""
    if not lines:
        raise Infra("empty trace for " + module)
    shards = []
    if isinstance(lines[0], list):
        shards = lines
    else:
        shards = [lines[i:i + shard] for i in range(0, len(lines), shard)]
    jobs = []
    for i, sh in enumerate(shards):
        wd = ctx.sub("val-%s-%d" % (module, i))
        stage_specs(wd)
        tp = os.path.join(wd, "trace.ndjson")
        with open(tp, "w") as f:
            for ln in sh:
                f.write(ln.rstrip("\n") + "\n")
        c = {"TraceFile": '"%s"' % tp, "ResultFile": '"%s"' % os.path.join(wd, "result.json"),
             "KnownDeviations": tla_set(ctx.known_slugs())}
        c.update(constants or {})
        cfgtxt = cfg_text(constants=c, spec="TraceSpec", invariants=["Report"] + list(invariants))
        jobs.append((wd, module, cfgtxt, i, timeout, heap, dfs))
    bad_total = 0
    groups = {}
    t_val = time.time()
    with cf.ThreadPoolExecutor(max_workers=par) as ex:
        for idx, rc, out, wall in ex.map(_validate_shard, jobs):
            wd = jobs[idx][0]
            sh = shards[idx]
            res = TLCResult(rc, out, wall)
            ctx.cov["states"] += res.distinct
            ctx.cov["transitions"] += res.generated
            rp = os.path.join(wd, "result.json")
            if rc == 124:
                raise Infra("trace validation timeout on %s shard %d" % (module, idx))
            if res.inv_violated and res.inv_violated != ["Report"]:
                # a spec invariant failed on a state reached by the real code's trace
                pre = max(res.distinct - 1, 0)
                ctx.violation("%s: invariant %s violated after %d matched events" % (module, ",".join(res.inv_violated), pre), sh[:pre + 1])
                bad_total += 1
                continue
            if not os.path.exists(rp):
                if not res.ok:
                    if "Error:" in out and "Model checking completed" not in out:
                        raise Infra("TLC error validating %s shard %d:\n%s" % (module, idx, res.tail(50)))
                pre = max(res.distinct - 1, 0)
                if stateful and pre < len(sh):
                    ctx.violation("%s: %s at event %d: %s" % (module, what, pre + 1, sh[pre][:300]), sh[:pre + 1])
                    bad_total += 1
                    ctx.cov["traces_validated_against_impl"] += 1
                    continue
                raise Infra("no result from trace validation of %s shard %d:\n%s" % (module, idx, res.tail(50)))
            result = json.load(open(rp))
            if isinstance(result, list):
                result = result[0]
            n = result.get("n", 0)
            if n != len(sh):
                raise Infra("trace validation consumed %d of %d lines (%s shard %d)" % (n, len(sh), module, idx))
            for d in result.get("devs", []):
                slug = d["slug"] if isinstance(d, dict) else d
                ctx.known[slug] = ctx.known.get(slug, 0) + 1
            for b in result.get("bad", []):
                if isinstance(b, dict):
                    ln, why = sh[b["l"] - 1], b.get("why", "")
                    if "want" in b:       # the specification's expected result, kept with the replay line
                        try:
                            ln = json.dumps(dict(json.loads(ln), _want=b["want"]))
                        except Exception:
                            pass
                else:
                    ln, why = sh[b - 1], ""
                groups.setdefault(why, []).append(ln)
                bad_total += 1
            ctx.cov["traces_validated_against_impl"] += (1 if stateful else len(sh))
            shutil.rmtree(wd, ignore_errors=True)
    log("  V %s: %d events in %d shards validated in %.1fs" % (module, sum(len(x) for x in shards), len(shards), time.time() - t_val))
    for why, lns in sorted(groups.items()):
        ctx.violation("%s: %s [%s] x%d e.g. %s" % (module, what, why, len(lns), lns[0][:300]), lns[:50])
    return bad_total


# --------------------------------------------------------------------------- misc

def read_lines(p):
    with open(p) as f:
        return [ln for ln in f.read().splitlines() if ln.strip()]


def distinct_count(lines, key=None):
    s = set()
    for ln in lines:
        if key:
            s.add(json.dumps(key(json.loads(ln)), sort_keys=True))
        else:
            s.add(ln)
    return len(s)


class Rng:
    """xorshift64* — same algorithm as the Go drivers' PRNG so seeds mean the same everywhere."""
    def __init__(self, seed):
        self.s = (seed * 0x9E3779B97F4A7C15 + 0x1234567) & 0xFFFFFFFFFFFFFFFF or 1

    def u64(self):
        s = self.s
        s ^= (s >> 12)
        s ^= (s << 25) & 0xFFFFFFFFFFFFFFFF
        s ^= (s >> 27)
        self.s = s
        return (s * 0x2545F4914F6CDD1D) & 0xFFFFFFFFFFFFFFFF

    def n(self, k):
        return self.u64() % k if k > 0 else 0

    def pick(self, xs):
        return xs[self.n(len(xs))]

    def bytes(self, n):
        return [self.n(256) for _ in range(n)]


def main(run, pid):
    import argparse
    ap = argparse.ArgumentParser()
    ap.add_argument("--tier", default=os.environ.get("VERIF_TIER", "quick"))
    ap.add_argument("--replay")
    ap.add_argument("--selftest", action="store_true")
    a = ap.parse_args(sys.argv[2:] if len(sys.argv) > 1 and sys.argv[1] == pid else sys.argv[1:])
    seed = int(os.environ.get("VERIF_SEED", "1") or "1")
    ctx = Ctx(pid, a.tier, seed, a.replay)
    ctx.selftest = a.selftest
    try:
        run(ctx)
        rc = ctx.finish()
    except Infra as e:
        log("INFRA-ERROR %s: %s" % (pid, e))
        ctx.cleanup()
        rc = 2
    except Exception:
        import traceback
        traceback.print_exc()
        ctx.cleanup()
        rc = 2
    sys.exit(rc)
